/-
C01 — the data folder of one node WITH Raft terms and indexes (round 8c). `Model/C01Folder` is the INTENDED behaviour of the
offline tools (a folder has one "newest snapshot", the last one written). The code orders snapshots differently:
hashicorp's `FileSnapshotStore.List` sorts by Term, then Index, then ID (all descending), `latestSnapshot` opens `snapMetas[0]`,
and a start restores that snapshot and replays the log entries behind ITS index. What is modelled here, as the code does it:

* `snaps`: every snapshot of the folder as (term, index, content), most recently written first; `newest` = first of the
  (term, index) order, a tie going to the later written one. Retention (`RaftMaxSnapshots` = 5) reaps from the END of that
  order, so it never changes `newest` and is left out.
* `cur` = `CurrentTerm` of the stable store (raft.db), `idx` = last index of the log store, `log` = the LogPin/LogUnpin
  entries of the log store with their indexes (TrailingLogs is large: nothing is truncated by a snapshot).
* start: an empty folder (no term, no log, no snapshot) is bootstrapped (configuration entry in term 1) and the election moves to
  term 2; any other folder elects at `cur + 1`. The newest snapshot is restored and the log entries behind its index replayed.
  hashicorp/raft hands only COMMAND entries to the FSM goroutine, whose (lastTerm, lastIndex) label the next snapshot: a
  snapshot taken by a running node is labelled (`lterm`, `lidx`) = term and index of the last LogPin/LogUnpin entry applied
  (replayed ones included), or of the restored snapshot when there was none — NOT the current term (the leader's no-op
  entry does not count). Observed on the real code (`VERIF_FOLD_DEBUG=1`).
* `SnapshotSave`: over an existing newest snapshot (T, I, _) — `CleanupRaft` first (snapshots, log AND stable store moved to a
  backup: `cur`, `idx` restart at 0), then the new snapshot written under (T, I); without a snapshot — (1, 2), nothing cleaned.
* `CleanupRaft` / `Consensus.Clean` (refused while up): nothing left.
Core Lean only.
-/
import ClusterVerif.Model.C01Folder
namespace CV.C01.Folder

structure Snap where
  term : Nat
  idx : Nat
  st : List Nat
  deriving DecidableEq, Repr

inductive LOp where
  | pin (c : Nat)
  | unpin (c : Nat)
  deriving DecidableEq, Repr

def applyL (m : List Nat) : LOp → List Nat
  | .pin c => ins c m
  | .unpin c => del c m

structure TSt where
  up : Bool := false
  init : Bool := false
  live : List Nat := []
  snaps : List Snap := []          -- most recently written first
  cur : Nat := 0                   -- CurrentTerm (stable store)
  idx : Nat := 0                   -- last log index
  log : List (Nat × Nat × LOp) := []   -- op entries of the log store (index, term, op), newest first
  lterm : Nat := 0                 -- the FSM goroutine's lastTerm / lastIndex: last command applied or snapshot restored
  lidx : Nat := 0
  deriving DecidableEq, Repr

/-- `a` sorts at or before `b` in `FileSnapshotStore.List` when `a` was written later: term first, then index -/
def atLeast (a b : Snap) : Bool := b.term < a.term || (a.term == b.term && b.idx ≤ a.idx)

/-- `snapMetas[0]` -/
def newest : List Snap → Option Snap
  | [] => none
  | a :: rest =>
    match newest rest with
    | none => some a
    | some b => if atLeast a b then some a else some b

/-- the log entries behind index `i`, oldest first, applied to `m` -/
def suffixFrom (i : Nat) (log : List (Nat × Nat × LOp)) : List (Nat × Nat × LOp) := log.reverse.filter (fun e => i < e.1)

def replayFrom (i : Nat) (m : List Nat) (log : List (Nat × Nat × LOp)) : List Nat :=
  (suffixFrom i log).foldl (fun acc e => applyL acc e.2.2) m

def takeSnap (s : TSt) : TSt := if s.init then { s with snaps := ⟨s.lterm, s.lidx, s.live⟩ :: s.snaps } else s

def stepT (s : TSt) : Step → TSt × Res
  | .pin c =>
    if s.up then ({ s with live := ins c s.live
                           init := true
                           idx := s.idx + 1
                           log := (s.idx + 1, s.cur, LOp.pin c) :: s.log
                           lterm := s.cur
                           lidx := s.idx + 1 }, .ok)
    else (s, .noop)
  | .unpin c =>
    if s.up then ({ s with live := del c s.live
                           init := true
                           idx := s.idx + 1
                           log := (s.idx + 1, s.cur, LOp.unpin c) :: s.log
                           lterm := s.cur
                           lidx := s.idx + 1 }, .ok)
    else (s, .noop)
  | .snapshot => if s.up then (takeSnap s, .ok) else (s, .noop)
  | .shutdown => if s.up then ({ takeSnap s with up := false }, .ok) else (s, .noop)
  | .offline => (s, .ok)
  | .importSt m =>
    if s.up then (s, .noop) else
    match newest s.snaps with
    | some b => ({ s with snaps := [⟨b.term, b.idx, norm m⟩], cur := 0, idx := 0, log := [] }, .kept)
    | none => ({ s with snaps := [⟨1, 2, norm m⟩] }, .fresh)
  | .clean => if s.up then (s, .refused) else ({ s with snaps := [], cur := 0, idx := 0, log := [] }, .ok)
  | .restart =>
    if s.up then (s, .noop) else
    let fresh := s.cur == 0 && s.idx == 0 && s.snaps.isEmpty
    let base := match newest s.snaps with | some b => b.idx | none => 0
    let start := match newest s.snaps with | some b => b.st | none => []
    let bterm := match newest s.snaps with | some b => b.term | none => 0
    let last := (suffixFrom base s.log).getLast?
    ({ s with up := true
              live := replayFrom base start s.log
              init := (newest s.snaps).isSome || s.log.any (fun e => base < e.1)
              lterm := match last with | some e => e.2.1 | none => bterm
              lidx := match last with | some e => e.1 | none => base
              cur := if fresh then 2 else s.cur + 1
              idx := if fresh then 2 else max s.idx base + 1 }, .ok)

def visibleT (s : TSt) : List Nat :=
  if s.up then s.live else match newest s.snaps with | some b => b.st | none => []

def runTraceT : TSt → List Step → List Obs
  | _, [] => []
  | s, st :: rest => ⟨st, (stepT s st).2, visibleT (stepT s st).1⟩ :: runTraceT (stepT s st).1 rest

/-- how many clean shutdowns of the history wrote a snapshot that is NOT the folder's newest one (the model arm of K01e) -/
def staleShutdowns : TSt → List Step → Nat
  | _, [] => 0
  | s, st :: rest =>
    let s' := (stepT s st).1
    (if st == .shutdown && s.up && s.init && newest s'.snaps != some ⟨s.lterm, s.lidx, s.live⟩ then 1 else 0) + staleShutdowns s' rest

/-- the repair proposed for K01e: the import over an existing snapshot keeps only its place in the folder, not its term /
    index — written like the fresh arm (the folder IS fresh after `CleanupRaft`) -/
def stepTFixed (s : TSt) : Step → TSt × Res
  | .importSt m =>
    if s.up then (s, .noop) else
    match newest s.snaps with
    | some _ => ({ s with snaps := [⟨1, 2, norm m⟩], cur := 0, idx := 0, log := [] }, .kept)
    | none => ({ s with snaps := [⟨1, 2, norm m⟩] }, .fresh)
  | st => stepT s st

/- Round 8 final: the relation under which the term-aware folder refines the intended one (`Props/C01`:
   `term_model_refines_intended`). -/
/-- how many imports of the history took over the metadata (term, index) of an existing snapshot (`SnapshotSave`, `meta != nil`) -/
def keptImports : TSt → List Step → Nat
  | _, [] => 0
  | s, st :: rest => (if (stepT s st).2 == .kept then 1 else 0) + keptImports (stepT s st).1 rest

/-- (term, index) of `b` is at or below (`t`, `i`) in the order of `FileSnapshotStore.List` -/
def leTI (b : Snap) (t i : Nat) : Prop := b.term < t ∨ (t = b.term ∧ b.idx ≤ i)

/-- a running node: the FSM's (lastTerm, lastIndex) is at or above every snapshot and every log entry of the folder -/
def UpInv (t : TSt) : Prop :=
  t.lterm ≤ t.cur ∧ t.lidx ≤ t.idx ∧ (∀ e ∈ t.log, e.1 ≤ t.lidx) ∧
  (t.init = false → t.snaps = [] ∧ t.log = []) ∧ (∀ b ∈ t.snaps, leTI b t.lterm t.lidx)

/-- a stopped node: no log entry behind the newest snapshot, no log without a snapshot -/
def DownInv (t : TSt) : Prop :=
  (∀ b ∈ t.snaps, b.term ≤ t.cur + 1) ∧ (t.snaps = [] → t.log = []) ∧
  (∀ b, newest t.snaps = some b → ∀ e ∈ t.log, e.1 ≤ b.idx)

/-- the simulation relation between the term-aware folder and the intended one -/
def Sim (t : TSt) (s : St) : Prop :=
  t.up = s.up ∧ t.init = s.init ∧ t.live = s.live ∧ (newest t.snaps).map (·.st) = s.snap ∧
  (t.up = true → UpInv t) ∧ (t.up = false → DownInv t)

end CV.C01.Folder
