/-!
# C16 — the small language in which `harness/extract_c16` writes down what it reads

Core Lean only.  Two kinds of facts are regenerated from `ipfsconn/ipfshttp/ipfshttp.go`
on every run (into `Gen/C16.lean`):

* **decision tables** of the HTTP helpers (`doPostCtx`, `checkResponse`, `postCtx`): every
  path through the function body as the list of tests taken on it (on the status code, on
  the error results of the round trip / of reading the body / of decoding the error
  object) and what is returned at its end.  A statement, test or return expression the
  translator does not recognise is written as `unknown "<text>"`; the interpreter
  (`Model/C16Http.lean`) then answers `failClosed` and the theorems about the HTTP layer stop
  checking.
* **lookup sites**: every call of `PinLsCid` / `PinLs` inside the connector, with the pin that
  is passed, whether the error result is looked at, the `IsPinned(<depth>)` test applied to the
  status and what is done when it holds.
-/
namespace CV.C16.Dec

inductive Cmp | eq | ne | lt | le | gt | ge
  deriving DecidableEq, Repr

/-- where an `error` value (or the value next to it) came from -/
inductive Ev
  | newReqErr   -- http.NewRequest
  | doErr       -- the round trip: client.Do (directly or through doPostCtx)
  | readErr     -- ioutil.ReadAll(res.Body)
  | decodeErr   -- json.Unmarshal(body, &ipfsErr)
  | checkErr    -- checkResponse(path, res)
  deriving DecidableEq, Repr

inductive Cond
  | status (c : Cmp) (n : Nat)     -- res.StatusCode <c> n
  | isNil (e : Ev)                 -- err == nil
  | notNil (e : Ev)                -- err != nil
  | and (a b : Cond)
  | or (a b : Cond)
  | not (a : Cond)
  | unknown (text : String)
  deriving DecidableEq, Repr

/-- first result of a helper (`[]byte` or `*http.Response`) -/
inductive Val
  | nil
  | readBody     -- what ioutil.ReadAll(res.Body) gave
  | checkBody    -- first result of checkResponse
  | response     -- the *http.Response of the round trip
  | unknown (text : String)
  deriving DecidableEq, Repr

/-- second result (`error`) -/
inductive Er
  | nil
  | ev (e : Ev)        -- the error of that step, handed on unchanged
  | ipfsError          -- the decoded ipfsError object (path and code filled in)
  | generic            -- fmt.Errorf(…)
  | unknown (text : String)
  deriving DecidableEq, Repr

structure Path where
  conds : List Cond
  val : Val
  err : Er
  deriving DecidableEq, Repr

/-- a call of PinLsCid / PinLs inside the connector -/
structure LookupSite where
  fn : String          -- enclosing function
  callee : String      -- PinLsCid | PinLs
  arg : String         -- the pin (or filter) passed, as written
  argDef : String      -- how that pin was built, "" when it is the caller's own
  errUsed : Bool       -- the error result is bound and the function returns on it
  test : String        -- argument of the IsPinned(…) test applied to the status, "" if none
  onTrue : String      -- what is done when the test holds (first statement of the branch)
  deriving DecidableEq, Repr

/-- what a context carries -/
inductive Bound
  | timeout (field : String)    -- `context.WithTimeout(ctx, ipfs.config.<field>)`
  | watchdog (cond : String)    -- `context.WithCancel(ctx)` whose cancel function is called under <cond>
  | cancel                      -- `context.WithCancel(ctx)`, cancel only deferred
  | connector                   -- derived from the connector's lifetime context `ipfs.ctx`, not from the caller's
  | unknown (text : String)     -- not understood: the context may have been replaced
  deriving DecidableEq, Repr

/-- a call, inside the connector, of one of its methods that takes a context -/
structure CtxSite where
  fn : String            -- enclosing function
  callee : String        -- the method called
  endpoint : String      -- literal prefix of the endpoint (postCtx / doPostCtx calls), "" otherwise
  bounds : List Bound    -- in the order they were put on
  deriving DecidableEq, Repr

/-! ### round 8b: how every daemon request is built, and the small tables of api/types.go -/

/-- what fills a place of a request path -/
inductive QVal
  | lit (s : String)        -- literal text of the format string
  | var (expr : String)     -- a `%s` (or `+ e`) filled with this expression; local names and the parameters of
                            -- unexported helpers are resolved to what the exported method was given (`pin.Cid`, …)
  | unknown (text : String) -- a shape the translator does not read
  deriving DecidableEq, Repr

/-- `key=value` of the query; `key = ""` is a bare `%s` standing where whole pairs go (`pin/add?arg=%s&%s&…`) -/
structure QParam where
  key : String
  val : QVal
  deriving DecidableEq, Repr

/-- one request path built inside the connector -/
structure ReqSite where
  fn : String
  endpoint : String
  params : List QParam
  deriving DecidableEq, Repr

/-- guard of one arm of a `switch` over a depth / a type string -/
inductive Guard
  | cmp (c : Cmp) (n : Int)      -- `maxDepth <c> n`, or `case n:` of `switch pd` (eq)
  | hasPrefix (p : String)        -- `strings.HasPrefix(t, p)`
  | strEq (s : String)            -- `t == s`
  | name (const : String)         -- `case PinModeRecursive:` of `switch pm`
  | default
  | unknown (text : String)
  deriving DecidableEq, Repr

/-- value set by `q.Set(key, v)` in `pinArgs` -/
inductive ArgVal
  | lit (s : String)
  | depth                        -- `strconv.Itoa(int(maxDepth))`
  | unknown (text : String)
  deriving DecidableEq, Repr

/-- an arm of a `switch`: guard and what the arm yields (`pinArgs`: the `q.Set` calls; the others: the
returned constant / the status the receiver is compared with, as written) -/
structure Arm (α : Type) where
  guard : Guard
  out : α
  deriving DecidableEq, Repr

/-! ### round 8c: the statement order of `Pin` / `Unpin` -/

/-- one statement of `Connector.Pin` / `Connector.Unpin` as the conversation model interprets it
(tracing, logging, stats, context plumbing and request-path locals are left out by the translator) -/
inductive SeqStmt
  | lookup (arg : String) (keepErr : Bool)   -- `pinStatus, err|_ := ipfs.PinLsCid(ctx, arg)`
  | ifErrReturn (retErr : Bool)              -- `if err != nil { return err|nil }`
  | ifPinnedReturnNil (depth : String)       -- `if pinStatus.IsPinned(depth) { return nil }`
  | ifPinnedReturnUpdate (depth src dst : String)  -- `if pinStatus.IsPinned(depth) { return ipfs.pinUpdate(ctx, src, dst) }`
  | deferMetric                              -- `defer ipfs.updateInformerMetric(ctx)`
  | origins (cap : Nat)                      -- background swarm/connect to at most `cap` origins, errors ignored
  | ifSrc (n : Nat)                          -- `if from := pin.PinUpdate; from != cid.Undef {` the next n statements `}`
  | watchdog                                 -- the goroutine that cancels a request without progress
  | progress (cid depth : String)            -- `err = ipfs.pinProgress(ctx, cid, depth, outPins)`
  | returnNil
  | returnErr
  | ifDisabledReturnErr                      -- `if ipfs.config.UnpinDisable { return errors.New(…) }`
  | post (endpoint : String)                 -- `_, err := ipfs.postCtx(ctx, <path of endpoint>, "", nil)`
  | ifErrTolerate (texts : List String)      -- `if err != nil { return err unless it is an ipfsError with one of texts; return nil }`
  | unknown (text : String)
  deriving DecidableEq, Repr

end CV.C16.Dec
