/-
C03 — model of `Cluster.allocate` / `obtainAllocations` (allocate.go) with the
shipped allocators (ascendalloc / descendalloc over `util.SortNumeric`).

Core Lean only (the driver links this file).

What Go leaves open — the iteration order of the `currentValidMetrics` map and
the order `sort.Sort` (unstable) gives to peers with equal metric values — is
not fixed by the model: `allowed` is the relation "this output is one the code
may produce", and `allocate` is one deterministic resolution of the choices,
proved to be in the relation.
-/
namespace CV.C03

/-- What the monitor holds for a peer under the allocation metric's name. -/
inductive MState where
  | absent
  | valid (v : Nat)      -- valid, unexpired, value parses as uint64
  | expired
  | invalid
  | nonNumeric           -- valid, unexpired, value does not parse
  deriving DecidableEq, Repr

/-- `LatestMetrics` returns a metric for the peer (valid and unexpired). -/
def MState.healthy : MState → Bool
  | .valid _ => true
  | .nonNumeric => true
  | _ => false

/-- `SortNumeric` keeps the peer and this is its sort key. -/
def MState.numeric : MState → Option Nat
  | .valid v => some v
  | _ => none

structure Input where
  desc      : Bool                  -- descendalloc instead of ascendalloc
  rmin      : Int
  rmax      : Int
  peers     : List (Nat × MState)   -- one entry per peer known to the monitor
  current   : List Nat              -- currentPin.Allocations ([] for a nil pin)
  blacklist : List Nat
  priority  : List Nat
  deriving Repr

inductive Output where
  | ok (allocs : List Nat)
  | err
  | panic                           -- slice bounds out of range (invalid factor pairs only)
  deriving DecidableEq, Repr

/-- `isReplicationFactorValid` (cluster_config.go). -/
def factorsValid (rmin rmax : Int) : Bool :=
  !(rmin == 0 || rmax == 0) && !(rmin > rmax) && !(rmin < -1) && !(rmax < -1) &&
  !((rmin == -1 && rmax != -1) || (rmin != -1 && rmax == -1))

/-- The metrics the monitor hands to `allocate`. -/
def metrics (i : Input) : List (Nat × MState) := i.peers.filter (fun p => p.2.healthy)

/-- The four-way split of `allocate`'s `switch`, as peer-id lists. -/
def curIds (i : Input) : List Nat :=
  ((metrics i).filter (fun p => !i.blacklist.contains p.1 && i.current.contains p.1)).map (·.1)
def priM (i : Input) : List (Nat × MState) :=
  (metrics i).filter (fun p => !i.blacklist.contains p.1 && !i.current.contains p.1 && i.priority.contains p.1)
def candM (i : Input) : List (Nat × MState) :=
  (metrics i).filter (fun p => !i.blacklist.contains p.1 && !i.current.contains p.1 && !i.priority.contains p.1)

/-- What `SortNumeric` retains: (peer, value) for numeric metrics. -/
def numerics (l : List (Nat × MState)) : List (Nat × Nat) :=
  l.filterMap (fun p => p.2.numeric.map (fun v => (p.1, v)))

/-- Strategy order on values: ascending, or descending when `desc`. -/
def before (desc : Bool) (x y : Nat) : Bool := if desc then decide (y ≤ x) else decide (x ≤ y)

def lookupVal (l : List (Nat × Nat)) (p : Nat) : Option Nat := (l.find? (fun q => q.1 == p)).map (·.2)

/-- `chosen` is a possible first-`chosen.length` segment of `SortNumeric l`:
    distinct peers of `l`, in strategy order, nothing left out ranks strictly
    before something taken. -/
def isTopK (desc : Bool) (l : List (Nat × Nat)) (chosen : List Nat) : Bool :=
  chosen.all (fun p => (lookupVal l p).isSome) &&
  chosen.Nodup &&
  -- sorted in strategy order
  (chosen.zip chosen.tail).all (fun (p, q) =>
     match lookupVal l p, lookupVal l q with
     | some x, some y => before desc x y
     | _, _ => false) &&
  -- every taken one ranks no later than every one left out
  chosen.all (fun p => l.all (fun q => chosen.contains q.1 ||
     match lookupVal l p with
     | some x => before desc x q.2
     | none => false))

/-- the "drop some" arm: any `n` distinct healthy current holders -/
def okTrunc (cur : List Nat) (n : Nat) (l : List Nat) : Bool :=
  l.length == n && l.Nodup && l.all cur.contains

/-- the allocating arm: the healthy current holders (any order), then the best of the
    requested peers, then the best of the others, `k` new ones in total -/
def okAlloc (desc : Bool) (cur : List Nat) (pn cn : List (Nat × Nat)) (k : Nat) (l : List Nat) : Bool :=
  (l.take cur.length).isPerm cur && (l.drop cur.length).length == k &&
  isTopK desc pn ((l.drop cur.length).take (min k pn.length)) &&
  isTopK desc cn ((l.drop cur.length).drop (min k pn.length))

def Output.okWith (f : List Nat → Bool) : Output → Bool
  | .ok l => f l
  | _ => false

/-- The relation: `o` is an output `allocate` may produce on `i`. -/
def allowed (i : Input) (o : Output) : Bool :=
  if i.rmin + i.rmax == 0 then o == .err
  else if i.rmin < 0 && i.rmax < 0 then o == .ok []
  else
    let cur := curIds i
    let nCur : Int := cur.length
    let needed := i.rmin - nCur
    let wanted := i.rmax - nCur
    if wanted < 0 then
      -- validAllocations[0 : len+wanted]
      if nCur + wanted < 0 then o == .panic
      else o.okWith (okTrunc cur (nCur + wanted).toNat)
    else if needed ≤ 0 then o == .ok i.current
    else
      let pn := numerics (priM i)
      let cn := numerics (candM i)
      if ((priM i).length + (candM i).length : Int) < needed then o == .err
      else if ((pn.length + cn.length : Nat) : Int) < needed then o == .err
      else o.okWith (okAlloc i.desc cur pn cn (min wanted.toNat (pn.length + cn.length)))

/-! ### One deterministic resolution of the choices -/

def insertBy (desc : Bool) (x : Nat × Nat) : List (Nat × Nat) → List (Nat × Nat)
  | [] => [x]
  | y :: ys => if before desc x.2 y.2 then x :: y :: ys else y :: insertBy desc x ys

def sortBy (desc : Bool) : List (Nat × Nat) → List (Nat × Nat)
  | [] => []
  | x :: xs => insertBy desc x (sortBy desc xs)

/-- `SortNumeric` with ties resolved by insertion order. -/
def sortNumeric (desc : Bool) (l : List (Nat × MState)) : List Nat :=
  (sortBy desc (numerics l)).map (·.1)

def allocate (i : Input) : Output :=
  if i.rmin + i.rmax == 0 then .err
  else if i.rmin < 0 && i.rmax < 0 then .ok []
  else
    let cur := curIds i
    let nCur : Int := cur.length
    let needed := i.rmin - nCur
    let wanted := i.rmax - nCur
    if wanted < 0 then
      if nCur + wanted < 0 then .panic else .ok (cur.take (nCur + wanted).toNat)
    else if needed ≤ 0 then .ok i.current
    else if ((priM i).length + (candM i).length : Int) < needed then .err
    else
      let final := sortNumeric i.desc (priM i) ++ sortNumeric i.desc (candM i)
      if (final.length : Int) < needed then .err
      else .ok (cur ++ final.take (min wanted.toNat final.length))

end CV.C03
