/-
C08 — model of the encoding boundaries of ipfs-cluster (api/types.go, api/add.go,
api/util.go, api/pb/types.proto).  Core Lean only.

Three parts:

* L1  the *schema* of the struct-tag driven formats (encoding/json, ugorji msgpack):
      the types of the table that `harness/extract_c08` regenerates into
      `Gen/C08.lean`, and the decidable rules over it (`decodable`, `encPath`/`decPath`,
      tag uniqueness, omitempty) — the rules are assumptions about the two
      libraries, validated on every run by the correspondence suite `roundtrip`.
* L2  hand models of the hand-written converters: `protoEncode`/`protoDecode`
      (Pin.ProtoMarshal/ProtoUnmarshal), `toQuery`/`fromQuery`
      (PinOptions.ToQuery/FromQuery), the string forms of TrackerStatus, PinMode,
      PinType, IPFSPinStatus, and `pinEquals`/`optsEquals` (Pin.Equals/PinOptions.Equals).
* the generic prediction `predictTagged` for a dumped record under a tag-driven format.

Representation.  Values that the converters treat as opaque (CIDs, peer IDs,
multiaddresses, strings) are the *tokens* of the harness dump (`c3`, `p1`, `mp0`,
`~name`): the token encoding is injective, so equality of tokens is equality of
values.  nil and empty slices/maps are not distinguished (a `List`).  A Go
`time.Time` is its instant `(unix seconds, nanoseconds)`.
-/
namespace CV.C08

/-! ## L1: schema of the tag-driven formats -/

inductive Fmt where
  | proto | msgpack | msgpackraft | json | query | snapshot
  deriving DecidableEq, Repr

def Fmt.name : Fmt → String
  | .proto => "proto" | .msgpack => "msgpack" | .msgpackraft => "msgpackraft" | .json => "json" | .query => "query"
  | .snapshot => "snapshot"

def Fmt.ofString? (s : String) : Option Fmt :=
  if s == "proto" then some .proto else if s == "msgpack" then some .msgpack
  else if s == "msgpackraft" then some .msgpackraft else if s == "json" then some .json
  else if s == "query" then some .query else if s == "snapshot" then some .snapshot else none

/-- the struct-tag driven formats: `some true` = JSON names, `some false` = codec names -/
def Fmt.tagged : Fmt → Option Bool
  | .json => some true | .msgpack => some false | .msgpackraft => some false | _ => none

/-- which of json.(Un)Marshaler / encoding.Text(Un)Marshaler / encoding.Binary(Un)Marshaler a type implements -/
structure M3 where
  json : Bool
  text : Bool
  bin : Bool
  deriving DecidableEq, Repr

/-- descriptor of a static Go type -/
inductive Ty where
  | prim (kind : String)                       -- bool int uint float string bytes bytearray
  /-- a named type with (un)marshal methods: `mv` marshalers in the method set of `T`,
      `mp` of `*T`, `u` unmarshalers of `*T`, `selfer` = codec.Selfer on `*T` -/
  | leaf (name kind : String) (mv mp u : M3) (selfer : Bool)
  | iface (name : String) (methods : Nat)      -- an interface type: no decoder can allocate its value
  | slice (e : Ty)
  | array (e : Ty)
  | map (k v : Ty)
  | ptr (e : Ty)
  | struct (name : String)                     -- a struct described by its own table entry
  | opaque (name : String)                     -- struct without exported fields, chan, func
  deriving Repr

structure Field where
  go : String
  json : String
  codec : String
  jsonOmit : Bool
  codecOmit : Bool
  embJson : Bool      -- anonymous field whose fields encoding/json promotes
  embCodec : Bool     -- same for ugorji
  ty : Ty
  deriving Repr

structure Rec where
  name : String
  formats : List Fmt
  fields : List Field
  deriving Repr

abbrev Table := List Rec

def lookupRec (tbl : Table) (n : String) : Option Rec := tbl.find? (fun r => r.name == n)

def Field.tag (f : Field) (js : Bool) : String := if js then f.json else f.codec
def Field.omit (f : Field) (js : Bool) : Bool := if js then f.jsonOmit else f.codecOmit
def Field.emb (f : Field) (js : Bool) : Bool := if js then f.embJson else f.embCodec

/-- the fields a tag-driven encoder sees for a record: promoted fields of anonymous structs inlined -/
def effective (tbl : Table) (js : Bool) : Nat → List Field → List Field
  | 0, fs => fs
  | fuel + 1, fs => fs.flatMap fun f =>
      if f.emb js then
        match f.ty with
        | .struct n => match lookupRec tbl n with
          | some r => effective tbl js fuel r.fields
          | none => [f]
        | _ => [f]
      else [f]

def nodupS : List String → Bool
  | [] => true
  | x :: xs => !xs.contains x && nodupS xs

/-- names are unique per struct and format (after promotion), and no exported field is dropped with "-" -/
def tagsUniqueRec (tbl : Table) (r : Rec) : Bool :=
  nodupS ((effective tbl true 4 r.fields).map (·.json)) && nodupS ((effective tbl false 4 r.fields).map (·.codec))

def tagsUnique (tbl : Table) : Bool := tbl.all (tagsUniqueRec tbl)

def noDroppedFields (tbl : Table) : Bool :=
  tbl.all fun r => r.fields.all fun f => f.json != "-" && f.codec != "-"

/-- which code path a library takes for a leaf type: 0 = by kind, 1 = JSON methods, 2 = Text methods,
    3 = Binary methods, 4 = codec.Selfer, 5 = ugorji's built-in time.Time -/
def pathOf (js : Bool) (name : String) (m : M3) (selfer : Bool) : Nat :=
  if js then (if m.json then 1 else if m.text then 2 else 0)
  else (if selfer then 4 else if name == "time.Time" then 5 else if m.bin then 3 else 0)

def primKinds : List String := ["bool", "int", "uint", "float", "string", "bytes", "bytearray"]

/-- can a decoder of the format build a value of this static type from what the encoder wrote?
    An interface type is never decodable (whatever methods it lists); a leaf is decodable through
    its unmarshaler, or by kind when the kind is primitive; structs are checked at their own entry. -/
def decodable (js : Bool) : Ty → Bool
  | .prim _ => true
  | .leaf name kind _ _ u selfer => pathOf js name u selfer != 0 || primKinds.contains kind
  | .iface _ _ => false
  | .slice e => decodable js e
  | .array e => decodable js e
  | .map k v => decodable js k && decodable js v
  | .ptr e => decodable js e
  | .struct _ => true
  | .opaque _ => false

/-- encoder and decoder take the same path for every leaf type, whether or not the value is addressable -/
def pathsAgree (js : Bool) : Ty → Bool
  | .leaf name _ mv mp u selfer => pathOf js name mv selfer == pathOf js name u selfer && pathOf js name mp selfer == pathOf js name u selfer
  | .slice e => pathsAgree js e
  | .array e => pathsAgree js e
  | .map k v => pathsAgree js k && pathsAgree js v
  | .ptr e => pathsAgree js e
  | _ => true

/-- every `.struct n` names a table entry -/
def resolved (tbl : Table) : Ty → Bool
  | .struct n => (lookupRec tbl n).isSome
  | .slice e => resolved tbl e
  | .array e => resolved tbl e
  | .map k v => resolved tbl k && resolved tbl v
  | .ptr e => resolved tbl e
  | _ => true

/-- omitempty is harmless when "empty" for the encoder is exactly the zero value up to nil-vs-empty:
    true for every kind except fixed-size arrays and opaque types (ugorji: an array is "empty" only
    when its length is 0; an opaque struct has no visible field) -/
def omitSafe : Ty → Bool
  | .array _ => false
  | .opaque _ => false
  | _ => true

def allFields (tbl : Table) (p : Rec → Field → Bool) : Bool := tbl.all fun r => r.fields.all (p r)

/-- every field of every record is decodable in both tag-driven formats, except the listed (record, field) pairs -/
def allDecodableExcept (tbl : Table) (except : List (String × String)) : Bool :=
  allFields tbl fun r f => except.contains (r.name, f.go) || (decodable true f.ty && decodable false f.ty)

def allPathsAgree (tbl : Table) : Bool := allFields tbl fun _ f => pathsAgree true f.ty && pathsAgree false f.ty
def allResolved (tbl : Table) : Bool := allFields tbl fun _ f => resolved tbl f.ty
def allOmitSafe (tbl : Table) : Bool := allFields tbl fun _ f => !(f.jsonOmit || f.codecOmit) || omitSafe f.ty

/-! ## L2: typed pins -/

structure Time where
  sec : Int
  nsec : Nat
  deriving DecidableEq, Repr

/-- Go's zero time.Time: January 1, year 1 UTC -/
def Time.zero : Time := ⟨-62135596800, 0⟩
def Time.isZero (t : Time) : Bool := t == Time.zero
/-- `ExpireAt.IsZero() || ExpireAt.Equal(unixZero)`: the two "never expires" values (Pin.ExpiredAt) -/
def Time.noExpiry (t : Time) : Bool := t.isZero || t == ⟨0, 0⟩

/-- a multiaddress token and whether it has a /p2p/ component -/
structure Origin where
  tok : String
  p2p : Bool
  deriving DecidableEq, Repr

structure PinOptions where
  rmin : Int
  rmax : Int
  name : String
  mode : Int
  shardSize : Nat
  userAllocs : List String
  expireAt : Time
  metadata : List (String × String)
  pinUpdate : Option String
  origins : List Origin
  deriving DecidableEq, Repr

structure Pin where
  opts : PinOptions
  cid : Option String
  type : Nat
  allocs : List String
  maxDepth : Int
  reference : Option String
  deriving DecidableEq, Repr

/-- outcome of encode-then-decode -/
inductive Res (α : Type) where
  | ok (v : α)
  | encErr
  | decErr
  deriving Repr

instance [DecidableEq α] : DecidableEq (Res α) := fun a b => by
  cases a <;> cases b <;> first
    | exact isTrue rfl
    | (rename_i x y; exact if h : x = y then isTrue (by rw [h]) else isFalse (by intro e; cases e; exact h rfl))
    | exact isFalse (by intro e; cases e)

/-- token of the empty string -/
def emptyStr : String := "~"
/-- token of the empty peer ID, the only peer ID of the dump that is not a valid multihash -/
def emptyPeer : String := "p-"
def validPeer (p : String) : Bool := p != emptyPeer

/-! ### string forms (api/types.go:92-176, 416-566) -/

/-- `PinMode.String` -/
def modeString (m : Int) : String := if m == 1 then "direct" else "recursive"
/-- `PinModeFromString` -/
def modeFromString (s : String) : Int := if s == "direct" then 1 else 0
/-- `PinDepth.ToPinMode` -/
def toPinMode (d : Int) : Int := if d == 0 then 1 else 0
/-- `PinMode.ToPinDepth` -/
def toPinDepth (m : Int) : Int := if m == 1 then 0 else -1

/-- `PinType.String` -/
def typeString (t : Nat) : String :=
  if t == 2 then "pin" else if t == 4 then "meta-pin" else if t == 8 then "clusterdag-pin"
  else if t == 16 then "shard-pin" else if t == 30 then "all" else "bad-type"
/-- `PinTypeFromString` -/
def typeFromString (s : String) : Nat :=
  if s == "pin" then 2 else if s == "meta-pin" then 4 else if s == "clusterdag-pin" then 8
  else if s == "shard-pin" then 16 else if s == "all" then 30 else if s == "" then 30 else 1

/-- `trackerStatusString` (TrackerStatus → name), including the two composites -/
def statusNames : List (Nat × String) :=
  [(0, "undefined"), (2, "cluster_error"), (4, "pin_error"), (8, "unpin_error"), (14, "error"),
   (16, "pinned"), (32, "pinning"), (64, "unpinning"), (128, "unpinned"), (256, "remote"),
   (512, "pin_queued"), (1024, "unpin_queued"), (1536, "queued"), (2048, "sharded"),
   (4096, "unexpectedly_unpinned")]

def statusMask : Nat := 8190
def errorMask : Nat := 14
def queuedMask : Nat := 1536

/-- `TrackerStatus.String` as the LIST of names it joins with "," — the order is Go's map iteration
    order, so only the set is determined. A filter that is not itself a named value lists every named
    status or group all of whose bits it contains (since d6bd794; before, any shared bit sufficed) -/
def statusStrings (st : Nat) : List String :=
  match statusNames.find? (fun kv => kv.1 == st) with
  | some kv => [kv.2]
  | none => (statusNames.filter (fun kv => kv.1 != 0 && st &&& kv.1 == kv.1)).map (·.2)

def statusOfName (n : String) : Nat :=
  match statusNames.find? (fun kv => kv.2 == n) with
  | some kv => kv.1
  | none => 0

/-- `TrackerStatusFromString` on the already split list of names (unknown names are ignored) -/
def statusFromNames (ns : List String) : Nat := ns.foldl (fun acc n => acc ||| statusOfName n) 0

/-- `TrackerStatusFromString`: spaces removed, split at commas -/
def statusFromString (s : String) : Nat :=
  statusFromNames ((String.ofList (s.toList.filter (· != ' '))).splitOn ",")

/-- String then FromString (also the JSON form: MarshalJSON/UnmarshalJSON go through the same two) -/
def statusRoundtrip (st : Nat) : Nat := statusFromNames (statusStrings st)

/-- `IPFSPinStatusFromString`: 0 bug, 2 direct, 3 recursive, 4 indirect -/
def ipfsPinStatusFromString (s : String) : Nat :=
  if s.startsWith "indirect" then 4 else if s.startsWith "recursive" then 3 else if s == "direct" then 2 else 0

/-! ### protobuf (api/types.go ProtoMarshal / ProtoUnmarshal; api/pb/types.proto) -/

def two31 : Int := 2147483648
def two32 : Int := 4294967296
def two63 : Int := 9223372036854775808
def two64 : Int := 18446744073709551616

/-- Go `int32(x)` -/
def wrap32 (i : Int) : Int := (i + two31) % two32 - two31
/-- Go `uint64(x)` of an int64 -/
def toU64 (i : Int) : Nat := (i % two64).toNat
/-- Go `int64(x)` of a uint64 -/
def toI64 (n : Nat) : Int := ((n : Int) + two63) % two64 - two63

/-- `convertPinType`: shift right until 1, counting; 0 ↦ BadType (enum 0) -/
def convertPinType (t : Nat) : Nat := if t == 0 then 0 else Nat.log2 t

/-- token of cid.Undef; `reference = some undefCid` is a non-nil pointer to it: its bytes are empty, exactly as
    for a nil reference, and `cid.Cast` of empty bytes fails, so it is read back as nil -/
def undefCid : String := "c-"

/-- the pb.PinOptions message -/
structure PbOptions where
  rmin : Int
  rmax : Int
  name : String
  shardSize : Nat
  metadata : List (String × String)
  pinUpdate : Option String       -- bytes of the CID; `none` = empty bytes (cid.Undef)
  expireAt : Nat
  origins : List Origin
  deriving DecidableEq, Repr

/-- the pb.Pin message -/
structure PbPin where
  cid : Option String
  type : Nat
  allocs : List String
  maxDepth : Int
  reference : Option String
  opts : PbOptions
  deriving DecidableEq, Repr

/-- `Pin.ProtoMarshal` up to proto.Marshal of the message (user allocations and mode are not copied;
    the expiry is written in whole seconds, and only for a pin that expires) -/
def protoEncode (p : Pin) : PbPin :=
  { cid := p.cid, type := convertPinType p.type, allocs := p.allocs, maxDepth := wrap32 p.maxDepth,
    reference := if p.reference == some undefCid then none else p.reference,
    opts := { rmin := wrap32 p.opts.rmin, rmax := wrap32 p.opts.rmax, name := p.opts.name,
              shardSize := p.opts.shardSize, metadata := p.opts.metadata, pinUpdate := p.opts.pinUpdate,
              expireAt := if p.opts.expireAt.noExpiry then 0 else toU64 p.opts.expireAt.sec,
              origins := p.opts.origins } }

/-- `Pin.ProtoUnmarshal` into a fresh Pin, from proto.Unmarshal of the message -/
def protoDecode (m : PbPin) : Res Pin :=
  if !m.allocs.all validPeer then .decErr else
  .ok { cid := m.cid, type := 2 ^ m.type, allocs := m.allocs, maxDepth := m.maxDepth, reference := m.reference,
        opts := { rmin := m.opts.rmin, rmax := m.opts.rmax, name := m.opts.name, mode := toPinMode m.maxDepth,
                  shardSize := m.opts.shardSize, userAllocs := [],
                  expireAt := if m.opts.expireAt > 0 then ⟨toI64 m.opts.expireAt, 0⟩ else Time.zero,
                  metadata := m.opts.metadata, pinUpdate := m.opts.pinUpdate, origins := m.opts.origins } }

def protoRoundtrip (p : Pin) : Res Pin := protoDecode (protoEncode p)

/-- the stored expiry: whole seconds, "never" for the two never-expires values and for instants
    inside the first second of 1970 (they are written as 0 = unset) -/
def truncExpiry (t : Time) : Time := if t.noExpiry || t.sec == 0 then Time.zero else ⟨t.sec, 0⟩

/-- what the protobuf form keeps of a pin -/
def lossyProto (p : Pin) : Pin :=
  { p with reference := (if p.reference == some undefCid then none else p.reference), opts := { p.opts with userAllocs := [], expireAt := truncExpiry p.opts.expireAt, mode := toPinMode p.maxDepth } }

def pinTypes : List Nat := [1, 2, 4, 8, 16]
def inInt32 (i : Int) : Bool := decide (-two31 ≤ i) && decide (i < two31)

/-- preconditions of the protobuf form -/
def wfProto (p : Pin) : Bool :=
  inInt32 p.opts.rmin && inInt32 p.opts.rmax && inInt32 p.maxDepth && pinTypes.contains p.type &&
  p.allocs.all validPeer && decide (-two63 ≤ p.opts.expireAt.sec) && decide (p.opts.expireAt.sec < two63)

/-! ### query string (PinOptions.ToQuery / FromQuery) -/

/-- an integer-valued query parameter: absent (or empty), present but unparsable, or a value -/
inductive QInt where
  | absent | bad | val (i : Int)
  deriving DecidableEq, Repr

/-- token of a user-allocations entry that is not a peer ID -/
def badPeer : String := "p!"
def validEntry (p : String) : Bool := p != emptyPeer && p != badPeer

/-- the url.Values of a pin-options query, values typed (formatting and parsing of integers, times,
    CIDs and multiaddresses and URL escaping are library round-trips, validated by the harness) -/
structure Query where
  name : String
  mode : String
  replication : QInt            -- "replication": overrides both factors; never written by ToQuery
  rmin : QInt
  rmax : QInt
  shardSize : QInt              -- parsed as uint64: a negative value does not parse
  userAllocs : List String      -- the comma separated entries (`p-` = an empty entry, `p!` = not a peer ID)
  expireAt : Option Time
  expireIn : Option Bool        -- "expire-in": absent / present and acceptable (≥ 1s) / present and refused
  metas : List (String × String) -- every "meta-<key>" parameter, by <key>
  pinUpdate : Option String
  origins : List Origin
  deriving DecidableEq, Repr

def toQuery (po : PinOptions) : Query :=
  { name := po.name, mode := modeString po.mode, replication := .absent, rmin := .val po.rmin, rmax := .val po.rmax,
    shardSize := .val po.shardSize, userAllocs := po.userAllocs,
    expireAt := if po.expireAt.isZero then none else some po.expireAt, expireIn := none,
    metas := po.metadata.filter (fun kv => kv.1 != emptyStr),
    pinUpdate := po.pinUpdate, origins := po.origins }

def QInt.isBad : QInt → Bool | .bad => true | _ => false
def QInt.getD (q : QInt) (d : Int) : Int := match q with | .val i => i | _ => d

/-- the user-allocations value (entries joined by ",") is the empty string: the parameter is skipped -/
def uaValueEmpty (l : List String) : Bool := l == [] || l == [emptyPeer]

/-- `FromQuery` into a fresh PinOptions (as the REST API does), as of b5b684c: every value given must parse —
    the mode is "", "recursive" or "direct"; replication-min and replication-max are parsed before the `replication` override;
    every user-allocations entry is a peer ID; expire-in is validated whenever present. Not modelled: the
    value an acceptable expire-in gives when there is no expire-at (the wall clock plus the duration),
    unparsable expire-at / pin-update / origins strings, shard sizes beyond uint64. -/
def fromQuery (q : Query) : Res PinOptions :=
  if !(["", "recursive", "direct"].contains q.mode) then .decErr
  else if q.rmin.isBad || q.rmax.isBad || q.replication.isBad then .decErr
  else if q.shardSize.isBad || decide (q.shardSize.getD 0 < 0) then .decErr
  else if !uaValueEmpty q.userAllocs && !q.userAllocs.all validEntry then .decErr
  else if q.expireIn == some false then .decErr
  else if !q.origins.all (·.p2p) then .decErr else
  let rmin := match q.replication with | .val r => r | _ => q.rmin.getD 0
  let rmax := match q.replication with | .val r => r | _ => q.rmax.getD 0
  .ok { rmin := rmin, rmax := rmax, name := q.name, mode := modeFromString q.mode, shardSize := (q.shardSize.getD 0).toNat,
        userAllocs := if uaValueEmpty q.userAllocs then [] else q.userAllocs, expireAt := q.expireAt.getD Time.zero,
        metadata := q.metas.filter (fun kv => kv.1 != emptyStr), pinUpdate := q.pinUpdate, origins := q.origins }

def queryRoundtrip (po : PinOptions) : Res PinOptions := fromQuery (toQuery po)

/-- what the query form keeps of pin options -/
def lossyQuery (po : PinOptions) : PinOptions :=
  { po with mode := modeFromString (modeString po.mode),
            userAllocs := if uaValueEmpty po.userAllocs then [] else po.userAllocs,
            metadata := po.metadata.filter (fun kv => kv.1 != emptyStr) }

/-! ### Equals (api/types.go:584-679, 1038-1082) -/

def insertS (x : String) : List String → List String
  | [] => [x]
  | y :: ys => if x ≤ y then x :: y :: ys else y :: insertS x ys

/-- `sort.Strings` -/
def sortS : List String → List String
  | [] => []
  | x :: xs => insertS x (sortS xs)

def lookupKV (k : String) : List (String × String) → Option String
  | [] => none
  | (k', v) :: rest => if k' == k then some v else lookupKV k rest

/-- first metadata loop: every non-empty key of `a` is in `b` with the same value -/
def metaSub (a b : List (String × String)) : Bool := a.all fun kv => kv.1 == emptyStr || lookupKV kv.1 b == some kv.2
/-- second metadata loop: every non-empty key of `b` is in `a` -/
def metaKeys (a b : List (String × String)) : Bool := b.all fun kv => kv.1 == emptyStr || (lookupKV kv.1 a).isSome

def originsSub (a b : List Origin) : Bool := a.all fun o => b.any fun o' => o.tok == o'.tok

/-- `PinOptions.Equals` for two distinct non-nil pointers -/
def optsEquals (a b : PinOptions) : Bool :=
  a.name == b.name && a.mode == b.mode && a.rmax == b.rmax && a.rmin == b.rmin && a.shardSize == b.shardSize &&
  a.userAllocs.length == b.userAllocs.length && sortS a.userAllocs == sortS b.userAllocs &&
  a.expireAt == b.expireAt &&
  metaSub a.metadata b.metadata && metaKeys a.metadata b.metadata &&
  a.origins.length == b.origins.length && originsSub a.origins b.origins && originsSub b.origins a.origins

/-- `Pin.Equals` for two distinct non-nil pointers -/
def pinEquals (a b : Pin) : Bool :=
  a.cid == b.cid && a.type == b.type && a.maxDepth == b.maxDepth && a.reference == b.reference &&
  sortS a.allocs == sortS b.allocs && optsEquals a.opts b.opts

/-- `po.Equals(po2)` with the pointer comparison of the Go code: the same pointer is "not equal" -/
def optsEqualsPtr (samePointer : Bool) (a b : PinOptions) : Bool := if samePointer then false else optsEquals a b
def pinEqualsPtr (samePointer : Bool) (a b : Pin) : Bool := if samePointer then false else pinEquals a b

/-! ## generic prediction for a dumped record under a tag-driven format -/

abbrev KVs := List (String × String)

/-- the field name of one path segment: `Keys[2]` ↦ `Keys`, `PeerMap{~k}` ↦ `PeerMap`, `IPFS?` ↦ `IPFS` -/
def segName (s : String) : String := String.ofList (s.toList.takeWhile fun c => c.isAlphanum || c == '_')

def pathSegs (p : String) : List String := (p.splitOn ".").map segName

/-- strip slices, arrays, maps (value side) and pointers -/
def peel : Ty → Ty
  | .slice e => peel e
  | .array e => peel e
  | .map _ v => peel v
  | .ptr e => peel e
  | t => t

/-- is the value held directly by the struct field (possibly behind pointers), not inside a slice or map? -/
def direct : Ty → Bool
  | .ptr e => direct e
  | .slice _ => false
  | .array _ => false
  | .map _ _ => false
  | _ => true

/-- the struct field a dump path denotes -/
def resolve (tbl : Table) : Nat → String → List String → Option Field
  | 0, _, _ => none
  | _, _, [] => none
  | fuel + 1, rec, s :: rest =>
    match lookupRec tbl rec with
    | none => none
    | some r =>
      match r.fields.find? (fun f => f.go == s) with
      | none => none
      | some f =>
        if rest.isEmpty then some f
        else match peel f.ty with
          | .struct n => resolve tbl fuel n rest
          | _ => none

/-- the element tokens of a dumped value: a list `a,b`, a map `~k:v,~k2:v2`, or one token -/
def elemToks (ty : Ty) (tok : String) : List String :=
  if tok == "-" then [] else
  match ty with
  | .slice _ => tok.splitOn ","
  | .map _ _ => (tok.splitOn ",").map fun e => match e.splitOn ":" with | [_, v] => v | _ => e
  | .ptr _ => if tok == "nil" then [] else [tok]
  | _ => [tok]

/-- zero values that the type's own unmarshaler rejects: the empty peer ID in every format
    (peer.ID.UnmarshalText/UnmarshalBinary), cid.Undef in msgpack (Cid.UnmarshalBinary); JSON writes
    cid.Undef as null, which is fine -/
def zeroRejected (js : Bool) (leafName tok : String) : Bool :=
  (leafName == "peer.ID" && tok == "p-") || (!js && leafName == "go-cid.Cid" && tok == "c-")

def leafName : Ty → String
  | .leaf n _ _ _ _ _ => n
  | _ => ""

def isPtr : Ty → Bool
  | .ptr _ => true
  | _ => false

/-- prediction for one dumped field: an error (with its reason) = the decoder returns an error -/
def predictFieldE (js : Bool) (f : Field) (tok : String) : Except String String :=
  let elems := elemToks f.ty tok
  let lt := peel f.ty
  -- a non-empty value of an undecodable static type
  if !decodable js f.ty && !elems.isEmpty then .error "undecodable"
  -- a rejected zero value that is written: omitempty only drops it when it is the field itself, and
  -- a non-nil pointer is never "empty" (the first shard's `Reference = &cid.Undef`)
  else if elems.any (zeroRejected js (leafName lt)) && !(direct f.ty && !isPtr f.ty && f.omit js) then
    .error (if leafName lt == "peer.ID" then "zero-peer" else "zero-cid")
  -- JSON writes a pointer to cid.Undef as null, which decodes as a nil pointer
  else if js && isPtr f.ty && leafName lt == "go-cid.Cid" && tok == "c-" then .ok "nil"
  else if js && direct f.ty && leafName lt == "api.TrackerStatus" then
    match tok.toNat? with
    | some st => .ok (toString (statusRoundtrip st))
    | none => .ok tok
  else if js && direct f.ty && leafName lt == "api.PinMode" then
    match tok.toInt? with
    | some m => .ok (toString (modeFromString (modeString m)))
    | none => .ok tok
  else .ok tok

def predictField (js : Bool) (f : Field) (tok : String) : Option String := (predictFieldE js f tok).toOption

/-- auxiliary dump entries (`X#` lengths/keys, `X?` presence) are not fields -/
def isAux (path : String) : Bool := path.endsWith "#" || path.endsWith "?"

/-- encode-then-decode of a dumped record under json / msgpack, read off the schema table; an error names
    the first field the decoder stumbles over and why -/
def predictTaggedE (tbl : Table) (js : Bool) (rec : String) (kvs : KVs) : Except String KVs :=
  let step := fun (acc : Except String KVs) (kv : String × String) =>
    match acc with
    | .error e => .error e
    | .ok out =>
      if isAux kv.1 then .ok (out ++ [kv]) else
      match resolve tbl 8 rec (pathSegs kv.1) with
      | none => .ok (out ++ [kv])
      | some f => match predictFieldE js f kv.2 with
        | .error why => .error (kv.1 ++ ":" ++ why)
        | .ok t => .ok (out ++ [(kv.1, t)])
  kvs.foldl step (.ok [])

def predictTagged (tbl : Table) (js : Bool) (rec : String) (kvs : KVs) : Res KVs :=
  match predictTaggedE tbl js rec kvs with
  | .ok out => .ok out
  | .error _ => .decErr

/-! ## dumps of typed pins (the harness's `path=token` lists) -/

def parseTime (tok : String) : Option Time :=
  if !tok.startsWith "t" then none else
  match (tok.drop 1).toString.splitOn "." with
  | [s, n] => do let sec ← s.toInt?; let ns ← n.toNat?; pure ⟨sec, ns⟩
  | _ => none

def splitKV (t : String) : Option (String × String) :=
  match t.splitOn "=" with
  | [] => none
  | [_] => none
  | k :: rest => some (k, "=".intercalate rest)

def parseKVs (ws : List String) : Option KVs := ws.mapM splitKV

def getF (kvs : KVs) (path : String) : Option String := (kvs.find? (fun kv => kv.1 == path)).map (·.2)

def listToks (tok : String) : List String := if tok == "-" then [] else tok.splitOn ","
def showList (l : List String) : String := if l.isEmpty then "-" else ",".intercalate l

def parseMeta (tok : String) : Option (List (String × String)) :=
  (listToks tok).mapM fun e => match e.splitOn ":" with | [k, v] => some (k, v) | _ => none
def showMeta (m : List (String × String)) : String := showList (m.map fun kv => kv.1 ++ ":" ++ kv.2)

def parseOrigin (t : String) : Option Origin :=
  if t.startsWith "mp" then some ⟨t, true⟩ else if t.startsWith "mn" then some ⟨t, false⟩ else none

def parseCidOpt (t : String) : Option String := if t == "c-" then none else some t
def showCidOpt : Option String → String | none => "c-" | some t => t
def showTime (t : Time) : String := "t" ++ toString t.sec ++ "." ++ toString t.nsec

/-! ## typed pins from dumps and back -/

def parseOpts (kvs : KVs) (pre : String) : Option PinOptions := do
  let g := fun (n : String) => getF kvs (pre ++ n)
  pure {
    rmin := ← (← g "ReplicationFactorMin").toInt?, rmax := ← (← g "ReplicationFactorMax").toInt?,
    name := ← g "Name", mode := ← (← g "Mode").toInt?, shardSize := ← (← g "ShardSize").toNat?,
    userAllocs := listToks (← g "UserAllocations"), expireAt := ← parseTime (← g "ExpireAt"),
    metadata := ← parseMeta (← g "Metadata"), pinUpdate := parseCidOpt (← g "PinUpdate"),
    origins := ← (listToks (← g "Origins")).mapM parseOrigin }

def parsePin (kvs : KVs) (pre : String) : Option Pin := do
  let g := fun (n : String) => getF kvs (pre ++ n)
  let ref ← g "Reference"
  pure {
    opts := ← parseOpts kvs (pre ++ "PinOptions."), cid := parseCidOpt (← g "Cid"), type := ← (← g "Type").toNat?,
    allocs := listToks (← g "Allocations"), maxDepth := ← (← g "MaxDepth").toInt?,
    reference := if ref == "nil" then none else some ref }

def showOpts (po : PinOptions) (pre : String) : KVs :=
  [ (pre ++ "ReplicationFactorMin", toString po.rmin), (pre ++ "ReplicationFactorMax", toString po.rmax),
    (pre ++ "Name", po.name), (pre ++ "Mode", toString po.mode), (pre ++ "ShardSize", toString po.shardSize),
    (pre ++ "UserAllocations", showList po.userAllocs), (pre ++ "ExpireAt", showTime po.expireAt),
    (pre ++ "Metadata", showMeta po.metadata), (pre ++ "PinUpdate", showCidOpt po.pinUpdate),
    (pre ++ "Origins", showList (po.origins.map (·.tok))) ]

def showPinP (pre : String) (p : Pin) : KVs :=
  showOpts p.opts (pre ++ "PinOptions.") ++
  [ (pre ++ "Cid", showCidOpt p.cid), (pre ++ "Type", toString p.type), (pre ++ "Allocations", showList p.allocs),
    (pre ++ "MaxDepth", toString p.maxDepth), (pre ++ "Reference", match p.reference with | none => "nil" | some r => r) ]

def showPin (p : Pin) : KVs := showPinP "" p

/-- a state dump (dsstate.Marshal → Unmarshal → List): every pin through the protobuf form, the CID through the
    datastore key. The harness lists the pins sorted by CID on both sides. A pin the store cannot
    deserialize is skipped by `List`. -/
def snapshotRoundtrip (pins : List Pin) : List Pin :=
  pins.filterMap fun p => match protoRoundtrip p with | .ok q => some q | _ => none

end CV.C08
