/-! # C14 — a Raft data folder holding SEVERAL snapshots (and leftovers): which one is read, what SnapshotSave writes

Round 8b. `<data>/snapshots/` of a peer that ran for a while holds up to `RaftMaxSnapshots` (5) snapshot directories
`<term>-<index>-<msec>`, possibly a `*.tmp` directory of an interrupted snapshot, a directory whose `meta.json` does not
parse, plain files. `latestSnapshot` (consensus/raft/raft.go) = `FileSnapshotStore.List()[0]`: the directories are read,
`*.tmp` / unreadable metadata / files are skipped, the rest is sorted by (term, index, id) DESCENDING — numerically, not by
directory name — and the first one is opened. `LastStateRaw`/`OfflineState` read that one; `SnapshotSave` copies its index and
term into the new snapshot after `CleanupRaft` moved the WHOLE folder (every snapshot, every leftover) to old.0; with no
readable snapshot it writes (term 1, index 2) next to whatever is there and makes no backup.

A pinset is one number here (0 = the empty pinset, n = {CidN n}); the pin content is the `pins` suite's subject.
Core Lean only. -/
namespace CV.C14.Snaps

structure Snap where
  term : Nat
  index : Nat
  pin : Nat
  deriving DecidableEq, Repr

inductive Item where
  | snap (s : Snap)
  | tmp        -- `<name>.tmp` directory with valid metadata of a HIGH term/index (interrupted snapshot)
  | badmeta    -- directory whose meta.json does not parse
  | file       -- a plain file in snapshots/
  deriving DecidableEq, Repr

/-- `snapMetaSlice.Less` reversed (ids are not modelled: the generated (term, index) pairs are distinct) -/
def newer (a b : Snap) : Bool := b.term < a.term || (a.term == b.term && b.index < a.index)

def pick (acc : Option Snap) (s : Snap) : Option Snap :=
  match acc with
  | none => some s
  | some a => if newer s a then some s else some a

/-- `List()[0]` -/
def newest (l : List Snap) : Option Snap := l.foldl pick none

def snapsOf : List Item → List Snap
  | [] => []
  | .snap s :: t => s :: snapsOf t
  | _ :: t => snapsOf t

/-- the data folder: `none` = absent -/
abbrev Folder := Option (List Item)

def latest : Folder → Option Snap
  | none => none
  | some l => newest (snapsOf l)

/-- `LastStateRaw` / `OfflineState`: `none` = "no snapshot" (the empty state is returned) -/
def offline (f : Folder) : Option Nat := (latest f).map (·.pin)

/-- `CleanupRaft`: (data folder afterwards, what became old.0) -/
def cleanup (f : Folder) : Folder × Folder :=
  match latest f with
  | none => (none, none)          -- removed without backup (leftovers included)
  | some _ => (none, f)

/-- `SnapshotSave` of pinset `c` -/
def save (f : Folder) (c : Nat) : Folder × Folder :=
  match latest f with
  | none => (some ((f.getD []) ++ [.snap ⟨1, 2, c⟩]), none)      -- fresh-start branch: nothing is removed
  | some n => (some [.snap ⟨n.term, n.index, c⟩], f)

/-- number of snapshots `List` shows -/
def count : Folder → Nat
  | none => 0
  | some l => (snapsOf l).length

/-- `ReapSnapshots` with retention `keep` on an already sorted (newest first) list -/
def sortedInsert (s : Snap) : List Snap → List Snap
  | [] => [s]
  | a :: t => if newer s a then s :: a :: t else a :: sortedInsert s t

def sortDesc (l : List Snap) : List Snap := l.foldr sortedInsert []

def reap (keep : Nat) (l : List Snap) : List Snap := (sortDesc l).take keep

/-- alternatives a wrong edit implements -/
def pickByIndex (acc : Option Snap) (s : Snap) : Option Snap :=
  match acc with
  | none => some s
  | some a => if a.index < s.index then some s else some a

def newestByIndex (l : List Snap) : Option Snap := l.foldl pickByIndex none

def oldest (l : List Snap) : Option Snap :=
  l.foldl (fun acc s => match acc with | none => some s | some a => if newer a s then some s else some a) none

end CV.C14.Snaps
