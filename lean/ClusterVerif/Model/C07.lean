/-
C07 — executable model of RPC authorization and peer trust (core Lean only).

The model is the *semantics of small decision-tree terms*; the terms themselves
(`Gen.closure`, `Gen.policy`, `Gen.crdt`, `Gen.raft`, …) are regenerated on
every run from today's source by `harness/extract_c07` into
`ClusterVerif/Gen/C07.lean`:

* `Closure`      — the authorization closure installed by `newRPCServer`
                   (rpc_api.go): look `svc+"."+method` up in the policy map;
                   missing ⇒ `missing`; else `switch` on the value with a
                   `default` arm; each arm says deny / allow / ask consensus.
* `Policy`       — `DefaultRPCPolicy` (rpc_policy.go) as an association list.
* `ConsensusShape` — `IsTrustedPeer` / `Trust` / `Distrust` / the trust loop of
                   `setup()` / the pubsub topic validator of consensus/crdt and
                   consensus/raft.

gorpc applies the closure to remote streams only: a call a peer makes on itself
never reaches it (`Caller.self`).
-/
namespace CV.C07

/-! ## the authorization closure -/

/-- what one arm of the closure returns -/
inductive Verdict where
  | deny      -- `return false`
  | allow     -- `return true`
  | askTrust  -- `return c.consensus.IsTrustedPeer(c.ctx, pid)`
  deriving DecidableEq, Repr, Inhabited

/-- closed < trusted < open -/
def Verdict.level : Verdict → Nat
  | .deny => 0
  | .askTrust => 1
  | .allow => 2

structure Closure where
  /-- the `if !ok` arm -/
  missing : Verdict
  /-- `case <const>:` arms, by the integer value of the constant -/
  cases : List (Int × Verdict)
  /-- the `default:` arm -/
  dflt : Verdict
  deriving Repr

/-- a Go `map[string]RPCEndpointType` (keys unique) -/
abbrev Policy := List (String × Int)

def lookup (pol : Policy) (k : String) : Option Int :=
  match pol with
  | [] => none
  | (k', v) :: rest => if k' == k then some v else lookup rest k

def armOf (cases : List (Int × Verdict)) (dflt : Verdict) (v : Int) : Verdict :=
  match cases with
  | [] => dflt
  | (c, r) :: rest => if c == v then r else armOf rest dflt v

/-- the arm of the closure an endpoint name reaches -/
def Closure.verdict (cl : Closure) (pol : Policy) (ep : String) : Verdict :=
  match lookup pol ep with
  | none => cl.missing
  | some v => armOf cl.cases cl.dflt v

/-- the closure's answer for a remote caller whose trust status is `trusted` -/
def authorizeWith (cl : Closure) (pol : Policy) (trusted : Bool) (ep : String) : Bool :=
  match cl.verdict pol ep with
  | .deny => false
  | .allow => true
  | .askTrust => trusted

/-- policy overrides used by the correspondence run: `none` deletes the entry -/
def override (pol : Policy) (k : String) (v : Option Int) : Policy :=
  let rest := pol.filter (fun e => !(e.1 == k))
  match v with
  | none => rest
  | some x => (k, x) :: rest

def applyOverrides (pol : Policy) (ovs : List (String × Option Int)) : Policy :=
  ovs.foldl (fun p o => override p o.1 o.2) pol

/-- `isRPCPolicyValid`: every reflected method must have an entry -/
def policyValid (methods : List String) (pol : Policy) : Bool :=
  methods.all (fun m => (lookup pol m).isSome)

/-! ## trust -/

/-- `if <guard> { return true }` -/
inductive Guard where
  | trustAll   -- `css.config.TrustAll`
  | isSelf     -- `pid == css.host.ID()`
  deriving DecidableEq, Repr

/-- the final `return` of `IsTrustedPeer` -/
inductive Final where
  | always     -- `return true`
  | never      -- `return false`
  | inSet      -- `_, ok := css.trustedPeers.Load(pid); return ok`
  deriving DecidableEq, Repr

/-- what `Trust` / `Distrust` do to the trusted-peer cache -/
inductive SetOp where
  | insert | delete | noop
  deriving DecidableEq, Repr

/-- what the pubsub topic validator returns for a message -/
inductive Validator where
  | trustedSigner   -- `return css.IsTrustedPeer(ctx, msg.GetFrom())`
  | acceptAll       -- no validator (raft has no pubsub)
  deriving DecidableEq, Repr

structure ConsensusShape where
  guards : List Guard
  final : Final
  trustOp : SetOp
  distrustOp : SetOp
  /-- what `AddPeer(pid)` - reached from the OPEN endpoint `Cluster.PeerAdd`, i.e. by anybody - does to the cache -/
  addPeerOp : SetOp
  /-- `setup()` calls `Trust` for every configured peer -/
  setupTrustsConfigured : Bool
  validator : Validator
  deriving Repr

/-- the trust configuration after parsing -/
structure TrustCfg where
  trustAll : Bool
  listed : List Nat
  deriving Repr, DecidableEq

/-- `applyJSONConfig` (consensus/crdt/config.go): entries are peer ids, `none` is "*";
    the first "*" sets TrustAll, empties the list and stops. -/
def parseTrusted : List (Option Nat) → List Nat → TrustCfg
  | [], acc => { trustAll := false, listed := acc.reverse }
  | none :: _, _ => { trustAll := true, listed := [] }
  | some p :: rest, acc => parseTrusted rest (p :: acc)

inductive TOp where
  | trust (p : Nat)
  | distrust (p : Nat)
  /-- peer `p` performed the join handshake: it called the open endpoints (`Cluster.Version`, `Cluster.PeerAdd p`)
      remotely and the handlers ran -/
  | handshake (p : Nat)
  deriving DecidableEq, Repr

def setInsert (s : List Nat) (p : Nat) : List Nat := if s.contains p then s else p :: s
def setDelete (s : List Nat) (p : Nat) : List Nat := s.filter (fun q => !(q == p))

def applySetOp (op : SetOp) (s : List Nat) (p : Nat) : List Nat :=
  match op with
  | .insert => setInsert s p
  | .delete => setDelete s p
  | .noop => s

def applyOp (sh : ConsensusShape) (s : List Nat) : TOp → List Nat
  | .trust p => applySetOp sh.trustOp s p
  | .distrust p => applySetOp sh.distrustOp s p
  | .handshake p => applySetOp sh.addPeerOp s p

/-- the trusted-peer cache after `setup()` -/
def initialSet (sh : ConsensusShape) (cfg : TrustCfg) : List Nat :=
  if sh.setupTrustsConfigured then cfg.listed.foldl (fun s p => applySetOp sh.trustOp s p) [] else []

/-- the cache after `setup()` and a sequence of Trust/Distrust calls -/
def stateAfter (sh : ConsensusShape) (cfg : TrustCfg) (ops : List TOp) : List Nat :=
  ops.foldl (applyOp sh) (initialSet sh cfg)

def evalGuard (cfg : TrustCfg) (self p : Nat) : Guard → Bool
  | .trustAll => cfg.trustAll
  | .isSelf => p == self

def evalFinal (set : List Nat) (p : Nat) : Final → Bool
  | .always => true
  | .never => false
  | .inSet => set.contains p

/-- `IsTrustedPeer` -/
def isTrusted (sh : ConsensusShape) (cfg : TrustCfg) (self : Nat) (set : List Nat) (p : Nat) : Bool :=
  sh.guards.any (evalGuard cfg self p) || evalFinal set p sh.final

/-- `IsTrustedPeer(p)` of a component started with configuration `cfg`, after the calls `ops` -/
def trustedAfterCfg (sh : ConsensusShape) (cfg : TrustCfg) (ops : List TOp) (self p : Nat) : Bool :=
  isTrusted sh cfg self (stateAfter sh cfg ops) p

/-- `IsTrustedPeer(p)` after loading the list `raw` and the calls `ops` -/
def trustedAfter (sh : ConsensusShape) (raw : List (Option Nat)) (ops : List TOp) (self p : Nat) : Bool :=
  trustedAfterCfg sh (parseTrusted raw []) ops self p

/-! ## where the configuration comes from (consensus/crdt/config.go)

`Default()`, `LoadJSON(file)`, `ApplyEnvVars()` (with `CLUSTER_CRDT_TRUSTEDPEERS` unset or set to a
comma-separated list) and `ToJSON()`. `ApplyEnvVars` renders the current configuration to its JSON
form, lets the environment overwrite fields, and runs the same `applyJSONConfig` as `LoadJSON`. -/

inductive Source where
  | default                                   -- `cfg.Default()`
  | load (raw : List (Option Nat))            -- `cfg.LoadJSON` of a file whose trusted_peers is `raw`
  | env (v : Option (List (Option Nat)))      -- `cfg.ApplyEnvVars()`; `none`: the variable is unset
  deriving Repr, DecidableEq

/-- what the translator reads off config.go -/
structure CfgShape where
  /-- `DefaultTrustAll` (and `DefaultTrustedPeers` is empty) -/
  defaultTrustAll : Bool
  /-- `LoadJSON` calls `cfg.Default()` before applying the file -/
  loadDefaults : Bool
  /-- `LoadJSON` itself assigns `cfg.TrustAll = false` before applying the file -/
  loadResetsTrustAll : Bool
  /-- `applyJSONConfig` starts with `cfg.TrustAll = false` -/
  applyResetsTrustAll : Bool
  /-- `applyJSONConfig` starts with `cfg.TrustedPeers = []peer.ID{}` -/
  applyResetsPeers : Bool
  deriving Repr

/-- the loop of `applyJSONConfig`: "*" sets TrustAll, empties the list and stops; ids are appended -/
def loopTrusted (ta : Bool) : List (Option Nat) → List Nat → TrustCfg
  | [], acc => { trustAll := ta, listed := acc.reverse }
  | none :: _, _ => { trustAll := true, listed := [] }
  | some p :: rest, acc => loopTrusted ta rest (p :: acc)

def applyJSON (sh : CfgShape) (st : TrustCfg) (raw : List (Option Nat)) : TrustCfg :=
  loopTrusted (if sh.applyResetsTrustAll then false else st.trustAll) raw
    (if sh.applyResetsPeers then [] else st.listed.reverse)

/-- `toJSONConfig`: `["*"]` when TrustAll, else the list -/
def toJSONTrust (st : TrustCfg) : List (Option Nat) :=
  if st.trustAll then [none] else st.listed.map some

def defaultCfg (sh : CfgShape) : TrustCfg := { trustAll := sh.defaultTrustAll, listed := [] }

def cfgStep (sh : CfgShape) (st : TrustCfg) : Source → TrustCfg
  | .default => defaultCfg sh
  | .load raw =>
    let d := if sh.loadDefaults then defaultCfg sh else st
    applyJSON sh (if sh.loadResetsTrustAll then { d with trustAll := false } else d) raw
  | .env none => applyJSON sh st (toJSONTrust st)
  | .env (some raw) => applyJSON sh st raw

/-- TrustAll / TrustedPeers of a zero `Config` after the sources, in order -/
def trustOf (sh : CfgShape) (srcs : List Source) : TrustCfg :=
  srcs.foldl (cfgStep sh) { trustAll := false, listed := [] }

/-! ## callers and the RPC server -/

inductive Caller where
  | self
  | remote (p : Nat)
  deriving DecidableEq, Repr

/-- does a call from `caller` to `ep` pass the authorization step? `self`: in-process, no check.
    `guarded`: the server was created with the closure installed (`rpc.WithAuthorizeFunc`);
    a server without it lets every remote call through. -/
def passes (guarded : Bool) (cl : Closure) (pol : Policy) (sh : ConsensusShape) (cfg : TrustCfg) (ops : List TOp)
    (self : Nat) (caller : Caller) (ep : String) : Bool :=
  match caller with
  | .self => true
  | .remote p => !guarded || authorizeWith cl pol (trustedAfterCfg sh cfg ops self p) ep

/-! ## pubsub delivery of pinset updates (CRDT) -/

/-- a published update: signer, the pin, and whether it adds (`true`) or removes it -/
structure Msg where
  signer : Nat
  pin : Nat
  add : Bool
  deriving Repr, DecidableEq

def accepts (sh : ConsensusShape) (cfg : TrustCfg) (self : Nat) (set : List Nat) (m : Msg) : Bool :=
  match sh.validator with
  | .trustedSigner => isTrusted sh cfg self set m.signer
  | .acceptAll => true

/-- the observer's pinset after one delivered message -/
def deliver (sh : ConsensusShape) (cfg : TrustCfg) (self : Nat) (set : List Nat) (pins : List Nat) (m : Msg) : List Nat :=
  if accepts sh cfg self set m then (if m.add then setInsert pins m.pin else setDelete pins m.pin) else pins

def deliverAll (sh : ConsensusShape) (cfg : TrustCfg) (self : Nat) (set : List Nat) (pins : List Nat) (ms : List Msg) : List Nat :=
  ms.foldl (deliver sh cfg self set) pins

/-! ## where the policy table comes from (cluster_config.go, cmd/ipfs-cluster-follow)

The RPC server reads `c.config.RPCPolicy`. A cluster `Config` is built by `Default()`, `LoadJSON(file)`,
`ApplyEnvVars()`; `ipfs-cluster-follow` then assigns into the table. The translator reads who assigns
`RPCPolicy` (`PolShape`), the model interprets it: the table in effect after a sequence of sources, for a
file / an environment that TRY to carry policy entries (under the key spellings the harness injects). -/

/-- one configuration step of the cluster `Config` -/
inductive PSource where
  | default                                -- `cfg.Default()`
  | load (extra : List (String × Int))     -- `cfg.LoadJSON(valid file + an "rpc_policy"-like object with these entries)`
  | env (extra : List (String × Int))      -- `cfg.ApplyEnvVars()` with CLUSTER_RPCPOLICY-like variables set to these entries
  | follower                               -- the keyed assignments of cmd/ipfs-cluster-follow
  /-- the daemon's path (round 8b): a FRESH `Config` registered with a config.Manager by `cmdutils.NewLoadedConfigHelper`
      (`LoadJSONFileAndEnv`: `LoadJSON` of a service.json carrying these entries, then `ApplyEnvVars`), then
      `SetupTracing`; what the daemon hands to `NewCluster` is `Configs().Cluster` -/
  | helper (extra : List (String × Int))
  deriving Repr, DecidableEq

/-- a keyed assignment `<cfg>.RPCPolicy["k"] = v` found outside `setDefaults` -/
structure PolWrite where
  /-- package directory and enclosing function of the assignment -/
  dir : String
  fn : String
  key : String
  value : Int
  deriving Repr, DecidableEq

/-- what the translator reads off cluster_config.go and every other non-test file that mentions `RPCPolicy` -/
structure PolShape where
  /-- `setDefaults` contains `cfg.RPCPolicy = DefaultRPCPolicy` -/
  setDefaultsInstalls : Bool
  /-- `Default()` / `LoadJSON()` call `cfg.setDefaults()` -/
  defaultCallsSetDefaults : Bool
  loadCallsSetDefaults : Bool
  /-- JSON keys of `configJSON` fields that could carry a table (map-typed, or named like the policy);
      such a field is also what envconfig would fill from `CLUSTER_<KEY>` -/
  jsonPolicyKeys : List String
  /-- does `applyConfigJSON` (shared by LoadJSON and ApplyEnvVars) assign or index `cfg.RPCPolicy` -/
  applyWritesPolicy : Bool
  /-- keyed assignments into the table anywhere else (site, key, value) -/
  keyedWrites : List PolWrite
  /-- assignments to / deletions from `RPCPolicy` or `DefaultRPCPolicy` the translator could not read -/
  unknownWrites : List String
  deriving Repr

/-- `setDefaults` assigns the package-level map itself (`cfg.RPCPolicy = DefaultRPCPolicy`: shared, not copied), so a
    keyed assignment through the `Config` edits `DefaultRPCPolicy`. State: that map, and whether the `Config` points
    to it yet (`false`: Go's nil map, every lookup misses) -/
structure PolState where
  global : Policy
  installed : Bool
  deriving Repr

/-- the keys the harness spells an injected table with -/
def injectedKeys : List String := ["rpc_policy", "rpcpolicy", "RPCPolicy"]

/-- entries of a file / the environment reach the table only if `configJSON` has a field for them that
    `applyConfigJSON` applies -/
def carries (sh : PolShape) : Bool := sh.applyWritesPolicy && sh.jsonPolicyKeys.any injectedKeys.contains

def mergeEntries (pol : Policy) (extra : List (String × Int)) : Policy :=
  extra.foldl (fun p e => override p e.1 (some e.2)) pol

/-- the keyed writes the translator found inside package `cmdutils` (none today) -/
def helperWrites (sh : PolShape) : List PolWrite := sh.keyedWrites.filter (fun w => w.dir == "cmdutils")

/-- does a fresh `Config` get the table from `LoadJSON` -/
def freshInstalled (sh : PolShape) : Bool := sh.loadCallsSetDefaults && sh.setDefaultsInstalls

def polStep (sh : PolShape) (st : PolState) : PSource → PolState
  | .default => { st with installed := st.installed || (sh.defaultCallsSetDefaults && sh.setDefaultsInstalls) }
  | .load extra =>
    let inst := st.installed || (sh.loadCallsSetDefaults && sh.setDefaultsInstalls)
    { global := if carries sh && inst then mergeEntries st.global extra else st.global, installed := inst }
  | .env extra => { st with global := if carries sh && st.installed then mergeEntries st.global extra else st.global }
  | .follower =>
    { st with global := if st.installed then sh.keyedWrites.foldl (fun q w => override q w.key (some w.value)) st.global
                        else st.global }
  | .helper extra =>
    { global := if freshInstalled sh then
                  (helperWrites sh).foldl (fun q w => override q w.key (some w.value))
                    (if carries sh then mergeEntries st.global extra else st.global)
                else st.global,
      installed := freshInstalled sh }

/-- state after the steps, in order, starting from a zero `Config` and the shipped table -/
def policyAfter (sh : PolShape) (shipped : Policy) (srcs : List PSource) : PolState :=
  srcs.foldl (polStep sh) { global := shipped, installed := false }

/-- the table the closure looks names up in (nil map: nothing found) -/
def PolState.table (st : PolState) : Policy := if st.installed then st.global else []

def policyOf (sh : PolShape) (shipped : Policy) (srcs : List PSource) : Policy :=
  (policyAfter sh shipped srcs).table


/-! ## what the handlers behind the endpoints reach (rpc_api.go, the methods of *Cluster) -/

/-- regenerated by the translator, per endpoint: `calls` = (field of the Cluster / API struct, method) reached by the handler
    (for the open endpoints: transitively through the methods of `*Cluster`); `forwards` = endpoints the serving peer calls
    over RPC while serving the request - with ITS credentials, not the caller's (`"?"`: not a literal); `unread` = uses the
    translator cannot follow (the Cluster handed to a function, a method value, another receiver field) -/
structure Reach where
  svc : String
  ep : String
  calls : List (String × String)
  forwards : List String
  unread : List String
  deriving Repr, DecidableEq

/-- the component an API type wraps, by service name -/
def componentOf (svc : String) : String :=
  if svc == "Cluster" then "c" else if svc == "PinTracker" then "tracker" else if svc == "IPFSConnector" then "ipfs"
  else if svc == "Consensus" then "consensus" else if svc == "PeerMonitor" then "monitor" else "?"

/-! ## Round 8c: how the daemons assemble the REST API and the consensus component
(cmd/ipfs-cluster-service/daemon.go, cmd/ipfs-cluster-follow/commands.go, api/rest/restapi.go) -/

/-- the consensus condition a call site sits under: none, `GetConsensus() == <k>.ConfigKey()` (or `case <k>`), its negation
    (`else` arm / `!=`), the `default` arm of a switch over the consensus -/
inductive DGuard where
  | always
  | only (k : String)
  | unless (k : String)
  | other
  deriving Repr, DecidableEq

/-- does the guard let the site run when the configured consensus is `m` (`"raft"` | `"crdt"`) -/
def DGuard.admits : DGuard → String → Bool
  | .always, _ => true
  | .only k, m => k == m
  | .unless k, m => k != m
  | .other, _ => false

/-- the host argument of a REST constructor call -/
inductive RHost where
  | none      -- `nil`
  | cluster   -- the host that is also handed to NewCluster: every swarm peer can open streams to it
  | other
  deriving Repr, DecidableEq

structure RestSite where
  dir : String
  fn : String
  ctor : String
  host : RHost
  guard : DGuard
  deriving Repr, DecidableEq

structure ConsSite where
  dir : String
  fn : String
  ctor : String
  guard : DGuard
  deriving Repr, DecidableEq

/-- where the consensus argument of a `NewCluster` call comes from -/
inductive ConsSource where
  | direct (ctor : String)   -- assigned from raft.NewConsensus / crdt.New in the same function
  | via (fn : String)        -- assigned from a call of a function of the same package
  | unknown
  deriving Repr, DecidableEq

structure ClusterSite where
  dir : String
  fn : String
  source : ConsSource
  deriving Repr, DecidableEq

structure DaemonShape where
  restSites : List RestSite
  consSites : List ConsSite
  clusterSites : List ClusterSite
  /-- `NewAPI(ctx, cfg) = NewAPIWithHost(ctx, cfg, nil)` -/
  newAPINilHost : Bool
  /-- `NewAPIWithHost` stores its host parameter in `API.host` -/
  storesHostParam : Bool
  /-- setupLibp2p: `if len(api.config.Libp2pListenAddr) > 0 { … api.host = <a new libp2p host with the API's own key> }` -/
  ownHostWhenAddr : Bool
  /-- setupLibp2p: `if api.host == nil { return nil }` before the listener is made -/
  noHostNoListener : Bool
  /-- the host `gostream.Listen` is called on -/
  listensOn : String
  /-- any other assignment to a field `host` in api/rest -/
  hostWriters : List String
  /-- the http.Server's handler is built from `basicAuthHandler(cfg.BasicAuthCredentials, …)` -/
  authWrapsHandler : Bool
  /-- what serves the libp2p listener -/
  libp2pServer : String
  deriving Repr

/-- the host a constructor call leaves in `API.host` -/
def RestSite.given (sh : DaemonShape) (s : RestSite) : RHost :=
  if s.ctor == "NewAPI" then (if sh.newAPINilHost then .none else .other)
  else if s.ctor == "NewAPIWithHost" && sh.storesHostParam then s.host else .other

/-- where the REST API's libp2p listener sits -/
inductive Exposure where
  | noListener
  | ownHost      -- a separate libp2p host with the API's own key and listen address: an explicit operator choice
  | clusterHost  -- the cluster's host: every peer of the swarm (everybody with the cluster secret) can open HTTP streams
  | unknown
  deriving Repr, DecidableEq

/-- setupLibp2p, interpreted: `given` = API.host after the constructor, `addr` = is `libp2p_listen_multiaddress` configured -/
def exposureOf (sh : DaemonShape) (given : RHost) (addr : Bool) : Exposure :=
  if sh.listensOn != "api.host" || !sh.hostWriters.isEmpty then .unknown
  else if addr then (if sh.ownHostWhenAddr then .ownHost else match given with
    | .none => if sh.noHostNoListener then .noListener else .unknown
    | .cluster => .clusterHost
    | .other => .unknown)
  else match given with
    | .none => if sh.noHostNoListener then .noListener else .unknown
    | .cluster => .clusterHost
    | .other => .unknown

def restSitesFor (sh : DaemonShape) (dir m : String) : List RestSite :=
  sh.restSites.filter (fun s => s.dir == dir && s.guard.admits m)

/-- the REST constructor call a daemon of directory `dir` makes when the configured consensus is `m`
    (`none` unless exactly one site applies) -/
def restSiteFor (sh : DaemonShape) (dir m : String) : Option RestSite :=
  match restSitesFor sh dir m with
  | [s] => some s
  | _ => none

/-- where the REST API of that daemon listens for libp2p streams -/
def daemonExposure (sh : DaemonShape) (dir m : String) (addr : Bool) : Exposure :=
  match restSiteFor sh dir m with
  | some s => exposureOf sh (s.given sh) addr
  | none => .unknown

/-- the consensus component the daemon of `dir` hands to NewCluster when the configured consensus is `m` -/
def daemonConsensus (sh : DaemonShape) (dir m : String) : Option String :=
  match sh.clusterSites.filter (fun c => c.dir == dir) with
  | [c] =>
    let sites : List ConsSite := match c.source with
      | .direct ctor => sh.consSites.filter (fun (s : ConsSite) => s.dir == dir && s.fn == c.fn && s.ctor == ctor && s.guard.admits m)
      | .via fn => sh.consSites.filter (fun (s : ConsSite) => s.dir == dir && s.fn == fn && s.guard.admits m)
      | .unknown => []
    match sites with
    | [s] => some s.ctor
    | _ => none
  | _ => none

/-- can a peer that holds nothing but the cluster secret (it can connect to the cluster host, it has no credentials and is
    not necessarily trusted) get a request to a REST route: only through a listener on the cluster host, and then only if
    basic authentication is off (C11's `auth_gate`: with credentials configured every route answers 401 without them) -/
def swarmPeerReachesRest (e : Exposure) (basicAuth : Bool) : Bool :=
  e == .clusterHost && !basicAuth

/-! ### metrics (monitor/pubsubmon): what an unvalidated metric can influence

The metrics topic has no validator and `metric.Peer` comes from the payload, so every swarm peer - trusted or not - can put
metrics under anybody's name into a peer's store. `MetricView` is what the allocator and the failure detector read. The
authorization decision (`authorizeWith`) does not take it as an input; allocations do. -/

/-- one metric as the store keeps it: claimed peer (payload), value, still valid -/
structure Metric where
  peer : Nat
  value : Nat
  valid : Bool
  deriving Repr, DecidableEq

/-- a peer state as far as C07 is concerned: the policy table, the trusted set, the metric store -/
structure AuthState where
  pol : Policy
  trustedSet : List Nat
  metrics : List Metric

/-- an unauthenticated metric arrives (pubsubmon.logFromPubsub -> metrics.Store.Add): only the store changes -/
def injectMetric (st : AuthState) (m : Metric) : AuthState := { st with metrics := m :: st.metrics }

/-- the authorization of a remote call in that state -/
def authorizeIn (cl : Closure) (st : AuthState) (caller : Nat) (ep : String) : Bool :=
  authorizeWith cl st.pol (st.trustedSet.contains caller) ep

/-- the candidates of an allocation (`allocate`: `monitor.LatestMetrics`): the peers with a valid metric, restricted to the
    consensus peerset only when the monitor was given one (`peersF`: the service daemon passes `cons.Peers` in Raft mode and
    nil in CRDT mode, ipfs-cluster-follow passes nil). There is NO restriction to trusted peers. -/
def allocCandidates (peerset : Option (List Nat)) (st : AuthState) : List Nat :=
  let l := (st.metrics.filter (·.valid)).map (·.peer)
  match peerset with
  | none => l
  | some ps => l.filter ps.contains

end CV.C07
