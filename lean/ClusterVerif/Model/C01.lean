/-
C01 — model of the Raft replicas of the pinset (core Lean only).

What is modelled (code read: consensus/raft/{consensus,log_op,raft}.go, state/dsstate/datastore.go,
go-libp2p-raft@v0.1.7 fsm.go/codec.go/consensus.go, hashicorp/raft@v1.1.1 snapshot.go/fsm.go):

* the committed sequence `ops` of `LogOp`s is a parameter (Raft gives every member the same sequence:
  trusted); a log entry is msgpack(LogOp{Cid: pin, Type}) — for an unpin the WHOLE pin travels too;
* `FSM.Apply`: decode onto the one shared `LogOp` (`baseOp`), then `LogOp.ApplyTo`:
  pin ↦ `state.Add` (protobuf form of the pin = `Pin.stored`) then `PinTracker.Track(pin)`,
  unpin ↦ `state.Rm(pin.Cid)` then `PinTracker.Untrack(pin)`, both called SYNCHRONOUSLY
  (`rpcClient.CallContext`, since 2ba6875; an error of the tracker is logged, not returned);
  `initialized := true`.
  An op whose pin has origins (or an undefined cid / reference) cannot be decoded. Since 3d753d4
  `commit()` refuses such an op before any attempt (`Model/C01Commit.lean`, `Model/C01Gate.lean`:
  it never reaches the log), so the following corner is NOT reachable through LogPin / LogUnpin
  any more (`gated_never_inconsistent`); it is kept as the FSM's behaviour on a raw log entry
  (written by a peer without that check): the fallback "is it a
  rollback" decode (`dsstate.Unmarshal` of the same bytes) is rejected too, so
  `inconsistent := true`, nothing else changes, `Apply` returns nil — and `LogOp.Cid` keeps pointing
  at the half-decoded pin (`poisoned`): the next pin op is decoded onto it, keeps the `[nil,…]`
  origins and panics in `ProtoMarshal` (process crash); `ApplyTo` nils `LogOp.Cid` first, so an unpin
  op clears the stale pointer without a crash. A decodable op applied while `inconsistent` still
  changes the store (Apply does not look at the flag);
* the tracker calls are made synchronously from the FSM goroutine: the tracker receives them in the
  order the entries are applied (`arrivalAllowed` = equality; `arrivalAllowedAsync` is the dispatch the
  code had before 2ba6875, kept as a refuted alternative);
* `FSM.Snapshot()` only returns a handle (refused when not initialized or inconsistent); the state is
  serialised by `Persist()`, which hashicorp/raft calls later while entries keep being applied:
  `snapBegin` records the index, `snapPersist` captures the store AS IT IS THEN;
* `FSM.Restore` = `dsstate.Unmarshal` onto the live state: the namespace is emptied, then loaded
  (fix aaef85d + 6b95ff7), `initialized := true`, `inconsistent := false`; used by InstallSnapshot
  (`install src`: the newest snapshot of replica `src`; the follower stores it too) and at start-up;
* `shutdown` = snapshotOnShutdown (snapshot of the applied state if the FSM allows it) then down;
  `kill` = down without snapshot; `restart` = fresh in-memory datastore (cmdutils raftStateManager
  .GetStore is inmem), newest local snapshot restored, `applied` = its index (raft re-applies the
  rest of its log: `apply` events). Raft keeps every log entry after its newest snapshot (trusted).
* what a peer serves: `Consensus.State()` = empty state when not initialized, error when
  inconsistent, else the dsstate.
-/
import ClusterVerif.Model.Pin
namespace CV.C01
open CV

/-- a committed log entry -/
inductive Op where
  | pin (p : Pin)
  | unpin (p : Pin)
  deriving DecidableEq, Repr

def Op.thePin : Op → Pin
  | .pin p => p
  | .unpin p => p

def Op.isPin : Op → Bool
  | .pin _ => true
  | .unpin _ => false

/-- the name (in the harness' cid table) of the undefined cid `cid.Undef` -/
def undefCid : Nat := 63

/-- msgpack can rebuild the LogOp: no origins in its pin (`[]multiaddr.Multiaddr`), and neither its cid nor
    its reference is `cid.Undef` (an undefined cid is written as an empty byte string, which `cid.Cid`
    refuses to read back; 9d8b946 stopped the adder from producing such references) -/
def Op.decodable (o : Op) : Bool :=
  o.thePin.opts.origins.isEmpty && o.thePin.cid != undefCid && o.thePin.ref != some undefCid

/-- `LogOp.ApplyTo` on the state: pin inserts or replaces the entry of its cid (in stored form), unpin deletes it -/
def applyOp (m : PinMap) : Op → PinMap
  | .pin p => PinMap.put p.stored m
  | .unpin p => m.erase p.cid

def replay (ops : List Op) : PinMap := ops.foldl applyOp []

/-- what `ApplyTo` hands to the local pin tracker -/
inductive Call where
  | track (p : Pin)
  | untrack (p : Pin)
  deriving DecidableEq, Repr

def callOf : Op → Call
  | .pin p => .track p
  | .unpin p => .untrack p

def Call.cid : Call → Nat
  | .track p => p.cid
  | .untrack p => p.cid

def Call.isTrack : Call → Bool
  | .track _ => true
  | .untrack _ => false

/-- `ApplyTo` calls the tracker with `rpcClient.CallContext` and waits for the answer before it returns:
    the calls of entries applied back to back reach the tracker in exactly that order. -/
def arrivalAllowed (dispatched arrived : List Call) : Bool := arrived == dispatched

/-- the code before 2ba6875: `rpcClient.GoContext`, one goroutine per call, not awaited — the calls of
    entries applied back to back could reach the tracker in any order (refuted alternative, see
    `async_handoff_order_fails`) -/
def arrivalAllowedAsync (dispatched arrived : List Call) : Bool := arrived.isPerm dispatched

/-- the calls `ApplyTo` makes for the committed entries `a .. a+k-1`, in log order -/
def sentFor (ops : List Op) (a k : Nat) : List Call := ((ops.drop a).take k).map callOf

structure Snap where
  idx : Nat
  content : PinMap
  deriving DecidableEq, Repr

structure Replica where
  up : Bool := true
  store : PinMap := []
  applied : Nat := 0
  initialized : Bool := false
  inconsistent : Bool := false
  poisoned : Bool := false
  pending : Option Nat := none
  snaps : List Snap := []
  deriving DecidableEq, Repr

inductive Ev where
  | apply
  | snapBegin
  | snapPersist
  | install (src : Nat)
  | shutdown
  | kill
  | restart
  | offline   -- no state change: `OfflineState` read of a stopped peer's data folder
  deriving DecidableEq, Repr

inductive Res where
  | ok      -- the event happened
  | noop    -- not enabled (peer down / up, nothing to apply, nothing pending, no snapshot to install)
  | err     -- the FSM refused (Apply returned nil; Snapshot() refused)
  | crash   -- the FSM panicked: the process is gone
  deriving DecidableEq, Repr

structure StepOut where
  res : Res
  calls : List Call := []
  deriving DecidableEq, Repr

/-- the snapshot a FileSnapshotStore lists first: highest index, the most recently written among equals
    (`snaps` has the most recently written first) -/
def newest : List Snap → Option Snap
  | [] => none
  | s :: rest =>
    match newest rest with
    | none => some s
    | some t => if t.idx > s.idx then some t else some s

/-- `FSM.Restore(bytes of s)` -/
def Replica.restore (r : Replica) (s : Snap) : Replica :=
  { r with store := s.content, initialized := true, inconsistent := false, applied := s.idx }

/-- the snapshot `Persist` writes now under the index recorded by `Snapshot()` -/
def Replica.canSnapshot (r : Replica) : Bool := r.initialized && !r.inconsistent

def down (r : Replica) : Replica :=
  { r with up := false, pending := none }

def stepR (ops : List Op) (r : Replica) (srcSnap : Option Snap) : Ev → Replica × StepOut
  | .apply =>
    if !r.up then (r, { res := .noop }) else
    match ops[r.applied]? with
    | none => (r, { res := .noop })
    | some op =>
      if !op.decodable then
        ({ r with inconsistent := true, poisoned := true, applied := r.applied + 1 }, { res := .err })
      else if r.poisoned && op.isPin then
        (down { r with poisoned := false }, { res := .crash })
      else
        ({ r with store := applyOp r.store op, initialized := true, poisoned := false, applied := r.applied + 1 },
         { res := .ok, calls := [callOf op] })
  | .snapBegin =>
    if !r.up || r.pending.isSome then (r, { res := .noop }) else
    if !r.canSnapshot then (r, { res := .err }) else
    ({ r with pending := some r.applied }, { res := .ok })
  | .snapPersist =>
    if !r.up then (r, { res := .noop }) else
    match r.pending with
    | none => (r, { res := .noop })
    | some k => ({ r with pending := none, snaps := ⟨k, r.store⟩ :: r.snaps }, { res := .ok })
  | .install _ =>
    if !r.up then (r, { res := .noop }) else
    match srcSnap with
    | none => (r, { res := .noop })
    | some s =>
      -- a leader only sends a snapshot to a follower that is behind it
      if s.idx < r.applied then (r, { res := .noop }) else
      ({ r.restore s with snaps := s :: r.snaps }, { res := .ok })
  | .shutdown =>
    if !r.up then (r, { res := .noop }) else
    if r.canSnapshot then (down { r with snaps := ⟨r.applied, r.store⟩ :: r.snaps }, { res := .ok })
    else (down r, { res := .err })
  | .kill =>
    if !r.up then (r, { res := .noop }) else (down r, { res := .ok })
  | .restart =>
    if r.up then (r, { res := .noop }) else
    let fresh : Replica := { r with up := true, store := [], applied := 0, initialized := false,
                                    inconsistent := false, poisoned := false, pending := none }
    match newest r.snaps with
    | none => (fresh, { res := .ok })
    | some s => (fresh.restore s, { res := .ok })
  | .offline => (r, { res := if r.up then .noop else .ok })

abbrev Sys := List Replica

def initSys (n : Nat) : Sys := List.replicate n {}

def srcSnapOf (s : Sys) : Ev → Option Snap
  | .install j => (s[j]?).bind (fun r => newest r.snaps)
  | _ => none

def step (ops : List Op) (s : Sys) (i : Nat) (e : Ev) : Sys × StepOut :=
  match s[i]? with
  | none => (s, { res := .noop })
  | some r =>
    let (r', o) := stepR ops r (srcSnapOf s e) e
    (s.set i r', o)

def run (ops : List Op) (s : Sys) (evs : List (Nat × Ev)) : Sys :=
  evs.foldl (fun s ie => (step ops s ie.1 ie.2).1) s

/-- the calls the tracker of peer `i` receives while the system goes through `evs`, in the order they
    are made (each is awaited before the FSM goes on) -/
def callsAt (ops : List Op) (i : Nat) : Sys → List (Nat × Ev) → List Call
  | _, [] => []
  | s, (j, e) :: rest =>
    (if j = i then (step ops s j e).2.calls else []) ++ callsAt ops i (step ops s j e).1 rest

def Ev.isReset : Ev → Bool
  | .restart => true
  | .install _ => true
  | _ => false

/-- no event of the schedule restarts peer `i` or installs a snapshot on it: one incarnation of its
    tracker, fed by the log alone -/
def noReset (i : Nat) (evs : List (Nat × Ev)) : Bool :=
  evs.all (fun ie => !(ie.1 == i && ie.2.isReset))

/-- what `Consensus.State()` serves -/
inductive View where
  | down
  | error
  | pins (m : PinMap)
  deriving DecidableEq, Repr

def Replica.view (r : Replica) : View :=
  if !r.up then .down
  else if !r.initialized then .pins []      -- ErrNoState ↦ state.Empty()
  else if r.inconsistent then .error
  else .pins r.store

/-- `OfflineState(cfg, fresh store)`: the newest snapshot in the data folder, or the empty state -/
def Replica.offlineView (r : Replica) : PinMap := ((newest r.snaps).map (·.content)).getD []
def Replica.offlineIdx (r : Replica) : Nat := ((newest r.snaps).map (·.idx)).getD 0

/-- what is observed of a peer (state `r` after the event) : what it serves and how many entries its
    Raft has applied; for the offline read of a stopped peer, the newest snapshot and its index -/
def observe (r : Replica) : Ev → View × Nat
  | .offline => if r.up then (r.view, r.applied) else (.pins r.offlineView, r.offlineIdx)
  | _ => (r.view, r.applied)

/-- schedule restriction under which snapshots are point-in-time: nothing is applied or installed
    on a replica between its `Snapshot()` and the `Persist()` of that snapshot -/
def atomicStep (s : Sys) (i : Nat) : Ev → Bool
  | .apply => ((s[i]?).bind (·.pending)).isNone
  | .install _ => ((s[i]?).bind (·.pending)).isNone
  | _ => true

def atomicRun (ops : List Op) : Sys → List (Nat × Ev) → Bool
  | _, [] => true
  | s, (i, e) :: rest => atomicStep s i e && atomicRun ops (step ops s i e).1 rest

end CV.C01
