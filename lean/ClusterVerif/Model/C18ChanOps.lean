/-
C18 (round 8b) — semantic tie of the synchronisation models: channel operations (core Lean only).

`Gen.chanOps` (harness/extract_c18/chanops.go, go/ast) lists EVERY channel send and every `close(ch)` in a function of the ten
anchored files, with the class of a send: `blocking` (plain statement), `default` (case of a `select` with a `default:` clause),
`select` (case of a `select` without). `chanSites` says which instruction of which transcribed program each of them is.
`chanOpsOK` checks, by looking INTO the program (not at a text), that
* a `default` send is, in the model, an alternative of an instruction that has a default branch (`tryOp`),
* a `blocking` send is a plain one-alternative instruction,
* a `close` is present in the thread,
* every operation of the source is a known site (a NEW send / close in the anchored files fails closed) and every site still exists.
So the edits refuted in `more_wrong_edits_refuted` (t2, w1, q1: a queue send losing its `default:`) and (t3: a new `close`) change a
fact the model is compared with — while rewrites that keep the shape of the channel operations change nothing here.
-/
import ClusterVerif.Model.C18SyncProgs2

namespace CV.C18
open Sync Sync.Progs

/-- function `pkg|Recv.name`, `send` / `close`, channel expression, class -/
abbrev ChanOp := String × String × String × String

def opSendsOn (ch : Nat) : Op → Bool
  | .send c => Nat.beq c ch
  | _ => false

def opCloses (ch : Nat) : Op → Bool
  | .close c => Nat.beq c ch
  | _ => false

def hasSend (code : Code) (ch : Nat) : Bool := code.any fun ins => ins.alts.any fun a => opSendsOn ch a.op
def hasClose (code : Code) (ch : Nat) : Bool := code.any fun ins => ins.alts.any fun a => opCloses ch a.op

/-- every send on `ch` sits in an instruction with a `default:` branch -/
def sendsHaveDefault (code : Code) (ch : Nat) : Bool :=
  code.all fun ins => ins.alts.all fun a => !opSendsOn ch a.op || ins.dflt.isSome

/-- every send on `ch` is a plain statement: the only alternative, no default -/
def sendsPlain (code : Code) (ch : Nat) : Bool :=
  code.all fun ins => ins.alts.all fun a => !opSendsOn ch a.op || (ins.dflt.isNone && Nat.beq ins.alts.length 1)

/-- where the models transcribe each channel operation of the anchored files (thread code, channel index);
`none`: reviewed, in no model — `css.stateReady` is closed once by `setup` and only ever received from -/
def chanSites : List (String × String × String × Option (Code × Nat)) := [
  (".|Cluster.ready", "close", "c.readyCh", some (cStart true 6 2, 0)),
  (".|Cluster.Shutdown", "close", "c.doneCh", some (cShutdown, 1)),
  ("pintracker/stateless|Tracker.enqueue", "send", "ch", some (tTrack2, 1)),
  ("pintracker/stateless|Tracker.SetClient", "send", "spt.rpcReady", some (tMain false 1, 0)),
  ("pintracker/stateless|Tracker.Shutdown", "close", "spt.rpcReady", some (aShutdown, 0)),
  ("monitor/metrics|Checker.alert", "send", "mc.alertCh", some (wCheckAll false, 0)),
  ("consensus/crdt|Consensus.setup", "close", "css.stateReady", none),
  ("consensus/crdt|Consensus.setup", "send", "css.readyCh", some (bSetup 2, 1)),
  ("consensus/crdt|Consensus.Shutdown", "close", "css.rpcReady", some (bShutdown, 0)),
  ("consensus/crdt|Consensus.SetClient", "send", "css.rpcReady", some (progQ.headD [], 0)),
  ("consensus/crdt|Consensus.LogPin", "send", "css.batchItemCh", some (bLogPin3, 2)),
  ("consensus/crdt|Consensus.LogUnpin", "send", "css.batchItemCh", some (bLogPin3, 2)) ]

def sameSite (o : ChanOp) (s : String × String × String × Option (Code × Nat)) : Bool :=
  s.1 == o.1 && s.2.1 == o.2.1 && s.2.2.1 == o.2.2.1

/-- one operation of the source against the program that transcribes it -/
def chanOpOK (o : ChanOp) : Bool :=
  match chanSites.find? (sameSite o) with
  | none => false
  | some (_, _, _, none) => true
  | some (_, _, _, some (code, ch)) =>
    if o.2.1 == "close" then hasClose code ch
    else if o.2.2.2 == "default" then hasSend code ch && sendsHaveDefault code ch
    else if o.2.2.2 == "blocking" then hasSend code ch && sendsPlain code ch
    else false

def chanOpsOK (ops : List ChanOp) : Bool :=
  ops.all chanOpOK && chanSites.all (fun s => ops.any (fun o => sameSite o s))

/-- the shutdown threads of the models close nothing else: the only `close` of each `Shutdown` program is the one listed
(a `Shutdown` that also closes a queue — wrong edit t3 — is a new row of `Gen.chanOps`, hence an unknown site) -/
def closesOnly (code : Code) (chs : List Nat) : Bool :=
  code.all fun ins => ins.alts.all fun a => match a.op with | .close c => chs.contains c | _ => true

end CV.C18
