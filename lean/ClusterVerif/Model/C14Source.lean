/-!
# C14 — the source text the hand-written model transcribes (snapshot)

Taken with `tools/snapshot_skeleton.py C14` from the translator output after the model was last read against the source.
`Gen/C14.lean` is regenerated from /repo on every run and `Props/C14.lean` proves `Gen.f = Expected.f` for every function below
(`rfl`): an edit to any of these functions breaks that obligation, and the check then searches for a failing input with the
correspondence run (a rewrite that keeps the behaviour ends as `no-failing-input-found`, see DESIGN 2.2).
-/
namespace CV.C14.Expected


namespace Dsstate

/-- DefaultHandle -/
def f_DefaultHandle : List String := [
  "h := &codec.MsgpackHandle{}",
  "return h"
]

/-- New -/
def f_New : List String := [
  "if handle == nil {",
  "handle = DefaultHandle()",
  "}",
  "st := &State{",
  "dsRead: dstore,",
  "dsWrite: dstore,",
  "codecHandle: handle,",
  "namespace: ds.NewKey(namespace),",
  "}",
  "return st, nil"
]

/-- State_Add -/
def f_State_Add : List String := [
  "ps, err := st.serializePin(c)",
  "if err != nil {",
  "return err",
  "}",
  "return st.dsWrite.Put(st.key(c.Cid), ps)"
]

/-- State_Rm -/
def f_State_Rm : List String := [
  "err := st.dsWrite.Delete(st.key(c))",
  "if err == ds.ErrNotFound {",
  "return nil",
  "}",
  "return err"
]

/-- State_Get -/
def f_State_Get : List String := [
  "v, err := st.dsRead.Get(st.key(c))",
  "if err != nil {",
  "if err == ds.ErrNotFound {",
  "return nil, state.ErrNotFound",
  "}",
  "return nil, err",
  "}",
  "p, err := st.deserializePin(c, v)",
  "if err != nil {",
  "return nil, err",
  "}",
  "return p, nil"
]

/-- State_Has -/
def f_State_Has : List String := [
  "ok, err := st.dsRead.Has(st.key(c))",
  "if err != nil {",
  "return false, err",
  "}",
  "return ok, nil"
]

/-- State_List -/
def f_State_List : List String := [
  "q := query.Query{",
  "Prefix: st.namespace.String(),",
  "}",
  "results, err := st.dsRead.Query(q)",
  "if err != nil {",
  "return nil, err",
  "}",
  "defer results.Close()",
  "var pins []*api.Pin",
  "for r := range results.Next() {",
  "if r.Error != nil {",
  "return pins, r.Error",
  "}",
  "k := ds.NewKey(r.Key)",
  "ci, err := st.unkey(k)",
  "if err != nil {",
  "continue",
  "}",
  "p, err := st.deserializePin(ci, r.Value)",
  "if err != nil {",
  "continue",
  "}",
  "pins = append(pins, p)",
  "}",
  "return pins, nil"
]

/-- State_Migrate -/
def f_State_Migrate : List String := [
  "return nil"
]

/-- State_Marshal -/
def f_State_Marshal : List String := [
  "q := query.Query{",
  "Prefix: st.namespace.String(),",
  "}",
  "results, err := st.dsRead.Query(q)",
  "if err != nil {",
  "return err",
  "}",
  "defer results.Close()",
  "enc := codec.NewEncoder(w, st.codecHandle)",
  "for r := range results.Next() {",
  "if r.Error != nil {",
  "return r.Error",
  "}",
  "k := ds.NewKey(r.Key)",
  "err := enc.Encode(serialEntry{",
  "Key: k.BaseNamespace(),",
  "Value: r.Value,",
  "})",
  "if err != nil {",
  "return err",
  "}",
  "}",
  "return nil"
]

/-- State_Unmarshal -/
def f_State_Unmarshal : List String := [
  "dec := codec.NewDecoder(r, st.codecHandle)",
  "var first serialEntry",
  "firstErr := dec.Decode(&first)",
  "if firstErr != nil && firstErr != io.EOF {",
  "return firstErr",
  "}",
  "if firstErr == nil && first.Key == S {",
  "return errors.New(S)",
  "}",
  "q := query.Query{",
  "Prefix: st.namespace.String(),",
  "KeysOnly: true,",
  "}",
  "results, err := st.dsRead.Query(q)",
  "if err != nil {",
  "return err",
  "}",
  "var oldKeys []ds.Key",
  "for res := range results.Next() {",
  "if res.Error != nil {",
  "results.Close()",
  "return res.Error",
  "}",
  "oldKeys = append(oldKeys, ds.NewKey(res.Key))",
  "}",
  "results.Close()",
  "for _, k := range oldKeys {",
  "if err := st.dsWrite.Delete(k); err != nil {",
  "return err",
  "}",
  "}",
  "if firstErr == io.EOF {",
  "return nil",
  "}",
  "entry := first",
  "for {",
  "if entry.Key == S {",
  "return errors.New(S)",
  "}",
  "k := st.namespace.Child(ds.NewKey(entry.Key))",
  "err := st.dsWrite.Put(k, entry.Value)",
  "if err != nil {",
  "return err",
  "}",
  "entry = serialEntry{}",
  "if err := dec.Decode(&entry); err == io.EOF {",
  "break",
  "} else if err != nil {",
  "return err",
  "}",
  "}",
  "return nil"
]

/-- cidToDsKey -/
def f_cidToDsKey : List String := [
  "return dshelp.NewKeyFromBinary(c.Bytes())"
]

/-- dsKeyToCid -/
def f_dsKeyToCid : List String := [
  "kb, err := dshelp.BinaryFromDsKey(k)",
  "if err != nil {",
  "return cid.Undef, err",
  "}",
  "return cid.Cast(kb)"
]

/-- State_key -/
def f_State_key : List String := [
  "k := cidToDsKey(c)",
  "return st.namespace.Child(k)"
]

/-- State_unkey -/
def f_State_unkey : List String := [
  "return dsKeyToCid(ds.NewKey(k.BaseNamespace()))"
]

/-- State_serializePin -/
def f_State_serializePin : List String := [
  "return c.ProtoMarshal()"
]

/-- State_deserializePin -/
def f_State_deserializePin : List String := [
  "p := &api.Pin{}",
  "err := p.ProtoUnmarshal(buf)",
  "p.Cid = c",
  "return p, err"
]

/-- NewBatching -/
def f_NewBatching : List String := [
  "if handle == nil {",
  "handle = DefaultHandle()",
  "}",
  "batch, err := dstore.Batch()",
  "if err != nil {",
  "return nil, err",
  "}",
  "st := &State{",
  "dsRead: dstore,",
  "dsWrite: batch,",
  "codecHandle: handle,",
  "namespace: ds.NewKey(namespace),",
  "}",
  "bst := &BatchingState{}",
  "bst.State = st",
  "bst.batch = batch",
  "return bst, nil"
]

/-- BatchingState_Commit -/
def f_BatchingState_Commit : List String := [
  "return bst.batch.Commit()"
]

end Dsstate

namespace DataHelper

/-- newDataBackupHelper -/
def f_newDataBackupHelper : List String := [
  "dataFolder = filepath.Clean(dataFolder)",
  "return &dataBackupHelper{",
  "baseDir: filepath.Dir(dataFolder),",
  "folderName: filepath.Base(dataFolder),",
  "keep: keep,",
  "}"
]

/-- dataBackupHelper_makeName -/
def f_dataBackupHelper_makeName : List String := [
  "return filepath.Join(dbh.baseDir, fmt.Sprintf(S, dbh.folderName, i))"
]

/-- dataBackupHelper_listBackups -/
def f_dataBackupHelper_listBackups : List String := [
  "backups := []string{}",
  "for i := 0; i < dbh.keep; i++ {",
  "name := dbh.makeName(i)",
  "if _, err := os.Stat(name); os.IsNotExist(err) {",
  "return backups",
  "}",
  "backups = append(backups, name)",
  "}",
  "return backups"
]

/-- dataBackupHelper_makeBackup -/
def f_dataBackupHelper_makeBackup : List String := [
  "folder := filepath.Join(dbh.baseDir, dbh.folderName)",
  "if _, err := os.Stat(folder); os.IsNotExist(err) {",
  "return nil",
  "}",
  "err := os.MkdirAll(dbh.baseDir, 0700)",
  "if err != nil {",
  "return err",
  "}",
  "backups := dbh.listBackups()",
  "if len(backups) >= dbh.keep {",
  "os.RemoveAll(backups[len(backups)-1])",
  "} else {",
  "backups = append(backups, dbh.makeName(len(backups)))",
  "}",
  "for i := len(backups) - 1; i > 0; i-- {",
  "err := os.Rename(backups[i-1], backups[i])",
  "if err != nil {",
  "return err",
  "}",
  "}",
  "return os.Rename(filepath.Join(dbh.baseDir, dbh.folderName), dbh.makeName(0))"
]

end DataHelper

namespace Raft

/-- SnapshotSave -/
def f_SnapshotSave : List String := [
  "dataFolder := cfg.GetDataFolder()",
  "err := makeDataFolder(dataFolder)",
  "if err != nil {",
  "return err",
  "}",
  "meta, _, err := latestSnapshot(dataFolder)",
  "if err != nil {",
  "return err",
  "}",
  "var raftSnapVersion hraft.SnapshotVersion = 1",
  "configIndex := uint64(1)",
  "var raftIndex uint64",
  "var raftTerm uint64",
  "var srvCfg hraft.Configuration",
  "if meta != nil {",
  "raftIndex = meta.Index",
  "raftTerm = meta.Term",
  "srvCfg = meta.Configuration",
  "CleanupRaft(cfg)",
  "} else {",
  "raftIndex = uint64(2)",
  "raftTerm = uint64(1)",
  "srvCfg = makeServerConf(pids)",
  "}",
  "snapshotStore, err := hraft.NewFileSnapshotStoreWithLogger(dataFolder, RaftMaxSnapshots, nil)",
  "if err != nil {",
  "return err",
  "}",
  "_, dummyTransport := hraft.NewInmemTransport(S)",
  "sink, err := snapshotStore.Create(raftSnapVersion, raftIndex, raftTerm, srvCfg, configIndex, dummyTransport)",
  "if err != nil {",
  "return err",
  "}",
  "err = p2praft.EncodeSnapshot(newState, sink)",
  "if err != nil {",
  "sink.Cancel()",
  "return err",
  "}",
  "err = sink.Close()",
  "if err != nil {",
  "return err",
  "}",
  "return nil"
]

/-- latestSnapshot -/
def f_latestSnapshot : List String := [
  "store, err := hraft.NewFileSnapshotStore(raftDataFolder, RaftMaxSnapshots, nil)",
  "if err != nil {",
  "return nil, nil, err",
  "}",
  "snapMetas, err := store.List()",
  "if err != nil {",
  "return nil, nil, err",
  "}",
  "if len(snapMetas) == 0 {",
  "return nil, nil, nil",
  "}",
  "meta, r, err := store.Open(snapMetas[0].ID)",
  "if err != nil {",
  "return nil, nil, err",
  "}",
  "return meta, r, nil"
]

/-- LastStateRaw -/
def f_LastStateRaw : List String := [
  "dataFolder := cfg.GetDataFolder()",
  "if _, err := os.Stat(dataFolder); os.IsNotExist(err) {",
  "return nil, false, nil",
  "}",
  "meta, r, err := latestSnapshot(dataFolder)",
  "if err != nil {",
  "return nil, false, err",
  "}",
  "if meta == nil {",
  "return nil, false, nil",
  "}",
  "return r, true, nil"
]

/-- CleanupRaft -/
def f_CleanupRaft : List String := [
  "dataFolder := cfg.GetDataFolder()",
  "keep := cfg.BackupsRotate",
  "meta, _, err := latestSnapshot(dataFolder)",
  "if meta == nil && err == nil {",
  "os.RemoveAll(dataFolder)",
  "return nil",
  "}",
  "dbh := newDataBackupHelper(dataFolder, keep)",
  "err = dbh.makeBackup()",
  "if err != nil {",
  "}",
  "return nil"
]

/-- raftWrapper_Clean -/
def f_raftWrapper_Clean : List String := [
  "return CleanupRaft(rw.config)"
]

/-- OfflineState -/
def f_OfflineState : List String := [
  "r, snapExists, err := LastStateRaw(cfg)",
  "if err != nil {",
  "return nil, err",
  "}",
  "st, err := dsstate.New(store, cfg.DatastoreNamespace, dsstate.DefaultHandle())",
  "if err != nil {",
  "return nil, err",
  "}",
  "if !snapExists {",
  "return st, nil",
  "}",
  "err = st.Unmarshal(r)",
  "if err != nil {",
  "return nil, err",
  "}",
  "return st, nil"
]

end Raft

namespace Pstoremgr

/-- New -/
def f_New : List String := [
  "return &Manager{",
  "ctx: ctx,",
  "host: h,",
  "peerstorePath: peerstorePath,",
  "}"
]

/-- Manager_ImportPeer -/
def f_Manager_ImportPeer : List String := [
  "if pm.host == nil {",
  "return S, nil",
  "}",
  "protos := addr.Protocols()",
  "if len(protos) > 0 && protos[0].Code == ma.P_DNSADDR {",
  "ctx, cancel := context.WithTimeout(pm.ctx, DNSTimeout)",
  "defer cancel()",
  "resolvedAddrs, err := madns.Resolve(ctx, addr)",
  "if err != nil {",
  "return S, err",
  "}",
  "if len(resolvedAddrs) == 0 {",
  "return S, fmt.Errorf(S, addr)",
  "}",
  "var pid peer.ID",
  "for _, add := range resolvedAddrs {",
  "pid, err = pm.ImportPeer(add, connect, ttl)",
  "if err != nil {",
  "return S, err",
  "}",
  "}",
  "return pid, nil",
  "}",
  "pinfo, err := peer.AddrInfoFromP2pAddr(addr)",
  "if err != nil {",
  "return S, err",
  "}",
  "if pinfo.ID == pm.host.ID() {",
  "return pinfo.ID, nil",
  "}",
  "pm.host.Peerstore().AddAddrs(pinfo.ID, pinfo.Addrs, ttl)",
  "if connect {",
  "go func() {",
  "ctx := net.WithDialPeerTimeout(pm.ctx, ConnectTimeout)",
  "pm.host.Connect(ctx, *pinfo)",
  "}()",
  "}",
  "return pinfo.ID, nil"
]

/-- Manager_RmPeer -/
def f_Manager_RmPeer : List String := [
  "if pm.host == nil {",
  "return nil",
  "}",
  "pm.host.Peerstore().ClearAddrs(pid)",
  "return nil"
]

/-- Manager_filteredPeerAddrs -/
def f_Manager_filteredPeerAddrs : List String := [
  "all := pm.host.Peerstore().Addrs(p)",
  "peerAddrs := []ma.Multiaddr{}",
  "peerDNSAddrs := []ma.Multiaddr{}",
  "for _, a := range all {",
  "if madns.Matches(a) {",
  "peerDNSAddrs = append(peerDNSAddrs, a)",
  "} else {",
  "peerAddrs = append(peerAddrs, a)",
  "}",
  "}",
  "if len(peerDNSAddrs) > 0 {",
  "return peerDNSAddrs",
  "}",
  "sort.Sort(byString(peerAddrs))",
  "return peerAddrs"
]

/-- Manager_PeerInfos -/
def f_Manager_PeerInfos : List String := [
  "if pm.host == nil {",
  "return nil",
  "}",
  "if peers == nil {",
  "return nil",
  "}",
  "var pinfos []peer.AddrInfo",
  "for _, p := range peers {",
  "if p == pm.host.ID() {",
  "continue",
  "}",
  "pinfo := peer.AddrInfo{",
  "ID: p,",
  "Addrs: pm.filteredPeerAddrs(p),",
  "}",
  "if len(pinfo.Addrs) > 0 {",
  "pinfos = append(pinfos, pinfo)",
  "}",
  "}",
  "toSort := &peerSort{",
  "pinfos: pinfos,",
  "pstore: pm.host.Peerstore(),",
  "}",
  "sort.Sort(toSort)",
  "return toSort.pinfos"
]

/-- Manager_ImportPeers -/
def f_Manager_ImportPeers : List String := [
  "for i, a := range addrs {",
  "pid, err := pm.ImportPeer(a, connect, ttl)",
  "if err == nil {",
  "pm.SetPriority(pid, i)",
  "}",
  "}",
  "return nil"
]

/-- Manager_ImportPeersFromPeerstore -/
def f_Manager_ImportPeersFromPeerstore : List String := [
  "return pm.ImportPeers(pm.LoadPeerstore(), connect, ttl)"
]

/-- Manager_LoadPeerstore -/
def f_Manager_LoadPeerstore : List String := [
  "if pm.peerstorePath == S {",
  "return",
  "}",
  "pm.peerstoreLock.Lock()",
  "defer pm.peerstoreLock.Unlock()",
  "f, err := os.Open(pm.peerstorePath)",
  "if err != nil {",
  "return",
  "}",
  "defer f.Close()",
  "reader := bufio.NewReader(f)",
  "for {",
  "line, rerr := reader.ReadString('\\n')",
  "addrStr := strings.TrimSuffix(strings.TrimSuffix(line, S), S)",
  "if len(addrStr) > 0 && addrStr[0] == '/' {",
  "addr, err := ma.NewMultiaddr(addrStr)",
  "if err != nil {",
  "} else {",
  "addrs = append(addrs, addr)",
  "}",
  "}",
  "if rerr != nil {",
  "if rerr != io.EOF {",
  "}",
  "break",
  "}",
  "}",
  "return addrs"
]

/-- Manager_SavePeerstore -/
def f_Manager_SavePeerstore : List String := [
  "if pm.peerstorePath == S {",
  "return nil",
  "}",
  "pm.peerstoreLock.Lock()",
  "defer pm.peerstoreLock.Unlock()",
  "tmpPath := pm.peerstorePath + S",
  "f, err := os.Create(tmpPath)",
  "if err != nil {",
  "return err",
  "}",
  "err = writePeerstore(f, pinfos)",
  "if err == nil {",
  "err = f.Sync()",
  "}",
  "if cerr := f.Close(); err == nil {",
  "err = cerr",
  "}",
  "if err == nil {",
  "err = os.Rename(tmpPath, pm.peerstorePath)",
  "}",
  "if err != nil {",
  "os.Remove(tmpPath)",
  "return err",
  "}",
  "return nil"
]

/-- writePeerstore -/
def f_writePeerstore : List String := [
  "for _, pinfo := range pinfos {",
  "if len(pinfo.Addrs) == 0 {",
  "continue",
  "}",
  "addrs, err := peer.AddrInfoToP2pAddrs(&pinfo)",
  "if err != nil {",
  "continue",
  "}",
  "for _, a := range addrs {",
  "_, err = f.Write([]byte(fmt.Sprintf(S, a.String())))",
  "if err != nil {",
  "return err",
  "}",
  "}",
  "}",
  "return nil"
]

/-- Manager_SavePeerstoreForPeers -/
def f_Manager_SavePeerstoreForPeers : List String := [
  "return pm.SavePeerstore(pm.PeerInfos(peers))"
]

/-- Manager_Bootstrap -/
def f_Manager_Bootstrap : List String := [
  "knownPeers := pm.host.Peerstore().PeersWithAddrs()",
  "toSort := &peerSort{",
  "pinfos: pstoreutil.PeerInfos(pm.host.Peerstore(), knownPeers),",
  "pstore: pm.host.Peerstore(),",
  "}",
  "sort.Sort(toSort)",
  "pinfos := toSort.pinfos",
  "lenKnown := len(pinfos)",
  "totalConns := 0",
  "connectedPeers := []peer.ID{}",
  "for i := 0; i < lenKnown && totalConns < count; i++ {",
  "pinfo := pinfos[i]",
  "ctx, cancel := context.WithTimeout(pm.ctx, ConnectTimeout)",
  "defer cancel()",
  "if pm.host.Network().Connectedness(pinfo.ID) == net.Connected {",
  "totalConns++",
  "continue",
  "}",
  "err := pm.host.Connect(ctx, pinfo)",
  "if err != nil {",
  "pm.SetPriority(pinfo.ID, 9999)",
  "continue",
  "}",
  "totalConns++",
  "connectedPeers = append(connectedPeers, pinfo.ID)",
  "}",
  "return connectedPeers"
]

/-- Manager_SetPriority -/
def f_Manager_SetPriority : List String := [
  "return pm.host.Peerstore().Put(pid, PriorityTag, prio)"
]

/-- Manager_HandlePeerFound -/
def f_Manager_HandlePeerFound : List String := [
  "addrs, err := peer.AddrInfoToP2pAddrs(&p)",
  "if err != nil {",
  "return",
  "}",
  "for _, a := range addrs {",
  "_, err = pm.ImportPeer(a, true, peerstore.ConnectedAddrTTL)",
  "if err != nil {",
  "}",
  "}"
]

/-- peerSort_Len -/
def f_peerSort_Len : List String := [
  "return len(ps.pinfos)"
]

/-- peerSort_Less -/
def f_peerSort_Less : List String := [
  "pinfo1 := ps.pinfos[i]",
  "pinfo2 := ps.pinfos[j]",
  "var prio1, prio2 int",
  "prio1iface, err := ps.pstore.Get(pinfo1.ID, PriorityTag)",
  "if err == nil {",
  "prio1 = prio1iface.(int)",
  "}",
  "prio2iface, err := ps.pstore.Get(pinfo2.ID, PriorityTag)",
  "if err == nil {",
  "prio2 = prio2iface.(int)",
  "}",
  "return prio1 < prio2"
]

/-- peerSort_Swap -/
def f_peerSort_Swap : List String := [
  "pinfo1 := ps.pinfos[i]",
  "pinfo2 := ps.pinfos[j]",
  "ps.pinfos[i] = pinfo2",
  "ps.pinfos[j] = pinfo1"
]

/-- byString_Len -/
def f_byString_Len : List String := [
  "return len(m)"
]

/-- byString_Swap -/
def f_byString_Swap : List String := [
  "m[i], m[j] = m[j], m[i]"
]

/-- byString_Less -/
def f_byString_Less : List String := [
  "return m[i].String() < m[j].String()"
]

end Pstoremgr

namespace Cmdutils

/-- NewStateManager -/
def f_NewStateManager : List String := [
  "switch consensus {",
  "case cfgs.Raft.ConfigKey():",
  "return &raftStateManager{ident, cfgs}, nil",
  "case cfgs.Crdt.ConfigKey():",
  "return &crdtStateManager{",
  "cfgs: cfgs,",
  "datastore: datastore,",
  "}, nil",
  "case S:",
  "return nil, errors.New(S)",
  "default:",
  "return nil, fmt.Errorf(S, consensus)",
  "}"
]

/-- NewStateManagerWithHelper -/
def f_NewStateManagerWithHelper : List String := [
  "return NewStateManager(",
  "cfgHelper.GetConsensus(),",
  "cfgHelper.GetDatastore(),",
  "cfgHelper.Identity(),",
  "cfgHelper.Configs(),",
  ")"
]

/-- raftStateManager_GetStore -/
def f_raftStateManager_GetStore : List String := [
  "return inmem.New(), nil"
]

/-- raftStateManager_GetOfflineState -/
def f_raftStateManager_GetOfflineState : List String := [
  "return raft.OfflineState(raftsm.cfgs.Raft, store)"
]

/-- raftStateManager_ImportState -/
def f_raftStateManager_ImportState : List String := [
  "err := raftsm.Clean()",
  "if err != nil {",
  "return err",
  "}",
  "store, err := raftsm.GetStore()",
  "if err != nil {",
  "return err",
  "}",
  "defer store.Close()",
  "st, err := raftsm.GetOfflineState(store)",
  "if err != nil {",
  "return err",
  "}",
  "_, err = importState(r, st)",
  "if err != nil {",
  "return err",
  "}",
  "pm := pstoremgr.New(context.Background(), nil, raftsm.cfgs.Cluster.GetPeerstorePath())",
  "raftPeers := append(",
  "ipfscluster.PeersFromMultiaddrs(pm.LoadPeerstore()),",
  "raftsm.ident.ID,",
  ")",
  "return raft.SnapshotSave(raftsm.cfgs.Raft, st, raftPeers)"
]

/-- raftStateManager_ExportState -/
def f_raftStateManager_ExportState : List String := [
  "store, err := raftsm.GetStore()",
  "if err != nil {",
  "return err",
  "}",
  "defer store.Close()",
  "st, err := raftsm.GetOfflineState(store)",
  "if err != nil {",
  "return err",
  "}",
  "return exportState(w, st)"
]

/-- raftStateManager_Clean -/
def f_raftStateManager_Clean : List String := [
  "return raft.CleanupRaft(raftsm.cfgs.Raft)"
]

/-- crdtStateManager_GetStore -/
def f_crdtStateManager_GetStore : List String := [
  "switch crdtsm.datastore {",
  "case crdtsm.cfgs.Badger.ConfigKey():",
  "return badger.New(crdtsm.cfgs.Badger)",
  "case crdtsm.cfgs.LevelDB.ConfigKey():",
  "return leveldb.New(crdtsm.cfgs.LevelDB)",
  "default:",
  "return nil, errors.New(S)",
  "}"
]

/-- crdtStateManager_GetOfflineState -/
def f_crdtStateManager_GetOfflineState : List String := [
  "return crdt.OfflineState(crdtsm.cfgs.Crdt, store)"
]

/-- crdtStateManager_ImportState -/
def f_crdtStateManager_ImportState : List String := [
  "err := crdtsm.Clean()",
  "if err != nil {",
  "return err",
  "}",
  "store, err := crdtsm.GetStore()",
  "if err != nil {",
  "return err",
  "}",
  "defer store.Close()",
  "st, err := crdtsm.GetOfflineState(store)",
  "if err != nil {",
  "return err",
  "}",
  "batchingSt := st.(state.BatchingState)",
  "n, err := importState(r, batchingSt)",
  "if err != nil {",
  "return err",
  "}",
  "if n == 0 {",
  "return nil",
  "}",
  "return batchingSt.Commit(context.Background())"
]

/-- crdtStateManager_ExportState -/
def f_crdtStateManager_ExportState : List String := [
  "store, err := crdtsm.GetStore()",
  "if err != nil {",
  "return err",
  "}",
  "defer store.Close()",
  "st, err := crdtsm.GetOfflineState(store)",
  "if err != nil {",
  "return err",
  "}",
  "return exportState(w, st)"
]

/-- crdtStateManager_Clean -/
def f_crdtStateManager_Clean : List String := [
  "store, err := crdtsm.GetStore()",
  "if err != nil {",
  "return err",
  "}",
  "defer store.Close()",
  "return crdt.Clean(context.Background(), crdtsm.cfgs.Crdt, store)"
]

/-- importState -/
def f_importState : List String := [
  "ctx := context.Background()",
  "dec := json.NewDecoder(r)",
  "n := 0",
  "for {",
  "var pin api.Pin",
  "err := dec.Decode(&pin)",
  "if err == io.EOF {",
  "return n, nil",
  "}",
  "if err != nil {",
  "return n, err",
  "}",
  "err = st.Add(ctx, &pin)",
  "if err != nil {",
  "return n, err",
  "}",
  "n++",
  "}"
]

/-- exportState -/
def f_exportState : List String := [
  "pins, err := st.List(context.Background())",
  "if err != nil {",
  "return err",
  "}",
  "enc := json.NewEncoder(w)",
  "for _, pin := range pins {",
  "err := enc.Encode(pin)",
  "if err != nil {",
  "return err",
  "}",
  "}",
  "return nil"
]

end Cmdutils

namespace FsCalls

/-- filesystem-relevant calls of listBackups -/
def c_dataBackupHelper_listBackups : List String := [
  "for{",
  "os.Stat",
  "if{",
  "return",
  "}",
  "}",
  "return"
]

/-- filesystem-relevant calls of makeBackup -/
def c_dataBackupHelper_makeBackup : List String := [
  "os.Stat",
  "if{",
  "return",
  "}",
  "os.MkdirAll",
  "if{",
  "return",
  "}",
  "dbh.listBackups",
  "if{",
  "os.RemoveAll",
  "}else{",
  "}",
  "for{",
  "os.Rename",
  "if{",
  "return",
  "}",
  "}",
  "os.Rename",
  "return"
]

/-- filesystem-relevant calls of CleanupRaft -/
def c__CleanupRaft : List String := [
  "latestSnapshot",
  "if{",
  "os.RemoveAll",
  "return",
  "}",
  "dbh.makeBackup",
  "return"
]

/-- filesystem-relevant calls of SnapshotSave -/
def c__SnapshotSave : List String := [
  "makeDataFolder",
  "if{",
  "return",
  "}",
  "latestSnapshot",
  "if{",
  "return",
  "}",
  "if{",
  "CleanupRaft",
  "}else{",
  "}",
  "hraft.NewFileSnapshotStoreWithLogger",
  "if{",
  "return",
  "}",
  "snapshotStore.Create",
  "if{",
  "return",
  "}",
  "p2praft.EncodeSnapshot",
  "if{",
  "sink.Cancel",
  "return",
  "}",
  "sink.Close",
  "if{",
  "return",
  "}",
  "return"
]

/-- filesystem-relevant calls of SavePeerstore -/
def c_Manager_SavePeerstore : List String := [
  "if{",
  "return",
  "}",
  "defer:pm.peerstoreLock.Unlock",
  "os.Create",
  "if{",
  "return",
  "}",
  "writePeerstore",
  "if{",
  "f.Sync",
  "}",
  "f.Close",
  "if{",
  "os.Rename",
  "}",
  "if{",
  "os.Remove",
  "return",
  "}",
  "return"
]

/-- filesystem-relevant calls of writePeerstore -/
def c__writePeerstore : List String := [
  "for{",
  "for{",
  "f.Write",
  "if{",
  "return",
  "}",
  "}",
  "}",
  "return"
]

/-- filesystem-relevant calls of ImportState -/
def c_raftStateManager_ImportState : List String := [
  "raftsm.Clean",
  "if{",
  "return",
  "}",
  "if{",
  "return",
  "}",
  "defer:store.Close",
  "raftsm.GetOfflineState",
  "if{",
  "return",
  "}",
  "importState",
  "if{",
  "return",
  "}",
  "raft.SnapshotSave",
  "return"
]

/-- filesystem-relevant calls of ImportState -/
def c_crdtStateManager_ImportState : List String := [
  "crdtsm.Clean",
  "if{",
  "return",
  "}",
  "crdtsm.GetStore",
  "if{",
  "return",
  "}",
  "defer:store.Close",
  "crdtsm.GetOfflineState",
  "if{",
  "return",
  "}",
  "importState",
  "if{",
  "return",
  "}",
  "if{",
  "return",
  "}",
  "batchingSt.Commit",
  "return"
]

end FsCalls

end CV.C14.Expected
