/-
C04 round 7 — what `Model/C04.lean` leaves out:

* consensus faults: `LogPin` / `LogUnpin` failing at the k-th call a request issues (`stepF`). A sharded `Unpin`
  issues one `LogUnpin` per shard, then cluster-DAG, then meta (inside `unpinClusterDag`), then the meta once more
  (`Unpin` itself): a fault at position k leaves the first k removals in place and reports an error.
* two calls running concurrently on one peer: every call is a READ phase (follower guard, `PinGet`, `setupPin`,
  `allocate` — everything up to the consensus call, on the pinset as it is then) and a WRITE phase (the recorded
  `LogPin`/`LogUnpin` calls applied to the pinset as it is THEN). `runSched` interleaves the four phases of two calls.

Core Lean only. The definitions of `Model/C04.lean` (used by C10) are untouched.
-/
import ClusterVerif.Model.C04
namespace CV.C04
open CV

/-- what the consensus component does with a logged call -/
def applyEntry (m : PinMap) : LogEntry → PinMap
  | .logPin p => PinMap.put p.stored m
  | .logUnpin c => m.erase c

def applyLog (l : List LogEntry) (m : PinMap) : PinMap := l.foldl applyEntry m

/-- a call whose `fault`-th consensus call (0-based) fails: the calls before it are applied, the call reports an
    error; `none` or a position the call never reaches: no fault -/
def stepF (cfg : Cfg) (pre : PinMap) (op : Op) (chosen : List Nat) (fault : Option Nat) : Out :=
  let out := step cfg pre op chosen
  match fault with
  | none => out
  | some k =>
    if k < out.log.length then
      { res := none, post := applyLog (out.log.take k) pre, log := out.log.take k, alloc := out.alloc }
    else out

/-- the consensus calls a sharded unpin of meta pin `c` issues, in order -/
def shardedCalls (cfg : Cfg) (pre : PinMap) (c : Nat) : List Nat :=
  match pre.get c with
  | some p =>
    if p.type == .metaT then
      match p.ref with
      | some r => match pre.get r, lookup cfg.blocks r with
        | some _, some links => links.reverse ++ [r, c, c]
        | _, _ => []
      | none => []
    else []
  | none => []

/-! ### two concurrent calls -/

structure Call where
  op : Op
  chosen : List Nat
  deriving Repr

/-- per call: not started / read done (the consensus calls it will make, its result) / finished -/
inductive Phase where
  | idle
  | planned (out : Out)
  | done (out : Out)
  deriving Repr

structure CState where
  s : PinMap
  a : Phase
  b : Phase
  deriving Repr

def advance (cfg : Cfg) (s : PinMap) (c : Call) : Phase → PinMap × Phase
  | .idle => (s, .planned (step cfg s c.op c.chosen))          -- READ: everything up to the consensus call
  | .planned out => (applyLog out.log s, .done out)              -- WRITE: the recorded calls hit the pinset as it is now
  | .done out => (s, .done out)

/-- one scheduling decision: `false` lets call A take its next phase, `true` call B -/
def schedStep (cfg : Cfg) (ca cb : Call) (st : CState) (who : Bool) : CState :=
  if who then
    let (s', ph) := advance cfg st.s cb st.b
    { st with s := s', b := ph }
  else
    let (s', ph) := advance cfg st.s ca st.a
    { st with s := s', a := ph }

def runSched (cfg : Cfg) (ca cb : Call) (pre : PinMap) (sched : List Bool) : CState :=
  sched.foldl (schedStep cfg ca cb) { s := pre, a := .idle, b := .idle }

/-- the six complete interleavings of (read A, write A) with (read B, write B) -/
def allScheds : List (List Bool) :=
  [[false, false, true, true], [false, true, false, true], [false, true, true, false],
   [true, false, false, true], [true, false, true, false], [true, true, false, false]]

/-- the same outcomes in closed form: `x` writes first (it read `pre`), `y` writes second and read either `pre`
    (`stale`) or the pinset after `x`'s write -/
def concurrent (cfg : Cfg) (pre : PinMap) (x y : Call) (stale : Bool) : PinMap :=
  let s1 := applyLog (step cfg pre x.op x.chosen).log pre
  let readY := if stale then pre else s1
  applyLog (step cfg readY y.op y.chosen).log s1

/-- the pinset the second writer read -/
def readOfSecond (cfg : Cfg) (pre : PinMap) (x : Call) (stale : Bool) : PinMap :=
  if stale then pre else applyLog (step cfg pre x.op x.chosen).log pre

end CV.C04
