/-
C02 — models of the code that exists (core Lean only).

(B) the replicated add-wins set of go-ds-crdt v0.1.21 (`set.go`: elements,
    tombstones, one stored (priority, value) per key; `crdt.go`: the deltas that
    Put / Delete / Batch produce) — `Rep`, `Rep.merge`, `Pend`.
(A) the batching worker of `consensus/crdt/consensus.go` (LogPin/LogUnpin
    enqueue-or-refuse, batchWorker with its size/age commits and timer
    handling, as of fix 4da18ed) running over one such replica — `St`, `step`.
(T) the topic validator / IsTrustedPeer — `Trust`, `recv`.

Keys (CIDs), delta identifiers (block CIDs) and values are natural numbers; the
numeric order of values is the `bytes.Compare` order of the stored bytes (the
harness assigns the numbers that way).
-/
namespace CV.C02

abbrev Key := Nat
abbrev Id := Nat
abbrev Val := Nat

/-! ## (B) the replicated set -/

/-- `pb.Delta` together with the identifier of the DAG node that carries it -/
structure Delta where
  id : Id
  prio : Nat
  elems : List (Key × Val)
  tombs : List (Key × Id)
  deriving DecidableEq, Repr

/-- PutHook / DeleteHook invocations (→ PinTracker.Track / Untrack) -/
inductive Hook where
  | put (k : Key) (v : Val)
  | del (k : Key)
  deriving DecidableEq, Repr

def Hook.key : Hook → Key
  | .put k _ => k
  | .del k => k

/-- the datastore entries of `set`: `/s/<key>/<id>`, `/t/<key>/<id>`, `/k/<key>/{v,p}` -/
structure Rep where
  elems : List (Key × Id) := []
  tombs : List (Key × Id) := []
  vals : List (Key × (Nat × Val)) := []      -- most recent write first
  deriving DecidableEq, Repr

/-- `getPriority` and the stored value; a key never written reads as priority 0, empty value -/
def Rep.prioVal (r : Rep) (k : Key) : Nat × Val := (r.vals.lookup k).getD (0, 0)

/-- `inTombsKeyID` -/
def Rep.tombed (r : Rep) (k : Key) (id : Id) : Bool := r.tombs.contains (k, id)

/-- `inElemsNotTombstoned` -/
def Rep.alive (r : Rep) (k : Key) : Bool := r.elems.any (fun e => e.1 == k && !r.tombed k e.2)

/-- `InSet`: a value entry exists and some element of the key is not tombstoned -/
def Rep.member (r : Rep) (k : Key) : Bool := (r.vals.lookup k).isSome && r.alive k

/-- `Element` / what `Query` lists for the key -/
def Rep.viewAt (r : Rep) (k : Key) : Option Val := if r.member k then some (r.prioVal k).2 else none

/-- keys in order of first occurrence (`deletedElems` map in putTombs) -/
def firsts : List Key → List Key → List Key
  | _, [] => []
  | seen, k :: t => if seen.contains k then firsts seen t else k :: firsts (k :: seen) t

/-- `putTombs`: record the tombstones; the delete hook runs once per key of the delta -/
def Rep.putTombs (r : Rep) (ts : List (Key × Id)) : Rep × List Hook :=
  ({ r with tombs := ts ++ r.tombs }, (firsts [] (ts.map (·.1))).map Hook.del)

/-- does `setValue` write? not tombstoned, and (higher priority, or equal priority and
    strictly greater value). Everything is read from the store as it was before `putElems`
    started: the writes of one delta go to a datastore batch. -/
def Rep.wins (r : Rep) (id : Id) (prio : Nat) (e : Key × Val) : Bool :=
  !r.tombed e.1 id &&
  (decide ((r.prioVal e.1).1 < prio) || ((r.prioVal e.1).1 == prio && decide ((r.prioVal e.1).2 < e.2)))

/-- `putElems`: every element is recorded under the delta's id; the winning ones are written
    in order (the last write of a key stays) and each triggers the put hook -/
def Rep.putElems (r : Rep) (id : Id) (prio : Nat) (es : List (Key × Val)) : Rep × List Hook :=
  let ws := es.filter (r.wins id prio)
  ({ r with elems := es.map (fun e => (e.1, id)) ++ r.elems,
            vals := ws.foldl (fun vs e => (e.1, (prio, e.2)) :: vs) r.vals },
   ws.map (fun e => Hook.put e.1 e.2))

/-- `set.Merge`: tombstones first, then elements -/
def Rep.merge (r : Rep) (d : Delta) : Rep × List Hook :=
  let t := r.putTombs d.tombs
  let e := t.1.putElems d.id d.prio d.elems
  (e.1, t.2 ++ e.2)

/-- a replica that merged the deltas of `l` in list order -/
def mergeAll (l : List Delta) (r : Rep) : Rep := l.foldl (fun r d => (r.merge d).1) r

/-- DAG workers run concurrently (`NumWorkers`): `putElems` calls exclude each other, `putTombs`
    does not take the lock, so what a replica really executes is an interleaving of the two
    phases of the deltas it processes (a delta may also be processed more than once) -/
inductive Ph where
  | T (d : Delta)      -- putTombs of d
  | E (d : Delta)      -- putElems of d
  deriving DecidableEq, Repr

def Rep.applyPh (r : Rep) : Ph → Rep
  | .T d => (r.putTombs d.tombs).1
  | .E d => (r.putElems d.id d.prio d.elems).1

def runPh (l : List Ph) (r : Rep) : Rep := l.foldl Rep.applyPh r

/-- the phases of merging the deltas of `l` one after the other -/
def phasesOf (l : List Delta) : List Ph := l.flatMap (fun d => [.T d, .E d])

/-! ### decidable readings of the hypotheses of the value-convergence theorem over a history -/

def lexLeB (a b : Nat × Nat) : Bool := decide (a.1 < b.1) || (a.1 == b.1 && decide (a.2 ≤ b.2))

/-- no delta of the history tombstones element `(k, id)` -/
def neverTombed (l : List Delta) (k : Key) (id : Id) : Bool := !(l.any fun t => t.tombs.contains (k, id))

/-- (H2 for key `k`) if some element of `k` is never tombstoned, then some never-tombstoned
    element of `k` carries the greatest (priority, value) among all elements of `k` -/
def maxSurvivesK (l : List Delta) (k : Key) : Bool :=
  !(l.any fun d => d.elems.any (fun e => e.1 == k) && neverTombed l k d.id) ||
  l.any fun m => neverTombed l k m.id && m.elems.any fun me => me.1 == k &&
    l.all fun d2 => d2.elems.all fun e2 => e2.1 != k || lexLeB (d2.prio, e2.2) (m.prio, me.2)

/-- (H1 for key `k`) no delta puts `k` twice -/
def singlePutK (l : List Delta) (k : Key) : Bool := l.all fun d => decide ((d.elems.filter (·.1 == k)).length ≤ 1)

/-! ### local operations of the crdt Datastore -/

/-- datastore operations: Put(key, value) / Delete(key) — LogPin / LogUnpin after dsstate -/
inductive BOp where
  | put (k : Key) (v : Val)
  | del (k : Key)
  deriving DecidableEq, Repr

def BOp.key : BOp → Key
  | .put k _ => k
  | .del k => k

/-- `set.Rmv`: tombstones for every element of the key that is not tombstoned yet -/
def Rep.rmv (r : Rep) (k : Key) : List (Key × Id) :=
  r.elems.filter (fun e => e.1 == k && !r.tombed k e.2)

/-- `Datastore.curDelta`: the unpublished delta of a batch (`isNil`: nothing added since the
    last successful publish) -/
structure Pend where
  isNil : Bool := true
  elems : List (Key × Val) := []
  tombs : List (Key × Id) := []
  deriving DecidableEq, Repr

/-- `batch.Put` → `updateDelta`; `batch.Delete` → `set.Rmv` + `updateDeltaWithRemove`
    (drops the elements of the key added earlier in the batch) -/
def Pend.add (p : Pend) (r : Rep) : BOp → Pend
  | .put k v => { isNil := false, elems := p.elems ++ [(k, v)], tombs := p.tombs }
  | .del k => { isNil := false, elems := p.elems.filter (fun e => e.1 != k), tombs := p.tombs ++ r.rmv k }

/-! ## (A) the batching worker -/

structure Cfg where
  maxSize : Nat        -- Batching.MaxBatchSize (> 0 when batching is enabled)
  qcap : Nat           -- Batching.MaxQueueSize (capacity of batchItemCh)
  deriving DecidableEq, Repr

/-- where the worker loop stands: waiting in `select`, or about to call `Commit`
    (`due false`: size-triggered, inside the item arm; `due true`: timer arm) -/
inductive Phase where
  | idle
  | due (age : Bool)
  deriving DecidableEq, Repr

/-- how a publish (`batchingState.Commit` → `publishDelta` → `addDAGNode`) ends. A failure of
    one datastore write ends the attempt at that write:
    `failBlock`  the DAG node could not be stored: nothing happened;
    `failTombs`  the tombstone batch did not commit: delete hooks ran, nothing stored;
    `failElems`  tombstones stored, the element batch did not commit: all hooks ran;
    `failHeads`  delta fully merged, the head was not replaced: the next node is built at
                 the same height. -/
inductive Outcome where
  | ok | failBlock | failTombs | failElems | failHeads
  deriving DecidableEq, Repr

structure St where
  queue : List BOp := []       -- batchItemCh
  pend : Pend := {}            -- crdt curDelta
  curSize : Nat := 0           -- batchCurSize
  timer : Bool := false        -- batchTimer armed (or fired and not yet received)
  phase : Phase := .idle
  rep : Rep := {}              -- the local replica
  height : Nat := 0            -- max height of the heads
  nextId : Id := 0             -- identifier of the next DAG node
  crashed : Bool := false      -- nil-delta publish (possible only after a failed Add)
  deriving DecidableEq, Repr

inductive Ev where
  | log (o : BOp)              -- LogPin / LogUnpin
  | take (addOk : Bool)        -- worker receives an item; `addOk = false`: batchingState.Add/Rm failed
  | timerFire                  -- worker receives from batchTimer.C
  | commit (out : Outcome)     -- worker's pending Commit returns
  deriving DecidableEq, Repr

inductive Res where
  | accepted | rejected
  | hooks (h : List Hook)
  | silent
  deriving DecidableEq, Repr

def St.delta (s : St) : Delta :=
  { id := s.nextId, prio := s.height + 1, elems := s.pend.elems, tombs := s.pend.tombs }

/-- one publish attempt of the pending delta -/
def St.publish (s : St) : Outcome → St × List Hook
  | .ok =>
    let m := s.rep.merge s.delta
    ({ s with rep := m.1, height := s.height + 1, nextId := s.nextId + 1, pend := {} }, m.2)
  | .failBlock => (s, [])
  | .failTombs => (s, (s.rep.putTombs s.pend.tombs).2)
  | .failElems =>
    let t := s.rep.putTombs s.pend.tombs
    ({ s with rep := t.1, nextId := s.nextId + 1 }, t.2 ++ (t.1.putElems s.nextId (s.height + 1) s.pend.elems).2)
  | .failHeads =>
    let m := s.rep.merge s.delta
    ({ s with rep := m.1, nextId := s.nextId + 1 }, m.2)

/-- one step of the system; `none`: the event is not enabled in this state -/
def step (cfg : Cfg) (s : St) : Ev → Option (St × Res)
  | .log o =>
    if s.queue.length < cfg.qcap then some ({ s with queue := s.queue ++ [o] }, .accepted)
    else some (s, .rejected)
  | .take addOk =>
    if s.crashed then none else
    match s.phase, s.queue with
    | .idle, o :: q =>
      let s1 := { s with queue := q, timer := if s.curSize == 0 then true else s.timer }
      if !addOk then some (s1, .silent)
      else
        let s2 := { s1 with pend := s1.pend.add s1.rep o, curSize := s1.curSize + 1 }
        some (if s2.curSize < cfg.maxSize then s2 else { s2 with phase := .due false }, .silent)
    | _, _ => none
  | .timerFire =>
    if s.crashed then none else
    match s.phase with
    | .idle => if s.timer then some ({ s with timer := false, phase := .due true }, .silent) else none
    | _ => none
  | .commit out =>
    if s.crashed then none else
    match s.phase with
    | .idle => none
    | .due age =>
      if s.pend.isNil then some ({ s with crashed := true }, .silent) else
      let p := s.publish out
      match out, age with
      | .ok, false => some ({ p.1 with timer := false, curSize := 0, phase := .idle }, .hooks p.2)
      | .ok, true => some ({ p.1 with curSize := 0, phase := .idle }, .hooks p.2)
      | _, false => some ({ p.1 with phase := .idle }, .hooks p.2)
      | _, true => some ({ p.1 with timer := true, phase := .idle }, .hooks p.2)

/-- run an event list; `none` if some event was not enabled; results in order -/
def run (cfg : Cfg) : St → List Ev → Option (St × List Res)
  | s, [] => some (s, [])
  | s, e :: es =>
    match step cfg s e with
    | none => none
    | some (s1, r) =>
      match run cfg s1 es with
      | none => none
      | some (s2, rs) => some (s2, r :: rs)

/-- batching disabled: LogPin → state.Add → Datastore.Put → publish; LogUnpin → Datastore.Delete,
    which publishes nothing when there is nothing to tombstone. Returns (state, error?, hooks). -/
def St.direct (s : St) (o : BOp) (out : Outcome) : St × Bool × List Hook :=
  let p : Pend := ({} : Pend).add s.rep o
  match o, p.tombs with
  | .del _, [] => (s, true, [])
  | _, _ =>
    let r := ({ s with pend := p }).publish out
    ({ r.1 with pend := {} }, out == .ok, r.2)

/-! ## (T) trust -/

structure Trust where
  self : Nat
  trustAll : Bool
  trusted : List Nat
  deriving DecidableEq, Repr

/-- `IsTrustedPeer` -/
def Trust.isTrusted (t : Trust) (p : Nat) : Bool := t.trustAll || p == t.self || t.trusted.contains p

/-- a pubsub message as the topic validator sees it: `signer` = `msg.GetFrom()`, the peer whose key
    signed it; `walk` = the deltas the announced heads would make the replica fetch and merge -/
structure Msg where
  signer : Nat
  walk : List Delta
  deriving Repr

/-- the topic validator of `setup()`: its `peer.ID` argument is the peer that FORWARDED the message
    (gossipsub relays messages: forwarder ≠ signer in general); the code ignores it and decides on
    `msg.GetFrom()` alone -/
def validate (t : Trust) (_forwarder : Nat) (m : Msg) : Bool := t.isTrusted m.signer

/-- a message reaching the replica from `forwarder`: merged iff the validator accepts it -/
def recv (t : Trust) (r : Rep) (forwarder : Nat) (m : Msg) : Rep :=
  if validate t forwarder m then mergeAll m.walk r else r

/-- a message travelling along a path of relays; every hop re-validates with the previous hop as
    forwarder. `deliver` = what the last peer of the path does with it, given the peer it got it
    from (the signer itself when the path is empty). -/
def deliver (t : Trust) (r : Rep) (path : List Nat) (m : Msg) : Rep :=
  recv t r (path.getLast?.getD m.signer) m

/-! ## (C) the composed replica: batching worker + replicated set + remote deliveries

One replica of a cluster: the worker of (A) over the set of (B), plus the event `recv ds`: a remote
walk (the deltas a received broadcast makes the replica fetch, in the order they are merged: newest
first) merged between any two worker steps — also while a batch is open and while the worker stands in
front of `Commit`. What go-ds-crdt v0.1.21 reads when:
  * `batch.Put` (`addToDelta`) reads nothing; `batch.Delete` (`rmvToDelta` → `set.Rmv`) reads the live
    elements of the key AT TAKE TIME and puts their tombstones into `curDelta`;
  * `batch.Commit` (`publishDelta` → `addDAGNode`) reads the heads AT COMMIT TIME: the node's parents are
    the current heads (remote ones included) and its priority is their greatest height + 1;
  * a remote walk rooted at priority `p` leaves the greatest head height at `max height p`.
DAG nodes are identified by `ctr * stride + self` (`Who`): distinct replicas create distinct ids.
`out` is the replica's delta stream (nodes whose publish succeeded: head replaced, announced).
`batch`, `done`, `got`, `sched` are ghost fields used by the theorems. -/

structure Who where
  self : Nat
  stride : Nat
  deriving DecidableEq, Repr

def Who.mkId (w : Who) (c : Nat) : Id := c * w.stride + w.self

def maxPrio (ds : List Delta) : Nat := ds.foldl (fun m d => max m d.prio) 0

/-- merge a walk, collecting the hooks -/
def mergeWalk (ds : List Delta) (r : Rep) : Rep × List Hook :=
  ds.foldl (fun acc d => let m := acc.1.merge d; (m.1, acc.2 ++ m.2)) (r, [])

structure CSt where
  me : Who
  queue : List BOp := []
  pend : Pend := {}
  curSize : Nat := 0
  timer : Bool := false
  phase : Phase := .idle
  rep : Rep := {}
  height : Nat := 0
  ctr : Nat := 0                 -- local DAG nodes created so far
  crashed : Bool := false
  out : List Delta := []         -- delta stream, oldest first
  batch : List BOp := []         -- ghost: operations taken into the pending delta
  done : List (List BOp) := []   -- ghost: operations of the committed batches, aligned with `out`
  got : List Delta := []         -- ghost: remote deltas merged
  sched : List Ph := []          -- ghost: the phases executed on `rep`, in order
  deriving DecidableEq, Repr

inductive CEv where
  | loc (e : Ev)
  | recv (ds : List Delta)
  deriving DecidableEq, Repr

/-- the node a publish attempt builds now -/
def CSt.delta (c : CSt) : Delta :=
  { id := c.me.mkId c.ctr, prio := c.height + 1, elems := c.pend.elems, tombs := c.pend.tombs }

/-- what the elements of a batch's delta are: puts in submission order, a delete drops the earlier
    puts of its key (`updateDeltaWithRemove`) -/
def elemsOf (ops : List BOp) : List (Key × Val) :=
  ops.foldl (fun es o => match o with
    | .put k v => es ++ [(k, v)]
    | .del k => es.filter (fun e => e.1 != k)) []

def CSt.publish (c : CSt) : Outcome → CSt × List Hook
  | .ok =>
    let m := c.rep.merge c.delta
    ({ c with rep := m.1, height := c.height + 1, ctr := c.ctr + 1, pend := {}, out := c.out ++ [c.delta],
              done := c.done ++ [c.batch], batch := [], sched := c.sched ++ [.T c.delta, .E c.delta] }, m.2)
  | .failBlock => (c, [])
  | .failTombs => (c, (c.rep.putTombs c.pend.tombs).2)
  | .failElems =>
    let t := c.rep.putTombs c.pend.tombs
    ({ c with rep := t.1, ctr := c.ctr + 1, sched := c.sched ++ [.T c.delta] },
     t.2 ++ (t.1.putElems c.delta.id c.delta.prio c.pend.elems).2)
  | .failHeads =>
    let m := c.rep.merge c.delta
    ({ c with rep := m.1, ctr := c.ctr + 1, sched := c.sched ++ [.T c.delta, .E c.delta] }, m.2)

def cstep (cfg : Cfg) (c : CSt) : CEv → Option (CSt × Res)
  | .recv ds =>
    let m := mergeWalk ds c.rep
    some ({ c with rep := m.1, height := max c.height (maxPrio ds), got := c.got ++ ds,
                   sched := c.sched ++ phasesOf ds }, .hooks m.2)
  | .loc (.log o) =>
    if c.queue.length < cfg.qcap then some ({ c with queue := c.queue ++ [o] }, .accepted)
    else some (c, .rejected)
  | .loc (.take addOk) =>
    if c.crashed then none else
    match c.phase, c.queue with
    | .idle, o :: q =>
      let c1 := { c with queue := q, timer := if c.curSize == 0 then true else c.timer }
      if !addOk then some (c1, .silent)
      else
        let c2 := { c1 with pend := c1.pend.add c1.rep o, curSize := c1.curSize + 1, batch := c1.batch ++ [o] }
        some (if c2.curSize < cfg.maxSize then c2 else { c2 with phase := .due false }, .silent)
    | _, _ => none
  | .loc .timerFire =>
    if c.crashed then none else
    match c.phase with
    | .idle => if c.timer then some ({ c with timer := false, phase := .due true }, .silent) else none
    | _ => none
  | .loc (.commit out) =>
    if c.crashed then none else
    match c.phase with
    | .idle => none
    | .due age =>
      if c.pend.isNil then some ({ c with crashed := true }, .silent) else
      let p := c.publish out
      match out, age with
      | .ok, false => some ({ p.1 with timer := false, curSize := 0, phase := .idle }, .hooks p.2)
      | .ok, true => some ({ p.1 with curSize := 0, phase := .idle }, .hooks p.2)
      | _, false => some ({ p.1 with phase := .idle }, .hooks p.2)
      | _, true => some ({ p.1 with timer := true, phase := .idle }, .hooks p.2)

def crun (cfg : Cfg) : CSt → List CEv → Option (CSt × List Res)
  | c, [] => some (c, [])
  | c, e :: es =>
    match cstep cfg c e with
    | none => none
    | some (c1, r) =>
      match crun cfg c1 es with
      | none => none
      | some (c2, rs) => some (c2, r :: rs)

/-- batching disabled on the composed replica (`Datastore.Put/Delete → publish`); a delete with nothing to
    tombstone publishes nothing. Returns (state, ok?, hooks). -/
def CSt.direct (c : CSt) (o : BOp) (out : Outcome) : CSt × Bool × List Hook :=
  let p : Pend := ({} : Pend).add c.rep o
  match o, p.tombs with
  | .del _, [] => (c, true, [])
  | _, _ =>
    let r := ({ c with pend := p, batch := [o] }).publish out
    ({ r.1 with pend := {}, batch := [] }, out == .ok, r.2)

/-- all tracker calls of a run, in order -/
def hooksOf : List Res → List Hook
  | [] => []
  | .hooks h :: rs => h ++ hooksOf rs
  | _ :: rs => hooksOf rs

/-- a run of the worker in which the batches are exactly `bs` (every batch taken, then committed
    successfully, nothing merged from outside): state and tracker calls as a function of the batch
    boundaries -/
def runBatches (me : Who) : List (List BOp) → (Rep × Nat × Nat) × List Hook → (Rep × Nat × Nat) × List Hook
  | [], acc => acc
  | b :: bs, ((r, h, n), hk) =>
    let p := b.foldl (fun p o => p.add r o) ({} : Pend)
    let m := r.merge { id := me.mkId n, prio := h + 1, elems := p.elems, tombs := p.tombs }
    runBatches me bs ((m.1, h + 1, n + 1), hk ++ m.2)

/-! ### the validator gate in front of `recv` -/

structure GSt where
  c : CSt
  t : Trust
  deriving Repr

inductive GEv where
  | loc (e : Ev)
  | msg (forwarder signer : Nat) (ds : List Delta)   -- a pubsub message reaching the topic validator
  | trust (p : Nat)                                   -- Consensus.Trust
  | distrust (p : Nat)                                -- Consensus.Distrust
  deriving DecidableEq, Repr

def gstep (cfg : Cfg) (g : GSt) : GEv → Option GSt
  | .loc e => (cstep cfg g.c (.loc e)).map (fun p => { g with c := p.1 })
  | .msg fw signer ds =>
    if validate g.t fw ⟨signer, ds⟩ then (cstep cfg g.c (.recv ds)).map (fun p => { g with c := p.1 }) else some g
  | .trust p => some { g with t := { g.t with trusted := p :: g.t.trusted } }
  | .distrust p => some { g with t := { g.t with trusted := g.t.trusted.filter (· != p) } }

def grun (cfg : Cfg) : GSt → List GEv → Option GSt
  | g, [] => some g
  | g, e :: es => match gstep cfg g e with
    | none => none
    | some g1 => grun cfg g1 es

/-- the messages of a history that pass the gate, given the Trust/Distrust history preceding each:
    everything else of the history is kept -/
def passing (t : Trust) : List GEv → List GEv
  | [] => []
  | .msg fw signer ds :: es => if t.isTrusted signer then .msg fw signer ds :: passing t es else passing t es
  | .trust p :: es => .trust p :: passing { t with trusted := p :: t.trusted } es
  | .distrust p :: es => .distrust p :: passing { t with trusted := t.trusted.filter (· != p) } es
  | .loc e :: es => .loc e :: passing t es

/-- the same history with the forwarders forgotten (what the pinset may depend on) -/
def GEv.authored : GEv → GEv
  | .msg _ signer ds => .msg 0 signer ds
  | e => e

/-! ## (K) a replica with its blockstore: which DAG nodes count as processed, and `Clean`

`handleBlock` ignores a broadcast head whose block is already in the blockstore and `processNode` stops
at known children: a delta is merged only the first time its node is seen. `crdt.Clean` (behind
`Consensus.Clean`, `state cleanup`, `state import`) deletes EVERY key under the datastore namespace: the
set (elements, tombstones, values), the heads, and the blockstore with it — so a cleaned replica that
is restarted on the same datastore processes every delta again. -/

structure KRep where
  rep : Rep := {}
  known : List Id := []          -- nodes in the blockstore
  deriving DecidableEq, Repr

def KRep.handle (s : KRep) (d : Delta) : KRep :=
  if s.known.contains d.id then s else { rep := (s.rep.merge d).1, known := d.id :: s.known }

def handleAll (l : List Delta) (s : KRep) : KRep := l.foldl KRep.handle s

/-- `crdt.Clean` as it is: everything under the namespace goes, the blockstore included -/
def KRep.clean (_ : KRep) : KRep := {}

/-- the alternative that keeps the (immutable, content-addressed) DAG nodes -/
def KRep.cleanKeepBlocks (s : KRep) : KRep := { s with rep := {} }

end CV.C02
