/-!
# C02 — the source text the hand-written model transcribes (snapshot)

Taken with `tools/snapshot_skeleton.py C02` from the translator output after the model was last read against the source.
`Gen/C02.lean` is regenerated from /repo on every run and `Props/C02.lean` proves `Gen.f = Expected.f` for every function below
(`rfl`): an edit to any of these functions breaks that obligation, and the check then searches for a failing input with the
correspondence run (a rewrite that keeps the behaviour ends as `no-failing-input-found`, see DESIGN 2.2).
-/
namespace CV.C02.Expected


/-- Consensus.setup -/
def setup : List String := [
  "select {",
  "case <-css.ctx.Done():",
  "return",
  "case <-css.rpcReady:",
  "}",
  "for _, p := range css.config.TrustedPeers {",
  "css.Trust(css.ctx, p)",
  "}",
  "topicName := css.config.ClusterName",
  "topicHash, err := multihash.Sum([]byte(css.config.ClusterName), multihash.MD5, -1)",
  "if err != nil {",
  "} else {",
  "topicName = topicHash.B58String()",
  "}",
  "err = css.pubsub.RegisterTopicValidator(",
  "topicName,",
  "func(ctx context.Context, _ peer.ID, msg *pubsub.Message) bool {",
  "signer := msg.GetFrom()",
  "trusted := css.IsTrustedPeer(ctx, signer)",
  "if !trusted {",
  "}",
  "return trusted",
  "},",
  ")",
  "if err != nil {",
  "}",
  "broadcaster, err := crdt.NewPubSubBroadcaster(",
  "css.ctx,",
  "css.pubsub,",
  "topicName,",
  ")",
  "if err != nil {",
  "return",
  "}",
  "opts := crdt.DefaultOptions()",
  "opts.RebroadcastInterval = css.config.RebroadcastInterval",
  "opts.DAGSyncerTimeout = 2 * time.Minute",
  "opts.Logger = logger",
  "crdt, err := crdt.New(",
  "css.store,",
  "css.namespace,",
  "css.ipfs,",
  "broadcaster,",
  "opts,",
  ")",
  "if err != nil {",
  "return",
  "}",
  "css.crdt = crdt",
  "clusterState, err := dsstate.New(",
  "css.crdt,",
  "S,",
  "dsstate.DefaultHandle(),",
  ")",
  "if err != nil {",
  "return",
  "}",
  "css.state = clusterState",
  "batchingState, err := dsstate.NewBatching(",
  "css.crdt,",
  "S,",
  "dsstate.DefaultHandle(),",
  ")",
  "if err != nil {",
  "return",
  "}",
  "css.batchingState = batchingState",
  "if css.config.TrustAll {",
  "}",
  "if css.config.batchingEnabled() {",
  "go css.batchWorker()",
  "}",
  "close(css.stateReady)",
  "css.readyCh <- struct{}{}"
]

/-- Consensus.IsTrustedPeer -/
def isTrustedPeer : List String := [
  "if css.config.TrustAll {",
  "return true",
  "}",
  "if pid == css.host.ID() {",
  "return true",
  "}",
  "_, ok := css.trustedPeers.Load(pid)",
  "return ok"
]

/-- Consensus.Trust -/
def trust : List String := [
  "css.trustedPeers.Store(pid, struct{}{})",
  "if conman := css.host.ConnManager(); conman != nil {",
  "conman.Protect(pid, connMgrTag)",
  "}",
  "css.peerManager.SetPriority(pid, 0)",
  "addrs := css.host.Peerstore().Addrs(pid)",
  "css.host.Peerstore().SetAddrs(pid, addrs, peerstore.PermanentAddrTTL)",
  "return nil"
]

/-- Consensus.Distrust -/
def distrust : List String := [
  "css.trustedPeers.Delete(pid)",
  "return nil"
]

/-- Consensus.LogPin -/
def logPin : List String := [
  "if css.config.batchingEnabled() {",
  "select {",
  "case css.batchItemCh <- batchItem{",
  "ctx: ctx,",
  "isPin: true,",
  "pin: pin,",
  "}:",
  "return nil",
  "default:",
  "return fmt.Errorf(S, ErrMaxQueueSizeReached)",
  "}",
  "}",
  "return css.state.Add(ctx, pin)"
]

/-- Consensus.LogUnpin -/
def logUnpin : List String := [
  "if css.config.batchingEnabled() {",
  "select {",
  "case css.batchItemCh <- batchItem{",
  "ctx: ctx,",
  "isPin: false,",
  "pin: pin,",
  "}:",
  "return nil",
  "default:",
  "return fmt.Errorf(S, ErrMaxQueueSizeReached)",
  "}",
  "}",
  "return css.state.Rm(ctx, pin.Cid)"
]

/-- Consensus.batchWorker -/
def batchWorker : List String := [
  "maxSize := css.config.Batching.MaxBatchSize",
  "maxAge := css.config.Batching.MaxBatchAge",
  "batchCurSize := 0",
  "batchTimer := time.NewTimer(maxAge)",
  "if !batchTimer.Stop() {",
  "<-batchTimer.C",
  "}",
  "for {",
  "select {",
  "case <-css.ctx.Done():",
  "return",
  "case batchItem := <-css.batchItemCh:",
  "if batchCurSize == 0 {",
  "batchTimer.Reset(maxAge)",
  "}",
  "var err error",
  "if batchItem.isPin {",
  "err = css.batchingState.Add(batchItem.ctx, batchItem.pin)",
  "} else {",
  "err = css.batchingState.Rm(batchItem.ctx, batchItem.pin.Cid)",
  "}",
  "if err != nil {",
  "continue",
  "}",
  "batchCurSize++",
  "if batchCurSize < maxSize {",
  "continue",
  "}",
  "if err := css.batchingState.Commit(css.ctx); err != nil {",
  "continue",
  "}",
  "if !batchTimer.Stop() {",
  "<-batchTimer.C",
  "}",
  "batchCurSize = 0",
  "case <-batchTimer.C:",
  "if err := css.batchingState.Commit(css.ctx); err != nil {",
  "batchTimer.Reset(maxAge)",
  "continue",
  "}",
  "batchCurSize = 0",
  "}",
  "}"
]

/-- Consensus.State -/
def stateFn : List String := [
  "select {",
  "case <-ctx.Done():",
  "return nil, ctx.Err()",
  "case <-css.ctx.Done():",
  "return nil, css.ctx.Err()",
  "case <-css.stateReady:",
  "return css.state, nil",
  "}"
]

end CV.C02.Expected
