/-
C08 — byte-level model of the msgpack ENVELOPE dsstate writes around the stored pins
(`state/dsstate/datastore.go`: `serialEntry{Key "k", Value "v"}` stream written by `Marshal`, read by `Unmarshal`)
with ugorji/go/codec's zero `MsgpackHandle` (WriteExt = false: strings and byte slices are both written as
legacy raw: fixraw 0xa0+n below 32 bytes, 0xda + 2 length bytes, 0xdb + 4 length bytes; never 0xd9 / 0xc4).
Core Lean only.  The token reader knows every msgpack head byte (so that unknown fields can be skipped);
the entry decoder is exact on maps with string keys whose `k`/`v` values are raw or nil and answers
`outside` (not modelled: checked for no-panic only) elsewhere.
-/
namespace CV.C08.Mp

abbrev Bytes := List UInt8

def be16 (n : Nat) : Bytes := [UInt8.ofNat (n / 256), UInt8.ofNat (n % 256)]
def be32 (n : Nat) : Bytes :=
  [UInt8.ofNat (n / 16777216), UInt8.ofNat (n / 65536 % 256), UInt8.ofNat (n / 256 % 256), UInt8.ofNat (n % 256)]

/-- legacy raw (what `EncodeString` / `EncodeStringBytesRaw` write without WriteExt) -/
def encRaw (bs : Bytes) : Bytes :=
  if bs.length < 32 then UInt8.ofNat (160 + bs.length) :: bs
  else if bs.length < 65536 then (0xda : UInt8) :: (be16 bs.length ++ bs)
  else (0xdb : UInt8) :: (be32 bs.length ++ bs)

/-- one key/value of the store; `none` = a nil slice (written as msgpack nil) -/
structure Entry where
  key : Bytes
  value : Option Bytes
  deriving DecidableEq, Repr

def encVal : Option Bytes → Bytes
  | none => [0xc0]
  | some v => encRaw v

/-- `enc.Encode(serialEntry{Key, Value})`: fixmap of 2, fields in declaration order -/
def encEntry (e : Entry) : Bytes :=
  [0x82, 0xa1, 0x6b] ++ (encRaw e.key ++ ([0xa1, 0x76] ++ encVal e.value))

/-- `State.Marshal`: the entries one after the other, nothing around them -/
def marshal : List Entry → Bytes
  | [] => []
  | e :: es => encEntry e ++ marshal es

/-! ## token reader -/

inductive Tok where
  | nil | bool (b : Bool) | int (i : Int) | raw (bs : Bytes) | arr (n : Nat) | map (n : Nat) | other | reserved
  deriving DecidableEq, Repr

def takeN (n : Nat) (bs : Bytes) : Option (Bytes × Bytes) :=
  if n ≤ bs.length then some (bs.take n, bs.drop n) else none

def beNat : Bytes → Nat
  | [] => 0
  | b :: r => b.toNat * 256 ^ r.length + beNat r

/-- `k` big-endian length bytes -/
def readLen (k : Nat) (bs : Bytes) : Option (Nat × Bytes) :=
  match takeN k bs with
  | some (l, r) => some (beNat l, r)
  | none => none

def rawOf (k : Nat) (bs : Bytes) : Option (Tok × Bytes) :=
  match readLen k bs with
  | some (n, r) => (match takeN n r with | some (d, r') => some (.raw d, r') | none => none)
  | none => none

def skipOf (k extra : Nat) (bs : Bytes) : Option (Tok × Bytes) :=
  match readLen k bs with
  | some (n, r) => (match takeN (n + extra) r with | some (_, r') => some (.other, r') | none => none)
  | none => none

def uintOf (k : Nat) (bs : Bytes) : Option (Tok × Bytes) :=
  match readLen k bs with
  | some (n, r) => some (.int n, r)
  | none => none

def sintOf (k : Nat) (bs : Bytes) : Option (Tok × Bytes) :=
  match readLen k bs with
  | some (n, r) => some (.int (if n < 256 ^ k / 2 then (n : Int) else (n : Int) - (256 ^ k : Nat)), r)
  | none => none

def hdrOf (k : Nat) (isMap : Bool) (bs : Bytes) : Option (Tok × Bytes) :=
  match readLen k bs with
  | some (n, r) => some (if isMap then .map n else .arr n, r)
  | none => none

/-- one msgpack head (with its scalar payload); `none` = the input ends inside it -/
def readTok : Bytes → Option (Tok × Bytes)
  | [] => none
  | b :: r =>
    let n := b.toNat
    if n < 128 then some (.int n, r)
    else if n < 144 then some (.map (n - 128), r)
    else if n < 160 then some (.arr (n - 144), r)
    else if n < 192 then (match takeN (n - 160) r with | some (d, r') => some (.raw d, r') | none => none)
    else if n == 192 then some (.nil, r)
    else if n == 193 then some (.reserved, r)
    else if n == 194 then some (.bool false, r)
    else if n == 195 then some (.bool true, r)
    else if n == 196 then rawOf 1 r
    else if n == 197 then rawOf 2 r
    else if n == 198 then rawOf 4 r
    else if n == 199 then skipOf 1 1 r
    else if n == 200 then skipOf 2 1 r
    else if n == 201 then skipOf 4 1 r
    else if n == 202 then skipOf 0 4 r
    else if n == 203 then skipOf 0 8 r
    else if n == 204 then uintOf 1 r
    else if n == 205 then uintOf 2 r
    else if n == 206 then uintOf 4 r
    else if n == 207 then uintOf 8 r
    else if n == 208 then sintOf 1 r
    else if n == 209 then sintOf 2 r
    else if n == 210 then sintOf 4 r
    else if n == 211 then sintOf 8 r
    else if n == 212 then skipOf 0 2 r
    else if n == 213 then skipOf 0 3 r
    else if n == 214 then skipOf 0 5 r
    else if n == 215 then skipOf 0 9 r
    else if n == 216 then skipOf 0 17 r
    else if n == 217 then rawOf 1 r
    else if n == 218 then rawOf 2 r
    else if n == 219 then rawOf 4 r
    else if n == 220 then hdrOf 2 false r
    else if n == 221 then hdrOf 4 false r
    else if n == 222 then hdrOf 2 true r
    else if n == 223 then hdrOf 4 true r
    else some (.int ((n : Int) - 256), r)

def children : Tok → Nat
  | .arr n => n
  | .map n => 2 * n
  | _ => 0

inductive Skip where
  | ok (rest : Bytes) | trunc | outside
  deriving DecidableEq, Repr

/-- skip `pending` whole values (containers add their children to the count) -/
def skipVals : Nat → Nat → Bytes → Skip
  | _, 0, bs => .ok bs
  | 0, _, _ => .trunc
  | f + 1, p + 1, bs =>
    match readTok bs with
    | none => .trunc
    | some (.reserved, _) => .outside
    | some (t, r) => skipVals f (p + children t) r

/-! ## `dec.Decode(&serialEntry)` -/

inductive DRes where
  | eof                      -- no byte left: io.EOF, the clean end of the stream
  | err                      -- the input ends inside the entry: ugorji reports this as io.EOF too (see `unmarshal`)
  | outside                  -- a shape the model does not cover (wrong types for k/v, non-string keys, arrays, …)
  | ok (e : Entry) (rest : Bytes)
  deriving DecidableEq, Repr

def kName : Bytes := [0x6b]
def vName : Bytes := [0x76]

/-- does the (possibly cut) input start with a head of the raw family / a map16-map32 head?  A cut value of another
    type is refused by the real decoder for its type before its payload is read: `outside`, not a cut. -/
def rawHead : Bytes → Bool
  | [] => true
  | b :: _ => (160 ≤ b.toNat && b.toNat < 192) || (196 ≤ b.toNat && b.toNat ≤ 198) || (217 ≤ b.toNat && b.toNat ≤ 219)

def mapHead : Bytes → Bool
  | [] => true
  | b :: _ => b.toNat == 222 || b.toNat == 223

/-- the `n` key/value pairs of one map: `k` and `v` assign (a later one overrides), other names are skipped -/
def fields : Nat → Nat → Entry → Bytes → DRes
  | _, 0, e, bs => .ok e bs
  | 0, _, _, _ => .err
  | f + 1, n + 1, e, bs =>
    match readTok bs with
    | none => if rawHead bs then .err else .outside
    | some (.raw name, r) =>
      if name == kName then
        (match readTok r with
         | none => if rawHead r then .err else .outside
         | some (.raw k, r') => fields f n { e with key := k } r'
         | some (.nil, r') => fields f n { e with key := [] } r'
         | some _ => .outside)
      else if name == vName then
        (match readTok r with
         | none => if rawHead r then .err else .outside
         | some (.raw v, r') => fields f n { e with value := some v } r'
         | some (.nil, r') => fields f n { e with value := none } r'
         | some _ => .outside)
      else
        (match skipVals (r.length + 1) 1 r with
         | .ok r' => fields f n e r'
         | .trunc => .err
         | .outside => .outside)
    | some _ => .outside

def zeroEntry : Entry := { key := [], value := none }

def decodeEntry (bs : Bytes) : DRes :=
  match bs with
  | [] => .eof
  | _ =>
    match readTok bs with
    | none => if mapHead bs then .err else .outside
    | some (.nil, r) => .ok zeroEntry r
    | some (.map n, r) => fields (r.length + 1) n zeroEntry r
    | some _ => .outside

/-! ## `State.Unmarshal` over a store -/

abbrev Store := List (Bytes × Bytes)     -- key ↦ value, nil and empty values are one value

def put (s : Store) (k v : Bytes) : Store := (k, v) :: s.filter (fun e => e.1 != k)

def valBytes : Option Bytes → Bytes
  | none => []
  | some v => v

inductive URes where
  | ok (s : Store) | err (s : Store) | outside
  deriving DecidableEq, Repr

/-- the loop after the store was emptied: `entry` is already decoded -/
def loop : Nat → Entry → Bytes → Store → URes
  | 0, _, _, s => .err s
  | f + 1, e, rest, s =>
    if e.key == [] then .err s
    else
      let s' := put s e.key (valBytes e.value)
      match decodeEntry rest with
      | .eof => .ok s'
      | .err => .ok s'          -- io.EOF from inside a value is taken for the clean end: the cut entry is dropped
      | .outside => .outside
      | .ok e' rest' => loop f e' rest' s'

/-- `Unmarshal`: the first entry is decoded BEFORE the store is touched; a first entry without key leaves the old
    content; an empty stream empties the store — and so does a stream that ends inside its first entry, because the
    decoder's error for that is `io.EOF` as well; a later key-less entry leaves what was restored so far. -/
def unmarshal (old : Store) (bs : Bytes) : URes :=
  match decodeEntry bs with
  | .eof => .ok []
  | .err => .ok []
  | .outside => .outside
  | .ok e rest => if e.key == [] then .err old else loop (bs.length + 1) e rest []

def putAll : Store → List Entry → Store
  | s, [] => s
  | s, e :: es => putAll (put s e.key (valBytes e.value)) es

end CV.C08.Mp
