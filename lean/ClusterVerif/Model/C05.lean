/-
C05 — model of the stateless pin tracker (`pintracker/stateless/stateless.go`) and of its
operation table (`pintracker/optracker`), as a labelled transition system. Core Lean only.

What one step stands for (each is one atomic, lock-protected action of the Go code):

* external instructions, issued one after the other by the consensus component
  - `track p`    the shared pinset now records `p`, then `Tracker.Track(p)`
  - `untrack c`  the shared pinset no longer holds `c`, then `Tracker.Untrack(c)`
  - `recover c`  `Tracker.Recover(c)`; `RecoverAll` is `recover c` for the listed cids in map order,
                 stopping at the first error (`statusAllOf` and `statusOf` select the same action)
* internal steps of the worker goroutines and of the IPFS daemon
  - `deqPin` / `deqUnpin`  a free worker receives the head of its channel (`opWorker` + the first
                 half of `applyPinF`: a cancelled operation is skipped, else phase := in-progress
                 and the IPFSConnector call is issued)
  - `effect i`   the daemon applies the call of operation `i` (its linearisation point). Disabled
                 once the operation's context is cancelled: a cancelled request never takes effect
                 (runtime assumption named in the evidence)
  - `retOk i` / `retErr i`  the call returns to its caller (second half of `applyPinF`, or the rest of
                 the synchronous remote branch of `Track`)
  - `reap i`     the call of a cancelled operation returns its context error; the caller moves on
  - `lose c`     the daemon drops a pin behind the tracker's back (garbage collection, operator)

Operation identity (Go pointer identity, used by `Clean`) is the index into `ops`.
-/
namespace CV.C05

inductive Mode where
  | recursive | direct
  deriving DecidableEq, Repr

/-- what a pin is for THIS peer: `Type == MetaType`; `IsRemotePin(self)`; else allocated here / everywhere -/
inductive Kind where
  | sharded | remote | here
  deriving DecidableEq, Repr

/-- a pin as far as the tracker looks at it; `tag` stands for everything else the pin records
    (allocation list, name, metadata, ...) -/
structure PinSpec where
  cid : Nat
  kind : Kind
  mode : Mode
  tag : Nat
  deriving DecidableEq, Repr

/-- `api.PinCid(c)`: recursive, no allocations (hence "remote" for every peer), default options -/
def pinCid (c : Nat) : PinSpec := { cid := c, kind := .remote, mode := .recursive, tag := 0 }

inductive OpType where
  | pin | unpin | remote
  deriving DecidableEq, Repr

inductive Phase where
  | error | queued | inProgress | done
  deriving DecidableEq, Repr

structure Op where
  cid : Nat
  typ : OpType
  phase : Phase
  cancelled : Bool
  pin : PinSpec
  deriving DecidableEq, Repr

inductive CallKind where
  | pin | unpin
  deriving DecidableEq, Repr

/-- an IPFSConnector call parked at the daemon. `sync`: issued by `Track` itself (remote pin), not by a worker -/
structure Call where
  op : Nat
  kind : CallKind
  sync : Bool
  eff : Bool
  deriving DecidableEq, Repr

inductive Status where
  | pinned | pinning | pinQueued | pinError
  | unpinned | unpinning | unpinQueued | unpinError
  | remote | sharded | unexpectedlyUnpinned | clusterError | undefined
  deriving DecidableEq, Repr

structure Cfg where
  cap : Nat        -- MaxPinQueueSize
  workers : Nat    -- ConcurrentPins
  ncids : Nat      -- size of the cid universe (listing bound)
  deriving DecidableEq, Repr

/-- function update -/
def upd {α : Type} (f : Nat → α) (k : Nat) (v : α) : Nat → α := fun x => if x = k then v else f x

structure State where
  ops : Nat → Op
  nextId : Nat
  cur : Nat → Option Nat            -- the operation table: cid ↦ operation
  pinQ : List Nat                   -- pinCh (FIFO)
  unpinQ : List Nat                 -- unpinCh
  calls : List Call                 -- calls parked at the daemon, oldest first
  daemon : Nat → Option (Mode × Nat) -- the daemon's pin table: mode and tag of the pin it was given
  shared : Nat → Option PinSpec     -- the shared pinset
  failed : Nat → Bool               -- the daemon failed an unpin of c since c's last pin/unpin instruction

def dummyOp : Op := { cid := 0, typ := .pin, phase := .done, cancelled := true, pin := pinCid 0 }

def init : State :=
  { ops := fun _ => dummyOp, nextId := 0, cur := fun _ => none, pinQ := [], unpinQ := [], calls := [],
    daemon := fun _ => none, shared := fun _ => none, failed := fun _ => false }

inductive Ret where
  | nil | full
  deriving DecidableEq, Repr

/-! ### optracker -/

def cancelOp (s : State) (i : Nat) : State :=
  { s with ops := upd s.ops i { s.ops i with cancelled := true } }

def newOp (s : State) (p : PinSpec) (typ : OpType) (ph : Phase) : State × Option Nat :=
  ({ s with ops := upd s.ops s.nextId { cid := p.cid, typ := typ, phase := ph, cancelled := false, pin := p },
            nextId := s.nextId + 1,
            cur := upd s.cur p.cid (some s.nextId) }, some s.nextId)

/-- `TrackNewOperation`: nil for an ongoing operation of the same type, else cancel-and-replace -/
def trackNew (s : State) (p : PinSpec) (typ : OpType) (ph : Phase) : State × Option Nat :=
  match s.cur p.cid with
  | some i =>
    if (s.ops i).typ = typ ∧ (s.ops i).phase ≠ .error ∧ (s.ops i).phase ≠ .done then (s, none)
    else newOp (cancelOp s i) p typ ph
  | none => newOp s p typ ph

/-- `op.SetError(err); op.Cancel()` -/
def failOp (s : State) (i : Nat) : State :=
  { s with ops := upd s.ops i { s.ops i with phase := .error, cancelled := true } }

/-- `Tracker.enqueue` -/
def enqueue (cfg : Cfg) (s : State) (p : PinSpec) (typ : OpType) : State × Ret :=
  match trackNew s p typ .queued with
  | (s1, none) => (s1, .nil)
  | (s1, some i) =>
    match typ with
    | .pin => if s1.pinQ.length < cfg.cap then ({ s1 with pinQ := s1.pinQ ++ [i] }, .nil) else (failOp s1 i, .full)
    | .unpin => if s1.unpinQ.length < cfg.cap then ({ s1 with unpinQ := s1.unpinQ ++ [i] }, .nil) else (failOp s1 i, .full)
    | .remote => (s1, .nil)

/-! ### status -/

def opStatus (o : Op) : Status :=
  match o.typ, o.phase with
  | .pin, .error => .pinError
  | .pin, .queued => .pinQueued
  | .pin, .inProgress => .pinning
  | .pin, .done => .pinned
  | .unpin, .error => .unpinError
  | .unpin, .queued => .unpinQueued
  | .unpin, .inProgress => .unpinning
  | .unpin, .done => .unpinned
  | .remote, _ => .remote

/-- `PinLsCid` asks for the pin's own type: held in the other mode counts as not pinned -/
def heldAs (s : State) (c : Nat) (m : Mode) : Bool :=
  match s.daemon c with
  | some (m', _) => m' == m
  | none => false

/-- `Tracker.Status(c)` -/
def statusOf (s : State) (c : Nat) : Status :=
  match s.cur c with
  | some i => opStatus (s.ops i)
  | none =>
    match s.shared c with
    | none => .unpinned
    | some p =>
      match p.kind with
      | .sharded => .sharded
      | .remote => .remote
      | .here => if heldAs s c p.mode then .pinned else .pinError

/-- the entry of `c` in `Tracker.StatusAll` (none = not listed) -/
def statusAllOf (s : State) (c : Nat) : Option Status :=
  match s.cur c with
  | some i => some (opStatus (s.ops i))
  | none =>
    match s.shared c with
    | none => none
    | some p =>
      match p.kind with
      | .sharded => some .sharded
      | .remote => some .remote
      | .here => if heldAs s c p.mode then some .pinned else some .unexpectedlyUnpinned

/-! ### external instructions -/

def track (cfg : Cfg) (s0 : State) (p : PinSpec) : State × Ret :=
  let s := { s0 with shared := upd s0.shared p.cid (some p),
                     failed := if p.kind = .here then upd s0.failed p.cid false else s0.failed }
  match p.kind with
  | .sharded => (s, .nil)
  | .remote =>
    match trackNew s p .remote .inProgress with
    | (s1, none) => (s1, .nil)
    | (s1, some i) => ({ s1 with calls := s1.calls ++ [{ op := i, kind := .unpin, sync := true, eff := false }] }, .nil)
  | .here => enqueue cfg s p .pin

def untrack (cfg : Cfg) (s0 : State) (c : Nat) : State × Ret :=
  let s := { s0 with shared := upd s0.shared c none, failed := upd s0.failed c false }
  enqueue cfg s (pinCid c) .unpin

/-- the pin `recoverWithPinInfo` re-issues: the one recorded in the shared pinset (fix 2bbdb46), `PinCid` if absent -/
def recPin (s : State) (c : Nat) : PinSpec :=
  match s.shared c with
  | some p => p
  | none => pinCid c

/-- `recoverWithPinInfo` -/
def recoverWith (cfg : Cfg) (s : State) (c : Nat) (st : Status) : State × Ret :=
  match st with
  | .pinError | .unexpectedlyUnpinned => enqueue cfg s (recPin s c) .pin
  | .unpinError => enqueue cfg s (pinCid c) .unpin
  | _ => (s, .nil)

def recover (cfg : Cfg) (s : State) (c : Nat) : State × Ret := recoverWith cfg s c (statusOf s c)

/-! ### internal steps -/

def findCall (s : State) (i : Nat) : Option Call := s.calls.find? (fun k => k.op == i)
def dropCall (s : State) (i : Nat) : List Call := s.calls.filter (fun k => k.op != i)

def busyPin (s : State) : Nat := (s.calls.filter (fun k => k.kind == .pin && !k.sync)).length
def busyUnpin (s : State) : Bool := s.calls.any (fun k => k.kind == .unpin && !k.sync)

def startCall (s : State) (i : Nat) (kind : CallKind) : State :=
  if (s.ops i).cancelled then s
  else { s with ops := upd s.ops i { s.ops i with phase := .inProgress },
                calls := s.calls ++ [{ op := i, kind := kind, sync := false, eff := false }] }

def deqPin (cfg : Cfg) (s : State) : State :=
  if busyPin s < cfg.workers then
    match s.pinQ with
    | [] => s
    | i :: rest => startCall { s with pinQ := rest } i .pin
  else s

def deqUnpin (s : State) : State :=
  if busyUnpin s then s else
    match s.unpinQ with
    | [] => s
    | i :: rest => startCall { s with unpinQ := rest } i .unpin

def effect (s : State) (i : Nat) : State :=
  match findCall s i with
  | none => s
  | some k =>
    if (s.ops i).cancelled || k.eff then s
    else { s with
      daemon := (match k.kind with
        | .pin => upd s.daemon (s.ops i).cid (some ((s.ops i).pin.mode, (s.ops i).pin.tag))
        | .unpin => upd s.daemon (s.ops i).cid none),
      calls := s.calls.map (fun k' => if k'.op = i then { k' with eff := true } else k') }

/-- the call returns nil: `SetPhase(Done); Cancel(); Clean(op)` (Clean removes only this very operation) -/
def retOk (s : State) (i : Nat) : State :=
  match findCall s i with
  | none => s
  | some k =>
    if (s.ops i).cancelled || !k.eff then s
    else { s with
      calls := dropCall s i,
      ops := upd s.ops i { s.ops i with phase := .done, cancelled := true },
      cur := if s.cur (s.ops i).cid = some i then upd s.cur (s.ops i).cid none else s.cur }

/-- the call returns a daemon error: `SetError(err); Cancel()`; the operation stays in the table -/
def retErr (s : State) (i : Nat) : State :=
  match findCall s i with
  | none => s
  | some k =>
    if (s.ops i).cancelled then s
    else { s with
      calls := dropCall s i,
      ops := upd s.ops i { s.ops i with phase := .error, cancelled := true },
      failed := if k.kind = .unpin then upd s.failed (s.ops i).cid true else s.failed }

def reap (s : State) (i : Nat) : State :=
  match findCall s i with
  | none => s
  | some _ => if (s.ops i).cancelled then { s with calls := dropCall s i } else s

def lose (s : State) (c : Nat) : State := { s with daemon := upd s.daemon c none }

inductive Ev where
  | track (p : PinSpec) | untrack (c : Nat) | recover (c : Nat)
  | deqPin | deqUnpin
  | effect (i : Nat) | retOk (i : Nat) | retErr (i : Nat) | reap (i : Nat)
  | lose (c : Nat)
  deriving DecidableEq, Repr

def stepRet (cfg : Cfg) (s : State) : Ev → State × Ret
  | .track p => track cfg s p
  | .untrack c => untrack cfg s c
  | .recover c => recover cfg s c
  | .deqPin => (deqPin cfg s, .nil)
  | .deqUnpin => (deqUnpin s, .nil)
  | .effect i => (effect s i, .nil)
  | .retOk i => (retOk s i, .nil)
  | .retErr i => (retErr s i, .nil)
  | .reap i => (reap s i, .nil)
  | .lose c => (lose s c, .nil)

def step (cfg : Cfg) (s : State) (e : Ev) : State := (stepRet cfg s e).1

def run (cfg : Cfg) (s : State) (es : List Ev) : State := es.foldl (step cfg) s

/-- run a list of events; none as soon as an instruction is refused with ErrFullQueue -/
def runOk (cfg : Cfg) : State → List Ev → Option State
  | s, [] => some s
  | s, e :: es => if (stepRet cfg s e).2 = .full then none else runOk cfg (stepRet cfg s e).1 es

/-- a recover round with IPFS healthy: recover instructions, worker steps, and daemon calls that succeed -/
def healthyEv : Ev → Bool
  | .recover _ | .deqPin | .deqUnpin | .effect _ | .retOk _ | .reap _ => true
  | _ => false

/-- states the tracker can be in: any interleaving of instructions, worker steps, daemon steps and faults -/
inductive Reachable (cfg : Cfg) : State → Prop
  | init : Reachable cfg init
  | step {s : State} (e : Ev) : Reachable cfg s → Reachable cfg (step cfg s e)

/-! ### what can be observed from outside (by the harness on the real tracker, by `observe` on the model) -/

structure CallObs where
  kind : CallKind
  cid : Nat
  pin : Option PinSpec     -- the argument of a Pin call
  deriving DecidableEq, Repr

structure Obs where
  status : Nat → Status                 -- Tracker.Status(c)
  statusAll : Nat → Option Status       -- c's entry in Tracker.StatusAll
  daemon : Nat → Option (Mode × Nat)    -- the daemon's pin table
  shared : Nat → Option PinSpec         -- the shared pinset
  failed : Nat → Bool                   -- daemon log: an unpin of c failed since c's last pin/unpin instruction
  calls : List CallObs                  -- live calls parked at the daemon
  pending : Nat                         -- Track calls that have not returned yet
  lsDown : Bool := false                -- the daemon's reads (PinLsCid / PinLs) fail at this point (scripted fault)

def alive (s : State) (k : Call) : Bool := !(s.ops k.op).cancelled

def callObs (s : State) (k : Call) : CallObs :=
  { kind := k.kind, cid := (s.ops k.op).cid,
    pin := match k.kind with | .pin => some (s.ops k.op).pin | .unpin => none }

def observe (s : State) : Obs :=
  { status := statusOf s, statusAll := statusAllOf s, daemon := s.daemon, shared := s.shared, failed := s.failed,
    calls := (s.calls.filter (alive s)).map (callObs s),
    pending := (s.calls.filter (fun k => k.sync && alive s k)).length }

/-! ### running to a stable point (what the harness waits for): no cancelled call still parked,
    no free worker with a non-empty channel. Used by the driver only. -/

def reapAll (s : State) : State :=
  { s with calls := s.calls.filter (alive s) }

def drainPin (cfg : Cfg) : Nat → State → State
  | 0, s => s
  | fuel + 1, s => if busyPin s < cfg.workers ∧ s.pinQ ≠ [] then drainPin cfg fuel (deqPin cfg s) else s

def drainUnpin : Nat → State → State
  | 0, s => s
  | fuel + 1, s => if !busyUnpin s ∧ s.unpinQ ≠ [] then drainUnpin fuel (deqUnpin s) else s

def stabilize (cfg : Cfg) (s : State) : State :=
  let s1 := reapAll s
  let s2 := drainPin cfg (s1.pinQ.length + 1) s1
  drainUnpin (s2.unpinQ.length + 1) s2

/-- the oldest live call for cid `c` (of the given kind, if one is asked for). The unchanged tracker never has
    two live calls for one cid (invariant `callCur`), so the kind only matters for code that breaks it. -/
def liveCallFor (s : State) (c : Nat) (sel : Option CallKind := none) : Option Nat :=
  (s.calls.find? (fun k => alive s k && (s.ops k.op).cid == c &&
    (match sel with | none => true | some kd => k.kind == kd))).map (·.op)

end CV.C05
