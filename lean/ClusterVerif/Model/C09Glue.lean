/-
C09 (round 8b) — the glue around the monitor that earlier rounds tied by behaviour or text only:

* interpreters for the statement programs `harness/extract_c09` regenerates from go/ast
  (`Gen.windowAddProg`, `Gen.windowLatestProg`, `Gen.windowAllOrder`, `Gen.latestMetricsProg`,
  `Gen.publishProg`): the ring statements of `Window.Add` / `Window.Latest` / `Window.All`
  (monitor/metrics/window.go), where `Monitor.LatestMetrics` takes its peerset from and what it
  returns, the guard of `Monitor.PublishMetric`. An unknown statement (`"?"`) or an unknown token
  makes the interpreter answer `none` (fail closed);
* `api.Metric` time functions (`SetTTL`, `GetTTL`, `Expired`, `Discard`) over integer nanoseconds;
* the metric construction of the informers (`informer/disk`, `informer/numpin` `GetMetric`):
  no RPC client / RPC error / answer;
* one iteration of `pushInformerMetrics` with the real `PublishMetric` guard in it.

Core Lean only.
-/
import ClusterVerif.Model.C09
import ClusterVerif.Gen.C09

namespace CV.C09.Glue
open CV.C09

/-! ### container/ring statements (the list is the ring read forwards from the cursor) -/

/-- `r.Next()` as the new cursor -/
def rotL : Window → Window
  | [] => []
  | a :: t => t ++ [a]

/-- `r.Prev()` as the new cursor -/
def rotR (w : Window) : Window :=
  match w.getLast? with
  | none => []
  | some a => a :: w.dropLast

/-- `r.Value = m` -/
def setCur (w : Window) (m : Metric) : Window :=
  match w with
  | [] => []
  | _ :: t => some m :: t

/-- `r.Value` -/
def curVal (w : Window) : Option Metric := w.head?.join

/-- `Window.Add` by its statements. `stamp` (`m.ReceivedAt = time.Now()`) does not touch the ring. -/
def interpAdd : List String → Window → Metric → Option Window
  | [], w, _ => some w
  | "stamp" :: r, w, m => interpAdd r w m
  | "set" :: r, w, m => interpAdd r (setCur w m) m
  | "next" :: r, w, m => interpAdd r (rotL w) m
  | "prev" :: r, w, m => interpAdd r (rotR w) m
  | _ :: _, _, _ => none

/-- `Window.Latest` by its statements: `r` is the local ring pointer, `v` what was read through it;
    the answer is `some none` for `ErrNoMetrics`. The shape must be: pointer, read, nil test, return. -/
def interpLatest (prog : List String) (w : Window) : Option (Option Metric) :=
  match prog with
  | [p, rd, "nil?err", "ret"] =>
    let r? : Option Window :=
      if p == "r=prev" then some (rotR w) else if p == "r=next" then some (rotL w)
      else if p == "r=cur" then some w else none
    match r? with
    | none => none
    | some r =>
      if rd == "read-r" then some (curVal r) else if rd == "read-cur" then some (curVal w) else none
  | _ => none

/-- `Window.All`: the forward walk from the cursor, each value put in front of / behind the result -/
def interpAll (order : String) (w : Window) : Option (List Metric) :=
  if order == "prepend" then some (w.filterMap id).reverse
  else if order == "append" then some (w.filterMap id)
  else none

/-! ### `Monitor.LatestMetrics` by its statements

`cached` is a peerset the monitor might have remembered from an earlier moment (what a
`peers=field` statement reads); the shipped code has no such field and calls `mon.peers(ctx)`. -/
structure LMEnv where
  latest : List Metric := []
  peers  : List Nat := []
  err    : Bool := false

def interpLM (s : State) (cached : Peerset) (n : Nat) : List String → LMEnv → Option (List Metric)
  | [], _ => none                                  -- fell off the end without a return
  | "latest=valid" :: r, e => interpLM s cached n r { e with latest := latestValid s n }
  | "nil?latest" :: r, e => if s.ps = .unknown then some e.latest else interpLM s cached n r e
  | "peers=call" :: r, e =>
    match s.ps with
    | .known l => interpLM s cached n r { e with peers := l, err := false }
    | .error => interpLM s cached n r { e with peers := [], err := true }
    | .unknown => none                               -- calling a nil function: panic
  | "peers=field" :: r, e =>
    match cached with
    | .known l => interpLM s cached n r { e with peers := l, err := false }
    | _ => interpLM s cached n r { e with peers := [], err := false }
  | "err?empty" :: r, e => if e.err then some [] else interpLM s cached n r e
  | "err?latest" :: r, e => if e.err then some e.latest else interpLM s cached n r e
  | "ret=filter" :: _, e => some (peersetFilter e.latest e.peers)
  | "ret=latest" :: _, e => some e.latest
  | _ :: _, _ => none

/-- the program read from today's source -/
def lmShipped : List String := ["latest=valid", "nil?latest", "peers=call", "err?empty", "ret=filter"]

/-- the realistic wrong edit: the peerset is a field filled at some earlier moment -/
def lmCached : List String := ["latest=valid", "nil?latest", "peers=field", "err?empty", "ret=filter"]

/-! ### `api.Metric` time functions (integer nanoseconds; `now` = `time.Now()`) -/

structure M where
  valid  : Bool
  value  : Option Nat     -- `Value` printed by `%d`; `none` = the empty string
  expire : Int
  named  : Bool := true   -- `Name` is set
  deriving DecidableEq, Repr

/-- `SetTTL(d)`: `Expire = time.Now().Add(d).UnixNano()` -/
def setTTL (now d : Int) : Int := now + d
/-- `GetTTL()`: `time.Until(time.Unix(0, Expire))` -/
def getTTL (now expire : Int) : Int := expire - now
/-- `Expired()`: `time.Now().After(time.Unix(0, Expire))` — strict -/
def expired (now expire : Int) : Bool := decide (expire < now)
/-- `Discard()` -/
def discard (now : Int) (m : M) : Bool := !m.valid || expired now m.expire

/-! ### informers -/

inductive DiskKind where
  | freeSpace | repoSize
  deriving DecidableEq, Repr

/-- what `rpcClient.CallContext(…)` gave: there is no client (before `SetClient` / after `Shutdown`),
    the call failed, or it answered (disk: `RepoSize`, `StorageMax`; numpin: the first number is the
    size of the pin map) -/
inductive Rpc where
  | noClient
  | failed
  | ok (a b : Nat)
  deriving DecidableEq, Repr

/-- `disk.Informer.GetMetric`, value computation: free space never underflows -/
def diskValue : DiskKind → Nat → Nat → Nat
  | .freeSpace, size, total => if size < total then total - size else 0
  | .repoSize, size, _ => size

/-- `disk.Informer.GetMetric` -/
def diskMetric (k : DiskKind) (now ttl : Int) : Rpc → M
  | .noClient => { valid := false, value := none, expire := 0 }
  | .failed => { valid := false, value := some 0, expire := setTTL now ttl }
  | .ok size total => { valid := true, value := some (diskValue k size total), expire := setTTL now ttl }

/-- `numpin.Informer.GetMetric` (without a client not even the name is set) -/
def numpinMetric (now ttl : Int) : Rpc → M
  | .noClient => { valid := false, value := none, expire := 0, named := false }
  | .failed => { valid := false, value := some 0, expire := setTTL now ttl }
  | .ok n _ => { valid := true, value := some n, expire := setTTL now ttl }

/-! ### `Monitor.PublishMetric` by its statements, and one iteration of `pushInformerMetrics` -/

/-- what a `PublishMetric` call did -/
inductive Pub where
  | dropped        -- discarded, `nil` returned, nothing on the wire
  | refused        -- discarded and an error returned
  | sent
  | error          -- encode / publish error returned
  deriving DecidableEq, Repr

/-- `wire = false`: the topic refuses the message (the publish error of the property's quantifier) -/
def interpPublish (now : Int) (m : M) (wire : Bool) : List String → Option Pub
  | [] => none
  | "discard?nil" :: r => if discard now m then some .dropped else interpPublish now m wire r
  | "discard?err" :: r => if discard now m then some .refused else interpPublish now m wire r
  | "encode" :: "err?ret" :: r => interpPublish now m wire r      -- msgpack of a Metric cannot fail
  | "publish" :: "err?ret" :: "ret" :: [] => some (if wire then .sent else .error)
  | _ :: _ => none

def publishShipped : List String := ["discard?nil", "encode", "err?ret", "publish", "err?ret", "ret"]

/-- `PublishMetric` as shipped -/
def publish (now : Int) (m : M) (wire : Bool) : Pub :=
  if discard now m then .dropped else if wire then .sent else .error

/-- the delay `pushInformerMetrics` re-arms its timer with after `sendInformerMetric` returned
    (`err != nil` ⇒ `GetTTL()/4`, else `GetTTL()/2`); `Int` division truncates like Go's -/
def rearm (now : Int) (m : M) : Pub → Int
  | .error | .refused => getTTL now m.expire / 4
  | .dropped | .sent => getTTL now m.expire / 2

/-! ### round 8c: the loop body of `pushInformerMetrics` as a statement program (`Gen.rearmProg`)

tokens: `send`; `discard=err` (`if err == nil && metric.Discard() { err = … }`); `err?retry/N` (`if err != nil { …;
timer.Reset(metric.GetTTL()/N); continue }`); `bad?retry/N` (same branch under `err != nil || metric.Discard()`);
`rearm/N` (the regular `timer.Reset(metric.GetTTL()/N)`, last statement). -/

/-- the tokens with a divisor, fixed list (anything else is refused): kind 0 = `err?retry`, 1 = `bad?retry`, 2 = `rearm` -/
def rearmTok : String → Option (Nat × Int)
  | "err?retry/1" => some (0, 1) | "err?retry/2" => some (0, 2) | "err?retry/3" => some (0, 3)
  | "err?retry/4" => some (0, 4) | "err?retry/8" => some (0, 8)
  | "bad?retry/1" => some (1, 1) | "bad?retry/2" => some (1, 2) | "bad?retry/3" => some (1, 3)
  | "bad?retry/4" => some (1, 4) | "bad?retry/8" => some (1, 8)
  | "rearm/1" => some (2, 1) | "rearm/2" => some (2, 2) | "rearm/3" => some (2, 3) | "rearm/4" => some (2, 4)
  | _ => none

/-- `bad` = the `err` variable is non-nil; `inv` = the metric was discardable at the call (`PublishMetric` dropped it) -/
def interpRearmFrom (ttl : Int) (inv : Bool) : Bool → List String → Option Int
  | _, [] => none
  | bad, "send" :: r => interpRearmFrom ttl inv bad r
  | bad, "discard=err" :: r => interpRearmFrom ttl inv (bad || inv) r
  | bad, tok :: r =>
    match rearmTok tok with
    | some (0, n) => if bad then some (ttl / n) else interpRearmFrom ttl inv bad r
    | some (1, n) => if bad || inv then some (ttl / n) else interpRearmFrom ttl inv bad r
    | some (2, n) => if r.isEmpty then some (ttl / n) else none
    | _ => none

def pubIsErr : Pub → Bool
  | .error | .refused => true
  | _ => false

def pubUndelivered : Pub → Bool
  | .sent => false
  | _ => true

/-- the delay the interpreted loop body re-arms the timer with -/
def interpRearm (prog : List String) (now : Int) (m : M) (p : Pub) : Option Int :=
  interpRearmFrom (getTTL now m.expire) (decide (p = .dropped) || decide (p = .refused)) (pubIsErr p) prog

def rearmShipped : List String := ["send", "err?retry/4", "rearm/2"]
/-- the proposed repair (notes/proposed_fixes/C09-2.diff): an invalid metric is retried like a publish error -/
def rearmRepaired : List String := ["send", "discard=err", "err?retry/4", "rearm/2"]

/-- the repaired re-arm as a function -/
def rearmFixed (now : Int) (m : M) : Pub → Int
  | .sent => getTTL now m.expire / 2
  | _ => getTTL now m.expire / 4

/-! nominal schedule of the loop: the timer fires exactly after the delay; every metric built at `t` expires at `t + ttl`
    (answered and failed RPC alike). `outs` = what happened at attempts 1, 2, … -/

def schedFrom (prog : List String) (ttl : Int) : Int → List Pub → Option (List Int)
  | _, [] => some []
  | t, p :: r =>
    match interpRearm prog t { valid := !(decide (p = .dropped)), value := some 0, expire := setTTL t ttl } p with
    | none => none
    | some d => (schedFrom prog ttl (t + d) r).map (t :: ·)

/-- the lateness rule of the cadence suite on attempt instants `ts` (attempt `j` is late when it does not come before the
    expiry of the metric of attempt `j-1`, or - that one undelivered, the one before delivered - before the expiry of `j-2`) -/
def lateFrom (ttl : Int) : List (Int × Pub) → Nat
  | a :: b :: c :: r =>
    (if decide (b.1 + ttl ≤ c.1) || (pubUndelivered b.2 && !pubUndelivered a.2 && decide (a.1 + ttl ≤ c.1)) then 1 else 0)
      + lateFrom ttl (b :: c :: r)
  | _ => 0

def lateCount (prog : List String) (ttl : Int) (outs : List Pub) : Option Nat :=
  match schedFrom prog ttl 0 outs with
  | none => none
  | some ts =>
    let l := ts.zip outs
    match l with
    | a :: b :: _ => some ((if decide (a.1 + ttl ≤ b.1) then 1 else 0) + lateFrom ttl l)
    | _ => some 0

end CV.C09.Glue
