/-
C09 (round 8) — the alert channel of `metrics.Checker` (monitor/metrics/checker.go).

`Model/C09.lean` observes "the alerts of one check" — the harness drains the channel after every
check, so the buffered channel `alertCh` (capacity `AlertChannelCap`) never fills up there. This
file models what `Checker.alert` does WITH the channel, for one metric name:

    lastMetric := PeerLatest(name, pid)            (stub with ReceivedAt 0 when nothing is stored)
    if alertedFor[pid][name] != lastMetric.ReceivedAt { alertedFor = ReceivedAt; delete(count) }
    if count >= MaxAlertThreshold { RemovePeerMetrics; delete(count); delete(alertedFor); return nil }
    count++                                         <-- BEFORE the send
    select { case alertCh <- alrt: ; default: return ErrAlertChannelFull }

and `CheckPeers` (skip when nothing stored; `FailedMetric`; `alert`; the FIRST error aborts the
loop and is returned). `fixed = true` is the repaired order (count only what was sent), see
`notes/proposed_fixes/C09-1.diff`.

A stored metric is `(stamp, expired)`: stamp = arrival position + 1 (stands for `ReceivedAt`, 0 is
the stub), `expired` fixed for the case (hours before / after the wall clock). Fewer than
`accrualMetricsNum` arrivals per peer, so `failed` is decided by expiry alone (no phi).
Ghost fields `sent` / `forgot` record every alert ever enqueued / every metric forgotten.
-/
namespace CV.C09.Chan

structure St where
  stored : Nat → Option (Nat × Bool)
  cnt    : Nat → Nat
  af     : Nat → Nat
  ch     : List (Nat × Nat)
  sent   : List (Nat × Nat)
  forgot : List (Nat × Nat)

def St.init : St := ⟨fun _ => none, fun _ => 0, fun _ => 0, [], [], []⟩

def upd {α : Type} (f : Nat → α) (k : Nat) (v : α) : Nat → α := fun x => if x = k then v else f x

/-- `ReceivedAt` of what `alert` calls `lastMetric` -/
def stampOf (s : St) (p : Nat) : Nat :=
  match s.stored p with
  | some (st, _) => st
  | none => 0

/-- the count after the `alertedFor != ReceivedAt` reset -/
def cnt0 (s : St) (p : Nat) : Nat := if s.af p = stampOf s p then s.cnt p else 0

/-- `Checker.alert`; the Bool is "returned ErrAlertChannelFull" -/
def alert (fixed : Bool) (cap maxA : Nat) (s : St) (p : Nat) : St × Bool :=
  if maxA ≤ cnt0 s p then
    ({ s with stored := upd s.stored p none, cnt := upd s.cnt p 0, af := upd s.af p 0,
              forgot := (p, stampOf s p) :: s.forgot }, false)
  else if s.ch.length < cap then
    ({ s with cnt := upd s.cnt p (cnt0 s p + 1), af := upd s.af p (stampOf s p),
              ch := s.ch ++ [(p, stampOf s p)], sent := (p, stampOf s p) :: s.sent }, false)
  else
    ({ s with cnt := upd s.cnt p (if fixed then cnt0 s p else cnt0 s p + 1),
              af := upd s.af p (stampOf s p) }, true)

/-- `Checker.CheckPeers` for the one metric name -/
def checkPeers (fixed : Bool) (cap maxA : Nat) : St → List Nat → St × Bool
  | s, [] => (s, false)
  | s, p :: ps =>
    match s.stored p with
    | none => checkPeers fixed cap maxA s ps
    | some (_, e) =>
      if e then
        let r := alert fixed cap maxA s p
        if r.2 then (r.1, true) else checkPeers fixed cap maxA r.1 ps
      else checkPeers fixed cap maxA s ps

inductive Op where
  | add (p : Nat) (expired : Bool)
  | check (l : List Nat)
  | drain (n : Nat)          -- the consumer receives up to n alerts
  deriving Repr, DecidableEq

inductive Obs where
  | check (err : Bool) (stored : List (Nat × Nat))
  | drained (l : List (Nat × Nat))
  deriving Repr, DecidableEq, BEq

def insertN (x : Nat) : List Nat → List Nat
  | [] => [x]
  | y :: ys => if x < y then x :: y :: ys else if x = y then y :: ys else y :: insertN x ys

def peersOf : List Op → List Nat
  | [] => []
  | .add p _ :: r => insertN p (peersOf r)
  | .check l :: r => l.foldr insertN (peersOf r)
  | .drain _ :: r => peersOf r

def storedList (s : St) (univ : List Nat) : List (Nat × Nat) :=
  univ.filterMap (fun p => (s.stored p).map (fun m => (p, m.1)))

/-- one operation at history position `n` -/
def step (fixed : Bool) (cap maxA : Nat) (univ : List Nat) (n : Nat) (s : St) : Op → St × Option Obs
  | .add p e => ({ s with stored := upd s.stored p (some (n + 1, e)) }, none)
  | .check l =>
    let r := checkPeers fixed cap maxA s l
    (r.1, some (.check r.2 (storedList r.1 univ)))
  | .drain k => ({ s with ch := s.ch.drop k }, some (.drained (s.ch.take k)))

def runFrom (fixed : Bool) (cap maxA : Nat) (univ : List Nat) : Nat → St → List Op → St × List Obs
  | _, s, [] => (s, [])
  | n, s, o :: r =>
    let a := step fixed cap maxA univ n s o
    let b := runFrom fixed cap maxA univ (n + 1) a.1 r
    (b.1, (match a.2 with | some x => [x] | none => []) ++ b.2)

/-- final state after a history from the empty checker -/
def finalState (fixed : Bool) (cap maxA : Nat) (ops : List Op) : St :=
  (runFrom fixed cap maxA (peersOf ops) 0 St.init ops).1

/-- observations of a history; the case ends with the consumer receiving everything left -/
def run (fixed : Bool) (cap maxA : Nat) (ops : List Op) : List Obs :=
  let r := runFrom fixed cap maxA (peersOf ops) 0 St.init ops
  r.2 ++ [.drained r.1.ch]

/-- arrivals per peer (the driver refuses a case that reaches `accrualMetricsNum`) -/
def arrivals (p : Nat) : List Op → Nat
  | [] => 0
  | .add q _ :: r => (if q = p then 1 else 0) + arrivals p r
  | _ :: r => arrivals p r

end CV.C09.Chan
