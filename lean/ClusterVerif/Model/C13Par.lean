/-!
C13 — parameter plumbing: how the request's import parameters (`api.AddParams`) reach the importer.
Core Lean only.

`harness/extract_c13par` reads `newIpfsAdder` (adder/adder.go) and `(*Adder).add` (adder/ipfsadd/add.go) with
go/ast into the operation list `POp` / the field table `DOp` below (right-hand sides as expression trees
`PExpr`); this file INTERPRETS them: `settingsOf ops req` is what the importer switches are after the
statements ran for the request `req`, `importerOf` what `ihelper.DagBuilderParams`, `chunker.FromString` and the
layout switch receive. Unknown statement / expression shape = `.other` = `Outcome.malformed` (fail-closed).

Also: `parseChunker`, go-ipfs-chunker `FromString` for the splitters the model covers (`""`, `default`, `size-N`).
-/
namespace CV.C13.Par

/-- fields of `api.AddParams` read by `newIpfsAdder` -/
inductive RField where
  | layout | chunker | rawLeaves | noCopy | progress | cidVersion | hashFun | other
  deriving DecidableEq, Repr

/-- switches of `ipfsadd.Adder` -/
inductive IField where
  | trickle | rawLeaves | chunker | out | progress | noCopy | cidBuilder | silent | other
  deriving DecidableEq, Repr

/-- right-hand sides -/
inductive PExpr where
  | param (f : RField)                    -- `params.F`
  | paramIs (f : RField) (lit : String)   -- `params.F == "lit"`
  | outChan                               -- `out`
  | prefixAddr                            -- `&prefix`
  | prefixVersionPos                      -- `prefix.Version > 0`
  | boolLit (b : Bool)
  | or (a b : PExpr)
  | and (a b : PExpr)
  | not (a : PExpr)
  | other
  deriving DecidableEq, Repr

/-- statements of `newIpfsAdder` -/
inductive POp where
  | newAdder                 -- `iadder, err := ipfsadd.NewAdder(ctx, dgs)`
  | retIfErr                 -- `if err != nil { return nil, err }`
  | assign (f : IField) (e : PExpr)   -- `iadder.F = e`
  | prefixForVersion         -- `prefix, err := merkledag.PrefixForCidVersion(params.CidVersion)`
  | retBadVersion            -- `if err != nil { return nil, fmt.Errorf("bad CID Version: %s", err) }`
  | lookupHash               -- `hashFunCode, ok := multihash.Names[strings.ToLower(params.HashFun)]`
  | retUnknownHash           -- `if !ok { return nil, … }`
  | retV0NotSha256           -- `if prefix.Version == 0 && hashFunCode != multihash.SHA2_256 { return nil, … }`
  | setMhType                -- `prefix.MhType = hashFunCode`
  | setMhLengthDefault       -- `prefix.MhLength = -1`
  | retAdder                 -- `return &ipfsAdder{Adder: iadder}, nil`
  | other
  deriving DecidableEq, Repr

/-- the request -/
structure Req where
  layout : String
  chunker : String
  rawLeaves : Bool
  noCopy : Bool
  progress : Bool
  cidVersion : Int
  hashFun : String
  deriving DecidableEq, Repr

/-- `cid.Prefix` as far as the adder sets it; `mhLenDefault` = `MhLength == -1` -/
structure Prefix where
  version : Nat
  mhType : Nat
  mhLenDefault : Bool
  deriving DecidableEq, Repr

/-- what the importer is configured with -/
structure Settings where
  trickle : Bool
  rawLeaves : Bool
  chunker : String
  progress : Bool
  noCopy : Bool
  outSet : Bool                 -- `Out` is the adder's output channel
  builder : Option Prefix       -- `CidBuilder`
  deriving DecidableEq, Repr

inductive Outcome where
  | built (s : Settings)
  | refused                     -- an error is returned: no importer, `FromFiles` returns before any entry
  | malformed                   -- the program is not one the interpreter understands (or dereferences nil)
  deriving DecidableEq, Repr

/-- the code of sha2-256 (`multihash.SHA2_256`) -/
def sha256Code : Nat := 0x12

/-- `merkledag.PrefixForCidVersion`: V0Prefix / V1Prefix (both dag-pb, sha2-256, default length), else an error -/
def prefixForVersion (v : Int) : Option Prefix :=
  if v == 0 then some ⟨0, sha256Code, true⟩ else if v == 1 then some ⟨1, sha256Code, true⟩ else none

/-- ASCII `strings.ToLower` -/
def lower (s : String) : String := String.ofList (s.toList.map Char.toLower)

/-- `multihash.Names[name]` over a table of names -/
def lookup (names : List (String × Nat)) (n : String) : Option Nat := (names.find? (·.1 == n)).map (·.2)

inductive Val where
  | b (v : Bool) | s (v : String) | chan | pfx | bad
  deriving DecidableEq, Repr

structure St where
  adder : Option Settings := none
  builderIsPrefix : Bool := false     -- `CidBuilder` points at the local `prefix` (later writes to it are seen)
  pfx : Option Prefix := none
  pfxErr : Bool := false
  hash : Option Nat := none
  hashLooked : Bool := false
  deriving Repr

/-- `ipfsadd.NewAdder`: all switches off, no chunker string, no builder -/
def fresh : Settings := ⟨false, false, "", false, false, false, none⟩

def evalB : Val → Option Bool
  | .b v => some v
  | _ => none

def eval (r : Req) (st : St) : PExpr → Val
  | .param .layout => .s r.layout
  | .param .chunker => .s r.chunker
  | .param .rawLeaves => .b r.rawLeaves
  | .param .noCopy => .b r.noCopy
  | .param .progress => .b r.progress
  | .param .hashFun => .s r.hashFun
  | .param _ => .bad
  | .paramIs .layout l => .b (r.layout == l)
  | .paramIs .chunker l => .b (r.chunker == l)
  | .paramIs .hashFun l => .b (r.hashFun == l)
  | .paramIs _ _ => .bad
  | .outChan => .chan
  | .prefixAddr => if st.pfx.isSome then .pfx else .bad
  | .prefixVersionPos => match st.pfx with
      | some p => .b (decide (p.version > 0))
      | none => .bad
  | .boolLit v => .b v
  | .or a b => match evalB (eval r st a), evalB (eval r st b) with
      | some x, some y => .b (x || y)
      | _, _ => .bad
  | .and a b => match evalB (eval r st a), evalB (eval r st b) with
      | some x, some y => .b (x && y)
      | _, _ => .bad
  | .not a => match evalB (eval r st a) with
      | some x => .b (!x)
      | none => .bad
  | .other => .bad

/-- `iadder.F = v` -/
def setField (st : St) (s : Settings) (f : IField) (v : Val) : Option St :=
  match f, v with
  | .trickle, .b x => some { st with adder := some { s with trickle := x } }
  | .rawLeaves, .b x => some { st with adder := some { s with rawLeaves := x } }
  | .progress, .b x => some { st with adder := some { s with progress := x } }
  | .noCopy, .b x => some { st with adder := some { s with noCopy := x } }
  | .silent, .b _ => some st
  | .chunker, .s x => some { st with adder := some { s with chunker := x } }
  | .out, .chan => some { st with adder := some { s with outSet := true } }
  | .cidBuilder, .pfx => some { st with builderIsPrefix := true }
  | _, _ => none

/-- the statements in order -/
def exec (names : List (String × Nat)) (r : Req) : List POp → St → Outcome
  | [], _ => .malformed
  | op :: ops, st =>
    match op with
    | .newAdder => exec names r ops { st with adder := some fresh }
    | .retIfErr => exec names r ops st
    | .assign f e =>
      match st.adder with
      | none => .malformed
      | some s =>
        match setField st s f (eval r st e) with
        | some st1 => exec names r ops st1
        | none => .malformed
    | .prefixForVersion =>
      match prefixForVersion r.cidVersion with
      | some p => exec names r ops { st with pfx := some p, pfxErr := false }
      | none => exec names r ops { st with pfx := some ⟨0, 0, false⟩, pfxErr := true }
    | .retBadVersion => if st.pfxErr then .refused else exec names r ops st
    | .lookupHash => exec names r ops { st with hash := lookup names (lower r.hashFun), hashLooked := true }
    | .retUnknownHash =>
      if !st.hashLooked then .malformed else if st.hash.isNone then .refused else exec names r ops st
    | .retV0NotSha256 =>
      match st.pfx, st.hash with
      | some p, some h => if p.version == 0 && h != sha256Code then .refused else exec names r ops st
      | _, _ => .malformed
    | .setMhType =>
      match st.pfx, st.hash with
      | some p, some h => exec names r ops { st with pfx := some { p with mhType := h } }
      | _, _ => .malformed
    | .setMhLengthDefault =>
      match st.pfx with
      | some p => exec names r ops { st with pfx := some { p with mhLenDefault := true } }
      | none => .malformed
    | .retAdder =>
      match st.adder with
      | some s => if st.pfxErr then .malformed else .built { s with builder := if st.builderIsPrefix then st.pfx else none }
      | none => .malformed
    | .other => .malformed

def settingsOf (names : List (String × Nat)) (ops : List POp) (r : Req) : Outcome := exec names r ops {}

/-- the program `newIpfsAdder` is today -/
def code : List POp :=
  [.newAdder, .retIfErr,
   .assign .trickle (.paramIs .layout "trickle"), .assign .rawLeaves (.param .rawLeaves), .assign .chunker (.param .chunker),
   .assign .out .outChan, .assign .progress (.param .progress), .assign .noCopy (.param .noCopy),
   .prefixForVersion, .retBadVersion, .lookupHash, .retUnknownHash, .retV0NotSha256,
   .setMhType, .setMhLengthDefault, .assign .cidBuilder .prefixAddr, .retAdder]

/-- written from the property text ("what the standard importer computes for the SAME parameters"): every
    explicit request value is the importer's value, unchanged; the CID builder is the requested version with the
    requested hash; unknown version / hash and CIDv0 with another hash than sha2-256 are refused. -/
def expected (names : List (String × Nat)) (r : Req) : Outcome :=
  if r.cidVersion != 0 && r.cidVersion != 1 then .refused else
  match lookup names (lower r.hashFun) with
  | none => .refused
  | some h =>
    if r.cidVersion == 0 && h != sha256Code then .refused
    else .built { trickle := r.layout == "trickle", rawLeaves := r.rawLeaves, chunker := r.chunker, progress := r.progress,
                  noCopy := r.noCopy, outSet := true, builder := some ⟨r.cidVersion.toNat, h, true⟩ }

/-! ### programs a plausible edit would give -/

/-- seeded change C13f: raw leaves implied by the filestore and by any CID version other than 0 -/
def forcedRaw : List POp :=
  [.newAdder, .retIfErr,
   .assign .trickle (.paramIs .layout "trickle"), .assign .chunker (.param .chunker),
   .assign .out .outChan, .assign .progress (.param .progress), .assign .noCopy (.param .noCopy),
   .prefixForVersion, .retBadVersion, .lookupHash, .retUnknownHash, .retV0NotSha256,
   .setMhType, .setMhLengthDefault, .assign .cidBuilder .prefixAddr,
   .assign .rawLeaves (.or (.or (.param .rawLeaves) (.param .noCopy)) .prefixVersionPos), .retAdder]

/-- the hash function is looked up but never written into the prefix: every add hashes with sha2-256 -/
def hashDropped : List POp := code.filter (· != .setMhType)

/-- raw-leaves not passed on (mutant m7) -/
def rawDropped : List POp := code.filter (· != .assign .rawLeaves (.param .rawLeaves))

/-- harmless: the builder is taken before the hash is written into the prefix (a pointer: the write is seen) -/
def builderEarly : List POp :=
  [.newAdder, .retIfErr, .prefixForVersion, .retBadVersion, .assign .cidBuilder .prefixAddr,
   .assign .noCopy (.param .noCopy), .assign .progress (.param .progress), .assign .out .outChan,
   .assign .chunker (.param .chunker), .assign .rawLeaves (.param .rawLeaves), .assign .trickle (.paramIs .layout "trickle"),
   .lookupHash, .retUnknownHash, .retV0NotSha256, .setMhLengthDefault, .setMhType, .retAdder]

/-! ### `(*ipfsadd.Adder).add`: what `DagBuilderParams`, `chunker.FromString` and the layout switch receive -/

/-- fields of `ihelper.DagBuilderParams` -/
inductive DField where
  | dagserv | rawLeaves | maxlinks | noCopy | cidBuilder | other
  deriving DecidableEq, Repr

/-- their values in the composite literal -/
inductive DExpr where
  | adderField (f : IField)       -- `adder.F`
  | adderDagService               -- `adder.dagService`
  | defaultLinksPerBlock          -- `ihelper.DefaultLinksPerBlock`
  | other
  deriving DecidableEq, Repr

inductive Layout where
  | trickle | balanced | other
  deriving DecidableEq, Repr

structure AddFlow where
  chunkerArg : DExpr                    -- second argument of `chunker.FromString(reader, …)`
  fields : List (DField × DExpr)        -- the `DagBuilderParams{…}` literal
  cond : DExpr                          -- `if <cond> { thn } else { els }`
  thn : Layout
  els : Layout
  deriving DecidableEq, Repr

/-- what the go-unixfs importer is run with -/
structure Importer where
  chunker : String
  rawLeaves : Bool
  maxlinks : Nat
  noCopy : Bool
  builder : Option Prefix
  trickle : Bool
  deriving DecidableEq, Repr

def fieldOf (f : AddFlow) (d : DField) : Option DExpr := (f.fields.find? (·.1 == d)).map (·.2)

/-- `none` = an unrecognised shape (fail-closed); a field left out of the literal is Go's zero value -/
def importerOf (links : Nat) (f : AddFlow) (s : Settings) : Option Importer :=
  let boolF : Option DExpr → Option Bool := fun e => match e with
    | none => some false
    | some (.adderField .rawLeaves) => some s.rawLeaves
    | some (.adderField .noCopy) => some s.noCopy
    | some (.adderField .trickle) => some s.trickle
    | some (.adderField .progress) => some s.progress
    | _ => none
  let chunkerS : Option String := match f.chunkerArg with
    | .adderField .chunker => some s.chunker
    | _ => none
  let links? : Option Nat := match fieldOf f .maxlinks with
    | some .defaultLinksPerBlock => some links
    | _ => none
  let builder? : Option (Option Prefix) := match fieldOf f .cidBuilder with
    | some (.adderField .cidBuilder) => some s.builder
    | none => some none
    | _ => none
  let trickle? : Option Bool := match boolF (some f.cond), f.thn, f.els with
    | some c, .trickle, .balanced => some c
    | some c, .balanced, .trickle => some (!c)
    | _, _, _ => none
  match fieldOf f .dagserv with
  | some .adderDagService =>
    if f.fields.any (·.1 == .other) then none else
    match chunkerS, boolF (fieldOf f .rawLeaves), links?, boolF (fieldOf f .noCopy), builder?, trickle? with
    | some c, some raw, some l, some nc, some b, some t => some ⟨c, raw, l, nc, b, t⟩
    | _, _, _, _, _, _ => none
  | _ => none

/-- `(*Adder).add` today -/
def addCode : AddFlow :=
  { chunkerArg := .adderField .chunker,
    fields := [(.dagserv, .adderDagService), (.rawLeaves, .adderField .rawLeaves), (.maxlinks, .defaultLinksPerBlock),
               (.noCopy, .adderField .noCopy), (.cidBuilder, .adderField .cidBuilder)],
    cond := .adderField .trickle, thn := .trickle, els := .balanced }

/-- request → importer, through both functions -/
def plumb (names : List (String × Nat)) (links : Nat) (ops : List POp) (f : AddFlow) (r : Req) : Option (Option Importer) :=
  match settingsOf names ops r with
  | .built s => (importerOf links f s).map some
  | .refused => some none
  | .malformed => none

/-! ### go-ipfs-chunker `FromString` (the splitters the importer model covers) -/

inductive Chunker where
  | size (n : Nat)      -- `NewSizeSplitter(r, n)`
  | unmodelled          -- `rabin…`, `buzhash`: boundaries are not modelled
  | refused             -- an error: the add fails at the first file
  deriving DecidableEq, Repr

def digitsVal : List Char → Nat → Option Nat
  | [], acc => some acc
  | c :: cs, acc => if c.isDigit then digitsVal cs (acc * 10 + (c.toNat - '0'.toNat)) else none

/-- `strconv.Atoi` for what is not negative: digits with an optional `+` -/
def atoi (cs : List Char) : Option Nat :=
  let ds := match cs with
    | '+' :: rest => rest
    | _ => cs
  if ds.isEmpty then none else digitsVal ds 0

def startsWithL : List Char → List Char → Option (List Char)
  | [], rest => some rest
  | _ :: _, [] => none
  | p :: ps, c :: cs => if p == c then startsWithL ps cs else none

/-- `chunker.FromString(r, s)`: `""` / `"default"` → the default size; `"size-N…"` → N = `strings.Split(s, "-")[1]`
    (whatever follows a second dash is ignored), refused unless `0 < N ≤ limit` (`ChunkSizeLimit`);
    `rabin…` / `buzhash` are other splitters; anything else is an error -/
def parseChunker (dflt limit : Nat) (s : String) : Chunker :=
  if s == "" || s == "default" then .size dflt else
  match startsWithL "size-".toList s.toList with
  | some rest =>
    match atoi (rest.takeWhile (· != '-')) with
    | some n => if n == 0 || n > limit then .refused else .size n
    | none => .refused
  | none =>
    if (startsWithL "rabin".toList s.toList).isSome || s == "buzhash" then .unmodelled else .refused

end CV.C13.Par
