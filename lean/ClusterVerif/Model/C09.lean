/-
C09 — model of the metrics monitor: `metrics.Window` (container/ring),
`metrics.Store` (Add / RemovePeer / RemovePeerMetrics / LatestValid / PeerLatest /
AllMetrics), `metrics.PeersetFilter`, `pubsubmon.Monitor.LatestMetrics`,
`metrics.Checker` (CheckPeers / CheckAll / failed / alert, and the dispatch of
`Watch`), and the publish loops of cluster.go as recurrences over send times.

Core Lean only (the driver links this file).

Time: the state carries the clock `now` (integer instants, the harness uses
milliseconds); `Op.advance d` moves it. A metric carries its expiry instant
`expire`; it is expired at `now` iff `expire < now` (`time.Now().After(expDate)`,
strict). So one metric is fresh at one check and expired at a later one.
Not modelled: the float computation `phi(v, d) ≥ threshold` of the accrual
detector. It is the explicit oracle `Params.orc` (op index, name, peer): the
theorems quantify over every oracle; the harness forces it with the checker's
threshold (below every phi value ⇒ always true, NaN ⇒ always false) or, with the
shipped threshold, the driver reads it off the implementation's answer.
-/
namespace CV.C09

/-- `api.Metric` as far as the monitor looks at it. `id` is the position of
    the arrival in the history (the harness carries it in `Value`). -/
structure Metric where
  id      : Nat
  name    : Nat
  peer    : Nat
  valid   : Bool
  expire  : Nat
  deriving DecidableEq, Repr

/-- `Metric.Expired` (api/types.go): `time.Now().After(time.Unix(0, m.Expire))` — strictly after. -/
def Metric.expiredAt (m : Metric) (now : Nat) : Bool := decide (m.expire < now)

/-- `Metric.Discard` (api/types.go). -/
def Metric.discard (m : Metric) (now : Nat) : Bool := !m.valid || m.expiredAt now

/-- (metric name, peer) -/
abbrev Key := Nat × Nat

/-! ### `metrics.Window`: a `container/ring` seen from its cursor

The list is the ring read forwards starting at the cursor element; `Next()`
is a rotation to the left, so `Prev()` of the cursor is the last element. -/
abbrev Window := List (Option Metric)

/-- `NewWindow(cap)`: `ring.New(cap)`, all values nil. -/
def Window.new (cap : Nat) : Window := List.replicate cap none

/-- `Add`: `window.Value = m; window = window.Next()`. -/
def Window.add (w : Window) (m : Metric) : Window :=
  match w with
  | [] => []
  | _ :: t => t ++ [some m]

/-- `Latest`: the value of `window.Prev()`, an error when it is nil. -/
def Window.latest (w : Window) : Option Metric := w.getLast?.join

/-- `All`: `Do` walks forwards from the cursor, each metric is put in front. -/
def Window.all (w : Window) : List Metric := (w.filterMap id).reverse

/-- number of samples held (`len(PeerMetricAll(..))`) -/
def Window.count (w : Window) : Nat := w.all.length

/-! ### Monitor state -/

/-- What the monitor's `PeersFunc` gives: no function at all (`nil`), an error,
    or the current peerset. -/
inductive Peerset where
  | unknown
  | error
  | known (l : List Nat)
  deriving DecidableEq, Repr

/-- update of a function at one key -/
def upd {α : Type} (f : Key → α) (k : Key) (v : α) : Key → α := fun k' => if k' = k then v else f k'

structure State where
  win  : Key → Option Window      -- Store.byName[name][peer]
  cnt  : Key → Nat                -- Checker.failedPeers[peer][name] (0 = no entry)
  af   : Key → Nat                -- Checker.alertedFor[peer][name]: stamp of the metric `cnt` refers to (0 = no entry)
  keys : List Key                 -- every (name, peer) that ever had a window, in order of first arrival
  ps   : Peerset
  now  : Nat                      -- the wall clock (`time.Now()`)

def State.init (ps : Peerset) (t0 : Nat := 0) : State :=
  { win := fun _ => none, cnt := fun _ => 0, af := fun _ => 0, keys := [], ps := ps, now := t0 }

/-- Parameters: `DefaultWindowCap`, `MaxAlertThreshold`, and the accrual oracle. -/
structure Params where
  cap  : Nat
  maxA : Nat
  orc  : Nat → Nat → Nat → Bool

/-- `accrualMetricsNum` -/
def accrualMin : Nat := 6

/-- `Store.PeerLatest(name, peer)` -/
def latestOf (s : State) (k : Key) : Option Metric := (s.win k).bind Window.latest

/-- `Store.Add` -/
def State.add (P : Params) (s : State) (m : Metric) : State :=
  let k : Key := (m.name, m.peer)
  let w := (s.win k).getD (Window.new P.cap)
  { s with win := upd s.win k (some (w.add m)),
           keys := if s.keys.contains k then s.keys else s.keys ++ [k] }

/-- `Store.RemovePeer` -/
def State.rmPeer (s : State) (p : Nat) : State :=
  { s with win := fun k => if k.2 = p then none else s.win k }

/-- `Store.RemovePeerMetrics` -/
def State.rmMetrics (s : State) (k : Key) : State := { s with win := upd s.win k none }

/-- `Store.LatestValid(name)` (up to order: the real one sorts by peer ID) -/
def latestValid (s : State) (n : Nat) : List Metric :=
  (s.keys.filter (fun k => k.1 == n)).filterMap (fun k =>
    match latestOf s k with
    | some m => if m.discard s.now then none else some m
    | none => none)

/-- `metrics.PeersetFilter` -/
def peersetFilter (ms : List Metric) (l : List Nat) : List Metric := ms.filter (fun m => l.contains m.peer)

/-- `pubsubmon.Monitor.LatestMetrics(name)` -/
def latestMetrics (s : State) (n : Nat) : List Metric :=
  match s.ps with
  | .unknown => latestValid s n
  | .error => []
  | .known l => peersetFilter (latestValid s n) l

/-- `Checker.failed(name, peer)`, the Boolean result. `i` is the index of the
    check in the history (what the oracle is asked about). -/
def failedK (P : Params) (i : Nat) (s : State) (k : Key) : Bool :=
  match s.win k with
  | none => true
  | some w =>
    match w.latest with
    | none => true
    | some m =>
      if !m.expiredAt s.now then false
      else if w.count < accrualMin then true
      else P.orc i k.1 k.2

/-- an alert as observed: name, peer, `Value` of the alert's metric (`none` for the stub) -/
abbrev Alert := Nat × Nat × Option Nat

def Alert.key (a : Alert) : Key := (a.1, a.2.1)

/-- `ReceivedAt` of a metric, as far as `alert` uses it: `Window.Add` stamps every arrival with
    a fresh clock value, here the arrival's position + 1; the stub metric `alert` builds when
    nothing is stored has `ReceivedAt = 0`, which is also what a missing map entry reads as. -/
def stampOf : Option Metric → Nat
  | some m => m.id + 1
  | none => 0

/-- the alert count as `alert` sees it after its "newer metric ⇒ start over" step -/
def ecnt (s : State) (k : Key) : Nat := if s.af k = stampOf (latestOf s k) then s.cnt k else 0

/-- `Checker.alert(peer, name)`: the count refers to one metric (`alertedFor` = its `ReceivedAt`);
    for a newer latest metric it starts over. At the threshold forget the metrics, the count and
    the stamp without alerting; below it count and alert with the latest metric. -/
def alertK (P : Params) (acc : State × List Alert) (k : Key) : State × List Alert :=
  let s := acc.1
  if ecnt s k ≥ P.maxA then
    ({ s with win := upd s.win k none, cnt := upd s.cnt k 0, af := upd s.af k 0 }, acc.2)
  else
    ({ s with cnt := upd s.cnt k (ecnt s k + 1), af := upd s.af k (stampOf (latestOf s k)) },
      acc.2 ++ [(k.1, k.2, (latestOf s k).map (·.id))])

/-- body of the `CheckPeers` loops for one (name, peer) -/
def checkOneP (P : Params) (i : Nat) (acc : State × List Alert) (k : Key) : State × List Alert :=
  if (latestOf acc.1 k).isNone then acc
  else if failedK P i acc.1 k then alertK P acc k
  else acc

/-- body of the `CheckAll` loop for one metric of the `AllMetrics` snapshot -/
def checkOneA (P : Params) (i : Nat) (acc : State × List Alert) (k : Key) : State × List Alert :=
  if failedK P i acc.1 k then alertK P acc k else acc

/-- remove repeated entries (keeps the first occurrence) -/
def dedupN : List Nat → List Nat
  | [] => []
  | x :: xs => x :: (dedupN xs).filter (· != x)

/-- `Store.MetricNames()` (in some order) -/
def names (s : State) : List Nat := dedupN (s.keys.map (·.1))

/-- the (name, peer) pairs `CheckPeers(l)` visits, in visiting order (for one order of the names) -/
def peersKeys (s : State) (l : List Nat) : List Key := (names s).flatMap (fun n => l.map (fun p => (n, p)))

/-- the snapshot `AllMetrics()`: the latest metric of every window that has one
    (valid or not, expired or not) -/
def allKeys (s : State) : List Key := s.keys.filter (fun k => (latestOf s k).isSome)

def checkPeers (P : Params) (i : Nat) (s : State) (l : List Nat) : State × List Alert :=
  (peersKeys s l).foldl (checkOneP P i) (s, [])

def checkAll (P : Params) (i : Nat) (s : State) : State × List Alert :=
  (allKeys s).foldl (checkOneA P i) (s, [])

/-- One tick of `Checker.Watch`. -/
def tick (P : Params) (i : Nat) (s : State) : State × List Alert :=
  match s.ps with
  | .unknown => checkAll P i s
  | .error => (s, [])
  | .known l => checkPeers P i s l

/-! ### Histories -/

inductive Op where
  | add (m : Metric)              -- a metric arrives (LogMetric / Store.Add)
  | rmPeer (p : Nat)              -- Store.RemovePeer
  | rmMetrics (n p : Nat)         -- Store.RemovePeerMetrics
  | setPeers (ps : Peerset)       -- the peerset changes
  | query (n : Nat)               -- Monitor.LatestMetrics(name)
  | tick                          -- one tick of Watch
  | checkPeers (l : List Nat)     -- Checker.CheckPeers(l)
  | advance (d : Nat)             -- the clock moves on by `d`
  deriving DecidableEq, Repr

/-- What is observed at an operation. -/
inductive Obs where
  | silent
  | metrics (l : List (Nat × Nat)) (sorted : Bool)   -- (peer, id) of every metric returned; result was ordered by peer ID
  | check (alerts : List Alert) (forgot : List Key)  -- alerts drained from the channel; (name, peer) whose stored metrics vanished
  | panic
  deriving DecidableEq, Repr

/-- windows that were there before and are gone after a check -/
def forgotten (s s' : State) : List Key :=
  s.keys.filter (fun k => (latestOf s k).isSome && (latestOf s' k).isNone)

def step (P : Params) (i : Nat) (s : State) : Op → State × Obs
  | .add m => (s.add P m, .silent)
  | .rmPeer p => (s.rmPeer p, .silent)
  | .rmMetrics n p => (s.rmMetrics (n, p), .silent)
  | .setPeers ps => ({ s with ps := ps }, .silent)
  | .query n => (s, .metrics ((latestMetrics s n).map (fun m => (m.peer, m.id))) true)
  | .tick => let r := tick P i s; (r.1, .check r.2 (forgotten s r.1))
  | .checkPeers l => let r := checkPeers P i s l; (r.1, .check r.2 (forgotten s r.1))
  | .advance d => ({ s with now := s.now + d }, .silent)

/-- observations of a history run from state `s`, the first op having index `i` -/
def runFrom (P : Params) : Nat → State → List Op → List Obs
  | _, _, [] => []
  | i, s, op :: ops => let r := step P i s op; r.2 :: runFrom P (i + 1) r.1 ops

def stateAfter (P : Params) : Nat → State → List Op → State
  | _, s, [] => s
  | i, s, op :: ops => stateAfter P (i + 1) (step P i s op).1 ops

structure Input where
  cap  : Nat               -- DefaultWindowCap
  maxA : Nat               -- MaxAlertThreshold
  ps0  : Peerset           -- peerset at the start
  ops  : List Op
  t0   : Nat := 0          -- the clock at the start
  deriving Repr

def run (i : Input) (orc : Nat → Nat → Nat → Bool) : List Obs :=
  runFrom { cap := i.cap, maxA := i.maxA, orc := orc } 0 (State.init i.ps0 i.t0) i.ops

/-- the clock when the op at position `j` of the history runs -/
def clockAt (t0 : Nat) (ops : List Op) (j : Nat) : Nat :=
  (ops.take j).foldl (fun t op => match op with | .advance d => t + d | _ => t) t0

/-- same observation up to the order of what came out of Go maps -/
def Obs.same : Obs → Obs → Bool
  | .silent, .silent => true
  | .metrics l s, .metrics l' s' => l.isPerm l' && s == s'
  | .check a f, .check a' f' => a.isPerm a' && f.isPerm f'
  | .panic, .panic => true
  | _, _ => false

def sameAll : List Obs → List Obs → Bool
  | [], [] => true
  | a :: as, b :: bs => a.same b && sameAll as bs
  | _, _ => false

/-- The relation: `out` is what the code may show on `i` under oracle `orc`. -/
def allowed (i : Input) (orc : Nat → Nat → Nat → Bool) (out : List Obs) : Bool := sameAll (run i orc) out


/-! ### the receive path of pubsubmon (`logFromPubsub`)

`msg := subscription.Next(); err := decode(msg.Data, &metric); if err != nil { continue }; LogMetric(&metric)`.
A payload is classified by what the msgpack decoder does with it (the harness sends concrete byte
strings of every class through real pubsub): the encoding `PublishMetric` produces — also with unknown
extra keys, trailing bytes, as a positional array, with any `ReceivedAt` (`Window.Add` overwrites it) —
decodes to the metric; `nil`, an empty map and an empty array decode WITHOUT error to the zero
`api.Metric` (name "", peer "", not valid, `Expire = 0`), which is stored like any other; everything
else (truncated, empty, not a map/array, a field of the wrong type, a peer that is no peer ID) is an
error and the message is dropped. The sender of the message is not compared with `metric.Peer`. -/
inductive Payload where
  | wellFormed (name peer : Nat) (valid : Bool) (expire : Nat)
  | zeroValue
  | malformed
  deriving DecidableEq, Repr

/-- the indices standing for the empty metric name and the empty peer ID -/
def emptyName : Nat := 7
def emptyPeer : Nat := 13

/-- the decoder; `id` is the stamp the arrival gets (its position) -/
def decode (id : Nat) : Payload → Option Metric
  | .wellFormed n p v e => some { id := id, name := n, peer := p, valid := v, expire := e }
  | .zeroValue => some { id := id, name := emptyName, peer := emptyPeer, valid := false, expire := 0 }
  | .malformed => none

/-- surface operations: those of `Op`, or a message arriving on the topic -/
inductive ROp where
  | op (o : Op)
  | recv (p : Payload)
  deriving Repr

/-- one iteration of `logFromPubsub` for the message at position `i`: decode, on error `continue`
    (nothing happens: `advance 0` keeps the positions), else `LogMetric` -/
def lowerOne (i : Nat) : ROp → Op
  | .op o => o
  | .recv p => match decode i p with
    | some m => .add m
    | none => .advance 0

def lower : Nat → List ROp → List Op
  | _, [] => []
  | i, r :: rs => lowerOne i r :: lower (i + 1) rs

/-! ### `Checker.Watch` as a recurrence

`ticker := time.NewTicker(interval)`; on every tick: `peers, err := peersF(ctx)`, on error skip the
round, else `CheckPeers(peers)` (`CheckAll` when `peersF` is nil) — that is `Op.tick`. `watchOps iv off`
puts the ticks into a history: `off` is the time since the last tick, every `advance` is cut at the
tick instants. -/
def watchSplit (iv off d : Nat) : List Op :=
  if off + d < iv then [.advance d]
  else [.advance (iv - off), .tick] ++ (List.replicate ((off + d) / iv - 1) [Op.advance iv, Op.tick]).flatten ++
    [.advance ((off + d) % iv)]

def watchOps (iv : Nat) : Nat → List Op → List Op
  | _, [] => []
  | off, .advance d :: ops => watchSplit iv off d ++ watchOps iv ((off + d) % iv) ops
  | off, op :: ops => op :: watchOps iv off ops

/-- total time a stretch of history takes -/
def advSum (ops : List Op) : Nat := (ops.map (fun op => match op with | .advance d => d | _ => 0)).sum

/-! ### The publish loops of cluster.go as recurrences

All instants are integers (nanoseconds). One iteration of `pushInformerMetrics`:
the timer fires at `fire`; `GetMetric` stamps `Expire = stamp + ttl`; the
monitor sees `PublishMetric` at `pub`; the timer is re-armed at `reset` with
`metric.GetTTL()/2` (`/4` after a publish error), `GetTTL() = Expire - reset`. -/
structure Iter where
  fire  : Int
  stamp : Int
  pub   : Int
  reset : Int
  err   : Bool
  deriving Repr

def Iter.expire (ttl : Int) (it : Iter) : Int := it.stamp + ttl

/-- when the re-armed timer fires (`Int` division truncates like Go's for the non-negative case) -/
def Iter.nextFire (ttl : Int) (it : Iter) : Int :=
  it.reset + (it.expire ttl - it.reset) / (if it.err then 4 else 2)

/-- the iteration's steps happen in program order, all within `delay` of the timer firing -/
def Iter.wf (delay : Int) (it : Iter) : Prop :=
  it.fire ≤ it.stamp ∧ it.stamp ≤ it.pub ∧ it.pub ≤ it.reset ∧ it.reset ≤ it.fire + delay

/-- `b.follows ttl a`: `b` is the iteration that follows `a` -/
def Iter.follows (b : Iter) (ttl : Int) (a : Iter) : Prop := b.fire = a.nextFire ttl

/-! One iteration of `pushPingMetrics` uses the same record: the timer fires at
`fire`, `sendPingMetric` stamps `Expire = stamp + 2 * interval`, the monitor sees
`PublishMetric` at `pub`, and the timer is re-armed at `reset` with `interval`
(`interval / 2` after a publish error). -/

def Iter.pingExpire (interval : Int) (it : Iter) : Int := it.stamp + 2 * interval

def Iter.pingNextFire (interval : Int) (it : Iter) : Int :=
  it.reset + (if it.err then interval / 2 else interval)

def Iter.pingFollows (b : Iter) (interval : Int) (a : Iter) : Prop := b.fire = a.pingNextFire interval

end CV.C09
