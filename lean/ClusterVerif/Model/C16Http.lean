import ClusterVerif.Gen.C16
/-!
# C16 — the HTTP layer of the connector as a model

Core Lean only.  `doPostCtx`, `checkResponse` and `postCtx` are not transcribed by hand: the
model *interprets* the decision tables that `harness/extract_c16` regenerates from
`ipfsconn/ipfshttp/ipfshttp.go` on every run (`Gen.doPostCtxDec`, `Gen.checkResponseDec`,
`Gen.postCtxDec`: every path through the function, the tests taken on it, what it returns).
A test or return expression the translator did not recognise makes the interpreter answer
`failClosed`, and `post_success_iff` (Props) stops checking.

What the daemon sends for one request is a point of a product space (`Beh`): HTTP status code
(any number), content type, shape of the complete body, and what the transport does (all of it
arrives / nothing arrives / it breaks or stalls before the headers or inside the body).
-/
namespace CV.C16
open Dec

/-! ### what one reply looks like on the wire -/

inductive CType | json | text | none
  deriving DecidableEq, Repr, Inhabited

/-- message text of an IPFS error object, as far as the connector reads it -/
inductive Msg
  | notPinned   -- exactly "not pinned or pinned indirectly" (dspinner / ipldpinner ErrNotPinned)
  | near        -- a near miss of that text
  | already     -- "<cid> already pinned recursively"
  | other
  deriving DecidableEq, Repr, Inhabited

/-- shape of the complete body -/
inductive Body
  | expected        -- well-formed reply of the endpoint's type that names the CID
  | expectedAny     -- pin/ls: truthful listing that ignores the `type=` filter
  | errObj (m : Msg) -- {"Message":…,"Code":0,"Type":"error"}
  | jnull           -- `null`
  | otherObj        -- a JSON object with none of the fields anybody reads
  | badMsg          -- a JSON object whose "Message" is not a string
  | badType         -- a JSON object with the endpoint's field names and wrong types
  | otherJson       -- valid JSON that is not an object (array, string, number)
  | nonJson         -- not JSON (text, HTML, cut-off JSON)
  | empty
  | stuck           -- pin/add stream: alive, the progress number never rises
  | slow            -- pin/add stream: slow, rising, completes
  | serr            -- pin/add stream: progress, then an error object and/or the X-Stream-Error trailer
  deriving DecidableEq, Repr, Inhabited

inductive Transport
  | full                  -- headers and the whole body arrive
  | noHeaders             -- the connection ends before any response byte
  | stallHeaders          -- no response byte, ever
  | cut (late : Bool)     -- headers arrive, the body breaks off; `late`: the daemon had done the work already
  | stallBody             -- headers (and part of the body) arrive, then silence
  deriving DecidableEq, Repr, Inhabited

/-- scripted behaviour of the daemon for one request -/
structure Beh where
  status : Nat
  ctype : CType
  body : Body
  transport : Transport
  deriving DecidableEq, Repr, Inhabited

/-- does `json.Unmarshal(body, &ipfsError{})` accept the body?  Any JSON object whose
`Message`, if present, is a string — and `null`. -/
def Body.decodesAsErrObj : Body → Bool
  | .expected | .expectedAny | .errObj _ | .jnull | .otherObj | .badType => true
  | _ => false

/-- the `Message` the connector would read off a decodable body -/
def Body.msg : Body → Msg
  | .errObj m => m
  | _ => .other

/-! ### the facts the helpers test -/

structure Facts where
  status : Nat
  newReqErr : Bool   -- http.NewRequest refused the URL
  doErr : Bool       -- the round trip gave no response (transport error, or the context ended first)
  readErr : Bool     -- reading the body to its end fails
  decodeErr : Bool   -- the complete body does not decode as an ipfsError object
  deriving DecidableEq, Repr

def Beh.facts (b : Beh) : Facts :=
  { status := b.status,
    newReqErr := false,
    doErr := b.transport == .noHeaders || b.transport == .stallHeaders,
    readErr := (match b.transport with | .cut _ | .stallBody => true | _ => false),
    decodeErr := !b.body.decodesAsErrObj }

/-! ### interpreter of the generated decision tables -/

def Dec.Cmp.eval : Cmp → Nat → Nat → Bool
  | .eq, a, b => a == b
  | .ne, a, b => a != b
  | .lt, a, b => a < b
  | .le, a, b => a ≤ b
  | .gt, a, b => a > b
  | .ge, a, b => a ≥ b

def evIsErr (f : Facts) (checkErr : Bool) : Ev → Bool
  | .newReqErr => f.newReqErr
  | .doErr => f.doErr
  | .readErr => f.readErr
  | .decodeErr => f.decodeErr
  | .checkErr => checkErr

def Dec.Cond.eval (f : Facts) (checkErr : Bool) : Cond → Bool
  | .status c n => c.eval f.status n
  | .isNil e => !evIsErr f checkErr e
  | .notNil e => evIsErr f checkErr e
  | .and a b => a.eval f checkErr && b.eval f checkErr
  | .or a b => a.eval f checkErr || b.eval f checkErr
  | .not a => !a.eval f checkErr
  | .unknown _ => false

/-- did the translator understand everything? -/
def Dec.Cond.known : Cond → Bool
  | .and a b => a.known && b.known
  | .or a b => a.known && b.known
  | .not a => a.known
  | .unknown _ => false
  | _ => true

def Dec.Val.known : Val → Bool
  | .unknown _ => false
  | _ => true

def Dec.Er.known : Er → Bool
  | .unknown _ => false
  | _ => true

def Dec.Path.known (p : Path) : Bool := p.conds.all Cond.known && p.val.known && p.err.known

/-- the path taken: the first whose tests all hold; `none` (fail closed) if any test, statement or
result of any path of the function was not understood -/
def evalTable (f : Facts) (checkErr : Bool) (tbl : List Path) : Option Path :=
  if tbl.all Path.known then tbl.find? (fun p => p.conds.all (Cond.eval f checkErr)) else none

/-- first result, normalised -/
inductive PBody
  | nil        -- nil
  | errBody    -- the body of a non-200 reply that decoded as an error object
  | body       -- the complete body of a 200 reply
  | response   -- (doPostCtx) the response with its unread body
  deriving DecidableEq, Repr

/-- second result, normalised -/
inductive PErr
  | none
  | transport   -- error of the round trip
  | ipfs        -- the decoded ipfsError
  | generic     -- "IPFS request unsuccessful … Body: …"
  | read        -- error of reading a 200 body
  | failClosed  -- the translator met something it does not understand
  deriving DecidableEq, Repr

structure PostOut where
  body : PBody
  err : PErr
  deriving DecidableEq, Repr

def failClosed : PostOut := ⟨.nil, .failClosed⟩

/-- `doPostCtx`: the response and the error of the round trip -/
def doPost (f : Facts) : PostOut :=
  match evalTable f false Gen.doPostCtxDec with
  | some ⟨_, .response, .ev .doErr⟩ => if f.doErr then ⟨.nil, .transport⟩ else ⟨.response, .none⟩
  | _ => failClosed

/-- `checkResponse` on a response that arrived -/
def check (f : Facts) : PostOut :=
  match evalTable f false Gen.checkResponseDec with
  | some ⟨_, .nil, .nil⟩ => ⟨.nil, .none⟩
  | some ⟨_, .readBody, .ipfsError⟩ => if f.readErr || f.decodeErr then failClosed else ⟨.errBody, .ipfs⟩
  | some ⟨_, .nil, .generic⟩ => ⟨.nil, .generic⟩
  | _ => failClosed

/-- `postCtx` -/
def post (f : Facts) : PostOut :=
  match doPost f with
  | ⟨_, .failClosed⟩ => failClosed
  | _ =>
    let c := check f
    if c.err == .failClosed && !f.doErr then failClosed else
    match evalTable f (c.err != .none) Gen.postCtxDec with
    | some ⟨_, .nil, .ev .doErr⟩ => if f.doErr then ⟨.nil, .transport⟩ else failClosed
    | some ⟨_, .checkBody, .ev .checkErr⟩ => if c.err != .none then c else failClosed
    | some ⟨_, .nil, .ev .readErr⟩ => if f.readErr then ⟨.nil, .read⟩ else failClosed
    | some ⟨_, .readBody, .nil⟩ => if f.readErr then failClosed else ⟨.body, .none⟩
    | _ => failClosed

/-! ### the same three helpers, written down by hand

This is the reading of the helpers that the conversation model, the Spec and the driver use; that the
source still says this is `doPost_eq`, `check_eq`, `post_eq` (Lemmas) over the interpreted tables — so a
changed helper breaks those obligations, while the Spec keeps judging the implementation's outputs by
this reference (status 200 and a completely read body, nothing else, is a success). -/

def doPostRef (f : Facts) : PostOut := if f.doErr then ⟨.nil, .transport⟩ else ⟨.response, .none⟩

def checkRef (f : Facts) : PostOut :=
  if f.status = 200 then ⟨.nil, .none⟩
  else if f.readErr || f.decodeErr then ⟨.nil, .generic⟩ else ⟨.errBody, .ipfs⟩

def postRef (f : Facts) : PostOut :=
  if f.doErr then ⟨.nil, .transport⟩
  else if f.status = 200 then (if f.readErr then ⟨.nil, .read⟩ else ⟨.body, .none⟩)
  else if f.readErr || f.decodeErr then ⟨.nil, .generic⟩ else ⟨.errBody, .ipfs⟩

/-! ### what the connector can tell apart -/

inductive Cls
  | honest      -- 200, effect applied, well-formed body (or go-ipfs' own refusal)
  | honestAny   -- (pin/ls only) as honest, the type filter not honoured
  | ipfsErr     -- non-200 + IPFS error object, text not the tolerated one; no effect
  | notPinned   -- non-200 + IPFS error object with exactly the ErrNotPinned text; no effect
  | hardFail    -- non-JSON error reply or connection dropped; no effect
  | lostReply   -- effect applied, connection dropped inside the reply
  | stall       -- no (complete) reply, ever
  | noProgress  -- (pin/add) stream alive, progress stuck
  | slowOk      -- (pin/add) slow but progressing, completes
  | streamErr   -- (pin/add) error object inside a 200 stream and/or error trailer; no effect
  | badBody     -- 200, effect applied, unparsable body
  deriving DecidableEq, Repr

def Beh.stalls (b : Beh) : Bool := b.transport == .stallHeaders || b.transport == .stallBody

/-- class of a failed `checkResponse` / `postCtx` -/
def clsErr (b : Beh) (e : PErr) : Cls :=
  match e with
  | .ipfs => if b.body.msg = .notPinned then .notPinned else .ipfsErr
  | .read => (match b.transport with | .cut true => .lostReply | _ => .hardFail)
  | _ => .hardFail

/-- The stream forms exist on pin/add only: on any other endpoint the daemon falls back to the
plain form (`stuck`, `slow` ↦ the expected reply; `serr` ↦ a 500 error object). -/
def Beh.plain (b : Beh) : Beh :=
  match b.body with
  | .serr => ⟨500, b.ctype, .errObj .other, b.transport⟩
  | .stuck | .slow => ⟨b.status, b.ctype, .expected, b.transport⟩
  | _ => b

/-- a plain (non-stream) request answered by `b`: `postCtx`, then the caller reads the body or not -/
def clsPost (b : Beh) : Cls :=
  if b.stalls then .stall
  else
    match (postRef b.facts).err with
    | .none =>
      (match b.body with
       | .expected => .honest
       | .expectedAny => .honestAny
       | _ => .badBody)
    | e => clsErr b e

def clsPlain (b : Beh) : Cls := clsPost b.plain

/-- pin/add: `doPostCtx`, `checkResponse`, then the progress stream is decoded object by object -/
def clsAdd (b : Beh) : Cls :=
  if b.transport = .stallHeaders then .stall
  else match (doPostRef b.facts).err with
  | .none =>
    if b.transport = .stallBody then .stall
    else match (checkRef b.facts).err with
    | .none =>
      (match b.transport with
       | .cut late => if late then .lostReply else .hardFail
       | _ =>
         match b.body with
         | .expected | .expectedAny | .otherObj | .jnull | .empty => .honest
         | .errObj _ | .serr => .streamErr
         | .stuck => .noProgress
         | .slow => .slowOk
         | _ => .badBody)
    | e => clsErr b e
  | _ => .hardFail

/-- class of the answer to a request that is not a lookup -/
def clsAt (isAdd : Bool) (b : Beh) : Cls :=
  if isAdd then clsAdd b
  else match clsPlain b with
    | .honestAny => .honest
    | c => c

/-- class of the answer to a lookup (`pin/ls` of the CID itself or of the update source) -/
def clsFirst (b : Beh) : Cls := clsPlain b

end CV.C16
