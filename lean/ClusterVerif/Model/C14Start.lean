/-! # C14 — the Raft data folder as (snapshot, log); `state import` onto it; the STARTED peer

Round 8. Until now a Raft data folder was `nosnap | snap s` (what `OfflineState` reads). A real folder
also holds `raft.db`: the LOG. A peer that starts on a folder restores the newest snapshot and replays
every log entry whose index is larger than the snapshot's index (hashicorp/raft `restoreSnapshot`, then the
entries are applied as soon as the single voter has elected itself and committed its no-op). So what the
started peer serves is NOT a function of the snapshot alone.

* `Raft = {snap : Option (index × pinset), log : List (index × Entry)}`; `Data = Option Raft` (`none`: no folder).
* `start` = restore + replay of the suffix; `offline` = `raft.OfflineState` (newest snapshot or nothing).
* `boot`/`commit`/`shutdown`/`build`: a single-voter peer writing the folder (bootstrap writes the configuration at
  index 1, every start appends the leader's no-op, `LogPin`/`LogUnpin` append one entry, a graceful shutdown takes a
  snapshot at the last index; a KILLED peer leaves the log and no new snapshot).
* `cleanup` = `raft.CleanupRaft` (no snapshot: the folder is removed — WITH its log —, else it becomes the backup),
  `snapshotSave` = `raft.SnapshotSave` as it is (meta == nil: index 2, term 1, nothing is removed — a `raft.db` that is
  there STAYS; meta ≠ nil: `CleanupRaft`, same index), `importState` = `raftStateManager.ImportState` = cleanup,
  then snapshotSave. `importNoClean` = the alternative a realistic edit implements (leave the backup to SnapshotSave).

Pins are cids here (the pin content is the subject of the `pins` suite). Core Lean only. -/
namespace CV.C14.Start

inductive Entry where
  | cfg | noop
  | pin (c : Nat)
  | unpin (c : Nat)
  deriving DecidableEq, Repr

structure Raft where
  snap : Option (Nat × List Nat)      -- newest snapshot: index, pinset
  log  : List (Nat × Entry)           -- raft.db: index, entry (ascending)
  deriving DecidableEq, Repr

abbrev Data := Option Raft

/-- pinsets are strictly sorted lists of cids -/
def ins (c : Nat) : List Nat → List Nat
  | [] => [c]
  | d :: t => if c < d then c :: d :: t else if c = d then d :: t else d :: ins c t

def del (c : Nat) (s : List Nat) : List Nat := s.filter (· != c)

def norm (l : List Nat) : List Nat := l.foldr ins []

def applyE (s : List Nat) : Entry → List Nat
  | .pin c => ins c s
  | .unpin c => del c s
  | _ => s

/-- apply the entries with index > `after` -/
def replay (s : List Nat) (after : Nat) : List (Nat × Entry) → List Nat
  | [] => s
  | (i, e) :: t => replay (if after < i then applyE s e else s) after t

/-- what a peer STARTED on the folder serves -/
def startR (r : Raft) : List Nat :=
  match r.snap with
  | none => replay [] 0 r.log
  | some (i, s) => replay s i r.log

def start : Data → List Nat
  | none => []
  | some r => startR r

/-- `raft.OfflineState` / `LastStateRaw`: the newest snapshot, nothing else -/
def offline : Data → List Nat
  | some { snap := some (_, s), .. } => s
  | _ => []

def hasSnap : Data → Bool
  | some { snap := some _, .. } => true
  | _ => false

def lastLog (l : List (Nat × Entry)) : Nat := (l.getLast?.map (·.1)).getD 0

def lastIdx (r : Raft) : Nat := max (lastLog r.log) ((r.snap.map (·.1)).getD 0)

/-! ### a single-voter peer writing the folder -/

def commit (r : Raft) (e : Entry) : Raft := { r with log := r.log ++ [(lastIdx r + 1, e)] }

/-- start: bootstrap when there is no state (configuration at index 1), then the leader's no-op -/
def boot : Data → Raft
  | none => { snap := none, log := [(1, .cfg), (2, .noop)] }
  | some r => commit r .noop

def Entry.isCmd : Entry → Bool
  | .pin _ => true
  | .unpin _ => true
  | _ => false

/-- index of the last COMMAND entry (0: none). hashicorp/raft v1.1.1 hands only `LogCommand` entries to the FSM
    goroutine, whose `lastIndex` is what a snapshot is taken at: no-ops and configuration entries do not move it
    (observed by the first random run: a peer shut down right after its bootstrap takes NO snapshot —
    "nothing new to snapshot" —, and the snapshot of `u6,S` sits at index 3 while the log ends at 4). -/
def cmdIdx : List (Nat × Entry) → Nat
  | [] => 0
  | (i, e) :: t => let r := cmdIdx t; if r = 0 then (if e.isCmd then i else 0) else r

def fsmIdx (r : Raft) : Nat := max (cmdIdx r.log) ((r.snap.map (·.1)).getD 0)

/-- graceful shutdown: snapshot of the applied state at the FSM's last index (the log is kept: TrailingLogs);
    nothing applied yet: no snapshot -/
def shutdown (r : Raft) : Raft :=
  if fsmIdx r = 0 then r else { r with snap := some (fsmIdx r, startR r) }

inductive Op where
  | pin (c : Nat) | unpin (c : Nat)
  | restart                         -- graceful shutdown and start again
  deriving DecidableEq, Repr

def stepOp (r : Raft) : Op → Raft
  | .pin c => commit r (.pin c)
  | .unpin c => commit r (.unpin c)
  | .restart => boot (some (shutdown r))

def runOps (r : Raft) (ops : List Op) : Raft := ops.foldl stepOp r

/-- the folder a peer leaves that ran `ops` and then was killed (`graceful = false`) or shut down -/
def build (ops : List Op) (graceful : Bool) : Data :=
  let r := runOps (boot none) ops
  some (if graceful then shutdown r else r)

/-! ### clean, save, import -/

/-- `CleanupRaft`: (data folder afterwards, what went to old.0) -/
def cleanup : Data → Data × Option Raft
  | none => (none, none)
  | some r => match r.snap with
    | none => (none, none)            -- "cleaning empty Raft data folder": RemoveAll, log included
    | some _ => (none, some r)

/-- `SnapshotSave` -/
def snapshotSave (d : Data) (s : List Nat) : Data × Option Raft :=
  match d with
  | none => (some { snap := some (2, s), log := [] }, none)
  | some r => match r.snap with
    | none => (some { snap := some (2, s), log := r.log }, none)   -- fresh-start branch: raft.db is not touched
    | some (i, _) => (some { snap := some (i, s), log := [] }, some r)

/-- `raftStateManager.ImportState` (stream decoded without error): Clean, then SnapshotSave -/
def importState (d : Data) (s : List Nat) : Data × Option Raft :=
  let c := cleanup d
  let v := snapshotSave c.1 s
  (v.1, match c.2 with | some b => some b | none => v.2)

/-- the alternative: no Clean, the backup is left to SnapshotSave -/
def importNoClean (d : Data) (s : List Nat) : Data × Option Raft := snapshotSave d s

def idxPair : Data → Option Nat × Nat
  | none => (none, 0)
  | some r => (r.snap.map (·.1), lastLog r.log)

end CV.C14.Start
