/-!
# C04 — the source text the hand-written model transcribes (snapshot)

Taken with `tools/snapshot_skeleton.py C04` from the translator output after the model was last read against the source.
`Gen/C04.lean` is regenerated from /repo on every run and `Props/C04.lean` proves `Gen.f = Expected.f` for every function below
(`rfl`): an edit to any of these functions breaks that obligation, and the check then searches for a failing input with the
correspondence run (a rewrite that keeps the behaviour ends as `no-failing-input-found`, see DESIGN 2.2).
-/
namespace CV.C04.Expected


/-- Cluster.setupReplicationFactor -/
def setupReplicationFactor : List String := [
  "rplMin := pin.ReplicationFactorMin",
  "rplMax := pin.ReplicationFactorMax",
  "if rplMin == 0 {",
  "rplMin = c.config.ReplicationFactorMin",
  "pin.ReplicationFactorMin = rplMin",
  "}",
  "if rplMax == 0 {",
  "rplMax = c.config.ReplicationFactorMax",
  "pin.ReplicationFactorMax = rplMax",
  "}",
  "if pin.IsPinEverywhere() {",
  "pin.Allocations = nil",
  "}",
  "return isReplicationFactorValid(rplMin, rplMax)"
]

/-- Cluster.unpinClusterDag -/
def unpinClusterDag : List String := [
  "cids, err := c.cidsFromMetaPin(ctx, metaPin.Cid)",
  "if err != nil {",
  "return err",
  "}",
  "for _, ci := range cids {",
  "err = c.consensus.LogUnpin(ctx, api.PinCid(ci))",
  "if err != nil {",
  "return err",
  "}",
  "}",
  "return nil"
]

/-- checkPinType -/
def checkPinType : List String := [
  "switch pin.Type {",
  "case api.DataType:",
  "if pin.Reference != nil {",
  "return errors.New(S)",
  "}",
  "case api.ShardType:",
  "if pin.MaxDepth != 1 {",
  "return errors.New(S)",
  "}",
  "case api.ClusterDAGType:",
  "if pin.MaxDepth != 0 {",
  "return errors.New(S)",
  "}",
  "if pin.Reference == nil {",
  "return errors.New(S)",
  "}",
  "case api.MetaType:",
  "if len(pin.Allocations) != 0 {",
  "return errors.New(S)",
  "}",
  "if pin.Reference == nil {",
  "return errors.New(S)",
  "}",
  "default:",
  "return errors.New(S)",
  "}",
  "return nil"
]

/-- PinOptions.Equals -/
def optsEquals : List String := [
  "if po == nil && po2 != nil || po2 == nil && po != nil {",
  "return false",
  "}",
  "if po == po2 {",
  "return false",
  "}",
  "if po.Name != po2.Name {",
  "return false",
  "}",
  "if po.Mode != po2.Mode {",
  "return false",
  "}",
  "if po.ReplicationFactorMax != po2.ReplicationFactorMax {",
  "return false",
  "}",
  "if po.ReplicationFactorMin != po2.ReplicationFactorMin {",
  "return false",
  "}",
  "if po.ShardSize != po2.ShardSize {",
  "return false",
  "}",
  "lenAllocs1 := len(po.UserAllocations)",
  "lenAllocs2 := len(po2.UserAllocations)",
  "if lenAllocs1 != lenAllocs2 {",
  "return false",
  "}",
  "allocs1 := PeersToStrings(po.UserAllocations)",
  "allocs2 := PeersToStrings(po2.UserAllocations)",
  "sort.Strings(allocs1)",
  "sort.Strings(allocs2)",
  "if strings.Join(allocs1, S) != strings.Join(allocs2, S) {",
  "return false",
  "}",
  "if !po.ExpireAt.Equal(po2.ExpireAt) {",
  "return false",
  "}",
  "for k, v := range po.Metadata {",
  "v2, ok := po2.Metadata[k]",
  "if k != S && (!ok || v != v2) {",
  "return false",
  "}",
  "}",
  "for k := range po2.Metadata {",
  "_, ok := po.Metadata[k]",
  "if k != S && !ok {",
  "return false",
  "}",
  "}",
  "lenOrigins1 := len(po.Origins)",
  "lenOrigins2 := len(po2.Origins)",
  "if lenOrigins1 != lenOrigins2 {",
  "return false",
  "}",
  "for _, o1 := range po.Origins {",
  "found := false",
  "for _, o2 := range po2.Origins {",
  "if o1.Equal(o2) {",
  "found = true",
  "}",
  "}",
  "if !found {",
  "return false",
  "}",
  "}",
  "for _, o2 := range po2.Origins {",
  "found := false",
  "for _, o1 := range po.Origins {",
  "if o2.Equal(o1) {",
  "found = true",
  "}",
  "}",
  "if !found {",
  "return false",
  "}",
  "}",
  "return true"
]

/-- Pin.Equals -/
def pinEquals : List String := [
  "if pin == nil && pin2 != nil || pin2 == nil && pin != nil {",
  "return false",
  "}",
  "if pin == pin2 {",
  "return false",
  "}",
  "if !pin.Cid.Equals(pin2.Cid) {",
  "return false",
  "}",
  "if pin.Type != pin2.Type {",
  "return false",
  "}",
  "if pin.MaxDepth != pin2.MaxDepth {",
  "return false",
  "}",
  "if pin.Reference != nil && pin2.Reference == nil ||",
  "pin.Reference == nil && pin2.Reference != nil {",
  "return false",
  "}",
  "if pin.Reference != nil && pin2.Reference != nil &&",
  "!pin.Reference.Equals(*pin2.Reference) {",
  "return false",
  "}",
  "allocs1 := PeersToStrings(pin.Allocations)",
  "sort.Strings(allocs1)",
  "allocs2 := PeersToStrings(pin2.Allocations)",
  "sort.Strings(allocs2)",
  "if strings.Join(allocs1, S) != strings.Join(allocs2, S) {",
  "return false",
  "}",
  "return pin.PinOptions.Equals(&pin2.PinOptions)"
]

/-- PinWithOpts -/
def pinWithOpts : List String := [
  "p := PinCid(c)",
  "p.PinOptions = opts",
  "p.MaxDepth = p.Mode.ToPinDepth()",
  "return p"
]

/-- Pin.IsRemotePin -/
def isRemotePin : List String := [
  "if pin.IsPinEverywhere() {",
  "return false",
  "}",
  "for _, p := range pin.Allocations {",
  "if p == pid {",
  "return false",
  "}",
  "}",
  "return true"
]

/-- Pin.ExpiredAt -/
def expiredAt : List String := [
  "if pin.ExpireAt.IsZero() || pin.ExpireAt.Equal(unixZero) {",
  "return false",
  "}",
  "return pin.ExpireAt.Before(t)"
]

/-- Cluster.cidsFromMetaPin -/
def cidsFromMetaPin : List String := [
  "cState, err := c.consensus.State(ctx)",
  "if err != nil {",
  "return nil, err",
  "}",
  "list := []cid.Cid{h}",
  "pin, err := cState.Get(ctx, h)",
  "if err != nil {",
  "return nil, err",
  "}",
  "if pin == nil {",
  "return list, nil",
  "}",
  "if pin.Type != api.MetaType {",
  "return list, nil",
  "}",
  "if pin.Reference == nil {",
  "return nil, errors.New(S)",
  "}",
  "list = append([]cid.Cid{*pin.Reference}, list...)",
  "clusterDagPin, err := c.PinGet(ctx, *pin.Reference)",
  "if err != nil {",
  "return list, fmt.Errorf(S, err)",
  "}",
  "clusterDagBlock, err := c.ipfs.BlockGet(ctx, clusterDagPin.Cid)",
  "if err != nil {",
  "return list, fmt.Errorf(S, err)",
  "}",
  "clusterDagNode, err := sharding.CborDataToNode(clusterDagBlock, S)",
  "if err != nil {",
  "return list, fmt.Errorf(S, err)",
  "}",
  "for _, l := range clusterDagNode.Links() {",
  "list = append([]cid.Cid{l.Cid}, list...)",
  "}",
  "return list, nil"
]

end CV.C04.Expected
