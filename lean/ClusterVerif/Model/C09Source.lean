/-!
# C09 — the source text the hand-written model transcribes (snapshot, round 7)

`Gen/C09.lean` is regenerated from /repo on every run; `Props/C09.lean` proves `Gen.f = Expected.f` (`rfl`) for
the functions below. They are the ones whose exact shape the timed correspondence run cannot observe
(`Metric.Expired`: strictly after, i.e. a metric whose expiry instant equals the clock is still fresh — modelled by
`Metric.expiredAt`), or that the model transcribes line by line (`Checker.Watch` = `Op.tick` every interval /
`watchOps`; `logFromPubsub` + `LogMetric` = `lowerOne`). An edit to one of them breaks that obligation, and the check
then searches for a failing input with the correspondence run.
-/
namespace CV.C09.Expected

/-- Metric.Expired (api/types.go) -/
def srcExpired : List String := [
  "expDate := time.Unix(0, m.Expire)",
  "return time.Now().After(expDate)"
]

/-- Metric.Discard (api/types.go) -/
def srcDiscard : List String := [
  "return !m.Valid || m.Expired()"
]

/-- Checker.Watch (monitor/metrics/checker.go) -/
def srcWatch : List String := [
  "ticker := time.NewTicker(interval)",
  "for {",
  "select {",
  "case <-ticker.C:",
  "if peersF != nil {",
  "peers, err := peersF(ctx)",
  "if err != nil {",
  "continue",
  "}",
  "mc.CheckPeers(peers)",
  "} else {",
  "mc.CheckAll()",
  "}",
  "case <-ctx.Done():",
  "ticker.Stop()",
  "return",
  "}",
  "}"
]

/-- Monitor.logFromPubsub (monitor/pubsubmon/pubsubmon.go) -/
def srcLogFromPubsub : List String := [
  "for {",
  "select {",
  "case <-ctx.Done():",
  "return",
  "default:",
  "msg, err := mon.subscription.Next(ctx)",
  "if err != nil {",
  "continue",
  "}",
  "data := msg.GetData()",
  "buf := bytes.NewBuffer(data)",
  "dec := gocodec.NewDecoder(buf, msgpackHandle)",
  "metric := api.Metric{}",
  "err = dec.Decode(&metric)",
  "if err != nil {",
  "continue",
  "}",
  "err = mon.LogMetric(ctx, &metric)",
  "if err != nil {",
  "continue",
  "}",
  "}",
  "}"
]

/-- Monitor.LogMetric (monitor/pubsubmon/pubsubmon.go) -/
def srcLogMetric : List String := [
  "mon.metrics.Add(m)",
  "return nil"
]

end CV.C09.Expected
