/-
C03 — the metric pipeline in front of `allocate()` and the numeric sorter behind it, from RAW metric
arrivals:

  metrics.Store.Add (one ring per (name, peer); `Window.Latest` = the metric ADDED last, whatever its expiry)
  → Store.LatestValid(name)   (per peer of that name: latest; dropped when `Discard()` = !Valid || Expired)
  → pubsubmon.LatestMetrics   (no peerset provider: as is; provider fails: nothing; else PeersetFilter)
  → allocate()'s classification switch (a regenerated `Classifier`, see `classifyWith`)
  → util.SortNumeric          (Discard() again, ParseUint, strict `<` / `>` under sort.Sort).

`Model/C03.lean` starts from "peers with a metric state"; `rawInput` is that abstract input computed from
the raw arrivals, and `Lemmas/C03Pipeline.lean` proves the composition of the transcribed steps equal to it.
Core Lean only.
-/
import ClusterVerif.Model.C03
namespace CV.C03

/-- `Metric.Value` as the allocators read it: `strconv.ParseUint(v, 10, 64)` succeeds or not -/
inductive MVal where
  | num (v : Nat)
  | text
  deriving DecidableEq, Repr

/-- one `Store.Add` (arrival order = list order) -/
structure RawMetric where
  name : Nat
  peer : Nat
  valid : Bool
  expired : Bool          -- `Expire` lies before the instant allocate() runs
  val : MVal
  deriving DecidableEq, Repr

/-- `Metric.Discard` -/
def RawMetric.discard (m : RawMetric) : Bool := !m.valid || m.expired

/-- the ring of (name, peer): the arrivals filed there, oldest first (capacity does not matter to `Latest`) -/
def window (arr : List RawMetric) (name peer : Nat) : List RawMetric :=
  arr.filter (fun m => m.name == name && m.peer == peer)

/-- `Window.Latest`: the metric added last (not the one expiring last) -/
def windowLatest (arr : List RawMetric) (name peer : Nat) : Option RawMetric :=
  (window arr name peer).getLast?

/-- `Store.LatestValid(name)`. `order` lists the peers of `byName[name]` in the order of the result (Go: map
    iteration, then a stable sort by peer id): any order, every theorem quantifies over it. -/
def latestValid (order : List Nat) (arr : List RawMetric) (name : Nat) : List RawMetric :=
  order.filterMap (fun p =>
    match windowLatest arr name p with
    | some m => if m.discard then none else some m
    | none => none)

/-- what `mon.peers` gives `LatestMetrics` -/
inductive PeersetView where
  | noProvider                 -- mon.peers == nil
  | failed                     -- the provider returns an error
  | members (l : List Nat)
  deriving Repr

/-- `metrics.PeersetFilter` -/
def peersetFilter (l : List RawMetric) (peerset : List Nat) : List RawMetric :=
  l.filter (fun m => peerset.contains m.peer)

/-- `pubsubmon.Monitor.LatestMetrics(name)` -/
def latestMetrics (order : List Nat) (arr : List RawMetric) (name : Nat) (view : PeersetView) : List RawMetric :=
  match view with
  | .noProvider => latestValid order arr name
  | .failed => []
  | .members l => peersetFilter (latestValid order arr name) l

/-- the metric state of a metric `LatestMetrics` returned -/
def RawMetric.state (m : RawMetric) : MState :=
  match m.val with
  | .num v => .valid v
  | .text => .nonNumeric

/-! ### the abstract input, from the property's vocabulary -/

def PeersetView.admits : PeersetView → Nat → Bool
  | .noProvider, _ => true
  | .failed, _ => false
  | .members l, p => l.contains p

/-- the per-peer metric state of the property's quantifier (absent, valid numeric, expired, invalid,
    non-numeric), read off the raw arrivals: only the LAST metric of the allocation informer's name counts,
    a non-member has no state. -/
def stateOfRaw (arr : List RawMetric) (name : Nat) (view : PeersetView) (p : Nat) : MState :=
  if !view.admits p then .absent else
  match windowLatest arr name p with
  | none => .absent
  | some m => if !m.valid then .invalid else if m.expired then .expired else m.state

/-- the input of `Model/C03.lean` that the raw arrivals stand for -/
def rawInput (order : List Nat) (arr : List RawMetric) (name : Nat) (view : PeersetView)
    (desc : Bool) (rmin rmax : Int) (current blacklist priority : List Nat) : Input :=
  { desc := desc, rmin := rmin, rmax := rmax, current := current, blacklist := blacklist, priority := priority,
    peers := order.map (fun p => (p, stateOfRaw arr name view p)) }

/-! ### the classification switch as a regenerated structure -/

/-- which of allocate()'s three lists a guard `containsPeer(<list>, m.Peer)` consults -/
inductive Which where
  | blacklist | current | priority
  deriving DecidableEq, Repr

inductive Guard where
  | inList (w : Which)
  | default
  | other                      -- a guard the translator does not recognise
  deriving DecidableEq, Repr

/-- where a metric is filed -/
inductive Dest where
  | skip | current | priority | candidate | other
  deriving DecidableEq, Repr

/-- the shape of the classification in allocate(), as the translator finds it -/
inductive Classifier where
  | switch (cases : List (Guard × Dest))                 -- `switch { case …: }`: the first true guard wins
  | lookup (fills : List (Which × Dest)) (dflt : Dest)   -- a map filled list by list: a later fill overwrites
  | unknown
  deriving Repr

def Which.sel (bl cur pri : List Nat) : Which → List Nat
  | .blacklist => bl | .current => cur | .priority => pri

def Guard.eval (bl cur pri : List Nat) (p : Nat) : Guard → Bool
  | .inList w => (w.sel bl cur pri).contains p
  | .default => true
  | .other => false

def switchDest (bl cur pri : List Nat) (p : Nat) : List (Guard × Dest) → Dest
  | [] => .other               -- no case applies: the metric is filed nowhere
  | (g, d) :: rest => if g.eval bl cur pri p then d else switchDest bl cur pri p rest

def classifyWith (c : Classifier) (bl cur pri : List Nat) (p : Nat) : Dest :=
  match c with
  | .switch cases => switchDest bl cur pri p cases
  | .lookup fills dflt =>
    match (fills.reverse.find? (fun f => (f.1.sel bl cur pri).contains p)) with
    | some f => f.2
    | none => dflt
  | .unknown => .other

/-- the precedence the model (`curIds` / `priM` / `candM`) was written with -/
def classifySpec (bl cur pri : List Nat) (p : Nat) : Dest :=
  if bl.contains p then .skip else if cur.contains p then .current else if pri.contains p then .priority else .candidate

/-! ### `util.SortNumeric` on raw metrics -/

/-- the loop of `SortNumeric`: discarded metrics and unparsable values are skipped -/
def numericsRaw (l : List RawMetric) : List (Nat × Nat) :=
  l.filterMap (fun m => if m.discard then none else
    match m.val with
    | .num v => some (m.peer, v)
    | .text => none)

/-- a comparison operator of `metricSorter.Less`, as regenerated -/
inductive Cmp where
  | lt | gt | le | ge | other
  deriving DecidableEq, Repr

def Cmp.eval : Cmp → Nat → Nat → Bool
  | .lt, x, y => decide (x < y)
  | .gt, x, y => decide (x > y)
  | .le, x, y => decide (x ≤ y)
  | .ge, x, y => decide (x ≥ y)
  | .other, _, _ => false

/-- the structure of `SortNumeric` + `Less`: which guards skip a metric, and the comparison per direction -/
structure SortShape where
  skipDiscarded : Bool        -- `if v.Discard() { continue }`
  skipUnparsable : Bool       -- `val, err := strconv.ParseUint(v.Value, 10, 64); if err != nil { continue }`
  base : Nat                  -- ParseUint base
  bits : Nat                  -- ParseUint bit size
  forward : Cmp               -- `return x < y`
  reverse : Cmp               -- `if s.reverse { return x > y }`
  deriving DecidableEq, Repr

def SortShape.less (s : SortShape) (desc : Bool) (x y : Nat) : Bool :=
  if desc then s.reverse.eval x y else s.forward.eval x y

/-- `sort.Sort` with `less` leaves no adjacent inversion: `¬ less (next) (this)` -/
def noInversion (less : Nat → Nat → Bool) : List Nat → Bool
  | [] => true
  | [_] => true
  | x :: y :: rest => !less y x && noInversion less (y :: rest)

/-- `SortNumeric` resolved deterministically on raw metrics (insertion order for ties) -/
def sortNumericRaw (desc : Bool) (l : List RawMetric) : List Nat :=
  (sortBy desc (numericsRaw l)).map (·.1)

end CV.C03
