/-
C14 — the crdt side of `state import` / `state export` (cmdutils/state.go `crdtStateManager`,
consensus/crdt `Clean` / `OfflineState`), on a datastore that is SHARED with other namespaces.

Core Lean only (the driver links this file).

* The datastore is a list of entries `(namespace, pin)` in any order (what a leveldb / badger
  store holds; an entry of the crdt namespace is one element of the go-ds-crdt set, seen through
  the dsstate `OfflineState` puts on top of it). Nothing is assumed about the prior content:
  duplicates, any order, other namespaces.
* `crdt.Clean`: query with `Prefix: cfg.DatastoreNamespace`, delete every key found — the
  entries of the namespace go, every other entry stays.
* `crdt.OfflineState` + `State.List`: the dsstate over the entries of the namespace (a later
  entry for the same cid replaces an earlier one, listing sorted by key).
* `crdtStateManager.ImportState`: `Clean`, then `importState` adds every decoded pin to ONE batch,
  `Commit` writes the batch (not at all when no pin was added; dropped when decoding failed).
* `crdtStateManager.ExportState`: `exportState` of the offline read.
-/
import ClusterVerif.Model.C14
namespace CV.C14.Crdt

structure Entry where
  ns  : Nat
  pin : Pin
  deriving DecidableEq, Repr

abbrev DS := List Entry

/-- `crdt.Clean` -/
def clean (ns : Nat) (ds : DS) : DS := ds.filter (fun e => e.ns != ns)

/-- `crdt.OfflineState` then `List` -/
def offlineRead (ns : Nat) (ds : DS) : PinMap := putAll [] ((ds.filter (fun e => e.ns == ns)).map (·.pin))

/-- `BatchingState.Commit`: every pin of the batch is written under the namespace -/
def commit (ns : Nat) (batch : PinMap) (ds : DS) : DS := ds ++ batch.map (fun p => { ns := ns, pin := p })

/-- `crdtStateManager.ImportState` -/
def importCrdt (ns : Nat) (ds : DS) (stream : List JPin) (garbage : Bool) : Res × DS :=
  let cleaned := clean ns ds
  match importInto [] stream with
  | none => (.err, cleaned)                              -- decode / Add failed: the batch is dropped
  | some m => if garbage then (.err, cleaned) else
      if stream.isEmpty then (.ok [], cleaned)           -- n = 0: no Commit
      else (.ok m, commit ns m cleaned)

/-- `crdtStateManager.ExportState` -/
def exportCrdt (ns : Nat) (ds : DS) : Option (List JPin) := exportStream (offlineRead ns ds)

/-- the realistic wrong edit (seeded C14f on the raft side): import without `Clean` -/
def importNoClean (ns : Nat) (ds : DS) (stream : List JPin) : Res × DS :=
  match importInto [] stream with
  | none => (.err, ds)
  | some m => (.ok m, commit ns m ds)

/-- a store holding the pins of `prior` under `ns` (as the harness prepares it) -/
def ofPins (ns : Nat) (prior : PinMap) : DS := prior.map (fun p => { ns := ns, pin := p })

end CV.C14.Crdt
