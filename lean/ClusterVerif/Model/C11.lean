/-
C11 — executable model of the REST API request path of `api/rest/restapi.go`:

  NewAPIWithHost   the handler chain (logging ∘ [ochttp] ∘ basicAuth ∘ cors ∘ router), as extracted
                   into `Gen.chain`, interpreted by `serve`
  basicAuthHandler credentials configured ∧ request has no / a malformed / a wrong pair ⇒ 401
  cors.Handler     an OPTIONS request with Access-Control-Request-Method is answered 204 by the CORS
                   layer and never reaches the router
  gorilla/mux      clean-path redirect, first route (in table order) whose method and path match,
                   the API's JSON 405 when only the path matches, its JSON 404 otherwise,
                   strict-slash redirect of a matched route
  handlers         one arm per handler function named in `routes()`, transcribing control flow:
                   parseCidOrError / parsePinPathOrError / parsePidOrError, PinOptions.FromQuery,
                   the RPC call, sendResponse's status and body discipline

Every part of a request is abstract: a path segment is a token with the result of the two
decoders (`cid.Decode`, `peer.Decode`) attached; a query value is `empty | valid v | invalid`.
The cluster behind the API is abstract too: it answers every call with success, an error, or
`state.ErrNotFound` (`RpcMode`).  Core Lean only.
-/
import ClusterVerif.Model.Pin
namespace CV.C11
open CV

/-! ### route table -/

inductive PSeg where
  | lit (s : String)
  | var (name : String)                       -- `{name}`            = `[^/]+`
  | alt (name : String) (opts : List String)  -- `{name:a|b|c}`
  | rest (name : String)                      -- `{name:.*}` (last)
  deriving DecidableEq, Repr

structure Route where
  name : String
  method : String
  pattern : String
  pat : List PSeg
  handler : String
  deriving DecidableEq, Repr

/-! ### the decision logic of `basicAuthHandler`, as extracted -/

/-- what the condition inside `for u, p := range credentials` compares -/
inductive AuthAtom where
  | userEq    -- u == username
  | passEq    -- p == password
  deriving DecidableEq, Repr

inductive AuthCond where
  | atom (a : AuthAtom)
  | and (a b : AuthCond)
  | or (a b : AuthCond)
  deriving DecidableEq, Repr

/-- the shape of `basicAuthHandler` (extracted into `Gen.authLogic`) -/
structure AuthLogic where
  nilPassThrough : Bool    -- `if credentials == nil { return h }`
  okChecked : Bool         -- `if !ok { 401; return }` after `r.BasicAuth()`
  cond : AuthCond          -- the loop sets `authorized` when this holds for some configured pair
  noHeaderStatus : Nat
  mismatchStatus : Nat
  deriving DecidableEq, Repr

/-- the Authorization header of a request: absent, not a well-formed Basic header, or Basic user:password -/
inductive AuthHeader where
  | none
  | malformed
  | basic (user pass : String)
  deriving DecidableEq, Repr

def AuthCond.eval (c : AuthCond) (u p user pass : String) : Bool :=
  match c with
  | .atom .userEq => u == user
  | .atom .passEq => p == pass
  | .and a b => a.eval u p user pass && b.eval u p user pass
  | .or a b => a.eval u p user pass || b.eval u p user pass

/-- does `basicAuthHandler`, of the given shape, let the request through to the wrapped handler?
    (credentials configured; `r.BasicAuth()` yields "", "", false without a well-formed header) -/
def authOk (l : AuthLogic) (creds : List (String × String)) (h : AuthHeader) : Bool :=
  let up : Option (String × String) :=
    match h with
    | .basic u p => some (u, p)
    | _ => if l.okChecked then Option.none else some ("", "")
  match up with
  | Option.none => false
  | some (user, pass) => creds.any (fun c => l.cond.eval c.1 c.2 user pass)

/-! ### requests -/

/-- a path segment: the token naming its text, and what `cid.Decode` / `peer.Decode` make of it -/
structure Seg where
  txt : String
  cid : Option Nat
  pid : Option Nat
  deriving DecidableEq, Repr

inductive Auth where
  | none | malformed | wrong | right
  deriving DecidableEq, Repr

/-- how the handler of the given shape classifies a header against the configured pairs -/
def authClass (l : AuthLogic) (creds : List (String × String)) (h : AuthHeader) : Auth :=
  if authOk l creds h then .right
  else match h with
    | .none => .none
    | .malformed => .malformed
    | .basic _ _ => .wrong

inductive Val where
  | nat (n : Nat)
  | int (i : Int)
  | mode (m : Mode)
  | peers (l : List (Option Nat))   -- user-allocations: `none` = an entry peer.Decode rejects
  | exp (e : Expiry)
  | nats (l : List Nat)
  | bool (b : Bool)
  | str (s : String)
  deriving DecidableEq, Repr

inductive QV where
  | empty                -- absent, or present with the empty string
  | valid (v : Val)
  | invalid
  | garbled              -- the value has a malformed percent-escape: `url.ParseQuery` drops the pair, `Query()` ignores the error
  deriving DecidableEq, Repr

inductive Body where
  | none
  | peerJson (s : Seg)   -- {"peer_id": <text of s>}
  | bad                  -- not JSON, or JSON that is not an object with a peer_id string
  deriving DecidableEq, Repr

inductive RpcMode where
  | ok | err | notFound
  deriving DecidableEq, Repr

structure Req where
  creds : Bool                    -- configuration: BasicAuthCredentials != nil
  auth : Auth
  pf : Bool                       -- carries Origin + Access-Control-Request-Method
  method : String
  segs : List Seg
  slash : Bool                    -- path ends with "/"
  query : List (String × QV)      -- in query-string order (the first occurrence of a key counts)
  md : List (Nat × Nat)           -- meta-<k>=<v> pairs in query-string order
  body : Body
  rpc : RpcMode
  deriving Repr

/-! ### what reaches the cluster, and the response -/

inductive Arg where
  | unit
  | cid (c : Nat)
  | pid (p : Nat)
  | pin (p : Pin) (stored : Mode)      -- the pin, and the mode it has after the state's protobuf encoding
  | path (p : String) (o : Opts)
  | str (s : String)
  | num (s : String)
  | blk
  deriving DecidableEq, Repr

structure Op where
  name : String    -- "Service.Method"
  arg : Arg
  deriving DecidableEq, Repr

inductive BodyShape where
  | docs (n : Nat)     -- n JSON documents and nothing else
  | junk (n : Nat)     -- n JSON documents, then bytes that are not JSON
  deriving DecidableEq, Repr

structure Resp where
  status : Nat
  body : BodyShape
  ops : List Op
  deriving DecidableEq, Repr

/-- what the model answers where it has no transcription (unknown handler / layer name) -/
def unmodelled : Resp := { status := 0, body := .docs 0, ops := [] }

/-! ### query parsing: `PinOptions.FromQuery` -/

/-- `r.URL.Query().Get`: first occurrence among the pairs that survive `url.ParseQuery`; absent = "" -/
def getq (q : List (String × QV)) (k : String) : QV :=
  match q.find? (fun p => p.1 == k && p.2 != .garbled) with
  | some p => p.2
  | none => .empty

/-- `parseIntParam` -/
def intParam (v : QV) (dflt : Int) : Option Int :=
  match v with
  | .empty => some dflt
  | .valid (.int i) => some i
  | _ => none

def natParam (v : QV) (dflt : Nat) : Option Nat :=
  match v with
  | .empty => some dflt
  | .valid (.nat n) => some n
  | _ => none

def optCidParam (v : QV) : Option (Option Nat) :=
  match v with
  | .empty => some none
  | .valid (.nat c) => some (some c)
  | _ => none

def natsParam (v : QV) : Option (List Nat) :=
  match v with
  | .empty => some []
  | .valid (.nats l) => some l
  | _ => none

def nameParam (v : QV) : Nat :=
  match v with
  | .valid (.nat n) => n
  | _ => 0

/-- metadata: `for k := range q` + `q.Get(k)`: first value per key, the empty key skipped -/
def metaOf (m : List (Nat × Nat)) : List (Nat × Nat) := normMeta (m.filter (fun kv => kv.1 != 0))

/-- the expire-in duration number k arrives as the instant `now + d_k`, named `future (9000+k)` -/
def inFuture (k : Nat) : Expiry := .future (9000 + k)

/-- assemble the options from the parsed fields (shared by the model and by the spec's reading) -/
def assemble (name : Nat) (mode : Option Mode) (factors : Option (Int × Int)) (shard : Option Nat)
    (ualloc : Option (List Nat)) (expire : Option Expiry) (update : Option (Option Nat))
    (origins : Option (List Nat)) (md : List (Nat × Nat)) : Option Opts :=
  match mode, factors, shard, ualloc, expire, update, origins with
  | some m, some f, some sh, some ua, some e, some u, some o =>
    some { rmin := f.1, rmax := f.2, name := name, mode := m, shard := sh, expire := e,
           metadata := md, update := u, origins := o, ualloc := ua }
  | _, _, _, _, _, _, _ => none

namespace M
/-- `mode` must be "", "recursive" or "direct" (b5b684c); `none` = error -/
def mode (q : List (String × QV)) : Option Mode :=
  match getq q "mode" with
  | .empty => some .recursive
  | .valid (.mode m) => some m
  | _ => none

/-- replication-min and replication-max are parsed first (every value given must parse), then `replication`
    is parsed and overrides both -/
def factors (q : List (String × QV)) : Option (Int × Int) :=
  match intParam (getq q "replication-min") 0, intParam (getq q "replication-max") 0 with
  | some a, some b =>
    (match getq q "replication" with
     | .empty => some (a, b)
     | .valid (.int i) => some (i, i)
     | _ => none)
  | _, _ => none

/-- every user-allocations entry must decode as a peer ID -/
def ualloc (q : List (String × QV)) : Option (List Nat) :=
  match getq q "user-allocations" with
  | .empty => some []
  | .valid (.peers l) => if l.all Option.isSome then some (l.filterMap id) else none
  | _ => none

/-- expire-in is parsed and validated whenever given -/
def expireIn (q : List (String × QV)) : Option (Option Nat) :=
  match getq q "expire-in" with
  | .empty => some none
  | .valid (.nat k) => some (some k)
  | _ => none

/-- … and expire-at, when given, wins -/
def expiry (q : List (String × QV)) : Option Expiry :=
  match expireIn q with
  | none => none
  | some ein =>
    (match getq q "expire-at" with
     | .empty => some (match ein with | none => .zero | some k => inFuture k)
     | .valid (.exp e) => some e
     | _ => none)
end M

/-- `PinOptions.FromQuery`; `none` = it returned an error -/
def fromQuery (q : List (String × QV)) (md : List (Nat × Nat)) : Option Opts :=
  assemble (nameParam (getq q "name")) (M.mode q) (M.factors q) (natParam (getq q "shard-size") 0)
    (M.ualloc q) (M.expiry q) (optCidParam (getq q "pin-update")) (natsParam (getq q "origins")) (metaOf md)

/-! ### path variables (`mux.Vars`) -/

def varSeg (name : String) : List PSeg → List Seg → Option Seg
  | .var n :: ps, x :: xs => if n == name then some x else varSeg name ps xs
  | .alt n _ :: ps, x :: xs => if n == name then some x else varSeg name ps xs
  | .lit _ :: ps, _ :: xs => varSeg name ps xs
  | _, _ => none

def restSegs : List PSeg → List Seg → Option (List Seg)
  | .rest _ :: _, xs => some xs
  | _ :: ps, _ :: xs => restSegs ps xs
  | _, _ => none

/-- the IPFS path `/<keyType>/<path>` in token form, when `gopath.ParsePath` accepts it:
    /ipfs/<cid>[/…], /ipld/<cid>[/…], /ipns/<non-empty>[/…] -/
def pathOf (pat : List PSeg) (segs : List Seg) : Option String :=
  match varSeg "keyType" pat segs, restSegs pat segs with
  | some k, some (first :: more) =>
    let ok := if k.txt == "ipfs" || k.txt == "ipld" then first.cid.isSome
              else if k.txt == "ipns" then first.txt != "" else false
    if ok then some ("/".intercalate (k.txt :: first.txt :: more.map (·.txt))) else none
  | _, _ => none

/-- `url.ParseQuery(r.URL.RawQuery)` fails: some pair has a malformed percent-escape (ec71f0a: the pin, pin-path and
    add handlers answer 400; the handlers that read `r.URL.Query()` directly still just lose the pair) -/
def hasGarbled (q : List (String × QV)) : Bool := q.any (fun p => p.2 == .garbled)

/-- `parseCidOrError`: `none` = it answered 400 -/
def parseCid (r : Req) (pat : List PSeg) : Option Pin :=
  match (varSeg "hash" pat r.segs).bind (·.cid) with
  | none => none
  | some c =>
    if hasGarbled r.query then none else
    match fromQuery r.query r.md with
    | none => none
    | some o => some (pinWithOpts c o)   -- the depth follows the mode, as for paths

/-- `parsePinPathOrError` -/
def parsePinPath (r : Req) (pat : List PSeg) : Option (String × Opts) :=
  match pathOf pat r.segs with
  | none => none
  | some p =>
    if hasGarbled r.query then none else
    match fromQuery r.query r.md with
    | none => none
    | some o => some (p, o)

/-! ### handlers -/

inductive Handler where
  | id | version | peerList | peerAdd | peerRemove | add | allocations | allocation | statusAll
  | recover | recoverAll | status | pin | pinPath | unpin | unpinPath | repoGC | graph | alerts
  | metrics | metricNames | notFound | methodNotAllowed
  deriving DecidableEq, Repr

def Handler.ofName (s : String) : Option Handler :=
  if s == "idHandler" then some .id else if s == "versionHandler" then some .version
  else if s == "peerListHandler" then some .peerList else if s == "peerAddHandler" then some .peerAdd
  else if s == "peerRemoveHandler" then some .peerRemove else if s == "addHandler" then some .add
  else if s == "allocationsHandler" then some .allocations else if s == "allocationHandler" then some .allocation
  else if s == "statusAllHandler" then some .statusAll else if s == "recoverHandler" then some .recover
  else if s == "recoverAllHandler" then some .recoverAll else if s == "statusHandler" then some .status
  else if s == "pinHandler" then some .pin else if s == "pinPathHandler" then some .pinPath
  else if s == "unpinHandler" then some .unpin else if s == "unpinPathHandler" then some .unpinPath
  else if s == "repoGCHandler" then some .repoGC else if s == "graphHandler" then some .graph
  else if s == "alertsHandler" then some .alerts else if s == "metricsHandler" then some .metrics
  else if s == "metricNamesHandler" then some .metricNames else if s == "notFoundHandler" then some .notFound
  else if s == "methodNotAllowedHandler" then some .methodNotAllowed
  else none

/-- `sendResponse` with an error and no call made -/
def refuse (st : Nat) : Resp := { status := st, body := .docs 1, ops := [] }

/-- one RPC call then `sendResponse`: success status/body, and the status for a generic error and
    for `state.ErrNotFound` -/
def respond (r : Req) (op : Op) (okSt okDocs errSt nfSt : Nat) : Resp :=
  match r.rpc with
  | .ok => { status := okSt, body := .docs okDocs, ops := [op] }
  | .err => { status := errSt, body := .docs 1, ops := [op] }
  | .notFound => { status := nfSt, body := .docs 1, ops := [op] }

def call (r : Req) (name : String) (a : Arg) : Resp := respond r ⟨name, a⟩ 200 1 500 500

/-- `queryValues.Get("local") == "true"` -/
def isLocal (r : Req) : Bool := getq r.query "local" == .valid (.bool true)

def pinArg (p : Pin) : Arg := .pin p (depthToMode p.depth)

def runHandler (h : Handler) (r : Req) (pat : List PSeg) : Resp :=
  match h with
  | .id => call r "Cluster.ID" .unit
  | .version => call r "Cluster.Version" .unit
  | .peerList => call r "Cluster.Peers" .unit
  | .graph => call r "Cluster.ConnectGraph" .unit
  | .alerts => call r "Cluster.Alerts" .unit
  | .metricNames => call r "PeerMonitor.MetricNames" .unit
  | .metrics =>
    call r "PeerMonitor.LatestMetrics" (.str (match varSeg "name" pat r.segs with | some s => s.txt | none => ""))
  | .peerAdd =>
    (match r.body with
     | .peerJson s => (match s.pid with
        | some p => call r "Cluster.PeerAdd" (.pid p)
        | none => refuse 400)
     | _ => refuse 400)
  | .peerRemove =>
    (match (varSeg "peer" pat r.segs).bind (·.pid) with
     | some p => respond r ⟨"Cluster.PeerRemove", .pid p⟩ 204 0 500 500
     | none => refuse 400)
  | .add => refuse 400      -- a request without a multipart body (the add endpoint proper: see `addServe`)
  | .allocations =>
    (match getq r.query "filter" with
     | .invalid => refuse 400
     | _ => call r "Cluster.Pins" .unit)
  | .allocation =>
    (match parseCid r pat with
     | some p => respond r ⟨"Cluster.PinGet", .cid p.cid⟩ 200 1 404 404
     | none => refuse 400)
  | .statusAll =>
    (match getq r.query "filter" with
     | .invalid => refuse 400
     | f =>
       let m := match f with | .valid (.str s) => s | _ => "0"
       call r (if isLocal r then "Cluster.StatusAllLocal" else "Cluster.StatusAll") (.num m))
  | .status =>
    (match parseCid r pat with
     | some p => call r (if isLocal r then "Cluster.StatusLocal" else "Cluster.Status") (.cid p.cid)
     | none => refuse 400)
  | .recover =>
    (match parseCid r pat with
     | some p => call r (if isLocal r then "Cluster.RecoverLocal" else "Cluster.Recover") (.cid p.cid)
     | none => refuse 400)
  | .recoverAll => call r (if isLocal r then "Cluster.RecoverAllLocal" else "Cluster.RecoverAll") .unit
  | .repoGC => call r (if isLocal r then "Cluster.RepoGCLocal" else "Cluster.RepoGC") .unit
  | .pin =>
    (match parseCid r pat with
     | some p => call r "Cluster.Pin" (pinArg p)
     | none => refuse 400)
  | .unpin =>
    (match parseCid r pat with
     | some p => respond r ⟨"Cluster.Unpin", pinArg p⟩ 200 1 500 404
     | none => refuse 400)
  | .pinPath =>
    (match parsePinPath r pat with
     | some (p, o) => call r "Cluster.PinPath" (.path p o)
     | none => refuse 400)
  | .unpinPath =>
    (match parsePinPath r pat with
     | some (p, o) => respond r ⟨"Cluster.UnpinPath", .path p o⟩ 200 1 500 404
     | none => refuse 400)
  | .notFound => refuse 404
  | .methodNotAllowed => refuse 405      -- 43bb783: a JSON error document, like the 404

/-! ### the router (gorilla/mux with StrictSlash(true)) -/

/-- does the path regexp of a template match `/seg/seg…[/]`?  (`[/]?$` is appended by strict-slash;
    `{x:.*}` needs the slash that precedes it) -/
def matchPat : List PSeg → List Seg → Bool → Bool
  | [], [], _ => true
  | .rest _ :: _, xs, sl => !xs.isEmpty || sl
  | .lit s :: ps, x :: xs, sl => x.txt == s && matchPat ps xs sl
  | .var _ :: ps, x :: xs, sl => x.txt != "" && matchPat ps xs sl
  | .alt _ o :: ps, x :: xs, sl => o.contains x.txt && matchPat ps xs sl
  | _, _, _ => false

/-- `cleanPath(p) != p` -/
def unclean (r : Req) : Bool := r.segs.any (fun s => s.txt == "" || s.txt == "." || s.txt == "..")

inductive Routed where
  | found (rt : Route)
  | methodNotAllowed
  | notFound
  deriving Repr

def route (table : List Route) (r : Req) : Routed :=
  match table.find? (fun rt => rt.method == r.method && matchPat rt.pat r.segs r.slash) with
  | some rt => .found rt
  | none => if table.any (fun rt => matchPat rt.pat r.segs r.slash) then .methodNotAllowed else .notFound

/-- `http.Redirect`: an HTML link for GET, nothing otherwise -/
def slashRedirect (r : Req) : Resp :=
  { status := 301, body := if r.method == "GET" then .junk 0 else .docs 0, ops := [] }

def router (table : List Route) (r : Req) : Resp :=
  if unclean r then { status := 301, body := .docs 0, ops := [] }
  else
    match route table r with
    | .found rt =>
      if r.slash then slashRedirect r
      else (match Handler.ofName rt.handler with
            | some h => runHandler h r rt.pat
            | none => unmodelled)
    | .methodNotAllowed => runHandler .methodNotAllowed r []
    | .notFound => runHandler .notFound r []

/-! ### the handler chain of `NewAPIWithHost` -/

def authorized (r : Req) : Bool := !r.creds || r.auth == .right

/-- a CORS preflight -/
def preflight (r : Req) : Bool := r.pf && r.method == "OPTIONS"

/-- a layer of the handler chain, by name -/
abbrev Layer := String

/-- the two kinds of listener an API serves: the HTTP(S) listeners of `http_listen_multiaddress` and the libp2p-tunnelled
    one (`libp2p_listen_multiaddress`, or the host handed to `NewAPIWithHost`) -/
inductive Listener where
  | http | libp2p
  deriving DecidableEq, Repr

def Listener.field : Listener → String
  | .http => "api.httpListeners"
  | .libp2p => "api.libp2pListener"

/-- The handler chain a listener serves, read off the regenerated tables: `(*API).run` starts one function for the
    listener's field (`starts`), that function has exactly one serving call (`sites`), the value served is `api.server`,
    and `api.server` is the one `http.Server` built in the file (one literal, one router, the field never written again),
    whose `Handler` is `chain`.  Anything else: `none` (fail-closed). -/
def listenerChain (starts : List (String × String)) (sites : List (String × String × String))
    (lits routers writes : Nat) (chain : List Layer) (l : Listener) : Option (List Layer) :=
  match starts.lookup l.field with
  | none => none
  | some fn =>
    match sites.filter (fun s => s.1 == fn) with
    | [(_, srv, _)] => if srv == "api.server" && lits == 1 && routers == 1 && writes == 0 then some chain else none
    | _ => none

/-- layers by name, outermost first; the chain ends with "router" -/
def serve : List String → List Route → Req → Resp
  | [], _, _ => unmodelled
  | l :: ls, t, r =>
    if l == "router" then router t r
    else if l == "basicAuth" then
      (if authorized r then serve ls t r else { status := 401, body := .docs 1, ops := [] })
    else if l == "cors" then
      (if preflight r then { status := 204, body := .docs 0, ops := [] } else serve ls t r)
    else if l == "logging" || l == "ochttp" then serve ls t r
    else unmodelled

/-- net/http does not send a body in answer to HEAD -/
def headAdjust (r : Req) (o : Resp) : Resp :=
  if r.method == "HEAD" then { o with body := .docs 0 } else o

def handle (chain : List String) (table : List Route) (r : Req) : Resp :=
  headAdjust r (serve chain table r)

end CV.C11

/-! ## the bundled client (`api/rest/client`) -/
namespace CV.C11
open CV

/-- `PinOptions.ToQuery`: always replication-min, replication-max, name, mode, shard-size, user-allocations;
    expire-at unless zero; pin-update if defined; origins if any; meta-<k> for non-empty keys -/
def toQuery (o : Opts) : List (String × QV) :=
  [ ("replication-min", .valid (.int o.rmin)), ("replication-max", .valid (.int o.rmax)),
    ("name", if o.name == 0 then .empty else .valid (.nat o.name)),
    ("mode", .valid (.mode o.mode)), ("shard-size", .valid (.nat o.shard)),
    ("user-allocations", if o.ualloc.isEmpty then .empty else .valid (.peers (o.ualloc.map some))) ] ++
  (if o.expire == .zero then [] else [("expire-at", .valid (.exp o.expire))]) ++
  (match o.update with | some c => [("pin-update", .valid (.nat c))] | none => []) ++
  (if o.origins.isEmpty then [] else [("origins", .valid (.nats o.origins))])

def toQueryMeta (o : Opts) : List (Nat × Nat) := o.metadata.filter (fun kv => kv.1 != 0)

/-- the options as they are after a trip through the query string -/
def normOpts (o : Opts) : Opts := { o with metadata := metaOf o.metadata }

inductive Call where
  | id | version | peers | alerts | graph | metricNames
  | peerAdd (s : Seg) | peerRm (s : Seg)
  | pin (s : Seg) (o : Opts) | unpin (s : Seg) | allocation (s : Seg)
  | pinPath (p : List Seg) (o : Opts) | unpinPath (p : List Seg)
  | allocations (mask : Nat)
  | status (s : Seg) (l : Bool) | recover (s : Seg) (l : Bool)
  | statusAll (mask : Nat) (l : Bool)
  | recoverAll (l : Bool) | repoGC (l : Bool)
  | metrics (s : Seg)
  deriving Repr

structure CliCfg where
  creds : Bool
  auth : Auth      -- none | wrong | right: what the client is configured with
  rpc : RpcMode

def lit (s : String) : Seg := ⟨s, none, none⟩

/-- `gopath.ParsePath` on the client side: a bare `<cid>/…` becomes `/ipfs/<cid>/…` -/
def clientPath (p : List Seg) : Option (List Seg) :=
  match p with
  | [] => none
  | k :: rest =>
    if k.txt == "ipfs" || k.txt == "ipld" || k.txt == "ipns" then
      (match pathOf [.alt "keyType" ["ipfs", "ipns", "ipld"], .rest "path"] p with
       | some _ => some p
       | none => none)
    else if k.cid.isSome then some (lit "ipfs" :: k :: rest)
    else none

/-- `TrackerStatus.String` of a filter, read back by `TrackerStatusFromString`: a mask that is not one of the
    named values is written as every named status or group (`error` = 2|4|8, `queued` = 512|1024) that is fully
    contained in it (d6bd794; before, every name it merely intersected) -/
def namedMasks : List Nat := [2, 4, 8, 14, 16, 32, 64, 128, 256, 512, 1024, 1536, 2048, 4096]
def widen (m : Nat) : Nat :=
  if namedMasks.contains m then m
  else (namedMasks.filter (fun k => k &&& m == k)).foldl (· ||| ·) 0

def boolQ (l : Bool) : QV := .valid (.bool l)

def mkReq (cfg : CliCfg) (method : String) (segs : List Seg) (q : List (String × QV)) (md : List (Nat × Nat))
    (b : Body) : Req :=
  { creds := cfg.creds, auth := cfg.auth, pf := false, method := method, segs := segs, slash := false,
    query := q, md := md, body := b, rpc := cfg.rpc }

/-- the request a client method sends; `none` = it returns an error without sending anything -/
def build (cfg : CliCfg) (c : Call) : Option Req :=
  let mk (method : String) (segs : List Seg) (q : List (String × QV)) (md : List (Nat × Nat)) (b : Body) : Option Req :=
    some (mkReq cfg method segs q md b)
  match c with
  | .id => mk "GET" [lit "id"] [] [] .none
  | .version => mk "GET" [lit "version"] [] [] .none
  | .peers => mk "GET" [lit "peers"] [] [] .none
  | .alerts => mk "GET" [lit "health", lit "alerts"] [] [] .none
  | .graph => mk "GET" [lit "health", lit "graph"] [] [] .none
  | .metricNames => mk "GET" [lit "monitor", lit "metrics"] [] [] .none
  | .peerAdd s => mk "POST" [lit "peers"] [] [] (.peerJson s)
  | .peerRm s => mk "DELETE" [lit "peers", s] [] [] .none
  | .pin s o => mk "POST" [lit "pins", s] (toQuery o) (toQueryMeta o) .none
  | .unpin s => mk "DELETE" [lit "pins", s] [] [] .none
  | .allocation s => mk "GET" [lit "allocations", s] [] [] .none
  | .pinPath p o => (clientPath p).bind (fun p' => mk "POST" (lit "pins" :: p') (toQuery o) (toQueryMeta o) .none)
  | .unpinPath p => (clientPath p).bind (fun p' => mk "DELETE" (lit "pins" :: p') [] [] .none)
  | .allocations m => mk "GET" [lit "allocations"] [("filter", if m == 0 then .empty else .valid (.str "types"))] [] .none
  | .status s l => mk "GET" [lit "pins", s] [("local", boolQ l)] [] .none
  | .recover s l => mk "POST" [lit "pins", s, lit "recover"] [("local", boolQ l)] [] .none
  | .statusAll m l =>
    mk "GET" [lit "pins"] [("local", boolQ l), ("filter", if m == 0 then .empty else .valid (.str (toString (widen m))))] [] .none
  | .recoverAll l => mk "POST" [lit "pins", lit "recover"] [("local", boolQ l)] [] .none
  | .repoGC l => mk "POST" [lit "ipfs", lit "gc"] [("local", boolQ l)] [] .none
  | .metrics s => mk "GET" [lit "monitor", lit "metrics", s] [] [] .none

inductive Ret where
  | same            -- no error, and the value is the one the cluster handed to the server
  | differ
  | err (code : Nat)
  | clientErr       -- refused before sending
  deriving DecidableEq, Repr

/-- does the answer to this call carry a pin with origins?  (the recording service answers Pin with the
    pin it received and PinPath/UnpinPath with a pin carrying the received options) -/
def answerHasOrigins : Call → Bool
  | .pin _ o => !o.origins.isEmpty
  | .pinPath _ o => !o.origins.isEmpty
  | _ => false

/-- `handleResponse`: 204/202 → nil; 4xx/5xx → the decoded api.Error; else decode the body into the
    result (a pin with origins does not decode: K01) -/
def clientRet (c : Call) (o : Resp) : Ret :=
  if o.status == 204 || o.status == 202 then .same
  else if decide (400 ≤ o.status) then .err o.status
  else if answerHasOrigins c then .err o.status
  else .same

/-- `path.Clean` on the segments: empty and "." segments vanish, ".." takes the previous one with it -/
def cleanSegs (segs : List Seg) : List Seg :=
  (segs.foldl (fun (acc : List Seg) s =>
    if s.txt == "" || s.txt == "." then acc
    else if s.txt == ".." then acc.dropLast
    else acc ++ [s]) [])

/-- the request net/http's client issues when it follows a 301: a GET (the method of a redirected POST or
    DELETE is not kept), no body; to the cleaned path (mux's clean-path redirect keeps a trailing slash), or
    to the path without its trailing slash (strict-slash redirect) -/
def redirected (r : Req) : Req :=
  if unclean r then { r with method := "GET", segs := cleanSegs r.segs, body := .none }
  else { r with method := "GET", slash := false, body := .none }

def followRedirects (chain : List String) (table : List Route) (r : Req) (o : Resp) : Nat → Resp
  | 0 => o
  | n + 1 =>
    if o.status == 301 then
      let r' := redirected r
      followRedirects chain table r' (handle chain table r') n
    else o

def clientCall (chain : List String) (table : List Route) (cfg : CliCfg) (c : Call) : List Op × Ret :=
  match build cfg c with
  | none => ([], .clientErr)
  | some r =>
    let o := followRedirects chain table r (handle chain table r) 3
    (o.ops, clientRet c o)

end CV.C11

/-! ## the add endpoint (`addHandler`, `AddParamsFromQuery`, `adderutils.AddMultipartHTTPHandler`)

One small file in a multipart body (or no / a broken body); non-sharded adds only.  What the adder
does with the blocks is C13's subject: here the block puts are one collapsed entry and the root CID is
described by its version, codec and hash function. -/
namespace CV.C11
open CV

inductive Multipart where
  | ok | none | junk
  deriving DecidableEq, Repr

structure AddReq where
  creds : Bool
  auth : Auth
  mp : Multipart
  query : List (String × QV)
  md : List (Nat × Nat)
  rpc : RpcMode
  deriving Repr

structure RootDesc where
  version : Nat
  codec : String     -- "pb" | "raw"
  hash : String
  deriving DecidableEq, Repr

/-- The `api.AddParams` that `AddParamsFromQuery` builds, field by field (the pin options apart): what the
    handler hands to `adderutils.AddMultipartHTTPHandler` and so to the adder.  A word that is not a known
    chunker / hash function name is the text "i". -/
structure AddSeen where
  layout : String
  chunker : String
  hash : String
  format : String
  loc : Bool
  recursive : Bool
  hidden : Bool
  wrap : Bool
  shard : Bool
  progress : Bool
  cidv : Int
  rawLeaves : Bool
  stream : Bool
  nocopy : Bool
  deriving DecidableEq, Repr

structure AddResp where
  status : Nat                 -- 0 = no response (the handler panicked)
  body : BodyShape
  trailer : Bool               -- X-Stream-Error set
  root : Option RootDesc
  ops : List Op
  /-- codec of the leaf blocks put: "raw" | "pb" | "-" (no block put) -/
  leaf : String := "-"
  /-- the `AddParams` built from the query (`none`: the query is refused) -/
  seen : Option AddSeen := none
  deriving DecidableEq, Repr

/-- `parseBoolParam`: `none` = error -/
def boolParam (v : QV) (dflt : Bool) : Option Bool :=
  match v with
  | .empty => some dflt
  | .valid (.bool b) => some b
  | _ => none

/-- a word option checked at parse time (layout, format): `none` = error -/
def wordParam (v : QV) : Option String :=
  match v with
  | .empty => some ""
  | .valid (.str s) => some s
  | _ => none

/-- a word option NOT checked at parse time (chunker, hash): `none` = the adder rejects it later -/
def lateWord (v : QV) (dflt : String) : Option String :=
  match v with
  | .empty => some dflt
  | .valid (.str s) => some s
  | _ => none

structure AddParams where
  opts : Opts
  layout : String
  format : String
  stream : Bool
  wrap : Bool
  shard : Bool
  nocopy : Bool
  cidv : Int
  rawLeaves : Bool
  chunker : String := "size-262144"
  hash : String := "sha2-256"
  loc : Bool := false
  recursive : Bool := false
  hidden : Bool := false
  progress : Bool := false
  deriving Repr

def AddParams.seen (p : AddParams) : AddSeen :=
  { layout := p.layout, chunker := p.chunker, hash := p.hash, format := p.format, loc := p.loc, recursive := p.recursive,
    hidden := p.hidden, wrap := p.wrap, shard := p.shard, progress := p.progress, cidv := p.cidv, rawLeaves := p.rawLeaves,
    stream := p.stream, nocopy := p.nocopy }

/-- `query.Get(k)` of a word that is stored unchecked (chunker, hash): absent = the default of
    `DefaultAddParams`, an unknown name is kept as it is (the text "i") -/
def keptWord (v : QV) (dflt : String) : String :=
  match v with
  | .empty => dflt
  | .valid (.str s) => s
  | _ => "i"

/-- is the requested hash function something other than sha2-256?  (an unknown name is) -/
def otherHash (q : List (String × QV)) : Bool :=
  match getq q "hash" with
  | .empty => false
  | .valid (.str s) => s != "sha2-256"
  | _ => true

/-- A CIDv0 only carries sha2-256: with another hash function an explicit `cid-version=0` is refused
    (`none`), an absent one becomes 1 -/
def effCidv (q : List (String × QV)) (cidv : Int) : Option Int :=
  if otherHash q && cidv == 0 then (if getq q "cid-version" != .empty then none else some 1) else some cidv

/-- `AddParamsFromQuery`; `none` = 400.  The order is the code's: the CID version is read and (for another hash
    function, when it was not given) raised to 1 FIRST; `RawLeaves` is then defaulted from the effective version
    (`CidVersion > 0`), and only then the request's own `raw-leaves` is read over it - so an explicit value always wins. -/
def addParams (q : List (String × QV)) (md : List (Nat × Nat)) : Option AddParams :=
  match fromQuery q md, wordParam (getq q "layout"), wordParam (getq q "format"),
        boolParam (getq q "local") false, boolParam (getq q "recursive") false, boolParam (getq q "hidden") false,
        boolParam (getq q "wrap-with-directory") false, boolParam (getq q "shard") false,
        boolParam (getq q "progress") false, (intParam (getq q "cid-version") 0).bind (effCidv q) with
  | some o, some layout, some format, some loc, some recursive, some hidden, some wrap, some shard, some progress, some cidv =>
    (match boolParam (getq q "raw-leaves") (decide (cidv > 0)), boolParam (getq q "stream-channels") true,
           boolParam (getq q "nocopy") false with
     | some raw, some stream, some nocopy =>
       some { opts := { o with update := none }, layout := layout, format := format, stream := stream, wrap := wrap,
              shard := shard, nocopy := nocopy, cidv := cidv, rawLeaves := raw,
              chunker := keptWord (getq q "chunker") "size-262144", hash := keptWord (getq q "hash") "sha2-256",
              loc := loc, recursive := recursive, hidden := hidden, progress := progress }
     | _, _, _ => none)
  | _, _, _, _, _, _, _, _, _, _ => none

/-- what the handler hands to the adder for this query: nothing when `url.ParseQuery` or `AddParamsFromQuery` refuses it -/
def seenOf (q : List (String × QV)) (md : List (Nat × Nat)) : Option AddSeen :=
  if hasGarbled q then none else (addParams q md).map (·.seen)

/-- The order a tidy-up of `AddParamsFromQuery` would produce ("the CID-builder options together, at the end"):
    `raw-leaves` is read BEFORE the hash function moves the version to 1, and that move sets `RawLeaves` itself.
    Kept as the refuted alternative (`Props`: `late_upgrade_overrides_explicit`). -/
def addParamsLate (q : List (String × QV)) (md : List (Nat × Nat)) : Option AddParams :=
  match addParams q md, intParam (getq q "cid-version") 0 with
  | some p, some v0 => some (if otherHash q && v0 == 0 then { p with rawLeaves := true } else p)
  | _, _ => none

/-- the adder fails before asking anything of the cluster -/
def lateFailure (r : AddReq) (p : AddParams) : Bool :=
  r.mp == .junk || (lateWord (getq r.query "chunker") "size-262144").isNone ||
  (lateWord (getq r.query "hash") "sha2-256").isNone || p.format == "car" || p.nocopy ||
  !(p.cidv == 0 || p.cidv == 1)

def hashOf (r : AddReq) : String := (lateWord (getq r.query "hash") "sha2-256").getD "sha2-256"

def singleChunk (r : AddReq) : Bool := getq r.query "chunker" != .valid (.str "size-10")

/-- `single.New` pins recursively whatever the mode -/
def addOpts (p : AddParams) : Opts := { p.opts with mode := .recursive }

def errorAnswer (p : AddParams) (ops : List Op) : AddResp :=
  if p.stream then { status := 200, body := .docs 0, trailer := true, root := none, ops := ops }
  else { status := 500, body := .docs 1, trailer := false, root := none, ops := ops }

def addHandle0 (r : AddReq) : AddResp :=
  if r.creds && r.auth != .right then { status := 401, body := .docs 1, trailer := false, root := none, ops := [] }
  else if r.mp == .none then { status := 400, body := .docs 1, trailer := false, root := none, ops := [] }
  else if hasGarbled r.query then { status := 400, body := .docs 1, trailer := false, root := none, ops := [] }
  else match addParams r.query r.md with
    | none => { status := 400, body := .docs 1, trailer := false, root := none, ops := [] }
    | some p =>
      if lateFailure r p then errorAnswer p []
      else
        let alloc : Op := ⟨"Cluster.BlockAllocate", .path "" (addOpts p)⟩
        if r.rpc != .ok then errorAnswer p [alloc]
        else
          -- the trickle builder always puts a dag-pb root above the leaves, the balanced one returns a lone leaf itself
          let raw := !p.wrap && p.rawLeaves && singleChunk r && p.layout != "trickle"
          -- a raw leaf is a CIDv1 whatever cid-version says
          let root : RootDesc :=
            { version := if raw then 1 else p.cidv.toNat, hash := hashOf r, codec := if raw then "raw" else "pb" }
          -- `adder.Pin` drops the allocations for a replicate-everywhere pin
          let pin : Pin := { pinWithOpts 999 (addOpts p) with allocs := if p.opts.rmin < 0 then [] else [999] }
          { status := 200, body := .docs 1, trailer := false, root := some root,
            ops := [alloc, ⟨"IPFSConnector.BlockPut", .blk⟩, ⟨"Cluster.Pin", pinArg pin⟩],
            leaf := if p.rawLeaves then "raw" else "pb" }

/-- the answer, together with the `AddParams` the query is turned into (observed by calling the real
    `AddParamsFromQuery` on the same query: it does not depend on credentials or body) -/
def addHandle (r : AddReq) : AddResp := { addHandle0 r with seen := seenOf r.query r.md }

end CV.C11
