/-
C18 — models (core Lean only).

A. Trace semantics with mutexes (exclusive / shared), lock discipline.
B. Programs: one script of lock/unlock/read/write actions per thread, all interleavings.
C. Small-step model of `Cluster.Alerts()` against the alert writer (`alertsHandler`),
   in the order of the current code (result sized under `alertsMux`, commit c03e9ef) and in
   the order of the code before that fix.
D. The vocabulary of the generated lock-fact table (`Gen/C18.lean`) and its checkers.
E. What the driver needs to compare the implementation's snapshots with the models
   (alert list after k alerts, metrics window after k adds).
-/
namespace CV.C18

/-! ## A. traces -/

abbrev Thread := Nat
abbrev Mutex := Nat
abbrev Loc := Nat

inductive Mode
  | ex  -- Lock()
  | sh  -- RLock()
  deriving DecidableEq, Repr

structure Hold where
  t : Thread
  m : Mutex
  mode : Mode
  deriving DecidableEq, Repr

inductive Ev
  | acq (t : Thread) (m : Mutex) (mode : Mode)
  | rel (t : Thread) (m : Mutex)
  | rd (t : Thread) (x : Loc)
  | wr (t : Thread) (x : Loc)
  deriving DecidableEq, Repr

/-- who holds what (a multiset: shared holds may repeat) -/
abbrev State := List Hold

/-- mutual exclusion: an exclusive acquisition needs the mutex free, a shared one needs no
exclusive holder. Go mutexes are not re-entrant: the acquiring thread itself counts. -/
def canAcq (σ : State) (m : Mutex) : Mode → Bool
  | .ex => σ.all (fun h => h.m != m)
  | .sh => σ.all (fun h => !(h.m == m && h.mode == .ex))

def relP (t : Thread) (m : Mutex) (h : Hold) : Bool := h.t == t && h.m == m

/-- one event; `none` = the event is impossible in this state (exclusion violated, or a
release by a thread that holds nothing: per-thread nesting) -/
def step (σ : State) : Ev → Option State
  | .acq t m md => if canAcq σ m md then some (⟨t, m, md⟩ :: σ) else none
  | .rel t m => if σ.any (relP t m) then some (σ.eraseP (relP t m)) else none
  | .rd _ _ => some σ
  | .wr _ _ => some σ

def runTr : State → List Ev → Option State
  | σ, [] => some σ
  | σ, e :: es => match step σ e with
    | some σ' => runTr σ' es
    | none => none

/-- the trace respects exclusion and nesting -/
def wellLocked (tr : List Ev) : Bool := (runTr [] tr).isSome

/-- state before position k -/
def stAt (tr : List Ev) (k : Nat) : Option State := runTr [] (tr.take k)

def holdsAny (σ : State) (t : Thread) (m : Mutex) : Bool := σ.any (fun h => h.t == t && h.m == m)
def holdsEx (σ : State) (t : Thread) (m : Mutex) : Bool :=
  σ.any (fun h => h.t == t && h.m == m && h.mode == .ex)

/-- the discipline at one event: reads inside a hold of `L x`, writes inside an exclusive hold -/
def okAt (L : Loc → Mutex) (σ : State) : Ev → Bool
  | .rd t x => holdsAny σ t (L x)
  | .wr t x => holdsEx σ t (L x)
  | _ => true

def discRun (L : Loc → Mutex) : State → List Ev → Bool
  | _, [] => true
  | σ, e :: es => okAt L σ e && match step σ e with
    | some σ' => discRun L σ' es
    | none => true

def disciplined (L : Loc → Mutex) (tr : List Ev) : Bool := discRun L [] tr

/-- (thread, location, is-write) of an access event -/
def Ev.access : Ev → Option (Thread × Loc × Bool)
  | .rd t x => some (t, x, false)
  | .wr t x => some (t, x, true)
  | _ => none

/-! ## B. programs -/

inductive Act
  | acq (m : Mutex) (mode : Mode)
  | rel (m : Mutex)
  | rd (x : Loc)
  | wr (x : Loc)
  deriving DecidableEq, Repr

def Act.ev (t : Thread) : Act → Ev
  | .acq m md => .acq t m md
  | .rel m => .rel t m
  | .rd x => .rd t x
  | .wr x => .wr t x

/-- global lock state and the remaining script of every thread (thread id = index) -/
structure Sys where
  σ : State
  progs : List (List Act)

def Sys.init (progs : List (List Act)) : Sys := ⟨[], progs⟩

/-- thread `t` performs its next action, if it is enabled -/
def Sys.stepT (s : Sys) (t : Nat) : Option (Sys × Ev) :=
  match s.progs[t]? with
  | some (a :: rest) =>
    match step s.σ (a.ev t) with
    | some σ' => some (⟨σ', s.progs.set t rest⟩, a.ev t)
    | none => none
  | _ => none

/-- follow a schedule (every entry must name a thread that can move) -/
def Sys.run : Sys → List Nat → Option (Sys × List Ev)
  | s, [] => some (s, [])
  | s, t :: sch =>
    match s.stepT t with
    | some (s', e) =>
      match s'.run sch with
      | some (s'', es) => some (s'', e :: es)
      | none => none
    | none => none

/-- locks a thread holds according to its own script so far -/
abbrev Held := List (Mutex × Mode)

def after (held : Held) : Act → Held
  | .acq m md => (m, md) :: held
  | .rel m => held.eraseP (fun h => h.1 == m)
  | _ => held

/-- static lockset check of one script: every read inside a hold of `L x`, every write inside
an exclusive hold (what the generated table asserts per function) -/
def lockOK (L : Loc → Mutex) : Held → List Act → Bool
  | _, [] => true
  | held, a :: r =>
    (match a with
     | .rd x => held.any (fun h => h.1 == L x)
     | .wr x => held.any (fun h => h.1 == L x && h.2 == .ex)
     | _ => true) && lockOK L (after held a) r

/-- static order check of one script: a mutex is only acquired while holding mutexes of
strictly smaller rank, releases match holds, nothing is held at the end -/
def orderOK (rank : Mutex → Nat) : Held → List Act → Bool
  | held, [] => held.isEmpty
  | held, a :: r =>
    (match a with
     | .acq m _ => held.all (fun h => rank h.1 < rank m)
     | .rel m => held.any (fun h => h.1 == m)
     | _ => true) && orderOK rank (after held a) r

def threadHolds (σ : State) (t : Thread) : Held :=
  (σ.filter (fun h => h.t == t)).map (fun h => (h.m, h.mode))

/-! ## B'. scripts with calls: summaries, calling contexts, inlining -/

inductive PAct
  | act (a : Act)
  | call (f : Nat)
  deriving DecidableEq, Repr

abbrev Body := List PAct

/-- expand the calls of a body with `callee` (the expansion of each function one level down) -/
def inlineWith (callee : Nat → Option (List Act)) : Body → Option (List Act)
  | [] => some []
  | .act a :: r => (inlineWith callee r).map (a :: ·)
  | .call f :: r =>
    match callee f, inlineWith callee r with
    | some x, some y => some (x ++ y)
    | _, _ => none

/-- the script of function `f` with all calls inlined, to call depth `fuel`; `none` = the depth
bound was exceeded (recursion): fail closed -/
def inlineFn (P : List Body) : Nat → Nat → Option (List Act)
  | 0, _ => none
  | fuel + 1, f => inlineWith (inlineFn P fuel) (P.getD f [])

/-- the modular lockset check of one body in one calling context `H0` (the locks held on entry):
accesses are checked against the locks held so far, a call requires the current lockset to be a
recorded context of the callee, and the body must return with exactly the locks it was entered with -/
def modOK (L : Loc → Mutex) (ctxs : Nat → List Held) (H0 : Held) : Held → Body → Bool
  | H, [] => H == H0
  | H, .act a :: r =>
    (match a with
     | .rd x => H.any (fun h => h.1 == L x)
     | .wr x => H.any (fun h => h.1 == L x && h.2 == .ex)
     | _ => true) && modOK L ctxs H0 (after H a) r
  | H, .call g :: r => (ctxs g).contains H && modOK L ctxs H0 H r

/-! ## C. `Cluster.Alerts()` against the alert writer -/

namespace Alerts

structure Cfg where
  maxAlerts : Nat
  /-- true: `make([]api.Alert, len(c.alerts))` after `alertsMux.Lock()` (current code);
  false: before it (the code before commit c03e9ef) -/
  sizeUnderLock : Bool

inductive RPc
  | idle     -- between calls
  | sized    -- result allocated, lock not yet taken (old order only)
  | locked   -- lock taken, result not yet allocated (current order only)
  | allocd   -- lock taken and result allocated
  | ranging  -- inside `for i, a := range c.alerts`
  | copied   -- loop done, lock still held
  | crashed  -- index out of range
  deriving DecidableEq, Repr

structure Reader where
  pc : RPc := .idle
  res : List Nat := []   -- the result slice (0 = zero-valued entry)
  m : Nat := 0           -- length of c.alerts when the range statement started
  i : Nat := 0
  todo : Nat := 0        -- calls still to make
  outs : List (List Nat) := []  -- lists returned so far
  deriving Repr

inductive WPc
  | idle | locked | checked | appended
  deriving DecidableEq, Repr

/-- thread 0 is the writer (`alertsHandler`), thread k+1 is reader k -/
structure Sys where
  alerts : List Nat
  mux : Option Nat
  wpc : WPc
  pending : List Nat
  readers : Nat → Reader

def upd (f : Nat → Reader) (k : Nat) (r : Reader) : Nat → Reader := fun j => if j = k then r else f j

def init (pending : List Nat) (todo : Nat) : Sys :=
  { alerts := [], mux := none, wpc := .idle, pending := pending, readers := fun _ => { todo := todo } }

def stepWriter (cfg : Cfg) (s : Sys) : Sys :=
  match s.wpc with
  | .idle =>
    match s.pending, s.mux with
    | _ :: _, none => { s with mux := some 0, wpc := .locked }
    | _, _ => s
  | .locked =>
    if s.alerts.length > cfg.maxAlerts then { s with alerts := [], wpc := .checked } else { s with wpc := .checked }
  | .checked =>
    match s.pending with
    | a :: rest => { s with alerts := s.alerts ++ [a], pending := rest, wpc := .appended }
    | [] => { s with wpc := .appended }
  | .appended => { s with mux := none, wpc := .idle }

def stepReader (cfg : Cfg) (s : Sys) (k : Nat) : Sys :=
  let r := s.readers k
  let put (r' : Reader) : Sys := { s with readers := upd s.readers k r' }
  match r.pc with
  | .idle =>
    if r.todo = 0 then s
    else if cfg.sizeUnderLock then
      match s.mux with
      | none => { put { r with pc := .locked } with mux := some (k + 1) }
      | some _ => s
    else put { r with pc := .sized, res := List.replicate s.alerts.length 0 }
  | .sized =>
    match s.mux with
    | none => { put { r with pc := .allocd } with mux := some (k + 1) }
    | some _ => s
  | .locked => put { r with pc := .allocd, res := List.replicate s.alerts.length 0 }
  | .allocd => put { r with pc := .ranging, m := s.alerts.length, i := 0 }
  | .ranging =>
    if r.i < r.m then
      -- alerts[total-1-i] = a
      if r.i < r.res.length then
        put { r with res := r.res.set (r.res.length - 1 - r.i) (s.alerts.getD r.i 0), i := r.i + 1 }
      else put { r with pc := .crashed }
    else put { r with pc := .copied }
  | .copied =>
    { put { r with pc := .idle, outs := r.res :: r.outs, todo := r.todo - 1 } with mux := none }
  | .crashed => s

def stepT (cfg : Cfg) (s : Sys) : Nat → Sys
  | 0 => stepWriter cfg s
  | k + 1 => stepReader cfg s k

/-- any schedule: a thread that cannot move stutters -/
def run (cfg : Cfg) (s : Sys) (sched : List Nat) : Sys := sched.foldl (stepT cfg) s

end Alerts

/-! ## C'. reading two fields of one operation (status and error text)

`Operation.SetError` writes phase and error text in ONE critical section of `op.mu`.
`OperationTracker.unsafePinInfo` reads them through `op.StatusSnapshot()`, one critical section
(`split = false`; since add9366); before that fix it read them through `op.ToTrackerStatus()` and
`op.Error()`, i.e. in TWO critical sections (`split = true`). Each critical section is one atomic
step here. Which of the two applies today is a fact of the generated table (`Gen.snapshots`). -/
namespace PairRead

structure St where
  phase : Nat := 0
  err : Nat := 0
  gotPhase : Option Nat := none
  gotErr : Option Nat := none

/-- `true` = the writer's critical section (sets both fields to 1), `false` = the reader's next one -/
def step (split : Bool) (s : St) : Bool → St
  | true => { s with phase := 1, err := 1 }
  | false =>
    match s.gotPhase with
    | none => if split then { s with gotPhase := some s.phase } else { s with gotPhase := some s.phase, gotErr := some s.err }
    | some _ => match s.gotErr with
      | none => { s with gotErr := some s.err }
      | some _ => s

def run (split : Bool) (sched : List Bool) : St := sched.foldl (step split) {}

end PairRead

/-! ## D. the generated lock-fact table -/

inductive GuardKind
  | locked     -- every access inside a hold of the designated mutex (writes: exclusive)
  | immutable  -- never written after the composite literal that creates the object
  | published  -- written only by `writer` before it starts `reader` with a go statement
  deriving DecidableEq, Repr

structure Guard where
  id : Nat
  name : String
  kind : GuardKind
  declared : Bool
  mutex : Nat
  deep : Bool
  writer : Nat
  reader : Nat

/-- a hold: mutex, exclusive?, object token (which object's mutex: a number standing for
"expression `e` in function `f`"; 0 = unknown, never matched) -/
structure HeldLock where
  mutex : Nat
  excl : Bool
  base : Nat
  deriving DecidableEq, Repr

/-- an access. `param = 0`: to the designated field `guard` of the object `base`;
`param = i + 1`: through parameter `i` of the function (`guard`, `base` come from the calling
context that binds the parameter to guarded data; unbound: no obligation).
`held`: the locks the function itself holds at that point. -/
structure Access where
  fn : Nat
  guard : Nat
  param : Nat
  write : Bool
  held : List HeldLock
  base : Nat
  pos : Nat

/-- parameter `param` of the function is (an alias of) the guarded structure `guard` of object `base` -/
structure Binding where
  param : Nat
  guard : Nat
  base : Nat
  deriving DecidableEq, Repr

/-- a calling context of `fn`: what the callers hold on the way in, and which parameters carry
guarded data -/
structure Ctx where
  fn : Nat
  locks : List HeldLock
  binds : List Binding
  deriving DecidableEq, Repr

/-- an argument of a call: parameter `param` of the callee receives the guarded structure
(`guard`, `base`) directly (`fromParam = 0`) or the caller's own parameter `fromParam - 1`;
`all`: the callee is a deferred closure of the caller and sees all its bindings -/
structure ArgBind where
  param : Nat
  fromParam : Nat
  guard : Nat
  base : Nat
  all : Bool

/-- a call site: locks the caller itself holds, how object tokens are renamed (actual → formal),
which tokens would name an outer activation of the callee (made unmatchable), the arguments -/
structure CallEdge where
  caller : Nat
  callee : Nat
  held : List HeldLock
  trans : List (Nat × Nat)
  poison : List Nat
  args : List ArgBind

structure FnFact where
  fn : Nat
  exported : Bool
  spawned : Bool
  asValue : Bool
  callSites : Nat

inductive EscKind
  | value    -- a value copy
  | copy     -- a fresh container of values
  | ownlock  -- pointer(s) to objects that have their own lock in the table
  | payload  -- pointer(s) to objects never written after they were stored (trusted list)
  | raw      -- the guarded structure itself, or a pointer without discipline: fails
  deriving DecidableEq, Repr

/-- a reference taken out of a guarded structure that leaves the function -/
structure Escape where
  fn : Nat
  guard : Nat
  kind : EscKind
  pos : Nat

structure Spawn where
  fn : Nat
  callee : Nat
  pos : Nat

/-- a function that builds a snapshot of an atomic group of fields (fields written together in one
critical section): in how many critical sections it reads them, how many distinct fields it reads -/
structure Snapshot where
  fn : Nat
  sections : Nat
  fields : Nat

/-- every snapshot builder reads its group in ONE critical section (`PairRead` with `split = false`),
and at least one builder of a multi-field snapshot was recognised -/
def snapshotsOK (l : List Snapshot) : Bool :=
  l.all (fun s => s.fields ≤ 1 || s.sections ≤ 1) && l.any (fun s => s.fields ≥ 2)

def guardOf (gs : List Guard) (id : Nat) : Option Guard := gs.find? (fun g => g.id == id)

/-- the field an access touches in context `c`: (guard, object token); `none` = through a
parameter the context does not bind (no obligation) -/
def effGuard (c : Ctx) (a : Access) : Option (Nat × Nat) :=
  if a.param == 0 then some (a.guard, a.base)
  else (c.binds.find? (fun b => b.param + 1 == a.param)).map (fun b => (b.guard, b.base))

/-- the lockset check of one access in one calling context: the locks of the function itself
plus those the context brings in -/
def accessOK (gs : List Guard) (sp : List Spawn) (c : Ctx) (a : Access) : Bool :=
  match effGuard c a with
  | none => true
  | some (gid, base) =>
    match guardOf gs gid with
    | none => false
    | some g =>
      g.declared &&
      (match g.kind with
       | .locked => g.mutex != 0 && base != 0 &&
           (a.held ++ c.locks).any (fun h => h.mutex == g.mutex && h.base == base && (h.excl || !a.write))
       | .immutable => !a.write
       | .published =>
           a.param == 0 &&
           (if a.write then
             g.writer != 0 && a.fn == g.writer &&
               sp.all (fun s => !(s.callee == g.reader) || (s.fn == g.writer && a.pos < s.pos))
           else g.reader != 0 && (a.fn == g.writer || a.fn == g.reader)))

def trTok (e : CallEdge) (t : Nat) : Nat :=
  match e.trans.find? (fun p => p.1 == t) with
  | some p => p.2
  | none => if e.poison.contains t then 0 else t

/-- the context in which the callee of `e` runs when the caller runs in `c` -/
def pushCtx (e : CallEdge) (c : Ctx) : Ctx :=
  { fn := e.callee
    locks := (e.held ++ c.locks).map (fun l => { l with base := trTok e l.base })
    binds := e.args.flatMap (fun a =>
      if a.all then c.binds
      else if a.fromParam == 0 then [⟨a.param, a.guard, trTok e a.base⟩]
      else match c.binds.find? (fun b => b.param + 1 == a.fromParam) with
        | some b => [⟨a.param, b.guard, trTok e b.base⟩]
        | none => []) }

/-- the recorded contexts are closed: entered-with-nothing-held functions have the empty context
(and every exported / started / stored / never-called function is such a root), and every call
site maps every context of its caller to a recorded context of its callee -/
def contextsOK (ctxs : List Ctx) (edges : List CallEdge) (roots : List Nat) (facts : List FnFact) : Bool :=
  roots.all (fun f => ctxs.contains ⟨f, [], []⟩)
  && facts.all (fun x => !(x.exported || x.spawned || x.asValue || x.callSites == 0) || roots.contains x.fn)
  && ctxs.all (fun c => facts.any (fun x => x.fn == c.fn))
  && edges.all (fun e => ctxs.all (fun c => c.fn != e.caller || ctxs.contains (pushCtx e c)))

def escapesOK (es : List Escape) : Bool := es.all (fun e => e.kind != .raw)

/-- every designated field and its mutex are still declared, and every published field's reader is
started only by its writer -/
def guardsOK (gs : List Guard) (sp : List Spawn) : Bool :=
  gs.all (fun g => g.declared &&
    (match g.kind with
     | .locked => g.mutex != 0
     | .immutable => true
     | .published => g.writer != 0 && g.reader != 0 &&
         sp.all (fun s => !(s.callee == g.reader) || s.fn == g.writer)))

/-- every access passes the lockset check in EVERY calling context of its function (the function's
own locks plus the propagated ones), every function with an access has a context, the contexts are
closed under the call edges -/
def tableOK (gs : List Guard) (sp : List Spawn) (accs : List Access) (ctxs : List Ctx)
    (edges : List CallEdge) (roots : List Nat) (facts : List FnFact) : Bool :=
  guardsOK gs sp
  && accs.all (fun a => ctxs.any (fun c => c.fn == a.fn))
  && ctxs.all (fun c => accs.all (fun a => a.fn != c.fn || accessOK gs sp c a))
  && contextsOK ctxs edges roots facts

/-- longest chain of nested acquisitions ending in `b`, explored to depth `fuel` -/
def rk (edges : List (Nat × Nat)) : Nat → Nat → Nat
  | 0, _ => 0
  | fuel + 1, b => (edges.filter (fun e => e.2 == b)).foldl (fun acc e => max acc (rk edges fuel e.1 + 1)) 0

def rankOf (edges : List (Nat × Nat)) (m : Nat) : Nat := rk edges edges.length m

/-- the acquisition graph is acyclic: `rankOf` strictly increases along every edge -/
def acyclicB (edges : List (Nat × Nat)) : Bool := edges.all (fun e => rankOf edges e.1 < rankOf edges e.2)

/-! ## E. sequential reference behaviour used to judge snapshots -/

/-- length of `c.alerts` after `k` alerts went through `alertsHandler` -/
def lenAfter (maxAlerts : Nat) : Nat → Nat
  | 0 => 0
  | k + 1 => if lenAfter maxAlerts k > maxAlerts then 1 else lenAfter maxAlerts k + 1

/-- `hi, hi-1, …` (`n` entries) -/
def descFrom (hi : Nat) : Nat → List Nat
  | 0 => []
  | n + 1 => hi :: descFrom (hi - 1) n

/-- what `Alerts()` returns when alerts 1..k have been handled (most recent first) -/
def alertsAfter (maxAlerts k : Nat) : List Nat := descFrom k (lenAfter maxAlerts k)

/-- what `Window.All()` returns after values 1..k were added to a window of capacity `cap` -/
def windowAfter (cap k : Nat) : List Nat := descFrom k (min k cap)

end CV.C18
