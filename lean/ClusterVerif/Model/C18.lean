/-
C18 — models (core Lean only).

A. Trace semantics with mutexes (exclusive / shared), lock discipline.
B. Programs: one script of lock/unlock/read/write actions per thread, all interleavings.
C. Small-step model of `Cluster.Alerts()` against the alert writer (`alertsHandler`),
   in the order of the current code (result sized under `alertsMux`, commit c03e9ef) and in
   the order of the code before that fix.
D. The vocabulary of the generated lock-fact table (`Gen/C18.lean`) and its checkers.
E. What the driver needs to compare the implementation's snapshots with the models
   (alert list after k alerts, metrics window after k adds).
-/
namespace CV.C18

/-! ## A. traces -/

abbrev Thread := Nat
abbrev Mutex := Nat
abbrev Loc := Nat

inductive Mode
  | ex  -- Lock()
  | sh  -- RLock()
  deriving DecidableEq, Repr

structure Hold where
  t : Thread
  m : Mutex
  mode : Mode
  deriving DecidableEq, Repr

inductive Ev
  | acq (t : Thread) (m : Mutex) (mode : Mode)
  | rel (t : Thread) (m : Mutex)
  | rd (t : Thread) (x : Loc)
  | wr (t : Thread) (x : Loc)
  deriving DecidableEq, Repr

/-- who holds what (a multiset: shared holds may repeat) -/
abbrev State := List Hold

/-- mutual exclusion: an exclusive acquisition needs the mutex free, a shared one needs no
exclusive holder. Go mutexes are not re-entrant: the acquiring thread itself counts. -/
def canAcq (σ : State) (m : Mutex) : Mode → Bool
  | .ex => σ.all (fun h => h.m != m)
  | .sh => σ.all (fun h => !(h.m == m && h.mode == .ex))

def relP (t : Thread) (m : Mutex) (h : Hold) : Bool := h.t == t && h.m == m

/-- one event; `none` = the event is impossible in this state (exclusion violated, or a
release by a thread that holds nothing: per-thread nesting) -/
def step (σ : State) : Ev → Option State
  | .acq t m md => if canAcq σ m md then some (⟨t, m, md⟩ :: σ) else none
  | .rel t m => if σ.any (relP t m) then some (σ.eraseP (relP t m)) else none
  | .rd _ _ => some σ
  | .wr _ _ => some σ

def runTr : State → List Ev → Option State
  | σ, [] => some σ
  | σ, e :: es => match step σ e with
    | some σ' => runTr σ' es
    | none => none

/-- the trace respects exclusion and nesting -/
def wellLocked (tr : List Ev) : Bool := (runTr [] tr).isSome

/-- state before position k -/
def stAt (tr : List Ev) (k : Nat) : Option State := runTr [] (tr.take k)

def holdsAny (σ : State) (t : Thread) (m : Mutex) : Bool := σ.any (fun h => h.t == t && h.m == m)
def holdsEx (σ : State) (t : Thread) (m : Mutex) : Bool :=
  σ.any (fun h => h.t == t && h.m == m && h.mode == .ex)

/-- the discipline at one event: reads inside a hold of `L x`, writes inside an exclusive hold -/
def okAt (L : Loc → Mutex) (σ : State) : Ev → Bool
  | .rd t x => holdsAny σ t (L x)
  | .wr t x => holdsEx σ t (L x)
  | _ => true

def discRun (L : Loc → Mutex) : State → List Ev → Bool
  | _, [] => true
  | σ, e :: es => okAt L σ e && match step σ e with
    | some σ' => discRun L σ' es
    | none => true

def disciplined (L : Loc → Mutex) (tr : List Ev) : Bool := discRun L [] tr

/-- (thread, location, is-write) of an access event -/
def Ev.access : Ev → Option (Thread × Loc × Bool)
  | .rd t x => some (t, x, false)
  | .wr t x => some (t, x, true)
  | _ => none

/-! ## B. programs -/

inductive Act
  | acq (m : Mutex) (mode : Mode)
  | rel (m : Mutex)
  | rd (x : Loc)
  | wr (x : Loc)
  deriving DecidableEq, Repr

def Act.ev (t : Thread) : Act → Ev
  | .acq m md => .acq t m md
  | .rel m => .rel t m
  | .rd x => .rd t x
  | .wr x => .wr t x

/-- global lock state and the remaining script of every thread (thread id = index) -/
structure Sys where
  σ : State
  progs : List (List Act)

def Sys.init (progs : List (List Act)) : Sys := ⟨[], progs⟩

/-- thread `t` performs its next action, if it is enabled -/
def Sys.stepT (s : Sys) (t : Nat) : Option (Sys × Ev) :=
  match s.progs[t]? with
  | some (a :: rest) =>
    match step s.σ (a.ev t) with
    | some σ' => some (⟨σ', s.progs.set t rest⟩, a.ev t)
    | none => none
  | _ => none

/-- follow a schedule (every entry must name a thread that can move) -/
def Sys.run : Sys → List Nat → Option (Sys × List Ev)
  | s, [] => some (s, [])
  | s, t :: sch =>
    match s.stepT t with
    | some (s', e) =>
      match s'.run sch with
      | some (s'', es) => some (s'', e :: es)
      | none => none
    | none => none

/-- locks a thread holds according to its own script so far -/
abbrev Held := List (Mutex × Mode)

def after (held : Held) : Act → Held
  | .acq m md => (m, md) :: held
  | .rel m => held.eraseP (fun h => h.1 == m)
  | _ => held

/-- static lockset check of one script: every read inside a hold of `L x`, every write inside
an exclusive hold (what the generated table asserts per function) -/
def lockOK (L : Loc → Mutex) : Held → List Act → Bool
  | _, [] => true
  | held, a :: r =>
    (match a with
     | .rd x => held.any (fun h => h.1 == L x)
     | .wr x => held.any (fun h => h.1 == L x && h.2 == .ex)
     | _ => true) && lockOK L (after held a) r

/-- static order check of one script: a mutex is only acquired while holding mutexes of
strictly smaller rank, releases match holds, nothing is held at the end -/
def orderOK (rank : Mutex → Nat) : Held → List Act → Bool
  | held, [] => held.isEmpty
  | held, a :: r =>
    (match a with
     | .acq m _ => held.all (fun h => rank h.1 < rank m)
     | .rel m => held.any (fun h => h.1 == m)
     | _ => true) && orderOK rank (after held a) r

def threadHolds (σ : State) (t : Thread) : Held :=
  (σ.filter (fun h => h.t == t)).map (fun h => (h.m, h.mode))

/-! ## C. `Cluster.Alerts()` against the alert writer -/

namespace Alerts

structure Cfg where
  maxAlerts : Nat
  /-- true: `make([]api.Alert, len(c.alerts))` after `alertsMux.Lock()` (current code);
  false: before it (the code before commit c03e9ef) -/
  sizeUnderLock : Bool

inductive RPc
  | idle     -- between calls
  | sized    -- result allocated, lock not yet taken (old order only)
  | locked   -- lock taken, result not yet allocated (current order only)
  | allocd   -- lock taken and result allocated
  | ranging  -- inside `for i, a := range c.alerts`
  | copied   -- loop done, lock still held
  | crashed  -- index out of range
  deriving DecidableEq, Repr

structure Reader where
  pc : RPc := .idle
  res : List Nat := []   -- the result slice (0 = zero-valued entry)
  m : Nat := 0           -- length of c.alerts when the range statement started
  i : Nat := 0
  todo : Nat := 0        -- calls still to make
  outs : List (List Nat) := []  -- lists returned so far
  deriving Repr

inductive WPc
  | idle | locked | checked | appended
  deriving DecidableEq, Repr

/-- thread 0 is the writer (`alertsHandler`), thread k+1 is reader k -/
structure Sys where
  alerts : List Nat
  mux : Option Nat
  wpc : WPc
  pending : List Nat
  readers : Nat → Reader

def upd (f : Nat → Reader) (k : Nat) (r : Reader) : Nat → Reader := fun j => if j = k then r else f j

def init (pending : List Nat) (todo : Nat) : Sys :=
  { alerts := [], mux := none, wpc := .idle, pending := pending, readers := fun _ => { todo := todo } }

def stepWriter (cfg : Cfg) (s : Sys) : Sys :=
  match s.wpc with
  | .idle =>
    match s.pending, s.mux with
    | _ :: _, none => { s with mux := some 0, wpc := .locked }
    | _, _ => s
  | .locked =>
    if s.alerts.length > cfg.maxAlerts then { s with alerts := [], wpc := .checked } else { s with wpc := .checked }
  | .checked =>
    match s.pending with
    | a :: rest => { s with alerts := s.alerts ++ [a], pending := rest, wpc := .appended }
    | [] => { s with wpc := .appended }
  | .appended => { s with mux := none, wpc := .idle }

def stepReader (cfg : Cfg) (s : Sys) (k : Nat) : Sys :=
  let r := s.readers k
  let put (r' : Reader) : Sys := { s with readers := upd s.readers k r' }
  match r.pc with
  | .idle =>
    if r.todo = 0 then s
    else if cfg.sizeUnderLock then
      match s.mux with
      | none => { put { r with pc := .locked } with mux := some (k + 1) }
      | some _ => s
    else put { r with pc := .sized, res := List.replicate s.alerts.length 0 }
  | .sized =>
    match s.mux with
    | none => { put { r with pc := .allocd } with mux := some (k + 1) }
    | some _ => s
  | .locked => put { r with pc := .allocd, res := List.replicate s.alerts.length 0 }
  | .allocd => put { r with pc := .ranging, m := s.alerts.length, i := 0 }
  | .ranging =>
    if r.i < r.m then
      -- alerts[total-1-i] = a
      if r.i < r.res.length then
        put { r with res := r.res.set (r.res.length - 1 - r.i) (s.alerts.getD r.i 0), i := r.i + 1 }
      else put { r with pc := .crashed }
    else put { r with pc := .copied }
  | .copied =>
    { put { r with pc := .idle, outs := r.res :: r.outs, todo := r.todo - 1 } with mux := none }
  | .crashed => s

def stepT (cfg : Cfg) (s : Sys) : Nat → Sys
  | 0 => stepWriter cfg s
  | k + 1 => stepReader cfg s k

/-- any schedule: a thread that cannot move stutters -/
def run (cfg : Cfg) (s : Sys) (sched : List Nat) : Sys := sched.foldl (stepT cfg) s

end Alerts

/-! ## C'. reading two fields of one operation (status and error text)

`Operation.SetError` writes phase and error text in ONE critical section of `op.mu`.
`OperationTracker.unsafePinInfo` reads them through `op.StatusSnapshot()`, one critical section
(`split = false`; since add9366); before that fix it read them through `op.ToTrackerStatus()` and
`op.Error()`, i.e. in TWO critical sections (`split = true`). Each critical section is one atomic
step here. Which of the two applies today is a fact of the generated table (`Gen.snapshots`). -/
namespace PairRead

structure St where
  phase : Nat := 0
  err : Nat := 0
  gotPhase : Option Nat := none
  gotErr : Option Nat := none

/-- `true` = the writer's critical section (sets both fields to 1), `false` = the reader's next one -/
def step (split : Bool) (s : St) : Bool → St
  | true => { s with phase := 1, err := 1 }
  | false =>
    match s.gotPhase with
    | none => if split then { s with gotPhase := some s.phase } else { s with gotPhase := some s.phase, gotErr := some s.err }
    | some _ => match s.gotErr with
      | none => { s with gotErr := some s.err }
      | some _ => s

def run (split : Bool) (sched : List Bool) : St := sched.foldl (step split) {}

end PairRead

/-! ## D. the generated lock-fact table -/

inductive GuardKind
  | locked     -- every access inside a hold of the designated mutex (writes: exclusive)
  | immutable  -- never written after the composite literal that creates the object
  | published  -- written only by `writer` before it starts `reader` with a go statement
  deriving DecidableEq, Repr

structure Guard where
  id : Nat
  name : String
  kind : GuardKind
  declared : Bool
  mutex : Nat
  deep : Bool
  writer : Nat
  reader : Nat

structure HeldLock where
  mutex : Nat
  excl : Bool
  sameBase : Bool

structure Access where
  fn : Nat
  guard : Nat
  write : Bool
  held : List HeldLock
  pos : Nat

structure Spawn where
  fn : Nat
  callee : Nat
  pos : Nat

/-- a function that builds a snapshot of an atomic group of fields (fields written together in one
critical section): in how many critical sections it reads them, how many distinct fields it reads -/
structure Snapshot where
  fn : Nat
  sections : Nat
  fields : Nat

/-- every snapshot builder reads its group in ONE critical section (`PairRead` with `split = false`),
and at least one builder of a multi-field snapshot was recognised -/
def snapshotsOK (l : List Snapshot) : Bool :=
  l.all (fun s => s.fields ≤ 1 || s.sections ≤ 1) && l.any (fun s => s.fields ≥ 2)

def guardOf (gs : List Guard) (id : Nat) : Option Guard := gs.find? (fun g => g.id == id)

def accessOK (gs : List Guard) (sp : List Spawn) (a : Access) : Bool :=
  match guardOf gs a.guard with
  | none => false
  | some g =>
    g.declared &&
    (match g.kind with
     | .locked => g.mutex != 0 &&
         a.held.any (fun h => h.mutex == g.mutex && h.sameBase && (h.excl || !a.write))
     | .immutable => !a.write
     | .published =>
         if a.write then
           g.writer != 0 && a.fn == g.writer &&
             sp.all (fun s => !(s.callee == g.reader) || (s.fn == g.writer && a.pos < s.pos))
         else g.reader != 0 && (a.fn == g.writer || a.fn == g.reader))

/-- every designated field and its mutex are still declared, and every published field's reader is
started only by its writer -/
def guardsOK (gs : List Guard) (sp : List Spawn) : Bool :=
  gs.all (fun g => g.declared &&
    (match g.kind with
     | .locked => g.mutex != 0
     | .immutable => true
     | .published => g.writer != 0 && g.reader != 0 &&
         sp.all (fun s => !(s.callee == g.reader) || s.fn == g.writer)))

def tableOK (gs : List Guard) (sp : List Spawn) (accs : List Access) : Bool :=
  guardsOK gs sp && accs.all (accessOK gs sp)

/-- longest chain of nested acquisitions ending in `b`, explored to depth `fuel` -/
def rk (edges : List (Nat × Nat)) : Nat → Nat → Nat
  | 0, _ => 0
  | fuel + 1, b => (edges.filter (fun e => e.2 == b)).foldl (fun acc e => max acc (rk edges fuel e.1 + 1)) 0

def rankOf (edges : List (Nat × Nat)) (m : Nat) : Nat := rk edges edges.length m

/-- the acquisition graph is acyclic: `rankOf` strictly increases along every edge -/
def acyclicB (edges : List (Nat × Nat)) : Bool := edges.all (fun e => rankOf edges e.1 < rankOf edges e.2)

/-! ## E. sequential reference behaviour used to judge snapshots -/

/-- length of `c.alerts` after `k` alerts went through `alertsHandler` -/
def lenAfter (maxAlerts : Nat) : Nat → Nat
  | 0 => 0
  | k + 1 => if lenAfter maxAlerts k > maxAlerts then 1 else lenAfter maxAlerts k + 1

/-- `hi, hi-1, …` (`n` entries) -/
def descFrom (hi : Nat) : Nat → List Nat
  | 0 => []
  | n + 1 => hi :: descFrom (hi - 1) n

/-- what `Alerts()` returns when alerts 1..k have been handled (most recent first) -/
def alertsAfter (maxAlerts k : Nat) : List Nat := descFrom k (lenAfter maxAlerts k)

/-- what `Window.All()` returns after values 1..k were added to a window of capacity `cap` -/
def windowAfter (cap k : Nat) : List Nat := descFrom k (min k cap)

end CV.C18
