/-!
# C05 — the source text the hand-written model transcribes (snapshot)

Taken with `tools/snapshot_skeleton.py C05` from the translator output after the model was last read against the source.
`Gen/C05.lean` is regenerated from /repo on every run and `Props/C05.lean` proves `Gen.f = Expected.f` for every function below
(`rfl`): an edit to any of these functions breaks that obligation, and the check then searches for a failing input with the
correspondence run (a rewrite that keeps the behaviour ends as `no-failing-input-found`, see DESIGN 2.2).
-/
namespace CV.C05.Expected


namespace Stateless

/-- New -/
def f_New : List String := [
  "ctx, cancel := context.WithCancel(context.Background())",
  "spt := &Tracker{",
  "config: cfg,",
  "peerID: pid,",
  "peerName: peerName,",
  "ctx: ctx,",
  "cancel: cancel,",
  "getState: getState,",
  "optracker: optracker.NewOperationTracker(ctx, pid, peerName),",
  "rpcReady: make(chan struct{}, 1),",
  "pinCh: make(chan *optracker.Operation, cfg.MaxPinQueueSize),",
  "unpinCh: make(chan *optracker.Operation, cfg.MaxPinQueueSize),",
  "}",
  "for i := 0; i < spt.config.ConcurrentPins; i++ {",
  "go spt.opWorker(spt.pin, spt.pinCh)",
  "}",
  "go spt.opWorker(spt.unpin, spt.unpinCh)",
  "return spt"
]

/-- Tracker_opWorker -/
def f_Tracker_opWorker : List String := [
  "for {",
  "select {",
  "case op := <-opChan:",
  "if cont := applyPinF(pinF, op); cont {",
  "continue",
  "}",
  "spt.optracker.Clean(op.Context(), op)",
  "case <-spt.ctx.Done():",
  "return",
  "}",
  "}"
]

/-- applyPinF -/
def f_applyPinF : List String := [
  "if op.Cancelled() {",
  "return true",
  "}",
  "op.SetPhase(optracker.PhaseInProgress)",
  "err := pinF(op)",
  "if err != nil {",
  "if op.Cancelled() {",
  "return true",
  "}",
  "op.SetError(err)",
  "op.Cancel()",
  "return true",
  "}",
  "op.SetPhase(optracker.PhaseDone)",
  "op.Cancel()",
  "return false"
]

/-- Tracker_pin -/
def f_Tracker_pin : List String := [
  "err := spt.rpcClient.CallContext(",
  "ctx,",
  "S,",
  "S,",
  "S,",
  "op.Pin(),",
  "&struct{}{},",
  ")",
  "if err != nil {",
  "return err",
  "}",
  "return nil"
]

/-- Tracker_unpin -/
def f_Tracker_unpin : List String := [
  "err := spt.rpcClient.CallContext(",
  "ctx,",
  "S,",
  "S,",
  "S,",
  "op.Pin(),",
  "&struct{}{},",
  ")",
  "if err != nil {",
  "return err",
  "}",
  "return nil"
]

/-- Tracker_enqueue -/
def f_Tracker_enqueue : List String := [
  "op := spt.optracker.TrackNewOperation(ctx, c, typ, optracker.PhaseQueued)",
  "if op == nil {",
  "return nil",
  "}",
  "var ch chan *optracker.Operation",
  "switch typ {",
  "case optracker.OperationPin:",
  "ch = spt.pinCh",
  "case optracker.OperationUnpin:",
  "ch = spt.unpinCh",
  "}",
  "select {",
  "case ch <- op:",
  "default:",
  "err := ErrFullQueue",
  "op.SetError(err)",
  "op.Cancel()",
  "return err",
  "}",
  "return nil"
]

/-- Tracker_SetClient -/
def f_Tracker_SetClient : List String := [
  "spt.rpcClient = c",
  "spt.rpcReady <- struct{}{}"
]

/-- Tracker_Shutdown -/
def f_Tracker_Shutdown : List String := [
  "_ = ctx",
  "spt.shutdownMu.Lock()",
  "defer spt.shutdownMu.Unlock()",
  "if spt.shutdown {",
  "return nil",
  "}",
  "spt.cancel()",
  "close(spt.rpcReady)",
  "spt.wg.Wait()",
  "spt.shutdown = true",
  "return nil"
]

/-- Tracker_Track -/
def f_Tracker_Track : List String := [
  "if c.Type == api.MetaType {",
  "return nil",
  "}",
  "if c.IsRemotePin(spt.peerID) {",
  "op := spt.optracker.TrackNewOperation(ctx, c, optracker.OperationRemote, optracker.PhaseInProgress)",
  "if op == nil {",
  "return nil",
  "}",
  "err := spt.unpin(op)",
  "op.Cancel()",
  "if err != nil {",
  "op.SetError(err)",
  "return nil",
  "}",
  "op.SetPhase(optracker.PhaseDone)",
  "spt.optracker.Clean(ctx, op)",
  "return nil",
  "}",
  "return spt.enqueue(ctx, c, optracker.OperationPin)"
]

/-- Tracker_Untrack -/
def f_Tracker_Untrack : List String := [
  "return spt.enqueue(ctx, api.PinCid(c), optracker.OperationUnpin)"
]

/-- Tracker_StatusAll -/
def f_Tracker_StatusAll : List String := [
  "pis, err := spt.statusAll(ctx, filter)",
  "if err != nil {",
  "return nil",
  "}",
  "return pis"
]

/-- Tracker_statusAll -/
def f_Tracker_statusAll : List String := [
  "pininfos, err := spt.localStatus(ctx, true, filter)",
  "if err != nil {",
  "return nil, err",
  "}",
  "for _, infop := range spt.optracker.GetAll(ctx) {",
  "pininfos[infop.Cid] = infop",
  "}",
  "var pis []*api.PinInfo",
  "for _, pi := range pininfos {",
  "if pi.Status.Match(filter) {",
  "pis = append(pis, pi)",
  "}",
  "}",
  "return pis, nil"
]

/-- Tracker_Status -/
def f_Tracker_Status : List String := [
  "if oppi, ok := spt.optracker.GetExists(ctx, c); ok {",
  "return oppi",
  "}",
  "pinInfo := &api.PinInfo{",
  "Cid: c,",
  "Peer: spt.peerID,",
  "PinInfoShort: api.PinInfoShort{",
  "PeerName: spt.peerName,",
  "TS: time.Now(),",
  "},",
  "}",
  "var gpin *api.Pin",
  "st, err := spt.getState(ctx)",
  "if err != nil {",
  "addError(pinInfo, err)",
  "return pinInfo",
  "}",
  "gpin, err = st.Get(ctx, c)",
  "if err == state.ErrNotFound {",
  "pinInfo.Status = api.TrackerStatusUnpinned",
  "return pinInfo",
  "}",
  "if err != nil {",
  "addError(pinInfo, err)",
  "return pinInfo",
  "}",
  "pinInfo.Name = gpin.Name",
  "if gpin.Type == api.MetaType {",
  "pinInfo.Status = api.TrackerStatusSharded",
  "return pinInfo",
  "}",
  "if gpin.IsRemotePin(spt.peerID) {",
  "pinInfo.Status = api.TrackerStatusRemote",
  "return pinInfo",
  "}",
  "var ips api.IPFSPinStatus",
  "err = spt.rpcClient.CallContext(",
  "ctx,",
  "S,",
  "S,",
  "S,",
  "gpin,",
  "&ips,",
  ")",
  "if err != nil {",
  "addError(pinInfo, err)",
  "return pinInfo",
  "}",
  "ipfsStatus := ips.ToTrackerStatus()",
  "switch ipfsStatus {",
  "case api.TrackerStatusUnpinned:",
  "pinInfo.Status = api.TrackerStatusPinError",
  "pinInfo.Error = errUnexpectedlyUnpinned.Error()",
  "default:",
  "pinInfo.Status = ipfsStatus",
  "}",
  "return pinInfo"
]

/-- Tracker_RecoverAll -/
def f_Tracker_RecoverAll : List String := [
  "statuses, err := spt.statusAll(ctx, api.TrackerStatusUndefined)",
  "if err != nil {",
  "return nil, err",
  "}",
  "resp := make([]*api.PinInfo, 0)",
  "for _, st := range statuses {",
  "r, err := spt.recoverWithPinInfo(ctx, st)",
  "if err != nil {",
  "return resp, err",
  "}",
  "resp = append(resp, r)",
  "}",
  "return resp, nil"
]

/-- Tracker_Recover -/
def f_Tracker_Recover : List String := [
  "pi, ok := spt.optracker.GetExists(ctx, c)",
  "if ok {",
  "return spt.recoverWithPinInfo(ctx, pi)",
  "}",
  "return spt.recoverWithPinInfo(ctx, spt.Status(ctx, c))"
]

/-- Tracker_recoverWithPinInfo -/
def f_Tracker_recoverWithPinInfo : List String := [
  "var err error",
  "switch pi.Status {",
  "case api.TrackerStatusPinError, api.TrackerStatusUnexpectedlyUnpinned:",
  "pin := api.PinCid(pi.Cid)",
  "if st, stErr := spt.getState(ctx); stErr == nil {",
  "if statePin, getErr := st.Get(ctx, pi.Cid); getErr == nil {",
  "pin = statePin",
  "}",
  "}",
  "err = spt.enqueue(ctx, pin, optracker.OperationPin)",
  "case api.TrackerStatusUnpinError:",
  "err = spt.enqueue(ctx, api.PinCid(pi.Cid), optracker.OperationUnpin)",
  "}",
  "if err != nil {",
  "return spt.Status(ctx, pi.Cid), err",
  "}",
  "return spt.Status(ctx, pi.Cid), nil"
]

/-- Tracker_ipfsStatusAll -/
def f_Tracker_ipfsStatusAll : List String := [
  "byMode := make(map[api.PinMode]map[cid.Cid]*api.PinInfo, 2)",
  "for _, mode := range []api.PinMode{api.PinModeDirect, api.PinModeRecursive} {",
  "var ipsMap map[string]api.IPFSPinStatus",
  "err := spt.rpcClient.CallContext(",
  "ctx,",
  "S,",
  "S,",
  "S,",
  "mode.String(),",
  "&ipsMap,",
  ")",
  "if err != nil {",
  "return nil, err",
  "}",
  "pins := make(map[cid.Cid]*api.PinInfo, len(ipsMap))",
  "for cidstr, ips := range ipsMap {",
  "c, err := cid.Decode(cidstr)",
  "if err != nil {",
  "continue",
  "}",
  "p := &api.PinInfo{",
  "Cid: c,",
  "Name: S,",
  "Peer: spt.peerID,",
  "PinInfoShort: api.PinInfoShort{",
  "PeerName: spt.peerName,",
  "Status: ips.ToTrackerStatus(),",
  "TS: time.Now(),",
  "},",
  "}",
  "pins[c] = p",
  "}",
  "byMode[mode] = pins",
  "}",
  "return byMode, nil"
]

/-- Tracker_localStatus -/
def f_Tracker_localStatus : List String := [
  "var statePins []*api.Pin",
  "st, err := spt.getState(ctx)",
  "if err != nil {",
  "return nil, err",
  "}",
  "if filter.Match(",
  "api.TrackerStatusPinned | api.TrackerStatusUnexpectedlyUnpinned |",
  "api.TrackerStatusSharded | api.TrackerStatusRemote) {",
  "statePins, err = st.List(ctx)",
  "if err != nil {",
  "return nil, err",
  "}",
  "}",
  "var localpis map[api.PinMode]map[cid.Cid]*api.PinInfo",
  "if filter.Match(api.TrackerStatusPinned | api.TrackerStatusUnexpectedlyUnpinned) {",
  "localpis, err = spt.ipfsStatusAll(ctx)",
  "if err != nil {",
  "return nil, err",
  "}",
  "}",
  "pininfos := make(map[cid.Cid]*api.PinInfo, len(statePins))",
  "for _, p := range statePins {",
  "ipfsInfo, pinnedInIpfs := localpis[p.MaxDepth.ToPinMode()][p.Cid]",
  "pinInfo := api.PinInfo{",
  "Cid: p.Cid,",
  "Name: p.Name,",
  "Peer: spt.peerID,",
  "PinInfoShort: api.PinInfoShort{",
  "PeerName: spt.peerName,",
  "TS: time.Now(),",
  "},",
  "}",
  "switch {",
  "case p.Type == api.MetaType:",
  "if !incExtra || !filter.Match(api.TrackerStatusSharded) {",
  "continue",
  "}",
  "pinInfo.Status = api.TrackerStatusSharded",
  "pininfos[p.Cid] = &pinInfo",
  "case p.IsRemotePin(spt.peerID):",
  "if !incExtra || !filter.Match(api.TrackerStatusRemote) {",
  "continue",
  "}",
  "pinInfo.Status = api.TrackerStatusRemote",
  "pininfos[p.Cid] = &pinInfo",
  "case pinnedInIpfs:",
  "ipfsInfo.Name = p.Name",
  "pininfos[p.Cid] = ipfsInfo",
  "default:",
  "pinInfo.Status = api.TrackerStatusUnexpectedlyUnpinned",
  "pinInfo.Error = errUnexpectedlyUnpinned.Error()",
  "pininfos[p.Cid] = &pinInfo",
  "}",
  "}",
  "return pininfos, nil"
]

/-- Tracker_OpContext -/
def f_Tracker_OpContext : List String := [
  "return spt.optracker.OpContext(ctx, c)"
]

/-- addError -/
def f_addError : List String := [
  "pinInfo.Error = err.Error()",
  "pinInfo.Status = api.TrackerStatusClusterError"
]

end Stateless

namespace Optracker

/-- OperationTracker_String -/
def f_OperationTracker_String : List String := [
  "var b strings.Builder",
  "fmt.Fprintf(&b, S, opt.pid)",
  "fmt.Fprintf(&b, S, opt.peerName)",
  "fmt.Fprint(&b, S)",
  "opt.mu.RLock()",
  "defer opt.mu.RUnlock()",
  "for _, op := range opt.operations {",
  "opstr := op.String()",
  "opstrs := strings.Split(opstr, S)",
  "for _, s := range opstrs {",
  "fmt.Fprintf(&b, S, s)",
  "}",
  "}",
  "return b.String()"
]

/-- NewOperationTracker -/
def f_NewOperationTracker : List String := [
  "return &OperationTracker{",
  "ctx: ctx,",
  "pid: pid,",
  "peerName: peerName,",
  "operations: make(map[cid.Cid]*Operation),",
  "}"
]

/-- OperationTracker_TrackNewOperation -/
def f_OperationTracker_TrackNewOperation : List String := [
  "ctx = trace.NewContext(opt.ctx, trace.FromContext(ctx))",
  "opt.mu.Lock()",
  "defer opt.mu.Unlock()",
  "op, ok := opt.operations[pin.Cid]",
  "if ok {",
  "if op.Type() == typ && op.Phase() != PhaseError && op.Phase() != PhaseDone {",
  "return nil",
  "}",
  "op.Cancel()",
  "}",
  "op2 := NewOperation(ctx, pin, typ, ph)",
  "opt.operations[pin.Cid] = op2",
  "return op2"
]

/-- OperationTracker_Clean -/
def f_OperationTracker_Clean : List String := [
  "opt.mu.Lock()",
  "defer opt.mu.Unlock()",
  "op2, ok := opt.operations[op.Cid()]",
  "if ok && op == op2 {",
  "delete(opt.operations, op.Cid())",
  "}"
]

/-- OperationTracker_Status -/
def f_OperationTracker_Status : List String := [
  "opt.mu.RLock()",
  "defer opt.mu.RUnlock()",
  "op, ok := opt.operations[c]",
  "if !ok {",
  "return 0, false",
  "}",
  "return op.ToTrackerStatus(), true"
]

/-- OperationTracker_SetError -/
def f_OperationTracker_SetError : List String := [
  "opt.mu.Lock()",
  "defer opt.mu.Unlock()",
  "op, ok := opt.operations[c]",
  "if !ok {",
  "return",
  "}",
  "if ty := op.Type(); ty == OperationRemote {",
  "return",
  "}",
  "if ph := op.Phase(); ph == PhaseDone || ph == PhaseError {",
  "op.SetPhase(PhaseError)",
  "op.SetError(err)",
  "}"
]

/-- OperationTracker_unsafePinInfo -/
def f_OperationTracker_unsafePinInfo : List String := [
  "if op == nil {",
  "return api.PinInfo{",
  "Cid: cid.Undef,",
  "Peer: opt.pid,",
  "PinInfoShort: api.PinInfoShort{",
  "PeerName: opt.peerName,",
  "Status: api.TrackerStatusUnpinned,",
  "TS: time.Now(),",
  "Error: S,",
  "},",
  "}",
  "}",
  "status, ts, errStr := op.StatusSnapshot()",
  "return api.PinInfo{",
  "Cid: op.Cid(),",
  "Peer: opt.pid,",
  "PinInfoShort: api.PinInfoShort{",
  "PeerName: opt.peerName,",
  "Status: status,",
  "TS: ts,",
  "Error: errStr,",
  "},",
  "}"
]

/-- OperationTracker_Get -/
def f_OperationTracker_Get : List String := [
  "opt.mu.RLock()",
  "defer opt.mu.RUnlock()",
  "op := opt.operations[c]",
  "pInfo := opt.unsafePinInfo(ctx, op)",
  "if pInfo.Cid == cid.Undef {",
  "pInfo.Cid = c",
  "}",
  "return &pInfo"
]

/-- OperationTracker_GetExists -/
def f_OperationTracker_GetExists : List String := [
  "opt.mu.RLock()",
  "defer opt.mu.RUnlock()",
  "op, ok := opt.operations[c]",
  "if !ok {",
  "return nil, false",
  "}",
  "pInfo := opt.unsafePinInfo(ctx, op)",
  "return &pInfo, true"
]

/-- OperationTracker_GetAll -/
def f_OperationTracker_GetAll : List String := [
  "var pinfos []*api.PinInfo",
  "opt.mu.RLock()",
  "defer opt.mu.RUnlock()",
  "for _, op := range opt.operations {",
  "pinfo := opt.unsafePinInfo(ctx, op)",
  "pinfos = append(pinfos, &pinfo)",
  "}",
  "return pinfos"
]

/-- OperationTracker_CleanAllDone -/
def f_OperationTracker_CleanAllDone : List String := [
  "opt.mu.Lock()",
  "defer opt.mu.Unlock()",
  "for _, op := range opt.operations {",
  "if op.Phase() == PhaseDone {",
  "delete(opt.operations, op.Cid())",
  "}",
  "}"
]

/-- OperationTracker_OpContext -/
def f_OperationTracker_OpContext : List String := [
  "opt.mu.RLock()",
  "defer opt.mu.RUnlock()",
  "op, ok := opt.operations[c]",
  "if !ok {",
  "return nil",
  "}",
  "return op.Context()"
]

/-- OperationTracker_Filter -/
def f_OperationTracker_Filter : List String := [
  "var pinfos []*api.PinInfo",
  "opt.mu.RLock()",
  "defer opt.mu.RUnlock()",
  "ops := filterOpsMap(ctx, opt.operations, filters)",
  "for _, op := range ops {",
  "pinfo := opt.unsafePinInfo(ctx, op)",
  "pinfos = append(pinfos, &pinfo)",
  "}",
  "return pinfos"
]

/-- OperationTracker_filterOps -/
def f_OperationTracker_filterOps : List String := [
  "var fltops []*Operation",
  "opt.mu.RLock()",
  "defer opt.mu.RUnlock()",
  "for _, op := range filterOpsMap(ctx, opt.operations, filters) {",
  "fltops = append(fltops, op)",
  "}",
  "return fltops"
]

/-- filterOpsMap -/
def f_filterOpsMap : List String := [
  "fltops := make(map[cid.Cid]*Operation)",
  "if len(filters) < 1 {",
  "return nil",
  "}",
  "if len(filters) == 1 {",
  "filter(ctx, ops, fltops, filters[0])",
  "return fltops",
  "}",
  "mainFilter, filters := filters[0], filters[1:]",
  "filter(ctx, ops, fltops, mainFilter)",
  "return filterOpsMap(ctx, fltops, filters)"
]

/-- filter -/
def f_filter : List String := [
  "for _, op := range in {",
  "switch filter.(type) {",
  "case OperationType:",
  "if op.Type() == filter {",
  "out[op.Cid()] = op",
  "}",
  "case Phase:",
  "if op.Phase() == filter {",
  "out[op.Cid()] = op",
  "}",
  "}",
  "}"
]

end Optracker

namespace Operation

/-- NewOperation -/
def f_NewOperation : List String := [
  "ctx, cancel := context.WithCancel(ctx)",
  "return &Operation{",
  "ctx: ctx,",
  "cancel: cancel,",
  "pin: pin,",
  "opType: typ,",
  "phase: ph,",
  "ts: time.Now(),",
  "error: S,",
  "}"
]

/-- Operation_String -/
def f_Operation_String : List String := [
  "var b strings.Builder",
  "fmt.Fprintf(&b, S, op.Type().String())",
  "fmt.Fprint(&b, S)",
  "pinstr := op.Pin().String()",
  "pinstrs := strings.Split(pinstr, S)",
  "for _, s := range pinstrs {",
  "fmt.Fprintf(&b, S, s)",
  "}",
  "fmt.Fprintf(&b, S, op.Phase().String())",
  "fmt.Fprintf(&b, S, op.Error())",
  "fmt.Fprintf(&b, S, op.Timestamp().String())",
  "return b.String()"
]

/-- Operation_Cid -/
def f_Operation_Cid : List String := [
  "var c cid.Cid",
  "op.mu.RLock()",
  "c = op.pin.Cid",
  "op.mu.RUnlock()",
  "return c"
]

/-- Operation_Context -/
def f_Operation_Context : List String := [
  "return op.ctx"
]

/-- Operation_Cancel -/
def f_Operation_Cancel : List String := [
  "op.cancel()",
  "span.End()"
]

/-- Operation_Phase -/
def f_Operation_Phase : List String := [
  "var ph Phase",
  "op.mu.RLock()",
  "ph = op.phase",
  "op.mu.RUnlock()",
  "return ph"
]

/-- Operation_SetPhase -/
def f_Operation_SetPhase : List String := [
  "op.mu.Lock()",
  "{",
  "op.phase = ph",
  "op.ts = time.Now()",
  "}",
  "op.mu.Unlock()",
  "span.End()"
]

/-- Operation_Error -/
def f_Operation_Error : List String := [
  "var err string",
  "op.mu.RLock()",
  "err = op.error",
  "op.mu.RUnlock()",
  "return err"
]

/-- Operation_SetError -/
def f_Operation_SetError : List String := [
  "op.mu.Lock()",
  "{",
  "op.phase = PhaseError",
  "op.error = err.Error()",
  "op.ts = time.Now()",
  "}",
  "op.mu.Unlock()",
  "span.End()"
]

/-- Operation_Type -/
def f_Operation_Type : List String := [
  "return op.opType"
]

/-- Operation_Pin -/
def f_Operation_Pin : List String := [
  "return op.pin"
]

/-- Operation_Timestamp -/
def f_Operation_Timestamp : List String := [
  "var ts time.Time",
  "op.mu.RLock()",
  "ts = op.ts",
  "op.mu.RUnlock()",
  "return ts"
]

/-- Operation_Cancelled -/
def f_Operation_Cancelled : List String := [
  "_ = ctx",
  "select {",
  "case <-op.ctx.Done():",
  "return true",
  "default:",
  "return false",
  "}"
]

/-- Operation_ToTrackerStatus -/
def f_Operation_ToTrackerStatus : List String := [
  "return trackerStatus(op.Type(), op.Phase())"
]

/-- Operation_StatusSnapshot -/
def f_Operation_StatusSnapshot : List String := [
  "op.mu.RLock()",
  "ph, ts, err := op.phase, op.ts, op.error",
  "op.mu.RUnlock()",
  "return trackerStatus(op.Type(), ph), ts, err"
]

/-- trackerStatus -/
def f_trackerStatus : List String := [
  "switch typ {",
  "case OperationPin:",
  "switch ph {",
  "case PhaseError:",
  "return api.TrackerStatusPinError",
  "case PhaseQueued:",
  "return api.TrackerStatusPinQueued",
  "case PhaseInProgress:",
  "return api.TrackerStatusPinning",
  "case PhaseDone:",
  "return api.TrackerStatusPinned",
  "default:",
  "return api.TrackerStatusUndefined",
  "}",
  "case OperationUnpin:",
  "switch ph {",
  "case PhaseError:",
  "return api.TrackerStatusUnpinError",
  "case PhaseQueued:",
  "return api.TrackerStatusUnpinQueued",
  "case PhaseInProgress:",
  "return api.TrackerStatusUnpinning",
  "case PhaseDone:",
  "return api.TrackerStatusUnpinned",
  "default:",
  "return api.TrackerStatusUndefined",
  "}",
  "case OperationRemote:",
  "return api.TrackerStatusRemote",
  "case OperationShard:",
  "return api.TrackerStatusSharded",
  "default:",
  "return api.TrackerStatusUndefined",
  "}"
]

/-- TrackerStatusToOperationPhase -/
def f_TrackerStatusToOperationPhase : List String := [
  "switch status {",
  "case api.TrackerStatusPinError:",
  "return OperationPin, PhaseError",
  "case api.TrackerStatusPinQueued:",
  "return OperationPin, PhaseQueued",
  "case api.TrackerStatusPinning:",
  "return OperationPin, PhaseInProgress",
  "case api.TrackerStatusPinned:",
  "return OperationPin, PhaseDone",
  "case api.TrackerStatusUnpinError:",
  "return OperationUnpin, PhaseError",
  "case api.TrackerStatusUnpinQueued:",
  "return OperationUnpin, PhaseQueued",
  "case api.TrackerStatusUnpinning:",
  "return OperationUnpin, PhaseInProgress",
  "case api.TrackerStatusUnpinned:",
  "return OperationUnpin, PhaseDone",
  "case api.TrackerStatusRemote:",
  "return OperationRemote, PhaseDone",
  "case api.TrackerStatusSharded:",
  "return OperationShard, PhaseDone",
  "default:",
  "return OperationUnknown, PhaseError",
  "}"
]

end Operation

end CV.C05.Expected
