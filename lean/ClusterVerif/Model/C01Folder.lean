/-
C01 — the offline tools of `consensus/raft/raft.go` on a peer's data folder (round 8b):
`SnapshotSave` (`ipfs-cluster-service state import`), `CleanupRaft` / `raftWrapper.Clean` / `Consensus.Clean`
(`state cleanup`), `LastStateRaw` / `OfflineState`, together with start, LogPin/LogUnpin, a forced snapshot and a clean
`Shutdown` of ONE node on that folder.

* `SnapshotSave(cfg, st, pids)`: reads the newest snapshot's metadata; when there is one the new snapshot takes over its
  Index / Term / Configuration and the old folder is moved to a backup (`CleanupRaft`: the log goes with it); when there is
  none the snapshot is written under Index 2 / Term 1 with `makeServerConf(pids)` and NOTHING is cleaned.
  Either way the new snapshot is the newest one of the folder: offline readers and the next start see exactly `st`.
* `CleanupRaft`: no snapshot → the folder is removed; otherwise moved to `<folder>.old.0` (rotation `BackupsRotate`).
  Either way the folder holds no snapshot and no log afterwards. `Consensus.Clean` refuses while the component is not shut down.
* a node started on a folder restores the newest snapshot (FSM initialized) or starts empty (`ErrNoState` ↦ `state.Empty()`).
* `Shutdown` snapshots when the FSM has a state (see `Model/C01Shutdown`); only clean shutdowns here, so the log
  suffix after the newest snapshot is empty whenever the node is down.
The state is the set of pinned cids (sorted list); pin options are the business of `Model/C01`. Core Lean only.
-/
namespace CV.C01.Folder

def ins (c : Nat) : List Nat → List Nat
  | [] => [c]
  | x :: xs => if c < x then c :: x :: xs else if c = x then x :: xs else x :: ins c xs

def del (c : Nat) (s : List Nat) : List Nat := s.filter (· != c)

/-- the state holding exactly the listed cids, whatever order they were added in -/
def norm (s : List Nat) : List Nat := s.foldl (fun acc c => ins c acc) []

inductive Step where
  | pin (c : Nat)
  | unpin (c : Nat)
  | snapshot
  | shutdown
  | offline
  | importSt (s : List Nat)
  | clean
  | restart
  deriving DecidableEq, Repr

inductive Res where
  | ok
  | kept      -- import: metadata of the previous newest snapshot taken over, old folder backed up
  | fresh     -- import: no snapshot before, Index 2 / Term 1
  | refused   -- the call answered an error
  | noop      -- not applicable (node up / down)
  deriving DecidableEq, Repr

structure St where
  up : Bool := false
  init : Bool := false               -- the FSM holds a state (an entry applied or a snapshot restored)
  live : List Nat := []              -- what `Consensus.State()` serves
  snap : Option (List Nat) := none   -- content of the newest snapshot in the folder
  deriving DecidableEq, Repr

def step (s : St) : Step → St × Res
  | .pin c => if s.up then ({ s with live := ins c s.live, init := true }, .ok) else (s, .noop)
  | .unpin c => if s.up then ({ s with live := del c s.live, init := true }, .ok) else (s, .noop)
  | .snapshot => if s.up then ((if s.init then { s with snap := some s.live } else s), .ok) else (s, .noop)
  | .shutdown =>
    if s.up then ((if s.init then { s with up := false, snap := some s.live } else { s with up := false }), .ok)
    else (s, .noop)
  | .offline => (s, .ok)
  | .importSt m =>
    if s.up then (s, .noop) else ({ s with snap := some (norm m) }, if s.snap.isSome then .kept else .fresh)
  | .clean => if s.up then (s, .refused) else ({ s with snap := none }, .ok)
  | .restart =>
    if s.up then (s, .noop) else ({ s with up := true, live := s.snap.getD [], init := s.snap.isSome }, .ok)

/-- what a reader sees: `Consensus.State()` of a running node, `OfflineState` of the folder of a stopped one -/
def visible (s : St) : List Nat := if s.up then s.live else s.snap.getD []

structure Obs where
  step : Step
  res : Res
  vis : List Nat
  deriving DecidableEq, Repr

def runTrace : St → List Step → List Obs
  | _, [] => []
  | s, st :: rest => ⟨st, (step s st).2, visible (step s st).1⟩ :: runTrace (step s st).1 rest

/-- refuted alternative: `Clean` without the "not shutdown" guard empties the folder under a running node -/
def stepUnguardedClean (s : St) : Step → St × Res
  | .clean => ({ s with snap := none }, .ok)
  | st => step s st

/-- refuted alternative: `SnapshotSave` that writes the new snapshot under an index BELOW the existing newest one
    (e.g. always Index 2): the folder's newest snapshot stays the old one -/
def stepStaleImport (s : St) : Step → St × Res
  | .importSt m => if s.up then (s, .noop) else
      ((if s.snap.isSome then s else { s with snap := some (norm m) }), if s.snap.isSome then .kept else .fresh)
  | st => step s st

end CV.C01.Folder
