/-
C10 — SEMANTIC form of the code that decides WHO is a candidate for "closest peer" and HOW closeness is computed:
`Cluster.getTrustedPeers`, `Cluster.distances`, `distanceChecker.isClosest`, `xor` and the two call sites
(`alertsHandler`, `StateSync`). `harness/extract_c10sem` reads the Go AST and emits values of the structures below
(`Gen/C10Sem.lean`); this file INTERPRETS them (`filterCands`, `candsOf`, `closestOf`) over an environment that is split in
what the members of a round agree on (`World`: consensus peerset, trust, hashes) and what is private to one member (`Local`:
the peers its own monitor holds a valid ping metric for). `Props/C10.lean` (section "semantic tie") proves that the
interpretation of the generated values is `others` / `isClosest` of `Model/C10.lean` for every input and never looks at `Local`.
Anything the translator does not recognise becomes an `other "<source>"` constructor: the interpreter answers `none` and the
`decide` theorems fail (fail-closed). Core Lean only.
-/
import ClusterVerif.Model.C10
namespace CV.C10.Sem
open CV

/-- what is private to one member: peers its monitor currently holds a valid ping metric for -/
structure Local where
  pingValid : List Nat
  deriving Repr

/-- an atom of the `continue` guard in the loop of `getTrustedPeers` (the loop variable is `p`) -/
inductive Atom where
  | eqSelf                  -- `p == c.id`
  | eqExclude               -- `p == exclude`
  | notTrusted              -- `!c.consensus.IsTrustedPeer(ctx, p)`
  | notSeen                 -- a test against something of the local monitor
  | other (src : String)
  deriving DecidableEq, Repr

inductive Src where
  | consensusPeers          -- `c.consensus.Peers(ctx)`
  | other (src : String)
  deriving DecidableEq, Repr

/-- `for _, p := range SRC { if a₁ || a₂ || … { continue }; out = append(out, p) }; return out, nil` -/
structure Filter where
  src : Src
  skip : List Atom
  appendsLoopVar : Bool     -- after the guard the body is exactly `out = append(out, p)`
  returnsOut : Bool         -- `out` starts empty and is returned whole (not re-sliced)
  extra : List String       -- top-level statements that are none of the above (must be `[]`)
  deriving DecidableEq, Repr

inductive Arg where
  | param                   -- the function's own `exclude` parameter
  | selfId                  -- `c.id`
  | alertPeer               -- `alrt.Peer`
  | noPeer                  -- `""`
  | other (src : String)
  deriving DecidableEq, Repr

/-- what `distances()` puts in `otherPeers` -/
inductive Cands where
  | trustedOf (excl : Arg)                       -- the result of `c.getTrustedPeers(ctx, excl)`
  | keepSeenBy (localSrc : String) (base : Cands) -- only those of `base` found in a list read from a local component
  | other (src : String)
  deriving DecidableEq, Repr

structure Ctor where
  localId : Arg             -- field `local`
  others : Cands            -- field `otherPeers`
  cacheFresh : Bool         -- field `cache` is a fresh `make(map[peer.ID]distance, …)`
  reads : List String       -- every selector chain rooted at the receiver that the function reads (sorted, no duplicates)
  extra : List String
  deriving DecidableEq, Repr

/-- a byte array inside `isClosest` -/
inductive Opnd where
  | ci | loc | peer | my | dist
  | other (src : String)
  deriving DecidableEq, Repr

inductive CmpOp where
  | gt | ge | lt | le | eq | ne
  | other (src : String)
  deriving DecidableEq, Repr

structure Closest where
  hashesCidKey : Bool       -- the cid hash is `convertKey(ci.KeyString())`
  hashesOwnId : Bool        -- the own hash is `dc.convertPeerID(dc.local)`
  rangesOtherPeers : Bool   -- the loop ranges over `dc.otherPeers`
  hashesLoopPeer : Bool     -- the hash in the loop is `dc.convertPeerID(<loop variable>)`
  names : List String       -- the four source texts behind the flags (information only)
  my : Opnd × Opnd          -- `myDistance := xor(·, ·)`
  dist : Opnd × Opnd        -- `distance := xor(·, ·)`
  cmp : Opnd × Opnd         -- `bytes.Compare(·[:], ·[:])`, both slices whole
  op : CmpOp                -- compared with 0
  onHit : Bool              -- what is returned when the comparison holds
  otherwise : Bool          -- what is returned after the loop
  extra : List String
  deriving DecidableEq, Repr

/-- a caller: builds a checker and sweeps the pin list with it -/
structure Site where
  excl : Arg                -- second argument of `c.distances`
  builds : Nat              -- number of `c.distances(` calls in the function
  sameBlock : Bool          -- the checker is a `:=` local of the statement list that also holds the loop (built per event, kept nowhere)
  cond : List String        -- the conjuncts of the loop's `if`, classified
  call : String             -- the single statement that the test guards (classified)
  deriving DecidableEq, Repr

/-! ### interpretation -/

def evalAtom (w : World) (l : Local) (self : Nat) (exclude : Option Nat) (p : Nat) : Atom → Option Bool
  | .eqSelf => some (p == self)
  | .eqExclude => some (some p == exclude)
  | .notTrusted => some (w.untrusted.contains p)
  | .notSeen => some (!l.pingValid.contains p)
  | .other _ => none

def evalSkip (w : World) (l : Local) (self : Nat) (exclude : Option Nat) (p : Nat) : List Atom → Option Bool
  | [] => some false
  | a :: as =>
    match evalAtom w l self exclude p a, evalSkip w l self exclude p as with
    | some x, some y => some (x || y)
    | _, _ => none

def allKnown (as : List Atom) : Bool := as.all (fun a => match a with | .other _ => false | _ => true)

/-- what a `Filter` returns at member `self` -/
def filterCands (f : Filter) (w : World) (l : Local) (self : Nat) (exclude : Option Nat) : Option (List Nat) :=
  if f.src == .consensusPeers && f.appendsLoopVar && f.returnsOut && f.extra.isEmpty && allKnown f.skip then
    some ((w.members.map (·.1)).filter (fun p => !((evalSkip w l self exclude p f.skip).getD true)))
  else none

def evalArg (self : Nat) (param : Option Nat) : Arg → Option (Option Nat)
  | .param => some param
  | .noPeer => some none
  | .selfId => some (some self)
  | _ => none

/-- the `otherPeers` of the checker `distances(exclude)` builds at member `self` -/
def candsOf (f : Filter) (w : World) (l : Local) (self : Nat) (exclude : Option Nat) : Cands → Option (List Nat)
  | .trustedOf a => (evalArg self exclude a).bind (filterCands f w l self)
  | .keepSeenBy _ base => (candsOf f w l self exclude base).map (·.filter (fun p => l.pingValid.contains p))
  | .other _ => none

/-- the checker's `local` and `otherPeers` -/
def checkerOf (c : Ctor) (f : Filter) (w : World) (l : Local) (self : Nat) (exclude : Option Nat) : Option (Nat × List Nat) :=
  if c.localId == .selfId && c.cacheFresh && c.extra.isEmpty then (candsOf f w l self exclude c.others).map (fun o => (self, o))
  else none

def opndVal (hc hl hp my d : Nat) : Opnd → Option Nat
  | .ci => some hc | .loc => some hl | .peer => some hp | .my => some my | .dist => some d
  | .other _ => none

def xor2 (a b : Option Nat) : Option Nat := match a, b with | some x, some y => some (x ^^^ y) | _, _ => none

def cmpHolds (op : CmpOp) (a b : Nat) : Option Bool :=
  match op with
  | .gt => some (decide (a > b)) | .ge => some (decide (a ≥ b)) | .lt => some (decide (a < b)) | .le => some (decide (a ≤ b))
  | .eq => some (a == b) | .ne => some (a != b) | .other _ => none

/-- the loop of `isClosest` over the candidates' hashes -/
def closestLoop (s : Closest) (hc hl my : Nat) : List Nat → Option Bool
  | [] => some s.otherwise
  | hp :: rest =>
    match xor2 (opndVal hc hl hp my 0 s.dist.1) (opndVal hc hl hp my 0 s.dist.2) with
    | none => none
    | some d =>
      match opndVal hc hl hp my d s.cmp.1, opndVal hc hl hp my d s.cmp.2 with
      | some a, some b =>
        match cmpHolds s.op a b with
        | some true => some s.onHit
        | some false => closestLoop s hc hl my rest
        | none => none
      | _, _ => none

/-- `isClosest` as translated, over the big-endian values of the hashes (byte level ↔ values: `isClosestB_eq_model`) -/
def closestOf (s : Closest) (hc hl : Nat) (hOthers : List Nat) : Option Bool :=
  if s.hashesCidKey && s.hashesOwnId && s.rangesOtherPeers && s.hashesLoopPeer && s.extra.isEmpty then
    match xor2 (opndVal hc hl 0 0 0 s.my.1) (opndVal hc hl 0 0 0 s.my.2) with
    | some my => closestLoop s hc hl my hOthers
    | none => none
  else none

/-- the whole decision "am I closest to cid `c`" as the translated code takes it at member `self` -/
def decide? (ctor : Ctor) (f : Filter) (s : Closest) (w : World) (l : Local) (self : Nat) (exclude : Option Nat) (c : Nat) : Option Bool :=
  match checkerOf ctor f w l self exclude with
  | some (me, os) => closestOf s (w.hashOf c) (w.peerHash me) (os.map w.peerHash)
  | none => none

/-! ### what the model was transcribed from (the values the translator gives on the reviewed tree) -/
namespace Expected

def getTrustedPeers : Filter :=
  { src := .consensusPeers, skip := [.eqSelf, .eqExclude, .notTrusted], appendsLoopVar := true, returnsOut := true, extra := [] }

def distances : Ctor :=
  { localId := .selfId, others := .trustedOf .param, cacheFresh := true, reads := ["c.getTrustedPeers", "c.id"], extra := [] }

def isClosest : Closest :=
  { hashesCidKey := true, hashesOwnId := true, rangesOtherPeers := true, hashesLoopPeer := true,
    names := ["ci.KeyString()", "dc.local", "dc.otherPeers", "<loop var>"],
    my := (.ci, .loc), dist := (.peer, .ci), cmp := (.my, .dist), op := .gt, onHit := false, otherwise := true, extra := [] }

def alertSite : Site :=
  { excl := .alertPeer, builds := 1, sameBlock := true, cond := ["heldBy(alrt.Peer)", "isClosest(pin.Cid)"], call := "c.repinFromPeer(c.ctx, alrt.Peer, pin)" }

def syncSite : Site :=
  { excl := .noPeer, builds := 1, sameBlock := true, cond := ["expiredAt(timeNow)", "isClosest(pin.Cid)"], call := "c.Unpin(ctx, pin.Cid)" }

def xor : List String := ["var c distance", "for i := 0; i < len(c); i++ {", "c[i] = a[i] ^ b[i]", "}", "return c"]

/-- the receiver reads `distances()` may make: the agreed peerset (through `getTrustedPeers`) and the own id — nothing of the monitor, the configuration or the state -/
def agreedReads : List String := ["c.getTrustedPeers", "c.id"]

/-- the shape of seeded change C10g: the trusted peers restricted to those the LOCAL monitor holds a valid ping for -/
def localPingCtor : Ctor :=
  { distances with others := .keepSeenBy "c.monitor.LatestMetrics(ctx, pingMetricName)" (.trustedOf .param),
                   reads := ["c.getTrustedPeers", "c.id", "c.monitor.LatestMetrics"] }

end Expected
end CV.C10.Sem
