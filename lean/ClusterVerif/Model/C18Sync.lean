/-
C18 — synchronisation beyond mutexes (core Lean only).

A. Small-step semantics of the primitives the shutdown paths use: mutexes (exclusive / shared),
   buffered channels (send / receive / close, receive-of-zero from a closed channel),
   `sync.WaitGroup` (Add / Done / Wait), context cancellation as a broadcast (`cancel()` /
   `<-ctx.Done()`), Nat-valued memory cells (the `shutdown`-style flags, read and written under a
   mutex or not), `go` statements, `select` with and without `default`.
   Threads are small control-flow graphs (`Code`), a schedule picks a thread and one of the
   alternatives of its current instruction. Go's run-time panics of these primitives (send on a
   closed channel, close of a closed channel, negative WaitGroup counter, unlock of an unlocked
   mutex) are an absorbing `panicked` state.
   A state is ONE natural number (base-`B` digits, layout given by a static `Cfg`), so that the
   kernel evaluates a step with GMP arithmetic on literals.
   RESTRICTION: there is no rendezvous step. A channel of capacity 0 can only be closed and
   received-from-after-close (receive-of-zero); a `send` on it blocks for ever (or panics when the
   channel is closed). Programs must give capacity ≥ 1 to every channel they send on.
B. The trace of an execution (`SEv`) and its happens-before edges: program order, go statement →
   started goroutine, release → later acquisition of the same mutex, n-th send → n-th receive,
   close → receive-of-zero, Done → later Wait return, cancel → observation.
C. Exhaustive exploration: a set of states (`NSet`, a search tree of literals) that contains the
   initial state and is closed under every step of every thread contains every reachable state
   (`Lemmas/C18Sync.lean`, `closed_reach`), so Bool checks over its elements (`decide +kernel`)
   are statements about ALL interleavings. Per state only the alternatives of the threads'
   CURRENT instructions are tried. `progOk` is the static check that no two objects of a program
   share a digit (needed by the operational lemmas about channels / contexts / go statements).
-/
namespace CV.C18.Sync

abbrev Tid := Nat
abbrev Chan := Nat
abbrev Wg := Nat
abbrev Ctx := Nat
abbrev Loc := Nat
abbrev Mu := Nat

/-! ## A. programs -/

inductive Op
  | lock (m : Mu) | rlock (m : Mu) | unlock (m : Mu) | runlock (m : Mu)
  | send (c : Chan) | recv (c : Chan) | close (c : Chan)
  | wgAdd (w : Wg) (n : Nat) | wgDone (w : Wg) | wgWait (w : Wg)
  | cancel (k : Ctx) | done (k : Ctx)
  /-- read cell `x`; this alternative is the branch taken when the value read is `v` -/
  | ld (x : Loc) (v : Nat)
  | st (x : Loc) (v : Nat)
  | spawn (u : Tid)
  | tau
  deriving DecidableEq, Repr

structure Alt where
  op : Op
  next : Nat
  deriving DecidableEq, Repr

/-- one instruction: a `select` over `alts` (a plain statement is a select with one alternative),
`dflt = some pc`: the `default:` branch, taken only when no alternative is enabled.
No alternatives and no default: the thread has finished. -/
structure Instr where
  alts : List Alt
  dflt : Option Nat := none
  deriving DecidableEq, Repr

abbrev Code := List Instr

/-- static layout: number of threads, mutexes, channel capacities, wait groups, contexts, cells -/
structure Cfg where
  nT : Nat
  nMu : Nat
  caps : List Nat
  nWg : Nat
  nCtx : Nat
  nCell : Nat
  deriving Repr

/-- 0 = no panic; 1 send on closed channel; 2 close of closed channel; 3 negative WaitGroup
counter; 4 unlock of an unlocked mutex -/
abbrev PanicCode := Nat

/-- digit base -/
def B : Nat := 64

def dig (s i : Nat) : Nat := (s / B ^ i) % B
/-- replace digit `i` by `v` (a value that does not fit in a digit wraps modulo `B`: counters are
meant to stay below `B`) -/
def setDig (s i v : Nat) : Nat := s % B ^ i + B ^ i * (v % B + B * (s / B ^ (i + 1)))

/-! digit positions: 0 panic code; then per thread `0` = not started, `pc + 1` = at `pc`; per
mutex (exclusive flag, reader count); per channel (length, closed flag); wait-group counters;
context cancelled flags; memory cells -/
def oPc (_cfg : Cfg) (t : Nat) : Nat := 1 + t
def oMuX (cfg : Cfg) (m : Nat) : Nat := 1 + cfg.nT + 2 * m
def oMuR (cfg : Cfg) (m : Nat) : Nat := 2 + cfg.nT + 2 * m
def oLen (cfg : Cfg) (c : Nat) : Nat := 1 + cfg.nT + 2 * cfg.nMu + 2 * c
def oClosed (cfg : Cfg) (c : Nat) : Nat := 2 + cfg.nT + 2 * cfg.nMu + 2 * c
def oWg (cfg : Cfg) (w : Nat) : Nat := 1 + cfg.nT + 2 * cfg.nMu + 2 * cfg.caps.length + w
def oCtx (cfg : Cfg) (k : Nat) : Nat := 1 + cfg.nT + 2 * cfg.nMu + 2 * cfg.caps.length + cfg.nWg + k
def oCell (cfg : Cfg) (x : Nat) : Nat :=
  1 + cfg.nT + 2 * cfg.nMu + 2 * cfg.caps.length + cfg.nWg + cfg.nCtx + x

def panicCode (s : Nat) : PanicCode := dig s 0

inductive SEv
  | acq (t : Tid) (m : Mu) (excl : Bool) | rel (t : Tid) (m : Mu)
  | send (t : Tid) (c : Chan) | recv (t : Tid) (c : Chan) | recvZero (t : Tid) (c : Chan) | close (t : Tid) (c : Chan)
  | wgAdd (t : Tid) (w : Wg) | wgDone (t : Tid) (w : Wg) | wgWait (t : Tid) (w : Wg)
  | cancel (t : Tid) (k : Ctx) | done (t : Tid) (k : Ctx)
  | rd (t : Tid) (x : Loc) | wr (t : Tid) (x : Loc)
  | spawn (t : Tid) (u : Tid) | tau (t : Tid) | panic (t : Tid) (code : Nat)
  deriving DecidableEq, Repr

def SEv.tid : SEv → Tid
  | .acq t _ _ | .rel t _ | .send t _ | .recv t _ | .recvZero t _ | .close t _
  | .wgAdd t _ | .wgDone t _ | .wgWait t _ | .cancel t _ | .done t _ | .rd t _ | .wr t _
  | .spawn t _ | .tau t | .panic t _ => t

def isPanic : SEv → Bool
  | .panic _ _ => true
  | _ => false

/-- can `op` fire in `s`? (`ld x v`: only the branch of the value actually stored) -/
def enabled (cfg : Cfg) (s : Nat) : Op → Bool
  | .lock m => Nat.beq (dig s (oMuX cfg m)) 0 && Nat.beq (dig s (oMuR cfg m)) 0
  | .rlock m => Nat.beq (dig s (oMuX cfg m)) 0
  | .unlock _ | .runlock _ => true
  | .send c => !Nat.beq (dig s (oClosed cfg c)) 0 || Nat.blt (dig s (oLen cfg c)) (cfg.caps.getD c 0)
  | .recv c => !Nat.beq (dig s (oLen cfg c)) 0 || !Nat.beq (dig s (oClosed cfg c)) 0
  | .close _ => true
  | .wgAdd _ _ | .wgDone _ => true
  | .wgWait w => Nat.beq (dig s (oWg cfg w)) 0
  | .cancel _ => true
  | .done k => !Nat.beq (dig s (oCtx cfg k)) 0
  | .ld x v => Nat.beq (dig s (oCell cfg x)) v
  | .st _ _ => true
  | .spawn _ => true
  | .tau => true

def setPc (cfg : Cfg) (s : Nat) (t : Tid) (pc : Nat) : Nat := setDig s (oPc cfg t) (pc + 1)

/-- effect of an enabled `op` of thread `t` (without the pc update) and the event it leaves -/
def fire (cfg : Cfg) (s : Nat) (t : Tid) : Op → Nat × SEv
  | .lock m => (setDig s (oMuX cfg m) 1, .acq t m true)
  | .rlock m => (setDig s (oMuR cfg m) (dig s (oMuR cfg m) + 1), .acq t m false)
  | .unlock m =>
    if Nat.beq (dig s (oMuX cfg m)) 0 then (setDig s 0 4, .panic t 4)
    else (setDig s (oMuX cfg m) 0, .rel t m)
  | .runlock m =>
    if Nat.beq (dig s (oMuR cfg m)) 0 then (setDig s 0 4, .panic t 4)
    else (setDig s (oMuR cfg m) (dig s (oMuR cfg m) - 1), .rel t m)
  | .send c =>
    if Nat.beq (dig s (oClosed cfg c)) 0 then (setDig s (oLen cfg c) (dig s (oLen cfg c) + 1), .send t c)
    else (setDig s 0 1, .panic t 1)
  | .recv c =>
    if Nat.beq (dig s (oLen cfg c)) 0 then (s, .recvZero t c)
    else (setDig s (oLen cfg c) (dig s (oLen cfg c) - 1), .recv t c)
  | .close c =>
    if Nat.beq (dig s (oClosed cfg c)) 0 then (setDig s (oClosed cfg c) 1, .close t c)
    else (setDig s 0 2, .panic t 2)
  | .wgAdd w n => (setDig s (oWg cfg w) (dig s (oWg cfg w) + n), .wgAdd t w)
  | .wgDone w =>
    if Nat.beq (dig s (oWg cfg w)) 0 then (setDig s 0 3, .panic t 3)
    else (setDig s (oWg cfg w) (dig s (oWg cfg w) - 1), .wgDone t w)
  | .wgWait w => (s, .wgWait t w)
  | .cancel k => (setDig s (oCtx cfg k) 1, .cancel t k)
  | .done k => (s, .done t k)
  | .ld x _ => (s, .rd t x)
  | .st x v => (setDig s (oCell cfg x) v, .wr t x)
  | .spawn u => (setDig s (oPc cfg u) 1, .spawn t u)
  | .tau => (s, .tau t)

/-- the current instruction of a started thread -/
def instrAt (P : List Code) (cfg : Cfg) (s : Nat) (t : Tid) : Option Instr :=
  match P[t]? with
  | none => none
  | some code =>
    match dig s (oPc cfg t) with
    | 0 => none
    | pc + 1 => code[pc]?

/-- thread `t` takes alternative `a` of its current instruction (`a = alts.length`: the default
branch). A panicked system does not move. -/
def step (P : List Code) (cfg : Cfg) (s : Nat) (t : Tid) (a : Nat) : Option (Nat × SEv) :=
  if Nat.beq (dig s 0) 0 then
    match instrAt P cfg s t with
    | none => none
    | some ins =>
      match ins.alts[a]? with
      | some alt =>
        if enabled cfg s alt.op then
          some (setPc cfg (fire cfg s t alt.op).1 t alt.next, (fire cfg s t alt.op).2)
        else none
      | none =>
        if Nat.beq a ins.alts.length then
          match ins.dflt with
          | some pc => if ins.alts.all (fun alt => !enabled cfg s alt.op) then some (setPc cfg s t pc, .tau t) else none
          | none => none
        else none
  else none

/-- a scheduling choice: (thread, alternative) -/
abbrev Choice := Nat × Nat

def stepC (P : List Code) (cfg : Cfg) (s : Nat) (c : Choice) : Option (Nat × SEv) := step P cfg s c.1 c.2

/-- follow a schedule; the result is the final state and the trace -/
def run (P : List Code) (cfg : Cfg) : Nat → List Choice → Option (Nat × List SEv)
  | s, [] => some (s, [])
  | s, ch :: rest =>
    match stepC P cfg s ch with
    | some (s', e) =>
      match run P cfg s' rest with
      | some (s'', es) => some (s'', e :: es)
      | none => none
    | none => none

/-! ## C. exploration -/

/-- successors of `s` by steps of thread `t`: only the alternatives of its current instruction -/
def threadSuccs (P : List Code) (cfg : Cfg) (s : Nat) (t : Tid) : List Nat :=
  match instrAt P cfg s t with
  | none => []
  | some ins => (List.range (ins.alts.length + 1)).filterMap (fun a => (step P cfg s t a).map (·.1))

/-- successors of a state -/
def succs (P : List Code) (cfg : Cfg) (s : Nat) : List Nat :=
  (List.range P.length).flatMap (threadSuccs P cfg s)

/-- a set of states as a binary search tree: membership costs a logarithmic number of literal
comparisons in the kernel -/
inductive NSet
  | leaf
  | node (l : NSet) (k : Nat) (r : NSet)
  deriving Repr

def NSet.mem (x : Nat) : NSet → Bool
  | .leaf => false
  | .node l k r => cond (Nat.blt x k) (l.mem x) (cond (Nat.blt k x) (r.mem x) true)

/-- `mem` with the argument evaluated first (the kernel substitutes unevaluated arguments) -/
def NSet.memF (T : NSet) (x : Nat) : Bool :=
  match x with
  | 0 => T.mem 0
  | n + 1 => T.mem (Nat.succ n)

def NSet.toList : NSet → List Nat
  | .leaf => []
  | .node l k r => l.toList ++ k :: r.toList

/-- balanced tree of the first `n` elements of a (sorted) list, and the rest (generator only) -/
def NSet.build : Nat → Nat → List Nat → NSet × List Nat
  | 0, _, xs => (.leaf, xs)
  | _, 0, xs => (.leaf, xs)
  | fuel + 1, n, xs =>
    let (l, xs1) := NSet.build fuel (n / 2) xs
    match xs1 with
    | [] => (l, [])
    | k :: xs2 =>
      let (r, xs3) := NSet.build fuel (n - n / 2 - 1) xs2
      (.node l k r, xs3)

def insertSorted (x : Nat) : List Nat → List Nat
  | [] => [x]
  | y :: ys => if x ≤ y then x :: y :: ys else y :: insertSorted x ys

def NSet.ofList (xs : List Nat) : NSet :=
  let ys := xs.foldl (fun acc x => insertSorted x acc) []
  (NSet.build (ys.length + 1) ys.length ys).1

/-- source form of a tree, to paste -/
def NSet.src : NSet → String
  | .leaf => "L"
  | .node l k r => "(N " ++ l.src ++ " " ++ toString k ++ " " ++ r.src ++ ")"

/-- `T` is closed under every step -/
def closedB (P : List Code) (cfg : Cfg) (T : NSet) : Bool :=
  T.toList.all (fun s => (succs P cfg s).all (fun s' => T.memF s'))

/-- breadth-first closure with fuel (the result is only used after `closedB` accepted it) -/
def explore (P : List Code) (cfg : Cfg) : Nat → List Nat → List Nat → List Nat
  | 0, seen, _ => seen
  | _, seen, [] => seen
  | fuel + 1, seen, s :: work =>
    let new := (succs P cfg s).foldl (fun acc s' => if seen.contains s' || acc.contains s' then acc else acc ++ [s']) []
    explore P cfg fuel (seen ++ new) (work ++ new)

/-- generator of the literal reachable sets (run with `#eval`, paste the result) -/
def reachSet (P : List Code) (cfg : Cfg) (init : Nat) (fuel : Nat) : NSet :=
  NSet.ofList (explore P cfg fuel [init] [init])

/-- the thread has finished: not started, or at an instruction without alternatives and default -/
def finished (P : List Code) (cfg : Cfg) (s : Nat) (t : Tid) : Bool :=
  match instrAt P cfg s t with
  | none => true
  | some ins => ins.alts.isEmpty && ins.dflt.isNone

def allFinished (P : List Code) (cfg : Cfg) (s : Nat) : Bool :=
  (List.range P.length).all (finished P cfg s)

/-- no deadlock in `s`: every thread has finished or some choice is enabled -/
def liveB (P : List Code) (cfg : Cfg) (s : Nat) : Bool :=
  allFinished P cfg s || !(succs P cfg s).isEmpty

/-- the memory accesses thread `t` may perform next: (location, is-write) -/
def nextAccesses (P : List Code) (cfg : Cfg) (s : Nat) (t : Tid) : List (Loc × Bool) :=
  match instrAt P cfg s t with
  | none => []
  | some ins => ins.alts.filterMap (fun alt => match alt.op with
      | .ld x _ => some (x, false)
      | .st x _ => some (x, true)
      | _ => none)

/-- a racy state: two different threads are both about to access the same cell, one of them
writing (conflicting accesses simultaneously enabled — neither is ordered after the other by any
lock, channel, WaitGroup, cancellation or go-statement edge, since nothing separates them) -/
def racyB (P : List Code) (cfg : Cfg) (s : Nat) : Bool :=
  (List.range P.length).any (fun t => (List.range P.length).any (fun u =>
    Nat.blt t u && (nextAccesses P cfg s t).any (fun a => (nextAccesses P cfg s u).any (fun b =>
      Nat.beq a.1 b.1 && (a.2 || b.2)))))

/-- the three checks over an explored set -/
def safeB (P : List Code) (cfg : Cfg) (R : List Nat) : Bool :=
  R.all (fun s => Nat.beq (panicCode s) 0 && liveB P cfg s && !racyB P cfg s)

/-- static sanity of a program against its layout: every object index is in range, every thread
index below `nT` (so no two objects share a digit) -/
def opOk (cfg : Cfg) : Op → Bool
  | .lock m | .rlock m | .unlock m | .runlock m => Nat.blt m cfg.nMu
  | .send c | .recv c | .close c => Nat.blt c cfg.caps.length
  | .wgAdd w _ | .wgDone w | .wgWait w => Nat.blt w cfg.nWg
  | .cancel k | .done k => Nat.blt k cfg.nCtx
  | .ld x v | .st x v => Nat.blt x cfg.nCell && Nat.blt v B
  | .spawn u => Nat.blt u cfg.nT
  | .tau => true

def progOk (P : List Code) (cfg : Cfg) : Bool :=
  Nat.beq P.length cfg.nT &&
  P.all (fun code => Nat.blt (code.length + 1) B && code.all (fun ins =>
    ins.alts.all (fun alt => opOk cfg alt.op && Nat.blt alt.next code.length) &&
    (match ins.dflt with | some pc => Nat.blt pc code.length | none => true)))

/-- encode an initial state: threads in `live` at pc 0, everything else 0 -/
def mkInit (cfg : Cfg) (live : List Tid) : Nat :=
  live.foldl (fun s t => setDig s (oPc cfg t) 1) 0

/-! ## B. happens-before on traces -/

def isAccess : SEv → Option (Tid × Loc × Bool)
  | .rd t x => some (t, x, false)
  | .wr t x => some (t, x, true)
  | _ => none

/-- number of events satisfying `p` strictly before position `k` -/
def countBefore (tr : List SEv) (p : SEv → Bool) (k : Nat) : Nat := ((tr.take k).filter p).length

def isSendOn (c : Chan) : SEv → Bool | .send _ c' => c == c' | _ => false
def isRecvOn (c : Chan) : SEv → Bool | .recv _ c' => c == c' | _ => false

/-- the synchronisation edge `i → j` (`i < j` positions of `tr`): what Go's memory model calls
"synchronized before" for these primitives -/
def syncEdge (tr : List SEv) (i j : Nat) : Bool :=
  i < j && match tr[i]?, tr[j]? with
  | some (.rel _ m), some (.acq _ m' _) => m == m'
  | some (.send _ c), some (.recv _ c') => c == c' && countBefore tr (isSendOn c) i == countBefore tr (isRecvOn c) j
  | some (.close _ c), some (.recvZero _ c') => c == c'
  | some (.wgDone _ w), some (.wgWait _ w') => w == w'
  | some (.cancel _ k), some (.done _ k') => k == k'
  | some (.spawn _ u), some e => e.tid == u
  | _, _ => false

def poEdge (tr : List SEv) (i j : Nat) : Bool :=
  i < j && match tr[i]?, tr[j]? with
  | some e, some e' => e.tid == e'.tid
  | _, _ => false

/-- happens-before: transitive closure of program order and synchronisation edges -/
inductive HB (tr : List SEv) : Nat → Nat → Prop
  | po {i j} : poEdge tr i j = true → HB tr i j
  | sync {i j} : syncEdge tr i j = true → HB tr i j
  | trans {i j k} : HB tr i j → HB tr j k → HB tr i k

/-- release-type events (sources of synchronisation edges) and acquire-type events (targets) -/
def isRelease : SEv → Bool
  | .rel _ _ | .send _ _ | .close _ _ | .wgDone _ _ | .cancel _ _ | .spawn _ _ => true
  | _ => false

def isAcquire : SEv → Bool
  | .acq _ _ _ | .recv _ _ | .recvZero _ _ | .wgWait _ _ | .done _ _ => true
  | _ => false

end CV.C18.Sync
