/-
C01 — model of the commit path of consensus/raft/consensus.go (core Lean only):

  commit only (since 3d753d4): if err := checkDecodable(op); err != nil { return fmt.Errorf(...) }
                               -- msgpack encode→decode of the LogOp, BEFORE the retry loop: an operation
                               -- no replica could read back from the log is refused, nothing is attempted
  commit / AddPeer / RmPeer:  for i := 0; i <= CommitRetries; i++ {
                                 ok, err := redirectToLeader(...)      -- own retry loop, same bound
                                 if err != nil || ok { return err }
                                 finalErr = <apply locally: CommitOp / raft.AddPeer / raft.RemovePeer>
                                 if finalErr != nil { sleep; continue }  ;  break }
                               return finalErr
  redirectToLeader:           for i := 0; i <= CommitRetries; i++ {
                                 leader known? else WaitForLeader (timeout ⇒ return false, err)
                                 if leader == me { return false, nil }
                                 finalErr = rpc CallContext(leader, "Consensus", method, arg)
                                 if finalErr != nil { sleep; continue }  ;  break }
                               return true, finalErr

What happens at each attempt is not decided by this code (who leads, whether the RPC or the local Raft
apply succeed): an ORACLE list gives the outcome of every attempt, in the order the code asks.
The statement skeleton is a parameter (`RedirShape`, `OuterShape`): the translator
`harness/extract_c01` regenerates it from the source (`Gen/C01Commit.lean`), and the theorems are
stated about the extracted shapes.
-/
namespace CV.C01.Commit

/-- what one attempt meets -/
inductive Outcome where
  | noLeader       -- no leader known and WaitForLeader timed out
  | fwdOk          -- another peer leads; the forwarded request was executed there and answered nil
  | fwdErr         -- another peer leads; the forwarded request failed (nothing committed by it)
  | selfApplyOk    -- this peer leads; the local Raft apply succeeded
  | selfApplyErr   -- this peer leads; the local Raft apply failed
  deriving DecidableEq, Repr

def Outcome.success : Outcome → Bool
  | .fwdOk => true
  | .selfApplyOk => true
  | _ => false

/-- statement skeleton of `redirectToLeader` -/
structure RedirShape where
  /-- every statement is where the model expects it (see extract_c01) -/
  recognised : Bool
  /-- `i <= CommitRetries`: retries+1 attempts (false: `<`) -/
  inclusive : Bool
  /-- the RPC result is ASSIGNED to the variable returned after the loop (false: `:=` declares a new one) -/
  fwdKept : Bool
  deriving DecidableEq, Repr

/-- statement skeleton of `commit` / `AddPeer` / `RmPeer` -/
structure OuterShape where
  recognised : Bool
  inclusive : Bool
  /-- the result of the local apply is assigned to the variable returned after the loop -/
  applyKept : Bool
  deriving DecidableEq, Repr

def expectedRedir : RedirShape := { recognised := true, inclusive := true, fwdKept := true }
def expectedOuter : OuterShape := { recognised := true, inclusive := true, applyKept := true }

def attempts (inclusive : Bool) (retries : Nat) : Nat := if inclusive then retries + 1 else retries

/-- result of `redirectToLeader` -/
inductive Redir where
  | failed                      -- (false, err): no leader in time
  | lead (applyOk : Bool)       -- (false, nil): this peer leads; what its local apply will give
  | forwarded (err : Bool)      -- (true, finalErr): err = the returned error is non-nil
  deriving DecidableEq, Repr

/-- `redirectToLeader`: `n` attempts left, `finalErr` = the function-level variable is non-nil.
    Returns the result, the outcomes consumed (in order) and the rest of the oracle.
    An exhausted oracle behaves as `noLeader` (nothing consumed). -/
def redirect (sh : RedirShape) : Nat → Bool → List Outcome → Redir × List Outcome × List Outcome
  | 0, finalErr, o => (.forwarded finalErr, [], o)
  | _ + 1, _, [] => (.failed, [], [])
  | n + 1, finalErr, x :: rest =>
    match x with
    | .noLeader => (.failed, [x], rest)
    | .selfApplyOk => (.lead true, [x], rest)
    | .selfApplyErr => (.lead false, [x], rest)
    | .fwdOk => (.forwarded (if sh.fwdKept then false else finalErr), [x], rest)     -- break
    | .fwdErr =>                                                                      -- sleep; continue
      let r := redirect sh n (if sh.fwdKept then true else finalErr) rest
      (r.1, x :: r.2.1, r.2.2)

structure Result where
  /-- the call returned a non-nil error -/
  err : Bool
  /-- the attempt outcomes the call went through, in order -/
  consumed : List Outcome
  deriving DecidableEq, Repr

/-- the outer loop: `n` iterations left, `finalErr` = its function-level variable is non-nil -/
def outer (rs : RedirShape) (os : OuterShape) (retries : Nat) : Nat → Bool → List Outcome → Result
  | 0, finalErr, _ => { err := finalErr, consumed := [] }
  | n + 1, finalErr, o =>
    match redirect rs (attempts rs.inclusive retries) false o with
    | (.failed, c, _) => { err := true, consumed := c }                 -- err != nil ⇒ return err
    | (.forwarded e, c, _) => { err := e, consumed := c }               -- ok ⇒ return err
    | (.lead true, c, _) => { err := if os.applyKept then false else finalErr, consumed := c }   -- break
    | (.lead false, c, rest) =>                                         -- sleep; continue
      let r := outer rs os retries n (if os.applyKept then true else finalErr) rest
      { err := r.err, consumed := c ++ r.consumed }

/-- `commit(op)` (and `AddPeer`, `RmPeer`, which have the same skeleton) with `CommitRetries = retries` -/
def commit (rs : RedirShape) (os : OuterShape) (retries : Nat) (oracle : List Outcome) : Result :=
  outer rs os retries (attempts os.inclusive retries) false oracle

/-! ### the decodability gate of `commit` (3d753d4) -/

/-- where the call of `checkDecodable(op)` stands in `commit` -/
inductive GatePos where
  | absent
  | beforeLoop
  | afterLoop
  deriving DecidableEq, Repr

/-- statement skeleton of the gate -/
structure GateShape where
  /-- one top-level, unconditional `if err := checkDecodable(op); err != nil { … }` on the operation that
      the loop hands to `CommitOp`; LogPin and LogUnpin both go through `commit` and return its error -/
  recognised : Bool
  pos : GatePos
  /-- the body of that `if` returns a non-nil error -/
  errReturned : Bool
  deriving DecidableEq, Repr

def expectedGate : GateShape := { recognised := true, pos := .beforeLoop, errReturned := true }

/-- the check makes the call fail -/
def gateRefuses (g : GateShape) (decodable : Bool) : Bool := g.errReturned && !decodable

/-- `commit(op)` for an operation which can (`decodable`) or cannot be read back from its msgpack form.
    With the gate where the code has it, an undecodable operation is answered with an error before
    anything is attempted. The other positions are what an edit would give: `afterLoop` lets the loop
    run (the operation may reach the log) and only then turns the answer into an error; `absent` (the
    code before 3d753d4) never looks. -/
def commitOp (g : GateShape) (rs : RedirShape) (os : OuterShape) (retries : Nat) (decodable : Bool)
    (oracle : List Outcome) : Result :=
  match g.pos with
  | .beforeLoop =>
    if gateRefuses g decodable then { err := true, consumed := [] } else commit rs os retries oracle
  | .afterLoop =>
    let r := commit rs os retries oracle
    { r with err := r.err || gateRefuses g decodable }
  | .absent => commit rs os retries oracle

end CV.C01.Commit
