/-
C14 — crash points. Every multi-step file operation of the property is a sequence of atomic
filesystem steps, transcribed from the code (the order of the filesystem calls of each function is
regenerated from /repo into `Gen.C14.FsCalls` and compared with `Expected.FsCalls`); a crash
leaves the state reached after some prefix of the steps; a restart runs the operation again.

  makeBackup (data_helper.go)      Stat(folder) · MkdirAll(baseDir) · [listBackups: Stat …] ·
                                   RemoveAll(old.(n-1)) when the window is full ·
                                   Rename(old.(i-1), old.i) for i = n-1 … 1 · Rename(folder, old.0)
  CleanupRaft (raft.go)            latestSnapshot (NewFileSnapshotStore: MkdirAll <data>/snapshots — also when the
                                   folder did not exist) · no snapshot: RemoveAll(dataFolder)   else makeBackup
  SnapshotSave (raft.go)           makeDataFolder (MkdirAll) · CleanupRaft when a snapshot exists ·
                                   NewFileSnapshotStore (MkdirAll <data>/snapshots) ·
                                   store.Create (MkdirAll <id>.tmp, meta.json, state.bin) · writes ·
                                   sink.Close (Rename <id>.tmp → <id>)   — hashicorp/raft v1.1.1
  raftStateManager.ImportState     Clean (CleanupRaft) · decode the stream into memory · SnapshotSave
  SavePeerstore (pstoremgr.go)     Create(<file>.tmp) · Write per line · Sync · Close · Rename(<file>.tmp, <file>)
                                   (until d57f8e5: Create(<file>) — truncating — then Write per line)

`os.RemoveAll` of a backup folder is not atomic: in between the folder exists with part of its
content (`junk`: it may still load, load as "no snapshot", or fail to load). A `<id>.tmp` snapshot
directory is invisible to `FileSnapshotStore.List`, so a data folder with only that is `nosnap`.
Core Lean only.
-/
import ClusterVerif.Model.C14
namespace CV.C14

/-! ## folders -/

inductive FsStep (α : Type) where
  | damage (i : Nat)        -- RemoveAll(old.i) has begun
  | rmOld (i : Nat)         -- RemoveAll(old.i) is through
  | mv (j i : Nat)          -- Rename(old.j, old.i)
  | mvData                  -- Rename(folder, old.0)
  | rmData                  -- RemoveAll(dataFolder) (a folder without snapshot)
  | mkData                  -- MkdirAll(dataFolder[/snapshots]) when it does not exist
  | commit (s : α)          -- Rename(<id>.tmp, <id>): the snapshot becomes visible
  deriving DecidableEq, Repr

/-- one atomic step; `junk` = what a half-removed folder looks like -/
def applyStep (junk : Folder α) (d : Dirs α) : FsStep α → Dirs α
  | .damage i => { d with old := fun k => if k = i then some junk else d.old k }
  | .rmOld i => { d with old := fun k => if k = i then none else d.old k }
  | .mv j i => { d with old := fun k => if k = i then d.old j else if k = j then none else d.old k }
  | .mvData => { data := none, old := fun k => if k = 0 then d.data else d.old k }
  | .rmData => { d with data := none }
  | .mkData => { d with data := match d.data with | none => some .nosnap | some f => some f }
  | .commit s => { d with data := some (.snap s) }

def applySteps (junk : Folder α) (d : Dirs α) (l : List (FsStep α)) : Dirs α := l.foldl (applyStep junk) d

/-- the loop `for i := len(backups)-1; i > 0; i-- { Rename(backups[i-1], backups[i]) }` with `n` names -/
def renameSteps : Nat → List (FsStep α)
  | 0 => []
  | 1 => []
  | n + 2 => .mv n (n + 1) :: renameSteps (n + 1)

/-- `makeBackup` for an existing data folder, `keep ≥ 1` -/
def backupSteps (keep : Nat) (d : Dirs α) : List (FsStep α) :=
  let l := firstGap d.old keep
  (if l ≥ keep then [.damage (l - 1), .rmOld (l - 1)] ++ renameSteps l else renameSteps (l + 1)) ++ [.mvData]

/-- `CleanupRaft` -/
def cleanSteps (keep : Nat) (d : Dirs α) : List (FsStep α) :=
  match d.data with
  | some (.snap _) => backupSteps keep d
  | some .nosnap => [.rmData]
  | none => [.mkData, .rmData]     -- `latestSnapshot` opens a snapshot store on the folder, which creates it

/-- `SnapshotSave` -/
def saveSteps (keep : Nat) (d : Dirs α) (s : α) : List (FsStep α) :=
  match d.data with
  | some (.snap _) => backupSteps keep d ++ [.mkData, .commit s]
  | some .nosnap => [.commit s]
  | none => [.mkData, .commit s]

/-- `raftStateManager.ImportState` (`ok` = the stream decodes): clean, then save into the clean folder -/
def importSteps (keep : Nat) (d : Dirs α) (s : α) (ok : Bool) : List (FsStep α) :=
  cleanSteps keep d ++ (if ok then [.mkData, .commit s] else [])

/-- the state a crash after `k` steps leaves -/
def crashAt (junk : Folder α) (d : Dirs α) (l : List (FsStep α)) (k : Nat) : Dirs α := applySteps junk d (l.take k)

inductive COp (α : Type) where
  | clean
  | save (s : α)
  | imp (s : α) (ok : Bool)
  deriving DecidableEq, Repr

def opSteps (keep : Nat) (d : Dirs α) : COp α → List (FsStep α)
  | .clean => cleanSteps keep d
  | .save s => saveSteps keep d s
  | .imp s ok => importSteps keep d s ok

/-- the operation run to its end on `d` (what a restart does) -/
def opRun (junk : Folder α) (keep : Nat) (d : Dirs α) (op : COp α) : Dirs α := applySteps junk d (opSteps keep d op)

/-! ## the peerstore file -/

/-- the peerstore path and its temporary neighbour; `none` = the file does not exist -/
structure PFiles where
  file : Option (List Line)
  tmp  : Option (List Line)
  deriving DecidableEq, Repr

inductive PStep where
  | createTmp               -- os.Create(<file>.tmp): exists, empty
  | writeTmp (l : Line)     -- one Write
  | renameTmp               -- os.Rename(<file>.tmp, <file>)
  | truncFile               -- os.Create(<file>) (the code before d57f8e5)
  | writeFile (l : Line)
  deriving DecidableEq, Repr

def applyP (f : PFiles) : PStep → PFiles
  | .createTmp => { f with tmp := some [] }
  | .writeTmp l => { f with tmp := f.tmp.map (· ++ [l]) }
  | .renameTmp => match f.tmp with
      | some t => { file := some t, tmp := none }
      | none => f
  | .truncFile => { f with file := some [] }
  | .writeFile l => { f with file := f.file.map (· ++ [l]) }

/-- `SavePeerstore` as it is now -/
def psaveSteps (pinfos : List (Nat × List Nat)) : List PStep :=
  [.createTmp] ++ (save pinfos).map .writeTmp ++ [.renameTmp]

/-- `SavePeerstore` until d57f8e5 (writes in place) -/
def psaveInPlaceSteps (pinfos : List (Nat × List Nat)) : List PStep :=
  [.truncFile] ++ (save pinfos).map .writeFile

def pcrashAt (f : PFiles) (l : List PStep) (k : Nat) : PFiles := (l.take k).foldl applyP f

/-- what `LoadPeerstore` returns (no file: nothing) -/
def ploaded (f : PFiles) : List Line := load (f.file.getD [])

/-- A line whose write was carried out only in part (`cut` = what is left of it). The rest of a
    `/p2p/<id>` component may happen to be a valid peer ID again (an identity multihash: the text
    "12D3KooWQNT1" is one) — `ghost`: a full address of a peer nobody saved. -/
inductive Cut where
  | nothing | unparsable | bare (a : Nat) | ghost (a g : Nat)
  deriving DecidableEq, Repr

def Cut.line : Cut → List Line
  | .nothing => []
  | .unparsable => [.slashBad 0]
  | .bare a => [.bare a]
  | .ghost a g => [.full a g]

/-- a file cut after `k` whole lines inside the next one -/
def cutFile (file : List Line) (k : Nat) (c : Cut) : List Line := file.take k ++ c.line

end CV.C14
