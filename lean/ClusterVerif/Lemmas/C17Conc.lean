import ClusterVerif.Lemmas.C17Fault
import Mathlib.Data.List.Perm.Basic
import Mathlib.Tactic.SplitIfs

/-! Concurrent phases (`cAllowed`): the invariant principle through `perms` / `dedupLogs` / `cApplyAll`, and the
    configuration half of the per-phase step (frame + effect of acknowledged membership changes in ANY order). -/
namespace CV.C17
open CV

/-- `log'` is reached from `log` by applying the calls of `order` one after the other, each with one of the outcomes
    `cApply` admits -/
inductive CReach (running : List Nat) (unstable : Bool) : List Entry → List COp → List Entry → Prop
  | nil (log : List Entry) : CReach running unstable log [] log
  | cons {log mid log' : List Entry} {op : COp} {rest : List COp} :
      mid ∈ cApply running unstable log op → CReach running unstable mid rest log' →
      CReach running unstable log (op :: rest) log'

theorem mem_dedupLogs {l : List Entry} : ∀ {ls : List (List Entry)}, l ∈ dedupLogs ls → l ∈ ls
  | [], h => by simp [dedupLogs] at h
  | x :: rest, h => by
    simp only [dedupLogs] at h
    split_ifs at h
    · exact List.mem_cons_of_mem _ (mem_dedupLogs h)
    · rcases List.mem_cons.1 h with h | h
      · rw [h]; exact List.mem_cons_self ..
      · exact List.mem_cons_of_mem _ (mem_dedupLogs h)

theorem cApplyAll_chain {running : List Nat} {u : Bool} :
    ∀ (order : List COp) {logs : List (List Entry)} {log' : List Entry}, log' ∈ cApplyAll running u logs order →
      ∃ log ∈ logs, CReach running u log order log'
  | [], logs, log', h => ⟨log', by simpa [cApplyAll] using h, .nil _⟩
  | op :: rest, logs, log', h => by
    unfold cApplyAll at h
    obtain ⟨mid, hmid, hr⟩ := cApplyAll_chain rest h
    obtain ⟨log, hl, hm⟩ := List.mem_flatMap.1 (mem_dedupLogs hmid)
    exact ⟨log, hl, .cons hm hr⟩

/-- every order `perms` tries is a permutation of the phase -/
theorem perms_perm {α : Type} : ∀ (l : List α) {p : List α}, p ∈ perms l → p.Perm l
  | [], p, h => by
    simp only [perms, List.mem_singleton] at h
    rw [h]
  | x :: xs, p, h => by
    simp only [perms, List.mem_flatMap, List.mem_map] at h
    obtain ⟨q, hq, i, _, rfl⟩ := h
    have h1 : (q.take i ++ x :: q.drop i).Perm (x :: (q.take i ++ q.drop i)) := List.perm_middle
    rw [List.take_append_drop] at h1
    exact h1.trans ((perms_perm xs hq).cons x)

/-- THE INVARIANT PRINCIPLE for `cLogs`: a relation between a bookkeeping state and a log that every phase preserves —
    for every order that is a permutation of the phase and every chain of admitted outcomes — holds on every log
    `cLogs` reaches. (`perms`, `dedupLogs` and the `flatMap`s are gone from the premise.) -/
theorem cLogs_inv {σ : Type} (running : List Nat) (I : σ → List Entry → Prop) (adv : σ → List COp → σ)
    (step : ∀ (s : σ) (log : List Entry) (ph order : List COp) (log' : List Entry), I s log → order.Perm ph →
      CReach running (removesRunning running ph) log order log' → I (adv s ph) log') :
    ∀ (phases : List (List COp)) (s : σ) (logs : List (List Entry)), (∀ l ∈ logs, I s l) →
      ∀ l ∈ cLogs running logs phases, I (phases.foldl adv s) l
  | [], s, logs, h0, l, hl => by
    simp only [cLogs] at hl
    exact h0 l hl
  | ph :: rest, s, logs, h0, l, hl => by
    simp only [cLogs] at hl
    rw [List.foldl_cons]
    refine cLogs_inv running I adv step rest (adv s ph) _ ?_ l hl
    intro m hm
    obtain ⟨order, ho, hm'⟩ := List.mem_flatMap.1 (mem_dedupLogs hm)
    obtain ⟨log, hlog, hr⟩ := cApplyAll_chain order hm'
    exact step s log ph order m (h0 log hlog) (perms_perm ph ho) hr

/-! ### one call -/

/-- the outcomes `cApply` admits for a call: the healthy attempt with the reported result; or, for a call reported as
    failed, nothing; or, for a call reported as failed, the healthy attempt's entry (answer lost) -/
theorem cApply_cases {running : List Nat} {u : Bool} {log mid : List Entry} {a : Nat} {att : Attempt} {res : Res}
    (h : mid ∈ (let r := direct att log
      if !running.contains a then []
      else if cfgHas (cfgAt log) a && !u then (if r.1 == res then [r.2] else [])
      else match res with
        | .ok => if r.1 == .ok then [r.2] else []
        | .err => if r.1 == .ok then [log, r.2] else [log])) :
    (mid = (direct att log).2 ∧ (direct att log).1 = res) ∨ (res = .err ∧ mid = log) ∨
      (res = .err ∧ mid = (direct att log).2 ∧ (direct att log).1 = .ok) := by
  cases res with
  | ok =>
    simp only at h
    split_ifs at h with h1 h2 h3 h4
    · simp at h
    · left; exact ⟨by simpa using h, by simpa using h3⟩
    · simp at h
    · left; exact ⟨by simpa using h, by simpa using h4⟩
    · simp at h
  | err =>
    simp only at h
    split_ifs at h with h1 h2 h3 h4
    · simp at h
    · left; exact ⟨by simpa using h, by simpa using h3⟩
    · simp at h
    · rcases List.mem_cons.1 h with h | h
      · right; left; exact ⟨rfl, h⟩
      · right; right; exact ⟨rfl, by simpa using h, by simpa using h4⟩
    · right; left; exact ⟨rfl, by simpa using h⟩

/-- an attempt that never changes whether `j` is in the configuration -/
def KeepsPeer (att : Attempt) (j : Nat) : Prop :=
  ∀ log : List Entry, cfgHas (cfgAt (direct att log).2) j = cfgHas (cfgAt log) j

theorem keeps_add {p j : Nat} (h : p ≠ j) : KeepsPeer (rwAddPeer p) j := by
  intro log
  unfold direct rwAddPeer
  simp only
  split_ifs
  · rw [List.append_nil]
  · rw [cfgAt_append]; simp only [applyCfg]; rw [cfgHas_cfgPut]
    have : (j == p) = false := by simpa using (Ne.symm h)
    simp [this]
  · rw [List.append_nil]

theorem keeps_rm {p j : Nat} (h : p ≠ j) : KeepsPeer (rwRemovePeer p) j := by
  intro log
  unfold direct rwRemovePeer
  simp only
  split_ifs
  · rw [List.append_nil]
  · rw [List.append_nil]
  · rw [cfgAt_append]; simp only [applyCfg]; rw [cfgHas_cfgErase]
    have : (j != p) = true := by simpa using (Ne.symm h)
    simp [this]
  · rw [List.append_nil]

theorem keeps_commit_pin (p : Pin) (j : Nat) : KeepsPeer (rwCommit (.pin p)) j := by
  intro log
  unfold direct rwCommit
  simp only [if_true]
  rw [cfgAt_append]; simp [applyCfg]

theorem keeps_commit_unpin (c j : Nat) : KeepsPeer (rwCommit (.unpin c)) j := by
  intro log
  unfold direct rwCommit
  simp only [if_true]
  rw [cfgAt_append]; simp [applyCfg]

/-- FRAME: a call that does not name peer `j` leaves `j`'s membership as it was, whatever its outcome -/
theorem cApply_frame {running : List Nat} {u : Bool} {log mid : List Entry} {op : COp} {j : Nat}
    (hs : op.subject ≠ some j) (h : mid ∈ cApply running u log op) :
    cfgHas (cfgAt mid) j = cfgHas (cfgAt log) j := by
  have key : ∀ {a : Nat} {att : Attempt} {res : Res}, KeepsPeer att j →
      ((mid = (direct att log).2 ∧ (direct att log).1 = res) ∨ (res = .err ∧ mid = log) ∨
        (res = .err ∧ mid = (direct att log).2 ∧ (direct att log).1 = .ok)) →
      cfgHas (cfgAt mid) j = cfgHas (cfgAt log) j := by
    intro a att res hk hc
    rcases hc with ⟨rfl, _⟩ | ⟨_, rfl⟩ | ⟨_, rfl, _⟩
    · exact hk log
    · rfl
    · exact hk log
  cases op with
  | add a p res =>
    have hp : p ≠ j := fun e => hs (by rw [e]; rfl)
    exact key (a := a) (keeps_add hp) (cApply_cases h)
  | rm a p res =>
    have hp : p ≠ j := fun e => hs (by rw [e]; rfl)
    exact key (a := a) (keeps_rm hp) (cApply_cases h)
  | pin a p res => exact key (a := a) (keeps_commit_pin p j) (cApply_cases h)
  | unpin a c res => exact key (a := a) (keeps_commit_unpin c j) (cApply_cases h)

/-- EFFECT: an acknowledged AddPeer of `j`: `j` is in the configuration right after it -/
theorem cApply_add_ok {running : List Nat} {u : Bool} {log mid : List Entry} {a j : Nat}
    (h : mid ∈ cApply running u log (.add a j .ok)) : cfgHas (cfgAt mid) j = true := by
  have hc := cApply_cases (a := a) (att := rwAddPeer j) (res := .ok) h
  have hm : mid = (direct (rwAddPeer j) log).2 ∧ (direct (rwAddPeer j) log).1 = .ok := by
    rcases hc with hc | ⟨hc, _⟩ | ⟨hc, _⟩
    · exact hc
    · cases hc
    · cases hc
  obtain ⟨rfl, hr⟩ := hm
  unfold direct rwAddPeer at hr ⊢
  simp only at hr ⊢
  split_ifs at hr ⊢ with h1 h2
  · rw [List.append_nil]; exact h1
  · rw [cfgAt_append]; simp only [applyCfg]; rw [cfgHas_cfgPut]; simp

/-- EFFECT: an acknowledged RmPeer of `j`: `j` is not in the configuration right after it -/
theorem cApply_rm_ok {running : List Nat} {u : Bool} {log mid : List Entry} {a j : Nat}
    (h : mid ∈ cApply running u log (.rm a j .ok)) : cfgHas (cfgAt mid) j = false := by
  have hc := cApply_cases (a := a) (att := rwRemovePeer j) (res := .ok) h
  have hm : mid = (direct (rwRemovePeer j) log).2 ∧ (direct (rwRemovePeer j) log).1 = .ok := by
    rcases hc with hc | ⟨hc, _⟩ | ⟨hc, _⟩
    · exact hc
    · cases hc
    · cases hc
  obtain ⟨rfl, hr⟩ := hm
  unfold direct rwRemovePeer at hr ⊢
  simp only at hr ⊢
  split_ifs at hr ⊢ with h1 h2 h3
  · rw [List.append_nil]; simpa using h1
  · rw [cfgAt_append]; simp only [applyCfg]; rw [cfgHas_cfgErase]; simp

/-! ### a whole order -/

/-- no call of the order names `j`: `j`'s membership is what it was -/
theorem reach_untouched {running : List Nat} {u : Bool} {j : Nat} {log order log'}
    (hr : CReach running u log order log') (hn : ∀ o ∈ order, o.subject ≠ some j) :
    cfgHas (cfgAt log') j = cfgHas (cfgAt log) j := by
  induction hr with
  | nil _ => rfl
  | cons hm _ ih =>
    rw [ih (fun o ho => hn o (List.mem_cons_of_mem _ ho)), cApply_frame (hn _ (List.mem_cons_self ..)) hm]

/-- every call of the order that names `j` is an ACKNOWLEDGED AddPeer (one or several, from any members), and there is
    one or `j` was already there: `j` is in the configuration after the order — whatever the order, whatever else
    (pins, other peers' changes, failed calls with or without a trace in the log) is interleaved -/
theorem reach_acked_adds {running : List Nat} {u : Bool} {j : Nat} {log order log'}
    (hr : CReach running u log order log')
    (hall : ∀ o ∈ order, o.subject = some j → ∃ a, o = .add a j .ok)
    (hex : cfgHas (cfgAt log) j = true ∨ ∃ o ∈ order, o.subject = some j) :
    cfgHas (cfgAt log') j = true := by
  induction hr with
  | nil _ =>
    rcases hex with h | ⟨o, ho, _⟩
    · exact h
    · cases ho
  | @cons log mid log' op rest hm _ ih =>
    apply ih (fun o ho => hall o (List.mem_cons_of_mem _ ho))
    by_cases hs : op.subject = some j
    · obtain ⟨a, rfl⟩ := hall op (List.mem_cons_self ..) hs
      exact Or.inl (cApply_add_ok hm)
    · rcases hex with h | ⟨o, ho, hso⟩
      · left; rw [cApply_frame hs hm]; exact h
      · rcases List.mem_cons.1 ho with rfl | ho
        · exact absurd hso hs
        · exact Or.inr ⟨o, ho, hso⟩

/-- the same for acknowledged removals -/
theorem reach_acked_rms {running : List Nat} {u : Bool} {j : Nat} {log order log'}
    (hr : CReach running u log order log')
    (hall : ∀ o ∈ order, o.subject = some j → ∃ a, o = .rm a j .ok)
    (hex : cfgHas (cfgAt log) j = false ∨ ∃ o ∈ order, o.subject = some j) :
    cfgHas (cfgAt log') j = false := by
  induction hr with
  | nil _ =>
    rcases hex with h | ⟨o, ho, _⟩
    · exact h
    · cases ho
  | @cons log mid log' op rest hm _ ih =>
    apply ih (fun o ho => hall o (List.mem_cons_of_mem _ ho))
    by_cases hs : op.subject = some j
    · obtain ⟨a, rfl⟩ := hall op (List.mem_cons_self ..) hs
      exact Or.inl (cApply_rm_ok hm)
    · rcases hex with h | ⟨o, ho, hso⟩
      · left; rw [cApply_frame hs hm]; exact h
      · rcases List.mem_cons.1 ho with rfl | ho
        · exact absurd hso hs
        · exact Or.inr ⟨o, ho, hso⟩

/-! ### the bookkeeping side (`cAdvance`) for peers -/

theorem contains_insertPeer {p q : Nat} {l : List Nat} : (insertPeer p l).contains q = (q == p || l.contains q) := by
  rw [Bool.eq_iff_iff]; simp [mem_insertPeer]

theorem contains_erasePeer {p q : Nat} {l : List Nat} : (erasePeer p l).contains q = (l.contains q && q != p) := by
  rw [Bool.eq_iff_iff]; simp [mem_erasePeer]

/-- the step function `cAdvance` folds with -/
def cAdvStep (ph : List COp) (t : CSt) (op : COp) : CSt :=
  match op with
  | .add _ j res =>
    if okB res && (ph.filter (fun o => o.subject == some j)).length == 1
    then { t with members := insertPeer j t.members, unsureP := erasePeer j t.unsureP }
    else { t with unsureP := insertPeer j t.unsureP }
  | .rm _ j res =>
    if okB res && (ph.filter (fun o => o.subject == some j)).length == 1
    then { t with members := erasePeer j t.members, unsureP := erasePeer j t.unsureP }
    else { t with unsureP := insertPeer j t.unsureP }
  | .pin _ p res =>
    if okB res && (ph.filter (fun o => o.cid == some p.cid)).length == 1
    then { t with pinset := PinMap.put p.stored t.pinset, unsureC := erasePeer p.cid t.unsureC }
    else { t with unsureC := insertPeer p.cid t.unsureC }
  | .unpin _ c res =>
    if okB res && (ph.filter (fun o => o.cid == some c)).length == 1
    then { t with pinset := t.pinset.erase c, unsureC := erasePeer c t.unsureC }
    else { t with unsureC := insertPeer c t.unsureC }

theorem cAdvance_eq (s : CSt) (ph : List COp) : cAdvance s ph = ph.foldl (cAdvStep ph) s := rfl

/-- a call that does not name `j` leaves `j`'s bookkeeping alone -/
theorem cAdvStep_other (ph : List COp) (t : CSt) (op : COp) (j : Nat) (hs : op.subject ≠ some j) :
    (cAdvStep ph t op).members.contains j = t.members.contains j ∧
    (cAdvStep ph t op).unsureP.contains j = t.unsureP.contains j := by
  cases op with
  | add a p res =>
    have hp : j ≠ p := fun e => hs (by rw [e]; rfl)
    unfold cAdvStep; simp only
    split_ifs <;> simp [mem_insertPeer, mem_erasePeer, hp]
  | rm a p res =>
    have hp : j ≠ p := fun e => hs (by rw [e]; rfl)
    unfold cAdvStep; simp only
    split_ifs <;> simp [mem_insertPeer, mem_erasePeer, hp]
  | pin a p res => unfold cAdvStep; simp only; split_ifs <;> exact ⟨rfl, rfl⟩
  | unpin a c res => unfold cAdvStep; simp only; split_ifs <;> exact ⟨rfl, rfl⟩

/-- what the bookkeeping is sure of about peer `j` after folding over `ops`: untouched and sure before; or named by
    exactly one call of the phase, an acknowledged add (then a member) or an acknowledged rm (then no member) -/
theorem cAdv_sure (ph : List COp) (j : Nat) : ∀ (ops : List COp) (t : CSt),
    (ops.foldl (cAdvStep ph) t).unsureP.contains j = false →
    ((∀ o ∈ ops, o.subject ≠ some j) ∧ t.unsureP.contains j = false ∧
        (ops.foldl (cAdvStep ph) t).members.contains j = t.members.contains j) ∨
    ((ph.filter (fun o => o.subject == some j)).length = 1 ∧ (∃ a, COp.add a j .ok ∈ ops) ∧
        (ops.foldl (cAdvStep ph) t).members.contains j = true) ∨
    ((ph.filter (fun o => o.subject == some j)).length = 1 ∧ (∃ a, COp.rm a j .ok ∈ ops) ∧
        (ops.foldl (cAdvStep ph) t).members.contains j = false)
  | [], t, h => Or.inl ⟨fun _ ho => (by cases ho), h, rfl⟩
  | op :: rest, t, h => by
    rw [List.foldl_cons] at h ⊢
    rcases cAdv_sure ph j rest (cAdvStep ph t op) h with ⟨hn, hu, hm⟩ | ⟨hc, ⟨a, ha⟩, hm⟩ | ⟨hc, ⟨a, ha⟩, hm⟩
    · by_cases hs : op.subject = some j
      · cases op with
        | add a p res =>
          have hp : p = j := by simpa [COp.subject] using hs
          subst hp
          by_cases hg : (okB res && (ph.filter (fun o => o.subject == some p)).length == 1) = true
          · have hok : res = .ok := by
              cases res with
              | ok => rfl
              | err => simp [okB] at hg
            subst hok
            right; left
            refine ⟨by simpa [okB] using hg, ⟨a, List.mem_cons_self ..⟩, ?_⟩
            rw [hm]; unfold cAdvStep; simp only [hg, if_true]
            simp [mem_insertPeer]
          · exfalso
            unfold cAdvStep at hu; simp only [hg, if_false] at hu
            simp [mem_insertPeer] at hu
        | rm a p res =>
          have hp : p = j := by simpa [COp.subject] using hs
          subst hp
          by_cases hg : (okB res && (ph.filter (fun o => o.subject == some p)).length == 1) = true
          · have hok : res = .ok := by
              cases res with
              | ok => rfl
              | err => simp [okB] at hg
            subst hok
            right; right
            refine ⟨by simpa [okB] using hg, ⟨a, List.mem_cons_self ..⟩, ?_⟩
            rw [hm]; unfold cAdvStep; simp only [hg, if_true]
            simp [mem_erasePeer]
          · exfalso
            unfold cAdvStep at hu; simp only [hg, if_false] at hu
            simp [mem_insertPeer] at hu
        | pin a p res => simp [COp.subject] at hs
        | unpin a c res => simp [COp.subject] at hs
      · obtain ⟨e1, e2⟩ := cAdvStep_other ph t op j hs
        left
        refine ⟨?_, by rw [← e2]; exact hu, by rw [hm, e1]⟩
        intro o ho
        rcases List.mem_cons.1 ho with rfl | ho
        · exact hs
        · exact hn o ho
    · right; left; exact ⟨hc, ⟨a, List.mem_cons_of_mem _ ha⟩, hm⟩
    · right; right; exact ⟨hc, ⟨a, List.mem_cons_of_mem _ ha⟩, hm⟩

theorem filter_one_unique {α : Type} {p : α → Bool} {l : List α} (h : (l.filter p).length = 1) {x y : α}
    (hx : x ∈ l) (px : p x = true) (hy : y ∈ l) (py : p y = true) : x = y := by
  obtain ⟨z, hz⟩ := List.length_eq_one_iff.1 h
  have h1 : x ∈ l.filter p := List.mem_filter.2 ⟨hx, px⟩
  have h2 : y ∈ l.filter p := List.mem_filter.2 ⟨hy, py⟩
  rw [hz] at h1 h2
  rw [List.mem_singleton.1 h1, List.mem_singleton.1 h2]

/-- what the bookkeeping is sure of about the peerset is true of the log -/
def SurePeers (s : CSt) (log : List Entry) : Prop :=
  ∀ j, s.unsureP.contains j = false → cfgHas (cfgAt log) j = s.members.contains j

/-- THE PER-PHASE STEP for peers: any order of the phase, any admitted outcome of every call -/
theorem surePeers_step (running : List Nat) (s : CSt) (log : List Entry) (ph order : List COp) (log' : List Entry)
    (hI : SurePeers s log) (hp : order.Perm ph) (hr : CReach running (removesRunning running ph) log order log') :
    SurePeers (cAdvance s ph) log' := by
  intro j hj
  rw [cAdvance_eq] at hj ⊢
  rcases cAdv_sure ph j ph s hj with ⟨hn, hu, hm⟩ | ⟨hc, ⟨a, ha⟩, hm⟩ | ⟨hc, ⟨a, ha⟩, hm⟩
  · rw [hm, reach_untouched hr (fun o ho => hn o (hp.mem_iff.1 ho))]
    exact hI j hu
  · rw [hm]
    refine reach_acked_adds hr ?_ (Or.inr ⟨_, hp.mem_iff.2 ha, rfl⟩)
    intro o ho hs
    exact ⟨a, filter_one_unique hc (hp.mem_iff.1 ho) (by simp [hs]) ha (by simp [COp.subject])⟩
  · rw [hm]
    refine reach_acked_rms hr ?_ (Or.inr ⟨_, hp.mem_iff.2 ha, rfl⟩)
    intro o ho hs
    exact ⟨a, filter_one_unique hc (hp.mem_iff.1 ho) (by simp [hs]) ha (by simp [COp.subject])⟩

theorem surePeers_init (init : List Nat) : SurePeers (cInit init) [.boot init] := by
  intro j _
  have := (fRel_init init).ids
  unfold cfgHas
  rw [this]; rfl

/-- WHOLE HISTORY: every log `cLogs` reaches after all phases agrees with the bookkeeping on every sure peer -/
theorem cLogs_surePeers (init : List Nat) (phases : List (List COp)) :
    ∀ log ∈ cLogs (normPeers init) [[.boot init]] phases, SurePeers (cFinal (cInit init) phases) log :=
  cLogs_inv (normPeers init) SurePeers cAdvance (surePeers_step (normPeers init)) phases (cInit init) [[.boot init]]
    (by intro l hl; rw [List.mem_singleton.1 hl]; exact surePeers_init init)

/-! ### pins: frame, effect, bookkeeping (`SurePins`) -/

/-- an attempt that never changes cid `c`'s pin entry -/
def KeepsPin (att : Attempt) (c : Nat) : Prop :=
  ∀ log : List Entry, (pinsAt (direct att log).2).get c = (pinsAt log).get c

theorem keepsPin_add (p c : Nat) : KeepsPin (rwAddPeer p) c := by
  intro log
  unfold direct rwAddPeer
  simp only
  split_ifs
  · rw [List.append_nil]
  · rw [pinsAt_append]; rfl
  · rw [List.append_nil]

theorem keepsPin_rm (p c : Nat) : KeepsPin (rwRemovePeer p) c := by
  intro log
  unfold direct rwRemovePeer
  simp only
  split_ifs
  · rw [List.append_nil]
  · rw [List.append_nil]
  · rw [pinsAt_append]; rfl
  · rw [List.append_nil]

theorem commit_pin_get (p : Pin) (log : List Entry) (c : Nat) :
    (pinsAt (direct (rwCommit (.pin p)) log).2).get c = if p.cid = c then some p.stored else (pinsAt log).get c := by
  unfold direct rwCommit
  simp only [if_true]
  rw [pinsAt_append]; simp only [applyPin]
  rw [CV.get_put (wf_pinsAt log)]; rfl

theorem commit_unpin_get (k : Nat) (log : List Entry) (c : Nat) :
    (pinsAt (direct (rwCommit (.unpin k)) log).2).get c = if c = k then none else (pinsAt log).get c := by
  unfold direct rwCommit
  simp only [if_true]
  rw [pinsAt_append]; simp only [applyPin]
  rw [CV.get_erase]

theorem commit_res (e : Entry) (log : List Entry) : (direct (rwCommit e) log).1 = .ok := by
  unfold direct rwCommit; simp

/-- FRAME for pins: a call that does not name cid `c` leaves `c`'s entry as it was, whatever its outcome -/
theorem cApply_frame_pin {running : List Nat} {u : Bool} {log mid : List Entry} {op : COp} {c : Nat}
    (hs : op.cid ≠ some c) (h : mid ∈ cApply running u log op) :
    (pinsAt mid).get c = (pinsAt log).get c := by
  have key : ∀ {a : Nat} {att : Attempt} {res : Res}, KeepsPin att c →
      ((mid = (direct att log).2 ∧ (direct att log).1 = res) ∨ (res = .err ∧ mid = log) ∨
        (res = .err ∧ mid = (direct att log).2 ∧ (direct att log).1 = .ok)) →
      (pinsAt mid).get c = (pinsAt log).get c := by
    intro a att res hk hc
    rcases hc with ⟨rfl, _⟩ | ⟨_, rfl⟩ | ⟨_, rfl, _⟩
    · exact hk log
    · rfl
    · exact hk log
  cases op with
  | add a p res => exact key (a := a) (keepsPin_add p c) (cApply_cases h)
  | rm a p res => exact key (a := a) (keepsPin_rm p c) (cApply_cases h)
  | pin a p res =>
    have hp : p.cid ≠ c := fun e => hs (by rw [← e]; rfl)
    refine key (a := a) (fun l => ?_) (cApply_cases h)
    rw [commit_pin_get, if_neg hp]
  | unpin a k res =>
    have hp : c ≠ k := fun e => hs (by rw [e]; rfl)
    refine key (a := a) (fun l => ?_) (cApply_cases h)
    rw [commit_unpin_get, if_neg hp]

/-- EFFECT: an acknowledged pin: the stored form of the pin is the cid's entry right after it -/
theorem cApply_pin_ok {running : List Nat} {u : Bool} {log mid : List Entry} {a : Nat} {p : Pin}
    (h : mid ∈ cApply running u log (.pin a p .ok)) : (pinsAt mid).get p.cid = some p.stored := by
  have hc := cApply_cases (a := a) (att := rwCommit (.pin p)) (res := .ok) h
  rcases hc with ⟨rfl, _⟩ | ⟨hc, _⟩ | ⟨hc, _⟩
  · rw [commit_pin_get, if_pos rfl]
  · cases hc
  · cases hc

/-- EFFECT: an acknowledged unpin: the cid has no entry right after it -/
theorem cApply_unpin_ok {running : List Nat} {u : Bool} {log mid : List Entry} {a c : Nat}
    (h : mid ∈ cApply running u log (.unpin a c .ok)) : (pinsAt mid).get c = none := by
  have hc := cApply_cases (a := a) (att := rwCommit (.unpin c)) (res := .ok) h
  rcases hc with ⟨rfl, _⟩ | ⟨hc, _⟩ | ⟨hc, _⟩
  · rw [commit_unpin_get, if_pos rfl]
  · cases hc
  · cases hc

theorem reach_untouched_pin {running : List Nat} {u : Bool} {c : Nat} {log order log'}
    (hr : CReach running u log order log') (hn : ∀ o ∈ order, o.cid ≠ some c) :
    (pinsAt log').get c = (pinsAt log).get c := by
  induction hr with
  | nil _ => rfl
  | cons hm _ ih =>
    rw [ih (fun o ho => hn o (List.mem_cons_of_mem _ ho)), cApply_frame_pin (hn _ (List.mem_cons_self ..)) hm]

/-- every call of the order that names cid `c` leaves `v` as `c`'s entry, and there is one (or `v` was the entry):
    `v` is the entry after the order -/
theorem reach_set_pin {running : List Nat} {u : Bool} {c : Nat} {v : Option Pin} {log order log'}
    (hr : CReach running u log order log')
    (hall : ∀ o ∈ order, o.cid = some c → ∀ l m, m ∈ cApply running u l o → (pinsAt m).get c = v)
    (hex : (pinsAt log).get c = v ∨ ∃ o ∈ order, o.cid = some c) :
    (pinsAt log').get c = v := by
  induction hr with
  | nil _ =>
    rcases hex with h | ⟨o, ho, _⟩
    · exact h
    · cases ho
  | @cons log mid log' op rest hm _ ih =>
    apply ih (fun o ho => hall o (List.mem_cons_of_mem _ ho))
    by_cases hs : op.cid = some c
    · exact Or.inl (hall op (List.mem_cons_self ..) hs _ _ hm)
    · rcases hex with h | ⟨o, ho, hso⟩
      · left; rw [cApply_frame_pin hs hm]; exact h
      · rcases List.mem_cons.1 ho with rfl | ho
        · exact absurd hso hs
        · exact Or.inr ⟨o, ho, hso⟩

theorem cAdvStep_wf (ph : List COp) (t : CSt) (op : COp) (hw : t.pinset.wf = true) :
    (cAdvStep ph t op).pinset.wf = true := by
  cases op with
  | add a p res => unfold cAdvStep; simp only; split_ifs <;> exact hw
  | rm a p res => unfold cAdvStep; simp only; split_ifs <;> exact hw
  | pin a p res =>
    unfold cAdvStep; simp only; split_ifs
    · exact CV.wf_put hw _
    · exact hw
  | unpin a k res =>
    unfold cAdvStep; simp only; split_ifs
    · exact CV.wf_erase hw _
    · exact hw

theorem cAdvFold_wf (ph : List COp) : ∀ (ops : List COp) (t : CSt), t.pinset.wf = true →
    (ops.foldl (cAdvStep ph) t).pinset.wf = true
  | [], _, h => h
  | op :: rest, t, h => by rw [List.foldl_cons]; exact cAdvFold_wf ph rest _ (cAdvStep_wf ph t op h)

/-- a call that does not name cid `c` leaves `c`'s bookkeeping alone -/
theorem cAdvStep_other_pin (ph : List COp) (t : CSt) (op : COp) (c : Nat) (hw : t.pinset.wf = true)
    (hs : op.cid ≠ some c) :
    (cAdvStep ph t op).pinset.get c = t.pinset.get c ∧
    (cAdvStep ph t op).unsureC.contains c = t.unsureC.contains c := by
  cases op with
  | add a p res => unfold cAdvStep; simp only; split_ifs <;> exact ⟨rfl, rfl⟩
  | rm a p res => unfold cAdvStep; simp only; split_ifs <;> exact ⟨rfl, rfl⟩
  | pin a p res =>
    have hp : p.cid ≠ c := fun e => hs (by rw [← e]; rfl)
    have hp' : c ≠ p.cid := Ne.symm hp
    unfold cAdvStep; simp only
    split_ifs
    · refine ⟨?_, by simp [mem_insertPeer, mem_erasePeer, hp']⟩
      rw [CV.get_put hw]
      exact if_neg hp
    · exact ⟨rfl, by simp [mem_insertPeer, mem_erasePeer, hp']⟩
  | unpin a k res =>
    have hp : c ≠ k := fun e => hs (by rw [e]; rfl)
    unfold cAdvStep; simp only
    split_ifs
    · exact ⟨by rw [CV.get_erase, if_neg hp], by simp [mem_insertPeer, mem_erasePeer, hp]⟩
    · exact ⟨rfl, by simp [mem_insertPeer, mem_erasePeer, hp]⟩

/-- what the bookkeeping is sure of about cid `c` after folding over `ops` -/
theorem cAdv_sure_pin (ph : List COp) (c : Nat) : ∀ (ops : List COp) (t : CSt), t.pinset.wf = true →
    (ops.foldl (cAdvStep ph) t).unsureC.contains c = false →
    ((∀ o ∈ ops, o.cid ≠ some c) ∧ t.unsureC.contains c = false ∧
        (ops.foldl (cAdvStep ph) t).pinset.get c = t.pinset.get c) ∨
    ((ph.filter (fun o => o.cid == some c)).length = 1 ∧ (∃ a p, p.cid = c ∧ COp.pin a p .ok ∈ ops ∧
        (ops.foldl (cAdvStep ph) t).pinset.get c = some p.stored)) ∨
    ((ph.filter (fun o => o.cid == some c)).length = 1 ∧ (∃ a, COp.unpin a c .ok ∈ ops) ∧
        (ops.foldl (cAdvStep ph) t).pinset.get c = none)
  | [], t, _, h => Or.inl ⟨fun _ ho => (by cases ho), h, rfl⟩
  | op :: rest, t, hw, h => by
    rw [List.foldl_cons] at h ⊢
    have hw' := cAdvStep_wf ph t op hw
    rcases cAdv_sure_pin ph c rest (cAdvStep ph t op) hw' h with
      ⟨hn, hu, hm⟩ | ⟨hc, a, p, hpc, ha, hm⟩ | ⟨hc, ⟨a, ha⟩, hm⟩
    · by_cases hs : op.cid = some c
      · cases op with
        | add a p res => simp [COp.cid] at hs
        | rm a p res => simp [COp.cid] at hs
        | pin a p res =>
          have hp : p.cid = c := by simpa [COp.cid] using hs
          subst hp
          by_cases hg : (okB res && (ph.filter (fun o => o.cid == some p.cid)).length == 1) = true
          · have hok : res = .ok := by
              cases res with
              | ok => rfl
              | err => simp [okB] at hg
            subst hok
            right; left
            refine ⟨by simpa [okB] using hg, a, p, rfl, List.mem_cons_self .., ?_⟩
            rw [hm]; unfold cAdvStep; simp only [hg, if_true]
            rw [CV.get_put hw]; exact if_pos rfl
          · exfalso
            unfold cAdvStep at hu; simp only [hg, if_false] at hu
            simp [mem_insertPeer] at hu
        | unpin a k res =>
          have hp : k = c := by simpa [COp.cid] using hs
          subst hp
          by_cases hg : (okB res && (ph.filter (fun o => o.cid == some k)).length == 1) = true
          · have hok : res = .ok := by
              cases res with
              | ok => rfl
              | err => simp [okB] at hg
            subst hok
            right; right
            refine ⟨by simpa [okB] using hg, ⟨a, List.mem_cons_self ..⟩, ?_⟩
            rw [hm]; unfold cAdvStep; simp only [hg, if_true]
            rw [CV.get_erase, if_pos rfl]
          · exfalso
            unfold cAdvStep at hu; simp only [hg, if_false] at hu
            simp [mem_insertPeer] at hu
      · obtain ⟨e1, e2⟩ := cAdvStep_other_pin ph t op c hw hs
        left
        refine ⟨?_, by rw [← e2]; exact hu, by rw [hm, e1]⟩
        intro o ho
        rcases List.mem_cons.1 ho with rfl | ho
        · exact hs
        · exact hn o ho
    · right; left; exact ⟨hc, a, p, hpc, List.mem_cons_of_mem _ ha, hm⟩
    · right; right; exact ⟨hc, ⟨a, List.mem_cons_of_mem _ ha⟩, hm⟩

/-- what the bookkeeping is sure of about the pinset is true of the log (and the bookkept pinset is well formed) -/
def SurePins (s : CSt) (log : List Entry) : Prop :=
  s.pinset.wf = true ∧ ∀ c, s.unsureC.contains c = false → (pinsAt log).get c = s.pinset.get c

/-- THE PER-PHASE STEP for pins: any order of the phase, any admitted outcome of every call -/
theorem surePins_step (running : List Nat) (s : CSt) (log : List Entry) (ph order : List COp) (log' : List Entry)
    (hI : SurePins s log) (hp : order.Perm ph) (hr : CReach running (removesRunning running ph) log order log') :
    SurePins (cAdvance s ph) log' := by
  refine ⟨by rw [cAdvance_eq]; exact cAdvFold_wf ph ph s hI.1, ?_⟩
  intro c hj
  rw [cAdvance_eq] at hj ⊢
  rcases cAdv_sure_pin ph c ph s hI.1 hj with ⟨hn, hu, hm⟩ | ⟨hc, a, p, hpc, ha, hm⟩ | ⟨hc, ⟨a, ha⟩, hm⟩
  · rw [hm, reach_untouched_pin hr (fun o ho => hn o (hp.mem_iff.1 ho))]
    exact hI.2 c hu
  · rw [hm]
    subst hpc
    refine reach_set_pin hr ?_ (Or.inr ⟨_, hp.mem_iff.2 ha, rfl⟩)
    intro o ho hs l m hm'
    have : o = COp.pin a p .ok :=
      filter_one_unique hc (hp.mem_iff.1 ho) (by simp [hs]) ha (by simp [COp.cid])
    subst this
    exact cApply_pin_ok hm'
  · rw [hm]
    refine reach_set_pin hr ?_ (Or.inr ⟨_, hp.mem_iff.2 ha, rfl⟩)
    intro o ho hs l m hm'
    have : o = COp.unpin a c .ok :=
      filter_one_unique hc (hp.mem_iff.1 ho) (by simp [hs]) ha (by simp [COp.cid])
    subst this
    exact cApply_unpin_ok hm'

theorem surePins_init (init : List Nat) : SurePins (cInit init) [.boot init] :=
  ⟨rfl, fun _ _ => rfl⟩

/-- WHOLE HISTORY: what `cAdvance` is sure of about a cid's pin entry is true of every log the concurrent model reaches -/
theorem conc_sure_pins_in_every_log (init : List Nat) (phases : List (List COp)) :
    ∀ log ∈ cLogs (normPeers init) [[.boot init]] phases, SurePins (cFinal (cInit init) phases) log :=
  cLogs_inv (normPeers init) SurePins cAdvance (surePins_step (normPeers init)) phases (cInit init) [[.boot init]]
    (by intro l hl; rw [List.mem_singleton.1 hl]; exact surePins_init init)

/-! ### extensionality of well-formed pinsets under `sureMap` / `canonMap` -/

theorem get_sureMap (u : List Nat) (m : PinMap) (c : Nat) :
    (sureMap u m).get c = if u.contains c = true then none else m.get c := by
  unfold sureMap PinMap.get
  rw [List.find?_filter]
  by_cases hu : u.contains c = true
  · rw [if_pos hu, List.find?_eq_none]
    intro x _ hx
    simp only [Bool.and_eq_true, beq_iff_eq, Bool.not_eq_true'] at hx
    have hx' := of_decide_eq_true hx
    rw [hx'.2, hu] at hx'
    exact absurd hx'.1 (by simp)
  · rw [if_neg hu]
    congr 1
    funext x
    by_cases hx : x.cid = c
    · subst hx
      rw [Bool.not_eq_true] at hu
      simp only [hu, Bool.not_false, Bool.true_and]
      simp
    · simp [hx]

theorem wf_sureMap (u : List Nat) {m : PinMap} (hw : m.wf = true) : (sureMap u m).wf = true := by
  induction m with
  | nil => simp [sureMap, PinMap.wf, PinMap.keys, sortedKeys]
  | cons x t ih =>
    have hw' := wf_cons.1 hw
    unfold sureMap at ih ⊢
    by_cases hx : (!u.contains x.cid) = true
    · rw [List.filter_cons_of_pos (p := fun p : Pin => !u.contains p.cid) hx, wf_cons]
      exact ⟨fun q hq => hw'.1 q (List.mem_of_mem_filter hq), ih hw'.2⟩
    · rw [List.filter_cons_of_neg (p := fun p : Pin => !u.contains p.cid) hx]; exact ih hw'.2

theorem sureMap_ext (u : List Nat) {m1 m2 : PinMap} (h1 : m1.wf = true) (h2 : m2.wf = true)
    (h : ∀ c, u.contains c = false → m1.get c = m2.get c) : sureMap u m1 = sureMap u m2 := by
  apply ext_of_wf (wf_sureMap u h1) (wf_sureMap u h2)
  intro c
  rw [get_sureMap, get_sureMap]
  by_cases hu : u.contains c = true
  · rw [if_pos hu, if_pos hu]
  · rw [if_neg hu, if_neg hu]; exact h c (by simpa using hu)

theorem canon_sureMap (u : List Nat) (m : PinMap) : canonMap (sureMap u m) = sureMap u (canonMap m) := by
  unfold canonMap sureMap
  rw [List.filter_map]
  rfl

/-- the sure part of a reported pinset that is (canonically) the log's pinset is the sure part of the bookkept pinset -/
theorem surePins_kept {s : CSt} {log : List Entry} (hS : SurePins s log) {pins : PinMap}
    (hp : canonMap pins = canonMap (pinsAt log)) :
    canonMap (sureMap s.unsureC pins) = canonMap (sureMap s.unsureC s.pinset) := by
  rw [canon_sureMap, hp, ← canon_sureMap, sureMap_ext s.unsureC (wf_pinsAt log) hS.1 hS.2]

end CV.C17
