import ClusterVerif.Spec.C18
import Mathlib.Data.List.Basic
import Mathlib.Data.List.Nodup
import Mathlib.Tactic.Cases
import Mathlib.Tactic.ByContra
import Mathlib.Tactic.Push

/-! Helper lemmas for C18 (trace semantics, programs, alerts model). -/
namespace CV.C18

/-! ### A. runs and prefixes -/

theorem runTr_append (σ : State) (l1 l2 : List Ev) :
    runTr σ (l1 ++ l2) = (runTr σ l1).bind (fun σ' => runTr σ' l2) := by
  induction l1 generalizing σ with
  | nil => simp [runTr]
  | cons e es ih =>
    simp only [List.cons_append, runTr]
    cases h : step σ e with
    | none => simp
    | some σ' => simp [ih]

theorem stAt_zero (tr : List Ev) : stAt tr 0 = some [] := by simp [stAt, runTr]

/-- a well-locked trace has a state before every position -/
theorem stAt_isSome {tr : List Ev} (hwl : wellLocked tr = true) (k : Nat) : ∃ σ, stAt tr k = some σ := by
  have h : (runTr [] (tr.take k ++ tr.drop k)).isSome = true := by
    rw [List.take_append_drop]; exact hwl
  rw [runTr_append] at h
  unfold stAt
  cases h1 : runTr [] (tr.take k) with
  | none => simp [h1] at h
  | some σ => exact ⟨σ, rfl⟩

/-- the state after position k is one step from the state before it -/
theorem stAt_succ {tr : List Ev} {k : Nat} {e : Ev} {σ : State} (he : tr[k]? = some e) (hs : stAt tr k = some σ) :
    stAt tr (k + 1) = step σ e := by
  unfold stAt at *
  rw [List.take_add_one, runTr_append, hs, he]
  simp only [Option.toList, Option.bind_some, runTr]
  cases step σ e <;> rfl

/-! ### exclusion invariant -/

/-- an exclusive hold of a mutex excludes holds by other threads -/
def Excl (σ : State) : Prop :=
  ∀ h ∈ σ, ∀ h' ∈ σ, h.m = h'.m → h.mode = Mode.ex → h'.t = h.t

theorem canAcq_ex {σ : State} {m : Mutex} (h : canAcq σ m .ex = true) : ∀ x ∈ σ, x.m ≠ m := by
  intro x hx
  simp only [canAcq, List.all_eq_true] at h
  simpa using h x hx

theorem canAcq_sh {σ : State} {m : Mutex} (h : canAcq σ m .sh = true) : ∀ x ∈ σ, x.m = m → x.mode ≠ .ex := by
  intro x hx hm
  simp only [canAcq, List.all_eq_true] at h
  have := h x hx
  simpa [hm] using this

theorem excl_step {σ σ' : State} {e : Ev} (hex : Excl σ) (hs : step σ e = some σ') : Excl σ' := by
  cases e with
  | acq t m md =>
    simp only [step] at hs
    split at hs
    · rename_i hc
      cases hs
      intro h hh h' hh' hm hmode
      simp only [List.mem_cons] at hh hh'
      cases md with
      | ex =>
        have hfree := canAcq_ex hc
        rcases hh with rfl | hh
        · rcases hh' with rfl | hh'
          · rfl
          · exact absurd hm.symm (hfree h' hh')
        · rcases hh' with rfl | hh'
          · exact absurd hm (hfree h hh)
          · exact hex h hh h' hh' hm hmode
      | sh =>
        have hno := canAcq_sh hc
        rcases hh with rfl | hh
        · simp at hmode
        · rcases hh' with rfl | hh'
          · exact absurd hmode (hno h hh hm)
          · exact hex h hh h' hh' hm hmode
    · cases hs
  | rel t m =>
    simp only [step] at hs
    split at hs
    · cases hs
      intro h hh h' hh' hm hmode
      exact hex h (List.mem_of_mem_eraseP hh) h' (List.mem_of_mem_eraseP hh') hm hmode
    · cases hs
  | rd t x => simp only [step] at hs; cases hs; exact hex
  | wr t x => simp only [step] at hs; cases hs; exact hex

theorem excl_runTr {σ σ' : State} {l : List Ev} (hex : Excl σ) (hs : runTr σ l = some σ') : Excl σ' := by
  induction l generalizing σ with
  | nil => simp only [runTr] at hs; cases hs; exact hex
  | cons e es ih =>
    simp only [runTr] at hs
    cases h : step σ e with
    | none => simp [h] at hs
    | some σ1 => rw [h] at hs; exact ih (excl_step hex h) hs

theorem excl_stAt {tr : List Ev} {k : Nat} {σ : State} (hs : stAt tr k = some σ) : Excl σ :=
  excl_runTr (σ := []) (by intro h hh; cases hh) hs

/-! ### how one event changes the holds -/

theorem mem_step_gain {σ σ' : State} {e : Ev} {h : Hold} (hs : step σ e = some σ') (hn : h ∉ σ) (hi : h ∈ σ') :
    e = .acq h.t h.m h.mode ∧ canAcq σ h.m h.mode = true := by
  cases e with
  | acq t m md =>
    simp only [step] at hs
    split at hs
    · rename_i hc
      cases hs
      simp only [List.mem_cons] at hi
      rcases hi with rfl | hi
      · exact ⟨rfl, hc⟩
      · exact absurd hi hn
    · cases hs
  | rel t m =>
    simp only [step] at hs
    split at hs
    · cases hs; exact absurd (List.mem_of_mem_eraseP hi) hn
    · cases hs
  | rd t x => simp only [step] at hs; cases hs; exact absurd hi hn
  | wr t x => simp only [step] at hs; cases hs; exact absurd hi hn

theorem mem_step_lose {σ σ' : State} {e : Ev} {h : Hold} (hs : step σ e = some σ') (hi : h ∈ σ) (hn : h ∉ σ') :
    e = .rel h.t h.m := by
  cases e with
  | acq t m md =>
    simp only [step] at hs
    split at hs
    · cases hs; exact absurd (List.mem_cons_of_mem _ hi) hn
    · cases hs
  | rel t m =>
    simp only [step] at hs
    split at hs
    · cases hs
      by_cases hp : relP t m h = true
      · simp only [relP, Bool.and_eq_true, beq_iff_eq] at hp
        rw [hp.1, hp.2]
      · exact absurd ((List.mem_eraseP_of_neg hp).mpr hi) hn
    · cases hs
  | rd t x => simp only [step] at hs; cases hs; exact absurd hi hn
  | wr t x => simp only [step] at hs; cases hs; exact absurd hi hn

/-- discrete intermediate value: a predicate false at i and true at j flips somewhere in between -/
theorem exists_flip (P : Nat → Prop) {i j : Nat} (hij : i ≤ j) (hi : ¬ P i) (hj : P j) :
    ∃ a, i ≤ a ∧ a < j ∧ ¬ P a ∧ P (a + 1) := by
  induction j with
  | zero =>
    have : i = 0 := Nat.le_zero.mp hij
    subst this; exact absurd hj hi
  | succ n ih =>
    by_cases hn : P n
    · by_cases hin : i ≤ n
      · obtain ⟨a, h1, h2, h3, h4⟩ := ih hin hn
        exact ⟨a, h1, Nat.lt_succ_of_lt h2, h3, h4⟩
      · have : i = n + 1 := by omega
        subst this; exact absurd hj hi
    · by_cases hin : i ≤ n
      · exact ⟨n, hin, Nat.lt_succ_self n, hn, hj⟩
      · have : i = n + 1 := by omega
        subst this; exact absurd hj hi

/-- discipline read off at one position -/
theorem discRun_at {L : Loc → Mutex} {l : List Ev} {σ0 σ : State} {k : Nat} {e : Ev}
    (hd : discRun L σ0 l = true) (hs : runTr σ0 (l.take k) = some σ) (he : l[k]? = some e) :
    okAt L σ e = true := by
  induction l generalizing σ0 k with
  | nil => simp at he
  | cons a as ih =>
    simp only [discRun, Bool.and_eq_true] at hd
    cases k with
    | zero =>
      simp only [List.take_zero, runTr] at hs
      cases hs
      simp only [List.getElem?_cons_zero, Option.some.injEq] at he
      subst he; exact hd.1
    | succ k =>
      simp only [List.take_succ_cons, runTr] at hs
      cases h1 : step σ0 a with
      | none => simp [h1] at hs
      | some σ1 =>
        rw [h1] at hs
        have hd2 := hd.2
        rw [h1] at hd2
        simp only [List.getElem?_cons_succ] at he
        exact ih hd2 hs he

theorem holdsAny_mem {σ : State} {t : Thread} {m : Mutex} (h : holdsAny σ t m = true) :
    ∃ x ∈ σ, x.t = t ∧ x.m = m := by
  simp only [holdsAny, List.any_eq_true, Bool.and_eq_true, beq_iff_eq] at h
  exact h

theorem holdsEx_mem {σ : State} {t : Thread} {m : Mutex} (h : holdsEx σ t m = true) :
    ∃ x ∈ σ, x.t = t ∧ x.m = m ∧ x.mode = .ex := by
  simp only [holdsEx, List.any_eq_true, Bool.and_eq_true, beq_iff_eq] at h
  obtain ⟨x, hx, ⟨h1, h2⟩, h3⟩ := h
  exact ⟨x, hx, h1, h2, h3⟩

/-! ### B. programs: what a thread holds, seen globally and locally -/

theorem th_acq_same (σ : State) (t : Thread) (m : Mutex) (md : Mode) :
    threadHolds (⟨t, m, md⟩ :: σ) t = (m, md) :: threadHolds σ t := by
  simp [threadHolds]

theorem th_acq_other (σ : State) {t u : Thread} (m : Mutex) (md : Mode) (h : u ≠ t) :
    threadHolds (⟨t, m, md⟩ :: σ) u = threadHolds σ u := by
  have : ¬ t = u := fun e => h e.symm
  simp [threadHolds, this]

theorem th_rel_same (σ : State) (t : Thread) (m : Mutex) :
    threadHolds (σ.eraseP (relP t m)) t = (threadHolds σ t).eraseP (fun h => h.1 == m) := by
  induction σ with
  | nil => simp [threadHolds]
  | cons a as ih =>
    by_cases hp : relP t m a = true
    · rw [List.eraseP_cons_of_pos hp]
      simp only [relP, Bool.and_eq_true, beq_iff_eq] at hp
      simp [threadHolds, hp.1, hp.2]
    · rw [List.eraseP_cons_of_neg hp]
      by_cases hat : a.t = t
      · have hm : ¬ a.m = m := by
          intro hm; apply hp; simp [relP, hat, hm]
        simp only [threadHolds] at ih ⊢
        simp only [List.filter_cons, hat, beq_self_eq_true, if_true, List.map_cons]
        rw [List.eraseP_cons_of_neg (by simpa using hm)]
        rw [ih]
      · simp only [threadHolds] at ih ⊢
        have : (a.t == t) = false := by simpa using hat
        simp only [List.filter_cons, this, Bool.false_eq_true, if_false]
        exact ih

theorem th_rel_other (σ : State) {t u : Thread} (m : Mutex) (h : u ≠ t) :
    threadHolds (σ.eraseP (relP t m)) u = threadHolds σ u := by
  induction σ with
  | nil => simp [threadHolds]
  | cons a as ih =>
    by_cases hp : relP t m a = true
    · rw [List.eraseP_cons_of_pos hp]
      simp only [relP, Bool.and_eq_true, beq_iff_eq] at hp
      have : ¬ a.t = u := by rw [hp.1]; exact fun e => h e.symm
      simp [threadHolds, this]
    · rw [List.eraseP_cons_of_neg hp]
      simp only [threadHolds] at ih ⊢
      by_cases hau : a.t = u
      · simp only [List.filter_cons, hau, beq_self_eq_true, if_true, List.map_cons]
        rw [ih]
      · have : (a.t == u) = false := by simpa using hau
        simp only [List.filter_cons, this, Bool.false_eq_true, if_false]
        exact ih

/-- the effect of thread `t`'s action on what any thread holds -/
theorem th_step {σ σ' : State} {t : Thread} {a : Act} (hs : step σ (a.ev t) = some σ') (u : Thread) :
    threadHolds σ' u = if u = t then after (threadHolds σ t) a else threadHolds σ u := by
  cases a with
  | acq m md =>
    simp only [Act.ev, step] at hs
    split at hs
    · cases hs
      by_cases hu : u = t
      · subst hu; simp [th_acq_same, after]
      · simp [hu, th_acq_other σ m md hu]
    · cases hs
  | rel m =>
    simp only [Act.ev, step] at hs
    split at hs
    · cases hs
      by_cases hu : u = t
      · subst hu; simp [th_rel_same, after]
      · simp [hu, th_rel_other σ m hu]
    · cases hs
  | rd x =>
    simp only [Act.ev, step] at hs; cases hs
    by_cases hu : u = t
    · subst hu; simp [after]
    · simp [hu]
  | wr x =>
    simp only [Act.ev, step] at hs; cases hs
    by_cases hu : u = t
    · subst hu; simp [after]
    · simp [hu]

/-- script of thread `u` (empty when `u` is no thread) -/
def Sys.prog (s : Sys) (u : Nat) : List Act := (s.progs[u]?).getD []

/-- a per-thread script check is an invariant of the system when it is closed under `after` -/
def Sys.Inv (ok : Held → List Act → Prop) (s : Sys) : Prop := ∀ u, ok (threadHolds s.σ u) (s.prog u)

theorem stepT_spec {s s' : Sys} {t : Nat} {e : Ev} (h : s.stepT t = some (s', e)) :
    ∃ a rest, s.progs[t]? = some (a :: rest) ∧ e = a.ev t ∧ step s.σ (a.ev t) = some s'.σ ∧
      s'.progs = s.progs.set t rest := by
  unfold Sys.stepT at h
  split at h
  · rename_i a rest hp
    split at h
    · rename_i σ' hs
      simp only [Option.some.injEq, Prod.mk.injEq] at h
      obtain ⟨rfl, rfl⟩ := h
      exact ⟨a, rest, hp, rfl, hs, rfl⟩
    · cases h
  · cases h

theorem prog_after_step {s s' : Sys} {t : Nat} {a : Act} {rest : List Act}
    (hp : s.progs[t]? = some (a :: rest)) (hs' : s'.progs = s.progs.set t rest) (u : Nat) :
    s'.prog u = if u = t then rest else s.prog u := by
  unfold Sys.prog
  rw [hs', List.getElem?_set]
  by_cases hu : t = u
  · subst hu
    have hlt : t < s.progs.length := (List.getElem?_eq_some_iff.mp hp).1
    simp [hlt]
  · have : ¬ u = t := fun e => hu e.symm
    simp [hu, this]

theorem inv_stepT {ok : Held → List Act → Prop}
    (hclosed : ∀ held a r, ok held (a :: r) → ok (after held a) r)
    {s s' : Sys} {t : Nat} {e : Ev} (hinv : s.Inv ok) (h : s.stepT t = some (s', e)) : s'.Inv ok := by
  obtain ⟨a, rest, hp, _, hs, hs'⟩ := stepT_spec h
  intro u
  rw [th_step hs u, prog_after_step hp hs' u]
  by_cases hu : u = t
  · subst hu
    simp only [if_true]
    have := hinv u
    unfold Sys.prog at this
    rw [hp] at this
    exact hclosed _ _ _ this
  · simp only [hu, if_false]; exact hinv u

theorem inv_init {ok : Held → List Act → Prop} (progs : List (List Act))
    (h : ∀ p ∈ progs, ok [] p) (hnil : ok [] []) : (Sys.init progs).Inv ok := by
  intro u
  simp only [Sys.init, threadHolds, List.filter_nil, List.map_nil, Sys.prog]
  cases hu : progs[u]? with
  | none => simpa using hnil
  | some p => simpa using h p (List.mem_of_getElem? hu)

theorem lockOK_closed (L : Loc → Mutex) (held : Held) (a : Act) (r : List Act)
    (h : lockOK L held (a :: r) = true) : lockOK L (after held a) r = true := by
  simp only [lockOK, Bool.and_eq_true] at h; exact h.2

theorem orderOK_closed (rank : Mutex → Nat) (held : Held) (a : Act) (r : List Act)
    (h : orderOK rank held (a :: r) = true) : orderOK rank (after held a) r = true := by
  simp only [orderOK, Bool.and_eq_true] at h; exact h.2

theorem exists_max {α : Type} (f : α → Nat) (l : List α) (hne : l ≠ []) : ∃ a ∈ l, ∀ b ∈ l, f b ≤ f a := by
  induction l with
  | nil => exact absurd rfl hne
  | cons x xs ih =>
    by_cases hx : xs = []
    · subst hx; exact ⟨x, by simp, by simp⟩
    · obtain ⟨a, ha, hmax⟩ := ih hx
      by_cases hc : f a ≤ f x
      · refine ⟨x, by simp, ?_⟩
        intro b hb
        simp only [List.mem_cons] at hb
        rcases hb with rfl | hb
        · exact Nat.le_refl _
        · exact Nat.le_trans (hmax b hb) hc
      · refine ⟨a, List.mem_cons_of_mem _ ha, ?_⟩
        intro b hb
        simp only [List.mem_cons] at hb
        rcases hb with rfl | hb
        · omega
        · exact hmax b hb

theorem th_any (σ : State) (t : Thread) (m : Mutex) :
    (threadHolds σ t).any (fun h => h.1 == m) = holdsAny σ t m := by
  simp only [threadHolds, holdsAny, List.any_map, List.any_filter]
  rfl

theorem th_anyEx (σ : State) (t : Thread) (m : Mutex) :
    (threadHolds σ t).any (fun h => h.1 == m && h.2 == Mode.ex) = holdsEx σ t m := by
  simp only [threadHolds, holdsEx, List.any_map, List.any_filter]
  congr 1
  funext h
  simp [Function.comp, Bool.and_assoc]

theorem inv_run {ok : Held → List Act → Prop}
    (hclosed : ∀ held a r, ok held (a :: r) → ok (after held a) r)
    {s s' : Sys} {sch : List Nat} {evs : List Ev} (hinv : s.Inv ok) (h : s.run sch = some (s', evs)) : s'.Inv ok := by
  induction sch generalizing s evs with
  | nil => simp only [Sys.run, Option.some.injEq, Prod.mk.injEq] at h; rw [← h.1]; exact hinv
  | cons t sch ih =>
    simp only [Sys.run] at h
    cases h1 : s.stepT t with
    | none => simp [h1] at h
    | some r1 =>
      obtain ⟨s1, e⟩ := r1
      rw [h1] at h
      simp only at h
      cases h2 : s1.run sch with
      | none => simp [h2] at h
      | some r2 =>
        obtain ⟨s2, es⟩ := r2
        rw [h2] at h
        simp only [Option.some.injEq, Prod.mk.injEq] at h
        obtain ⟨rfl, _⟩ := h
        exact ih (inv_stepT hclosed hinv h1) h2

/-- a blocked acquisition has a blocker -/
theorem blocked_has_holder {σ : State} {m : Mutex} {md : Mode} (h : canAcq σ m md = false) :
    ∃ x ∈ σ, x.m = m := by
  cases md with
  | ex =>
    simp only [canAcq] at h
    have : ¬ (σ.all fun h => h.m != m) = true := by rw [h]; simp
    rw [List.all_eq_true] at this
    push Not at this
    obtain ⟨x, hx, hne⟩ := this
    exact ⟨x, hx, by simpa using hne⟩
  | sh =>
    simp only [canAcq] at h
    have : ¬ (σ.all fun h => !(h.m == m && h.mode == Mode.ex)) = true := by rw [h]; simp
    rw [List.all_eq_true] at this
    push Not at this
    obtain ⟨x, hx, hne⟩ := this
    refine ⟨x, hx, ?_⟩
    have : (x.m == m && x.mode == Mode.ex) = true := by simpa using hne
    simp only [Bool.and_eq_true, beq_iff_eq] at this
    exact this.1

theorem mem_threadHolds {σ : State} {x : Hold} (hx : x ∈ σ) : (x.m, x.mode) ∈ threadHolds σ x.t := by
  simp only [threadHolds, List.mem_map, List.mem_filter]
  exact ⟨x, ⟨hx, by simp⟩, rfl⟩

/-! ### C. `Alerts()` against the writer: the invariant -/
namespace Alerts

def crit (pc : RPc) : Prop := pc = .locked ∨ pc = .allocd ∨ pc = .ranging ∨ pc = .copied

def goodList (l : List Nat) : Prop := 0 ∉ l ∧ l.Nodup

structure RInv (s : Sys) (k : Nat) : Prop where
  notCrashed : (s.readers k).pc ≠ .crashed
  notSized : (s.readers k).pc ≠ .sized
  holds : crit (s.readers k).pc → s.mux = some (k + 1)
  allocd : (s.readers k).pc = .allocd → (s.readers k).res = List.replicate s.alerts.length 0
  ranging : (s.readers k).pc = .ranging →
    (s.readers k).m = s.alerts.length ∧ (s.readers k).i ≤ (s.readers k).m ∧
    (s.readers k).res = List.replicate ((s.readers k).m - (s.readers k).i) 0 ++ (s.alerts.take (s.readers k).i).reverse
  copied : (s.readers k).pc = .copied → (s.readers k).res = s.alerts.reverse
  outs : ∀ l ∈ (s.readers k).outs, goodList l

structure WInv (s : Sys) : Prop where
  holds : s.wpc ≠ .idle → s.mux = some 0
  nodup : (s.alerts ++ s.pending).Nodup
  nozero : 0 ∉ s.alerts ++ s.pending

def Inv (s : Sys) : Prop := WInv s ∧ ∀ k, RInv s k

theorem upd_same (f : Nat → Reader) (k : Nat) (r : Reader) : upd f k r k = r := by simp [upd]
theorem upd_other (f : Nat → Reader) {k j : Nat} (r : Reader) (h : j ≠ k) : upd f k r j = f j := by simp [upd, h]

/-- a reader outside its critical section is untouched by whatever happens to the shared state -/
theorem rinv_of_noncrit {s s' : Sys} {j : Nat} (h : s'.readers j = s.readers j)
    (hn : ¬ crit (s.readers j).pc) (hr : RInv s j) : RInv s' j := by
  have h1 : (s.readers j).pc ≠ .locked := fun e => hn (Or.inl e)
  have h2 : (s.readers j).pc ≠ .allocd := fun e => hn (Or.inr (Or.inl e))
  have h3 : (s.readers j).pc ≠ .ranging := fun e => hn (Or.inr (Or.inr (Or.inl e)))
  have h4 : (s.readers j).pc ≠ .copied := fun e => hn (Or.inr (Or.inr (Or.inr e)))
  constructor <;> rw [h]
  · exact hr.notCrashed
  · exact hr.notSized
  · intro hc; exact absurd hc hn
  · intro hc; exact absurd hc h2
  · intro hc; exact absurd hc h3
  · intro hc; exact absurd hc h4
  · exact hr.outs

/-- a step that leaves alerts, the mutex and reader j alone keeps reader j's invariant -/
theorem rinv_frame {s s' : Sys} {j : Nat} (h : s'.readers j = s.readers j) (ha : s'.alerts = s.alerts)
    (hm : s'.mux = s.mux) (hr : RInv s j) : RInv s' j := by
  constructor <;> rw [h] <;> try rw [ha] <;> try rw [hm]
  · exact hr.notCrashed
  · exact hr.notSized
  · rw [hm]; exact hr.holds
  · exact hr.allocd
  · exact hr.ranging
  · exact hr.copied
  · exact hr.outs

theorem set_mid (l1 l2 : List Nat) (x v : Nat) : (l1 ++ x :: l2).set l1.length v = l1 ++ v :: l2 := by
  induction l1 with
  | nil => rfl
  | cons a as ih => simp only [List.cons_append, List.length_cons, List.set_cons_succ, ih]

/-- one iteration of `alerts[total-1-i] = a` -/
theorem loop_iter (alerts : List Nat) (i : Nat) (hi : i < alerts.length) :
    (List.replicate (alerts.length - i) 0 ++ (alerts.take i).reverse).set
        ((List.replicate (alerts.length - i) 0 ++ (alerts.take i).reverse).length - 1 - i) (alerts.getD i 0)
      = List.replicate (alerts.length - (i + 1)) 0 ++ (alerts.take (i + 1)).reverse := by
  have hlen : (List.replicate (alerts.length - i) 0 ++ (alerts.take i).reverse).length = alerts.length := by
    simp only [List.length_append, List.length_replicate, List.length_reverse, List.length_take]
    omega
  rw [hlen]
  have hd : alerts.length - i = (alerts.length - (i + 1)) + 1 := by omega
  rw [hd, List.replicate_succ', List.append_assoc]
  have hidx : alerts.length - 1 - i = (List.replicate (alerts.length - (i + 1)) 0).length := by
    simp only [List.length_replicate]; omega
  rw [hidx]
  simp only [List.singleton_append]
  rw [set_mid]
  congr 1
  rw [List.take_add_one, List.reverse_append]
  have : alerts[i]? = some alerts[i] := List.getElem?_eq_getElem hi
  simp [List.getD, this]

theorem noncrit_of_mux {s : Sys} {j : Nat} {v : Option Nat} (hr : RInv s j) (hm : s.mux = v) (hv : v ≠ some (j + 1)) :
    ¬ crit (s.readers j).pc := fun hc => hv (by rw [← hm]; exact hr.holds hc)

theorem inv_stepWriter (cfg : Cfg) {s : Sys} (hinv : Inv s) : Inv (stepWriter cfg s) := by
  obtain ⟨hw, hr⟩ := hinv
  have hnd := hw.nodup
  have hnz := hw.nozero
  unfold stepWriter
  cases hpc : s.wpc with
  | idle =>
    simp only
    cases hp : s.pending with
    | nil => simp only; exact ⟨hw, hr⟩
    | cons a rest =>
      cases hm : s.mux with
      | some v => simp only; exact ⟨hw, hr⟩
      | none =>
        simp only
        rw [hp] at hnd hnz
        refine ⟨⟨fun _ => rfl, hnd, hnz⟩, fun j => ?_⟩
        exact rinv_of_noncrit (s := s) rfl (noncrit_of_mux (hr j) hm (by simp)) (hr j)
  | locked =>
    have hmux : s.mux = some 0 := hw.holds (by rw [hpc]; simp)
    have hnc : ∀ j, ¬ crit (s.readers j).pc := fun j => noncrit_of_mux (hr j) hmux (by simp)
    simp only
    split
    · refine ⟨⟨fun _ => hmux, ?_, ?_⟩, fun j => rinv_of_noncrit (s := s) rfl (hnc j) (hr j)⟩
      · simp only [List.nil_append]
        exact (List.nodup_append.mp hnd).2.1
      · intro h0
        simp only [List.nil_append] at h0
        exact hnz (List.mem_append_right _ h0)
    · exact ⟨⟨fun _ => hmux, hnd, hnz⟩, fun j => rinv_of_noncrit (s := s) rfl (hnc j) (hr j)⟩
  | checked =>
    have hmux : s.mux = some 0 := hw.holds (by rw [hpc]; simp)
    have hnc : ∀ j, ¬ crit (s.readers j).pc := fun j => noncrit_of_mux (hr j) hmux (by simp)
    simp only
    cases hp : s.pending with
    | nil =>
      simp only
      rw [hp] at hnd hnz
      exact ⟨⟨fun _ => hmux, hnd, hnz⟩, fun j => rinv_of_noncrit (s := s) rfl (hnc j) (hr j)⟩
    | cons a rest =>
      simp only
      rw [hp] at hnd hnz
      refine ⟨⟨fun _ => hmux, ?_, ?_⟩, fun j => rinv_of_noncrit (s := s) rfl (hnc j) (hr j)⟩
      · simpa [List.append_assoc] using hnd
      · simpa [List.append_assoc] using hnz
  | appended =>
    have hmux : s.mux = some 0 := hw.holds (by rw [hpc]; simp)
    have hnc : ∀ j, ¬ crit (s.readers j).pc := fun j => noncrit_of_mux (hr j) hmux (by simp)
    simp only
    exact ⟨⟨fun h => absurd rfl h, hnd, hnz⟩, fun j => rinv_of_noncrit (s := s) rfl (hnc j) (hr j)⟩

theorem others_frame {s s' : Sys} {k : Nat} (hr : ∀ j, RInv s j)
    (hrd : ∀ j, j ≠ k → s'.readers j = s.readers j) (ha : s'.alerts = s.alerts) (hm : s'.mux = s.mux)
    {j : Nat} (hj : j ≠ k) : RInv s' j :=
  rinv_frame (hrd j hj) ha hm (hr j)

theorem others_noncrit {s s' : Sys} {k : Nat} (hr : ∀ j, RInv s j)
    (hrd : ∀ j, j ≠ k → s'.readers j = s.readers j) (hk : crit (s.readers k).pc ∨ s.mux = none)
    {j : Nat} (hj : j ≠ k) : RInv s' j := by
  refine rinv_of_noncrit (s := s) (hrd j hj) ?_ (hr j)
  intro hc
  have hjm := (hr j).holds hc
  rcases hk with hk | hk
  · have hkm := (hr k).holds hk
    rw [hjm] at hkm
    simp only [Option.some.injEq, Nat.add_right_cancel_iff] at hkm
    exact hj hkm
  · rw [hk] at hjm; cases hjm

theorem inv_stepReader (cfg : Cfg) (hcfg : cfg.sizeUnderLock = true) {s : Sys} (hinv : Inv s) (k : Nat) :
    Inv (stepReader cfg s k) := by
  obtain ⟨hw, hr⟩ := hinv
  have hk := hr k
  unfold stepReader
  simp only
  cases hpc : (s.readers k).pc with
  | idle =>
    simp only
    by_cases htodo : (s.readers k).todo = 0
    · simp only [htodo, if_true]; exact ⟨hw, hr⟩
    · simp only [htodo, if_false, hcfg, if_true]
      cases hm : s.mux with
      | some v => exact ⟨hw, hr⟩
      | none =>
        simp only
        refine ⟨⟨fun hne => ?_, hw.nodup, hw.nozero⟩, fun j => ?_⟩
        · have := hw.holds hne; rw [hm] at this; cases this
        · by_cases hj : j = k
          · subst hj
            exact { notCrashed := by simp [upd_same], notSized := by simp [upd_same],
                    holds := fun _ => rfl, allocd := by simp [upd_same], ranging := by simp [upd_same],
                    copied := by simp [upd_same], outs := by simpa [upd_same] using hk.outs }
          · exact others_noncrit (s := s) (k := k) hr (fun j hj => upd_other _ _ hj) (Or.inr hm) hj
  | sized => exact absurd hpc hk.notSized
  | locked =>
    simp only
    have hmux := hk.holds (by rw [hpc]; exact Or.inl rfl)
    refine ⟨⟨hw.holds, hw.nodup, hw.nozero⟩, fun j => ?_⟩
    by_cases hj : j = k
    · subst hj
      exact { notCrashed := by simp [upd_same], notSized := by simp [upd_same],
              holds := fun _ => hmux, allocd := by simp [upd_same], ranging := by simp [upd_same],
              copied := by simp [upd_same], outs := by simpa [upd_same] using hk.outs }
    · refine others_frame (s := s) (k := k) hr ?_ ?_ ?_ hj
      · intro j' hj'; exact upd_other _ _ hj'
      · rfl
      · rfl
  | allocd =>
    simp only
    have hmux := hk.holds (by rw [hpc]; exact Or.inr (Or.inl rfl))
    have hres := hk.allocd hpc
    refine ⟨⟨hw.holds, hw.nodup, hw.nozero⟩, fun j => ?_⟩
    by_cases hj : j = k
    · subst hj
      exact { notCrashed := by simp [upd_same], notSized := by simp [upd_same],
              holds := fun _ => hmux, allocd := by simp [upd_same],
              ranging := by simp [upd_same, hres],
              copied := by simp [upd_same], outs := by simpa [upd_same] using hk.outs }
    · refine others_frame (s := s) (k := k) hr ?_ ?_ ?_ hj
      · intro j' hj'; exact upd_other _ _ hj'
      · rfl
      · rfl
  | ranging =>
    simp only
    have hmux := hk.holds (by rw [hpc]; exact Or.inr (Or.inr (Or.inl rfl)))
    obtain ⟨hm, hile, hres⟩ := hk.ranging hpc
    by_cases hlt : (s.readers k).i < (s.readers k).m
    · simp only [hlt, if_true]
      have hlen : (s.readers k).res.length = s.alerts.length := by
        rw [hres]
        simp only [List.length_append, List.length_replicate, List.length_reverse, List.length_take]
        omega
      have hlt2 : (s.readers k).i < (s.readers k).res.length := by rw [hlen, ← hm]; exact hlt
      simp only [hlt2, if_true]
      refine ⟨⟨hw.holds, hw.nodup, hw.nozero⟩, fun j => ?_⟩
      by_cases hj : j = k
      · subst hj
        have hiter := loop_iter s.alerts (s.readers j).i (by rw [← hm]; exact hlt)
        have hrng : (s.readers j).m = s.alerts.length ∧ (s.readers j).i + 1 ≤ (s.readers j).m ∧
            (s.readers j).res.set ((s.readers j).res.length - 1 - (s.readers j).i) (s.alerts.getD (s.readers j).i 0)
              = List.replicate ((s.readers j).m - ((s.readers j).i + 1)) 0 ++ (s.alerts.take ((s.readers j).i + 1)).reverse := by
          refine ⟨hm, hlt, ?_⟩
          rw [hm] at hres ⊢
          rw [hres]
          exact hiter
        exact { notCrashed := by simp [upd_same], notSized := by simp [upd_same],
                holds := fun _ => hmux, allocd := by simp [upd_same],
                ranging := by simpa [upd_same] using hrng,
                copied := by simp [upd_same], outs := by simpa [upd_same] using hk.outs }
      · refine others_frame (s := s) (k := k) hr ?_ ?_ ?_ hj
        · intro j' hj'; exact upd_other _ _ hj'
        · rfl
        · rfl
    · simp only [hlt, if_false]
      refine ⟨⟨hw.holds, hw.nodup, hw.nozero⟩, fun j => ?_⟩
      by_cases hj : j = k
      · subst hj
        have hcp : (s.readers j).res = s.alerts.reverse := by
          have hi : (s.readers j).i = s.alerts.length := by omega
          rw [hres, hm, hi]
          simp
        exact { notCrashed := by simp [upd_same], notSized := by simp [upd_same],
                holds := fun _ => hmux, allocd := by simp [upd_same], ranging := by simp [upd_same],
                copied := by simpa [upd_same] using hcp, outs := by simpa [upd_same] using hk.outs }
      · refine others_frame (s := s) (k := k) hr ?_ ?_ ?_ hj
        · intro j' hj'; exact upd_other _ _ hj'
        · rfl
        · rfl
  | copied =>
    simp only
    have hcrit : crit (s.readers k).pc := by rw [hpc]; exact Or.inr (Or.inr (Or.inr rfl))
    have hmux := hk.holds hcrit
    have hres := hk.copied hpc
    refine ⟨⟨fun hne => ?_, hw.nodup, hw.nozero⟩, fun j => ?_⟩
    · have := hw.holds hne; rw [hmux] at this; cases this
    · by_cases hj : j = k
      · subst hj
        have hgood : goodList (s.readers j).res := by
          rw [hres]
          refine ⟨?_, ?_⟩
          · intro h0
            exact hw.nozero (List.mem_append_left _ (List.mem_reverse.mp h0))
          · exact List.nodup_reverse.mpr (List.nodup_append.mp hw.nodup).1
        have houts : ∀ l ∈ (s.readers j).res :: (s.readers j).outs, goodList l := by
          intro l hl
          simp only [List.mem_cons] at hl
          rcases hl with rfl | hl
          · exact hgood
          · exact hk.outs l hl
        exact { notCrashed := by simp [upd_same], notSized := by simp [upd_same],
                holds := by simp [upd_same, crit], allocd := by simp [upd_same], ranging := by simp [upd_same],
                copied := by simp [upd_same], outs := by simpa [upd_same] using houts }
      · exact others_noncrit (s := s) (k := k) hr (fun j hj => upd_other _ _ hj) (Or.inl hcrit) hj
  | crashed => exact absurd hpc hk.notCrashed

theorem inv_init (pending : List Nat) (hnd : pending.Nodup) (h0 : 0 ∉ pending) (todo : Nat) : Inv (init pending todo) := by
  refine ⟨⟨fun h => absurd rfl h, by simpa [init] using hnd, by simpa [init] using h0⟩, fun k => ?_⟩
  constructor <;> simp [init, crit]

theorem inv_run (cfg : Cfg) (hcfg : cfg.sizeUnderLock = true) (sched : List Nat) {s : Sys} (hinv : Inv s) :
    Inv (run cfg s sched) := by
  induction sched generalizing s with
  | nil => exact hinv
  | cons t ts ih =>
    simp only [run, List.foldl_cons]
    apply ih
    cases t with
    | zero => exact inv_stepWriter cfg hinv
    | succ k => exact inv_stepReader cfg hcfg hinv k

/-! ### the writer alone: the sequential alert log -/

/-- what one complete writer round (lock, check, append, unlock) does to the log -/
def appendOne (mx : Nat) (alerts : List Nat) (a : Nat) : List Nat :=
  (if alerts.length > mx then [] else alerts) ++ [a]

theorem writer_round (cfg : Cfg) (s : Sys) (a : Nat) (rest : List Nat)
    (hpc : s.wpc = WPc.idle) (hm : s.mux = none) (hp : s.pending = a :: rest) :
    let s' := run cfg s [0, 0, 0, 0]
    s'.alerts = appendOne cfg.maxAlerts s.alerts a ∧ s'.pending = rest ∧ s'.wpc = WPc.idle ∧ s'.mux = none := by
  simp only [run, List.foldl_cons, List.foldl_nil, stepT]
  have h1 : stepWriter cfg s = { s with mux := some 0, wpc := .locked } := by
    unfold stepWriter; simp [hpc, hp, hm]
  rw [h1]
  by_cases hl : s.alerts.length > cfg.maxAlerts
  · simp [stepWriter, hl, hp, appendOne]
  · simp [stepWriter, hl, hp, appendOne]

theorem descFrom_length (hi n : Nat) : (descFrom hi n).length = n := by
  induction n generalizing hi with
  | zero => rfl
  | succ n ih => simp [descFrom, ih]

theorem seq_log (mx k : Nat) :
    (List.range' 1 k).foldl (appendOne mx) [] = (alertsAfter mx k).reverse := by
  induction k with
  | zero => simp [alertsAfter, lenAfter, descFrom]
  | succ k ih =>
    rw [List.range'_1_concat, List.foldl_append, ih]
    simp only [List.foldl_cons, List.foldl_nil, appendOne, alertsAfter, List.length_reverse, descFrom_length, lenAfter]
    by_cases hl : lenAfter mx k > mx
    · simp [hl, descFrom]; omega
    · simp only [hl, if_false]
      have : 1 + k = k + 1 := by omega
      rw [this]
      simp [descFrom]


theorem run_append (cfg : Cfg) (s : Sys) (l1 l2 : List Nat) :
    run cfg s (l1 ++ l2) = run cfg (run cfg s l1) l2 := by
  simp [run, List.foldl_append]

/-- the writer alone, four steps per alert, produces exactly the sequential log -/
theorem writer_alone (cfg : Cfg) (pending : List Nat) (s : Sys)
    (hpc : s.wpc = WPc.idle) (hm : s.mux = none) (hp : s.pending = pending) :
    let s' := run cfg s (List.replicate (4 * pending.length) 0)
    s'.alerts = pending.foldl (appendOne cfg.maxAlerts) s.alerts ∧ s'.pending = [] ∧ s'.wpc = WPc.idle ∧ s'.mux = none := by
  induction pending generalizing s with
  | nil => simp [run, hpc, hm, hp]
  | cons a rest ih =>
    have hsplit : List.replicate (4 * (a :: rest).length) 0 = [0, 0, 0, 0] ++ List.replicate (4 * rest.length) 0 := by
      simp only [List.length_cons, Nat.mul_add, Nat.mul_one]
      rw [Nat.add_comm, List.replicate_add]
      rfl
    obtain ⟨h1, h2, h3, h4⟩ := writer_round cfg s a rest hpc hm hp
    obtain ⟨e1, e2, e3, e4⟩ := ih (run cfg s [0, 0, 0, 0]) h3 h4 h2
    show (run cfg s (List.replicate (4 * (a :: rest).length) 0)).alerts = _ ∧ _
    rw [hsplit, run_append]
    refine ⟨?_, e2, e3, e4⟩
    rw [e1, h1]
    rfl

end Alerts


/-! ### F. scripts with calls: the modular check implies the check of the inlined script -/

theorem lockOK_append (L : Loc → Mutex) (H : Held) (x y : List Act) :
    lockOK L H (x ++ y) = (lockOK L H x && lockOK L (x.foldl after H) y) := by
  induction x generalizing H with
  | nil => simp [lockOK]
  | cons a r ih =>
    simp only [List.cons_append, lockOK, List.foldl_cons, ih, Bool.and_assoc]

/-- one body: if the modular check accepts it in context `H0` from lockset `H1`, and every callee's
expansion is fine in each of its recorded contexts, then the expanded body passes `lockOK` from
`H1` and ends with the lockset `H0` -/
theorem inlineWith_ok (L : Loc → Mutex) (ctxs : Nat → List Held) (callee : Nat → Option (List Act))
    (hcal : ∀ g H acts, H ∈ ctxs g → callee g = some acts → lockOK L H acts = true ∧ acts.foldl after H = H)
    (H0 : Held) (body : Body) (H1 : Held) (acts : List Act)
    (hmod : modOK L ctxs H0 H1 body = true) (hin : inlineWith callee body = some acts) :
    lockOK L H1 acts = true ∧ acts.foldl after H1 = H0 := by
  induction body generalizing H1 acts with
  | nil =>
    simp only [inlineWith, Option.some.injEq] at hin
    subst hin
    simp only [modOK, beq_iff_eq] at hmod
    simp [lockOK, hmod]
  | cons p r ih =>
    cases p with
    | act a =>
      simp only [inlineWith, Option.map_eq_some_iff] at hin
      obtain ⟨acts', hin', rfl⟩ := hin
      simp only [modOK, Bool.and_eq_true] at hmod
      obtain ⟨hr, hl⟩ := ih (after H1 a) acts' hmod.2 hin'
      refine ⟨?_, by simpa [List.foldl_cons] using hl⟩
      simp only [lockOK, Bool.and_eq_true]
      exact ⟨hmod.1, hr⟩
    | call g =>
      simp only [inlineWith] at hin
      cases hx : callee g with
      | none => simp [hx] at hin
      | some x =>
        cases hy : inlineWith callee r with
        | none => simp [hx, hy] at hin
        | some y =>
          simp only [hx, hy, Option.some.injEq] at hin
          subst hin
          simp only [modOK, Bool.and_eq_true, List.contains_iff_mem] at hmod
          obtain ⟨hx1, hx2⟩ := hcal g H1 x hmod.1 hx
          obtain ⟨hr, hl⟩ := ih H1 y hmod.2 hy
          refine ⟨?_, ?_⟩
          · rw [lockOK_append, hx1, hx2, hr]; rfl
          · rw [List.foldl_append, hx2, hl]

end CV.C18
