import ClusterVerif.Model.C17Depart
import Mathlib.Tactic.SplitIfs
import Mathlib.Data.List.Basic

/-! Helper lemmas for the departure model (`Model/C17Depart.lean`). -/

namespace CV.C17

theorem cleanupRaft_data (keep : Nat) (slash : Bool) (d : Disk) : (cleanupRaft keep slash d).data = false := by
  unfold cleanupRaft makeBackup
  split <;> rfl

/-- `Shutdown` of a ready peer whose `removed` flag is set cleans -/
theorem doShutdown_removed (keep : Nat) (slash : Bool) (st : PSt) (p r : Bool)
    (hs : st.f.shutdown = false) (hr : st.f.ready = true) (hm : st.f.removed = true) :
    let st' := doShutdown keep slash st p r
    st'.disk.data = false ∧ st'.f.shutdown = true ∧ st'.f.ready = true ∧ st'.outside = st.outside := by
  obtain ⟨⟨ready, removed, leave, shutdown⟩, member, acts, disk, outside, consult⟩ := st
  simp only at hs hr hm
  subst hs hr hm
  cases leave <;> cases p <;> cases r <;> cases consult <;> cases member <;>
    simp [doShutdown, shutdownActsC, shutdownActs, cleanupRaft_data]

/-- `Shutdown` of a ready member: it stays a member, or it left and cleaned -/
theorem doShutdown_member (keep : Nat) (slash : Bool) (st : PSt) (p r : Bool)
    (hs : st.f.shutdown = false) (hr : st.f.ready = true) :
    let st' := doShutdown keep slash st p r
    (st'.member = st.member ∨ st'.disk.data = false) ∧ st'.f.shutdown = true ∧ st'.f.ready = true ∧ st'.outside = st.outside := by
  obtain ⟨⟨ready, removed, leave, shutdown⟩, member, acts, disk, outside, consult⟩ := st
  simp only at hs hr
  subst hs hr
  cases leave <;> cases p <;> cases r <;> cases removed <;> cases consult <;> cases member <;>
    simp [doShutdown, shutdownActsC, shutdownActs, cleanupRaft_data]

/-- `Shutdown` that consults an answering `consensus.Peers` at a ready non-member cleans -/
theorem doShutdown_consult (keep : Nat) (slash : Bool) (st : PSt) (r : Bool)
    (hs : st.f.shutdown = false) (hr : st.f.ready = true) (hm : st.member = false) (hc : st.consult = true) :
    let st' := doShutdown keep slash st true r
    st'.disk.data = false ∧ st'.f.shutdown = true ∧ st'.f.ready = true ∧ st'.outside = st.outside := by
  obtain ⟨⟨ready, removed, leave, shutdown⟩, member, acts, disk, outside, consult⟩ := st
  simp only at hs hr hm hc
  subst hs hr hm hc
  cases leave <;> cases r <;> cases removed <;>
    simp [doShutdown, shutdownActsC, shutdownActs, cleanupRaft_data]

theorem safe_hit_flagged {sites : List Site} (h : sitesSafe sites = true) (t : Trig) (ht : t = .absent ∨ t = .selfRemoved) :
    (sites.filter (fun s => classify s == some t)).all (·.flagged) = true := by
  unfold sitesSafe at h
  rw [Bool.and_eq_true] at h
  have h1 := h.1
  rw [List.all_eq_true] at h1 ⊢
  intro s hs
  rw [List.mem_filter] at hs
  have h2 := h1 s hs.1
  have hc : classify s = some t := by simpa using hs.2
  rw [hc] at h2
  rcases ht with rfl | rfl <;> simpa using h2

theorem safe_has_absent {sites : List Site} (h : sitesSafe sites = true) :
    (sites.filter (fun s => classify s == some Trig.absent)).isEmpty = false := by
  unfold sitesSafe at h
  rw [Bool.and_eq_true] at h
  have h2 := h.2
  rw [List.any_eq_true] at h2
  obtain ⟨s, hs, hc⟩ := h2
  cases hf : (sites.filter (fun s => classify s == some Trig.absent)) with
  | nil =>
    have : s ∈ sites.filter (fun s => classify s == some Trig.absent) := List.mem_filter.mpr ⟨hs, hc⟩
    rw [hf] at this; cases this
  | cons a l => rfl

/-- the invariant of a history: the peer stays ready; unless the history left the statement, a stopped non-member is clean -/
def DepInv (st : PSt) : Prop := st.f.ready = true ∧ (st.outside = true ∨ departedClean st = true)

theorem fire_safe {sites : List Site} (h : sitesSafe sites = true) (keep : Nat) (slash : Bool) (t : Trig)
    (ht : t = .absent ∨ t = .selfRemoved) (st : PSt) (p r : Bool)
    (hs : st.f.shutdown = false) (hr : st.f.ready = true) (hi : DepInv st) :
    DepInv (fire sites keep slash t st p r) := by
  unfold fire
  simp only
  split_ifs with he
  · exact hi
  · rw [safe_hit_flagged h t ht, Bool.or_true]
    have := doShutdown_removed keep slash { st with f := { st.f with removed := true } } p r hs hr rfl
    simp only at this
    refine ⟨this.2.2.1, Or.inr ?_⟩
    unfold departedClean
    rw [this.1]; simp

theorem depStep_inv {sites : List Site} (h : sitesSafe sites = true) (keep : Nat) (slash : Bool) (st : PSt) (e : DEv)
    (hi : DepInv st) : DepInv (depStep sites keep slash st e) := by
  have hr := hi.1
  cases e with
  | removedByOther =>
    simp only [depStep]
    split_ifs with hs
    · refine ⟨hr, ?_⟩
      rcases hi.2 with ho | hc
      · left; simp [ho]
      · cases hm : st.member
        · right; simpa [departedClean, hm] using hc
        · left; simp [hm]
    · refine ⟨hr, ?_⟩
      rcases hi.2 with ho | _
      · exact Or.inl ho
      · right; simp [departedClean, hs]
  | selfRemove ok p r =>
    simp only [depStep]
    split_ifs with hs
    · exact hi
    · simp only [Bool.or_eq_true, not_or, Bool.not_eq_true, Bool.not_eq_true'] at hs
      have hsd : st.f.shutdown = false := by
        cases h0 : st.f.shutdown <;> simp_all
      refine fire_safe h keep slash .selfRemoved (Or.inr rfl) { st with member := false } p r hsd hr ⟨hr, ?_⟩
      rcases hi.2 with ho | _
      · exact Or.inl ho
      · right; simp [departedClean, hsd]
  | tick pk p r =>
    simp only [depStep]
    split_ifs with hs
    · exact hi
    · have hsd : st.f.shutdown = false := by
        cases h0 : st.f.shutdown <;> simp_all
      exact fire_safe h keep slash .absent (Or.inl rfl) st p r hsd hr hi
  | stop p r =>
    simp only [depStep]
    split_ifs with hs
    · exact hi
    · have hsd : st.f.shutdown = false := by simpa using hs
      by_cases hmem : st.member = true
      · have := doShutdown_member keep slash { st with outside := st.outside || (!st.member && !(st.consult && p)) } p r hsd hr
        simp only at this
        obtain ⟨hm, hsh, hrd, ho⟩ := this
        refine ⟨hrd, ?_⟩
        rcases hi.2 with hout | _
        · left; rw [ho]; simp [hout]
        · right
          unfold departedClean
          rcases hm with hm | hd
          · rw [hm, hmem]; simp
          · rw [hd]; simp
      · have hmf : st.member = false := by simpa using hmem
        -- a non-member is stopped: outside, unless Shutdown consults an answering peerset (then it cleans)
        by_cases hcp : (st.consult && p) = true
        · rw [Bool.and_eq_true] at hcp
          obtain ⟨hc, hp⟩ := hcp
          subst hp
          have := doShutdown_consult keep slash { st with outside := st.outside || (!st.member && !(st.consult && true)) } r hsd hr hmf hc
          simp only at this
          refine ⟨this.2.2.1, Or.inr ?_⟩
          unfold departedClean
          rw [this.1]; simp
        · have := doShutdown_member keep slash { st with outside := st.outside || (!st.member && !(st.consult && p)) } p r hsd hr
          simp only at this
          refine ⟨this.2.2.1, Or.inl ?_⟩
          rw [this.2.2.2]
          simp only [Bool.not_eq_true] at hcp
          simp [hcp, hmf]
  | write sn =>
    simp only [depStep]
    split_ifs with hs
    · exact hi
    · have hsd : st.f.shutdown = false := by simpa using hs
      refine ⟨hr, ?_⟩
      rcases hi.2 with ho | _
      · exact Or.inl ho
      · right; simp [departedClean, hsd]
  | restart =>
    simp only [depStep]
    split_ifs with h1 h2
    · exact hi
    · refine ⟨hr, ?_⟩
      rcases hi.2 with ho | _
      · exact Or.inl ho
      · right; simp [departedClean]
    · exact ⟨hr, by
        rcases hi.2 with ho | hc
        · exact Or.inl ho
        · right; simpa [departedClean] using hc⟩

theorem depRun_inv {sites : List Site} (h : sitesSafe sites = true) (keep : Nat) (slash : Bool) (evs : List DEv) :
    ∀ st, DepInv st → DepInv (depRun sites keep slash st evs) := by
  induction evs with
  | nil => intro st hi; exact hi
  | cons e es ih =>
    intro st hi
    unfold depRun
    rw [List.foldl_cons]
    exact ih _ (depStep_inv h keep slash st e hi)

/-! Round 8c — on the repaired code (`consult = true`) a history whose operator stops are answered by `consensus.Peers`
    and that never removes the peer while it is down stays INSIDE the statement: the K17a situation (removed by another
    member, stopped before the watch round) is no exclusion any more. -/

theorem doShutdown_keeps (keep : Nat) (slash : Bool) (st : PSt) (p r : Bool) :
    (doShutdown keep slash st p r).outside = st.outside ∧ (doShutdown keep slash st p r).consult = st.consult :=
  ⟨rfl, rfl⟩

theorem fire_keeps (sites : List Site) (keep : Nat) (slash : Bool) (t : Trig) (st : PSt) (p r : Bool) :
    (fire sites keep slash t st p r).outside = st.outside ∧ (fire sites keep slash t st p r).consult = st.consult := by
  unfold fire
  simp only
  split_ifs
  · exact ⟨rfl, rfl⟩
  · exact ⟨rfl, rfl⟩

theorem depStep_inside (sites : List Site) (keep : Nat) (slash : Bool) (st : PSt) (e : DEv)
    (hc : st.consult = true) (ho : st.outside = false) (ha : e.answered = true)
    (hd : (e.isRmo && st.f.shutdown && st.member) = false) :
    (depStep sites keep slash st e).outside = false ∧ (depStep sites keep slash st e).consult = true := by
  cases e with
  | removedByOther =>
    simp only [depStep]
    split_ifs with hs
    · have hm : st.member = false := by simpa [DEv.isRmo, hs] using hd
      simp [ho, hm, hc]
    · exact ⟨ho, hc⟩
  | selfRemove ok p r =>
    simp only [depStep]
    split_ifs
    · exact ⟨ho, hc⟩
    · have := fire_keeps sites keep slash .selfRemoved { st with member := false } p r
      exact ⟨this.1.trans ho, this.2.trans hc⟩
  | tick pk p r =>
    simp only [depStep]
    split_ifs
    · exact ⟨ho, hc⟩
    · have := fire_keeps sites keep slash .absent st p r
      exact ⟨this.1.trans ho, this.2.trans hc⟩
  | stop p r =>
    have hp : p = true := ha
    subst hp
    simp only [depStep]
    split_ifs
    · exact ⟨ho, hc⟩
    · have := doShutdown_keeps keep slash { st with outside := st.outside || (!st.member && !(st.consult && true)) } true r
      refine ⟨this.1.trans ?_, this.2.trans hc⟩
      simp [ho, hc]
  | write sn =>
    simp only [depStep]
    split_ifs
    · exact ⟨ho, hc⟩
    · exact ⟨ho, hc⟩
  | restart =>
    simp only [depStep]
    split_ifs
    · exact ⟨ho, hc⟩
    · exact ⟨ho, hc⟩
    · exact ⟨ho, hc⟩

theorem depRun_inside (sites : List Site) (keep : Nat) (slash : Bool) :
    ∀ (evs : List DEv) (st : PSt), st.consult = true → st.outside = false →
      evs.all DEv.answered = true → removedWhileDown sites keep slash st evs = false →
      (depRun sites keep slash st evs).outside = false := by
  intro evs
  induction evs with
  | nil => intro st _ ho _ _; exact ho
  | cons e es ih =>
    intro st hc ho ha hd
    rw [List.all_cons, Bool.and_eq_true] at ha
    simp only [removedWhileDown, Bool.or_eq_false_iff] at hd
    have hstep := depStep_inside sites keep slash st e hc ho ha.1 hd.1
    unfold depRun
    rw [List.foldl_cons]
    exact ih _ hstep.2 hstep.1 ha.2 hd.2

end CV.C17
