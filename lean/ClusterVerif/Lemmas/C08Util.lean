import ClusterVerif.Model.C08Util
/-! Lemmas for `Model/C08Util.lean`. -/
namespace CV.C08.Util

theorem s2p_p2s (ps : List (Option Nat)) : stringsToPeers (peersToStrings ps) = ps.filterMap id := by
  induction ps with
  | nil => rfl
  | cons p ps ih =>
    cases p with
    | none =>
      have h : stringsToPeers (peersToStrings (none :: ps)) = stringsToPeers (peersToStrings ps) := rfl
      rw [h, ih]; rfl
    | some n =>
      have h : stringsToPeers (peersToStrings (some n :: ps)) = n :: stringsToPeers (peersToStrings ps) := rfl
      rw [h, ih]; rfl

theorem s2p_p2s_defined (ps : List Nat) : stringsToPeers (peersToStrings (ps.map some)) = ps := by
  rw [s2p_p2s]
  induction ps with
  | nil => rfl
  | cons p ps ih => simp

theorem p2s_length (ps : List (Option Nat)) : (peersToStrings ps).length = ps.length := by
  simp [peersToStrings]

theorem s2p_length_le (ss : List SItem) : (stringsToPeers ss).length ≤ ss.length := by
  unfold stringsToPeers
  exact List.length_filterMap_le _ _

end CV.C08.Util
