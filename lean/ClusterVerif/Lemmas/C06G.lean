import ClusterVerif.Lemmas.C06F

/-! Round 8 final: the exact content of every cell (listed CID, member) of the
cluster-wide LISTING `globalSlice` (= `Cluster.StatusAll`), for arbitrary member
lists, reply tables and errors — by induction over the member list, over each
reply and over the unreachable members. -/
namespace CV.C06

/-- the status a reply gives LAST for a CID (`GlobalPinInfo.Add` overwrites) -/
def lastFor : List (Nat × Nat) → Nat → Option Nat
  | [], _ => none
  | e :: t, c =>
    match lastFor t c with
    | some s => some s
    | none => if c = e.1 then some e.2 else none

/-- what the listing says about peer `p` under CID `c` (`none`: CID not listed or peer absent) -/
def cell (m : List (Nat × List (Nat × Nat))) (c p : Nat) : Option Nat :=
  match m.find? (fun e => e.1 == c) with
  | some e => lookup e.2 p
  | none => none

theorem lastFor_some : ∀ {l : List (Nat × Nat)} {c st : Nat}, lastFor l c = some st →
    l.any (fun e => e.1 == c && e.2 == st) = true
  | [], _, _, h => by cases h
  | e :: t, c, st, h => by
    unfold lastFor at h
    rw [List.any_cons]
    cases ht : lastFor t c with
    | some s =>
      rw [ht] at h
      simp only at h
      rw [lastFor_some (l := t) (ht.trans h), Bool.or_true]
    | none =>
      rw [ht] at h
      simp only at h
      by_cases hc : c = e.1
      · rw [if_pos hc] at h
        have h2 : e.2 = st := Option.some.inj h
        simp [hc, h2]
      · rw [if_neg hc] at h; cases h

theorem lastFor_none : ∀ {l : List (Nat × Nat)} {c : Nat}, lastFor l c = none →
    l.any (fun e => e.1 == c) = false
  | [], _, _ => rfl
  | e :: t, c, h => by
    unfold lastFor at h
    rw [List.any_cons]
    cases ht : lastFor t c with
    | some s => rw [ht] at h; cases h
    | none =>
      rw [ht] at h
      simp only at h
      by_cases hc : c = e.1
      · rw [if_pos hc] at h; cases h
      · rw [lastFor_none (l := t) ht]
        simp [Ne.symm hc]

theorem cell_nil (c p : Nat) : cell [] c p = none := rfl

theorem cell_sAdd (m : List (Nat × List (Nat × Nat))) (c' q st c p : Nat) :
    cell (sAdd m c' q st) c p = if c = c' ∧ p = q then some st else cell m c p := by
  unfold sAdd
  by_cases hc : m.any (fun e => e.1 == c') = true
  · rw [if_pos hc]
    unfold cell
    rw [List.find?_map]
    have hf : ((fun e : Nat × List (Nat × Nat) => e.1 == c) ∘
        (fun e : Nat × List (Nat × Nat) => if (e.1 == c') = true then (c', gAdd e.2 q st) else e)) =
        (fun e => e.1 == c) := by
      funext e
      simp only [Function.comp]
      by_cases h : (e.1 == c') = true
      · rw [if_pos h]; simp only [beq_iff_eq] at h; rw [h]
      · rw [if_neg h]
    rw [hf]
    cases hfe : m.find? (fun e => e.1 == c) with
    | none =>
      have hne : c ≠ c' := by
        intro h; subst h
        obtain ⟨x, hx, hxc⟩ := List.any_eq_true.mp hc
        exact (List.find?_eq_none.mp hfe) x hx hxc
      simp [hne]
    | some e =>
      have he : e.1 = c := by simpa using List.find?_some hfe
      simp only [Option.map_some]
      by_cases hcc : c = c'
      · have : (e.1 == c') = true := by simp [he, hcc]
        rw [if_pos this]
        simp only [lookup_gAdd, hcc, true_and]
      · have : ¬ (e.1 == c') = true := by simp [he, hcc]
        rw [if_neg this]
        simp [hcc]
  · rw [if_neg hc]
    unfold cell
    rw [List.find?_append]
    by_cases hcc : c = c'
    · subst hcc
      have hn : m.find? (fun e => e.1 == c) = none := by
        rw [List.find?_eq_none]
        intro x hx hxc
        exact hc (List.any_eq_true.mpr ⟨x, hx, hxc⟩)
      rw [hn]
      simp [lookup_gAdd, lookup_nil]
    · have hs : [(c', gAdd [] q st)].find? (fun e => e.1 == c) = none := by
        simp [Ne.symm hcc]
      rw [hs]
      simp [hcc]

theorem cell_report (q c p : Nat) : ∀ (l : List (Nat × Nat)) (m : List (Nat × List (Nat × Nat))),
    cell (l.foldl (fun m e => sAdd m e.1 q e.2) m) c p =
      if p = q then (match lastFor l c with | some s => some s | none => cell m c p) else cell m c p
  | [], m => by simp [lastFor]
  | e :: t, m => by
    rw [List.foldl_cons, cell_report q c p t, cell_sAdd]
    simp only [lastFor]
    by_cases hp : p = q
    · simp only [hp, if_true, and_true]
      cases lastFor t c with
      | some s => rfl
      | none => by_cases hc : c = e.1 <;> simp [hc]
    · simp [hp]

/-- the last status member `p` reports for `c` in the reply table `t` -/
def repFor (t : List (Nat × Reply (List (Nat × Nat)))) (p c : Nat) : Option Nat :=
  match replyOf t p with
  | .ok l => lastFor l c
  | _ => none

theorem cell_members (t : List (Nat × Reply (List (Nat × Nat)))) (c p : Nat) :
    ∀ (ms : List Nat) (m : List (Nat × List (Nat × Nat))),
    cell (ms.foldl (fun m p =>
      match replyOf t p with
      | .ok l => l.foldl (fun m e => sAdd m e.1 p e.2) m
      | _ => m) m) c p =
      if p ∈ ms then (match repFor t p c with | some s => some s | none => cell m c p) else cell m c p
  | [], m => by simp
  | q :: ps, m => by
    rw [List.foldl_cons, cell_members t c p ps]
    have hstep : cell (match replyOf t q with
        | .ok l => l.foldl (fun m e => sAdd m e.1 q e.2) m
        | _ => m) c p =
        if p = q then (match repFor t p c with | some s => some s | none => cell m c p) else cell m c p := by
      by_cases hp : p = q
      · subst hp
        unfold repFor
        cases replyOf t p with
        | ok l => simp [cell_report]
        | err => simp
        | auth => simp
      · rw [if_neg hp]
        cases replyOf t q with
        | ok l => simp [cell_report, hp]
        | err => rfl
        | auth => rfl
    rw [hstep]
    by_cases hp : p = q
    · subst hp
      cases repFor t p c <;> simp
    · simp [hp]

theorem cell_errors (ps : List Nat) (m : List (Nat × List (Nat × Nat))) (c p : Nat) :
    cell (m.map (fun e => (e.1, setAll e.2 ps stClusterError))) c p =
      match m.find? (fun e => e.1 == c) with
      | some e => if p ∈ ps then some stClusterError else lookup e.2 p
      | none => none := by
  unfold cell
  rw [List.find?_map]
  have hf : ((fun e : Nat × List (Nat × Nat) => e.1 == c) ∘
      (fun e : Nat × List (Nat × Nat) => (e.1, setAll e.2 ps stClusterError))) = (fun e => e.1 == c) := rfl
  rw [hf]
  cases m.find? (fun e => e.1 == c) with
  | none => rfl
  | some e => simp [lookup_setAll]

theorem find_of_mem_nodup : ∀ {m : List (Nat × List (Nat × Nat))}, (ckeys m).Nodup → ∀ e ∈ m,
    m.find? (fun x => x.1 == e.1) = some e
  | [], _, e, he => by cases he
  | a :: t, hn, e, he => by
    unfold ckeys at hn
    rw [List.map_cons, List.nodup_cons] at hn
    rcases List.mem_cons.mp he with rfl | h
    · simp
    · have hne : a.1 ≠ e.1 := fun h' => hn.1 (h' ▸ List.mem_map_of_mem h)
      rw [List.find?_cons]
      have : (a.1 == e.1) = false := by simp [hne]
      rw [this]
      exact find_of_mem_nodup (m := t) hn.2 e h

/-- the map after the replies were merged, before the unreachable members are marked -/
def phase1 (i : GSliceInput) : List (Nat × List (Nat × Nat)) :=
  (if i.follower then [i.self] else i.members).foldl (fun m p =>
    match replyOf i.replies p with
    | .ok l => l.foldl (fun m e => sAdd m e.1 p e.2) m
    | _ => m) []

theorem globalSlice_eq (i : GSliceInput) :
    globalSlice i = (phase1 i).map (fun e => (e.1, setAll e.2 (erroredMembers i) stClusterError)) := by
  unfold globalSlice
  simp only
  rw [errFold_eq]
  rfl

theorem mem_erroredMembers (i : GSliceInput) (p : Nat) :
    p ∈ erroredMembers i ↔ p ∈ (if i.follower then [i.self] else i.members) ∧ replyOf i.replies p = .err := by
  unfold erroredMembers
  rw [List.mem_filter]
  cases replyOf i.replies p <;> simp

/-- EVERY cell of the listing: for a listed CID and any peer `p` of the member
list, the entry is — unreachable member: cluster_error; member that answered:
the status it reported last for that CID (absent if it reported none); member
that refused (authorization error): absent; a peer outside the list: absent. -/
theorem globalSlice_cell (i : GSliceInput) : ∀ e ∈ globalSlice i, ∀ p,
    lookup e.2 p =
      if p ∈ (if i.follower then [i.self] else i.members) then
        (match replyOf i.replies p with
         | .ok l => lastFor l e.1
         | .err => some stClusterError
         | .auth => none)
      else none := by
  intro e he p
  have hinv := globalSlice_inv i
  have hfind := find_of_mem_nodup hinv.1 e he
  have hcell : cell (globalSlice i) e.1 p = lookup e.2 p := by unfold cell; rw [hfind]
  rw [← hcell]
  rw [globalSlice_eq] at he ⊢
  rw [cell_errors]
  obtain ⟨x, hx, hxe⟩ := List.mem_map.mp he
  have hx1 : x.1 = e.1 := by rw [← hxe]
  have hinv0 : sliceInv (phase1 i) :=
    sliceInv_members i.replies (if i.follower then [i.self] else i.members)
      (m := []) ⟨List.nodup_nil, fun _ h => by cases h⟩
  have hfx := find_of_mem_nodup hinv0.1 x hx
  rw [hx1] at hfx
  rw [hfx]
  have hc : cell (phase1 i) e.1 p = _ :=
    cell_members i.replies e.1 p (if i.follower then [i.self] else i.members) []
  unfold cell at hc
  rw [hfx] at hc
  simp only [List.find?_nil] at hc
  show (if p ∈ erroredMembers i then some stClusterError else lookup x.2 p) = _
  rw [hc]
  have hme := mem_erroredMembers i p
  unfold repFor
  by_cases hm : p ∈ (if i.follower then [i.self] else i.members)
  · simp only [hm, true_and, if_true] at hme ⊢
    cases hr : replyOf i.replies p with
    | ok l =>
      have : p ∉ erroredMembers i := by rw [hme, hr]; exact fun h => by cases h
      rw [if_neg this]; simp only; cases lastFor l e.1 <;> rfl
    | err =>
      have : p ∈ erroredMembers i := by rw [hme, hr]
      rw [if_pos this]
    | auth =>
      have : p ∉ erroredMembers i := by rw [hme, hr]; exact fun h => by cases h
      rw [if_neg this]
  · have : p ∉ erroredMembers i := fun h => hm (hme.mp h).1
    rw [if_neg this, if_neg hm, if_neg hm]

end CV.C06
