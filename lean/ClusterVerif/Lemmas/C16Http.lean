import ClusterVerif.Model.C16
import Mathlib.Tactic.Cases
import Mathlib.Tactic.SplitIfs
import Mathlib.Tactic.ByCases
import Mathlib.Tactic.Tauto

/-! Lemmas about the HTTP layer: closed forms of the interpreted decision tables
(`Gen.doPostCtxDec`, `Gen.checkResponseDec`, `Gen.postCtxDec`), and what the classes the
connector tells apart mean in terms of them. -/
set_option linter.unusedSimpArgs false
namespace CV.C16
open Dec

/-! ### closed forms (these are the statements that depend on the generated tables) -/

theorem doPost_eq (f : Facts) : doPost f = doPostRef f := by
  unfold doPostRef
  obtain ⟨s, n, d, r, e⟩ := f
  cases n <;> cases d <;> rfl

theorem check_eq (f : Facts) : check f = checkRef f := by
  unfold checkRef
  obtain ⟨s, n, d, r, e⟩ := f
  by_cases h : s = 200
  · subst h; cases r <;> cases e <;> rfl
  · have h' : (s == 200) = false := by simp [h]
    cases r <;> cases e <;>
      simp (config := {decide := true}) [h', check, evalTable, Gen.checkResponseDec, Path.known, Cond.known,
        Val.known, Er.known, Cond.eval, Cmp.eval, evIsErr, List.find?, h]

theorem post_eq (f : Facts) : post f = postRef f := by
  unfold postRef
  obtain ⟨s, n, d, r, e⟩ := f
  by_cases h : s = 200
  · subst h; cases n <;> cases d <;> cases r <;> cases e <;> rfl
  · have h' : (s == 200) = false := by simp [h]
    cases n <;> cases d <;> cases r <;> cases e <;>
      simp (config := {decide := true}) [h', post, doPost_eq, check_eq, doPostRef, checkRef, evalTable, Gen.postCtxDec, Path.known,
        Cond.known, Val.known, Er.known, Cond.eval, Cmp.eval, evIsErr, List.find?, h, failClosed]

/-! ### every point of the product space, by cases

`wire_cases` splits a behaviour into status = 200 / ≠ 200, the six transports and the thirteen body
shapes, and lets `simp` evaluate the closed forms on each. -/

macro "wire_cases" b:ident : tactic => `(tactic| (
  obtain ⟨s, ct, body, tr⟩ := $b
  by_cases h200 : s = 200
  · subst h200
    rcases tr with _ | _ | _ | ⟨_ | _⟩ | _ <;>
    rcases body with _ | _ | ⟨_ | _ | _ | _⟩ | _ | _ | _ | _ | _ | _ | _ | _ | _ | _ <;>
      simp (config := {decide := true}) [clsPost, clsPlain, clsAdd, clsAt, clsFirst, clsErr, Beh.stalls, Beh.plain,
        post_eq, doPost_eq, check_eq, postRef, doPostRef, checkRef, Beh.facts, Body.decodesAsErrObj, Body.msg]
  · have h200' : (s == 200) = false := by simp [h200]
    rcases tr with _ | _ | _ | ⟨_ | _⟩ | _ <;>
    rcases body with _ | _ | ⟨_ | _ | _ | _⟩ | _ | _ | _ | _ | _ | _ | _ | _ | _ | _ <;>
      simp (config := {decide := true}) [clsPost, clsPlain, clsAdd, clsAt, clsFirst, clsErr, Beh.stalls, Beh.plain,
        post_eq, doPost_eq, check_eq, postRef, doPostRef, checkRef, Beh.facts, Body.decodesAsErrObj, Body.msg, h200, h200']))

theorem post_ok_iff (b : Beh) : (post b.facts).err = .none ↔ b.status = 200 ∧ b.transport = .full := by
  wire_cases b

theorem post_ok_body (f : Facts) (h : (post f).err = .none) : (post f).body = .body := by
  rw [post_eq] at h ⊢
  unfold postRef at h ⊢
  split_ifs at h ⊢ <;> simp_all

theorem post_ipfs_iff (b : Beh) :
    (post b.facts).err = .ipfs ↔ b.status ≠ 200 ∧ b.transport = .full ∧ b.body.decodesAsErrObj = true := by
  wire_cases b

/-- `PinLsCid` tells a network failure from an IPFS error by `body == nil && err != nil` -/
theorem post_nil_body_iff (f : Facts) :
    ((post f).body = .nil ∧ (post f).err ≠ .none) ↔
      ((post f).err = .transport ∨ (post f).err = .generic ∨ (post f).err = .read) := by
  rw [post_eq]
  unfold postRef
  split_ifs <;> simp

theorem post_read_iff (b : Beh) :
    (post b.facts).err = .read ↔ b.status = 200 ∧ (b.transport = .stallBody ∨ ∃ l, b.transport = .cut l) := by
  wire_cases b

theorem check_ok_iff (f : Facts) : (check f).err = .none ↔ f.status = 200 := by
  rw [check_eq]
  unfold checkRef
  split_ifs <;> simp_all

/-- the content type is never looked at -/
theorem ctype_irrelevant (a : Bool) (b : Beh) (c : CType) :
    clsAt a ⟨b.status, c, b.body, b.transport⟩ = clsAt a b ∧
    clsFirst ⟨b.status, c, b.body, b.transport⟩ = clsFirst b ∧
    post (Beh.facts ⟨b.status, c, b.body, b.transport⟩) = post b.facts := by
  refine ⟨?_, ?_, rfl⟩
  · cases a <;> wire_cases b
  · wire_cases b

/-! ### classes -/

theorem plain_transport (b : Beh) : b.plain.transport = b.transport := by
  unfold Beh.plain; split <;> rfl

theorem clsAt_ne_honestAny (a : Bool) (b : Beh) : clsAt a b ≠ .honestAny := by
  cases a <;> wire_cases b

theorem clsAt_false_ne_noProgress (b : Beh) : clsAt false b ≠ .noProgress := by
  wire_cases b

theorem clsFirst_eq (b : Beh) :
    clsFirst b = clsAt false b ∨ (clsFirst b = .honestAny ∧ clsAt false b = .honest) := by
  wire_cases b

/-- what each class of a plain request means on the wire -/
theorem clsPost_success_iff (b : Beh) :
    (clsPost b = .honest ∨ clsPost b = .honestAny ∨ clsPost b = .badBody) ↔
      (b.status = 200 ∧ b.transport = .full) := by
  wire_cases b

theorem clsPost_honest_iff (b : Beh) :
    clsPost b = .honest ↔ (b.status = 200 ∧ b.transport = .full ∧ b.body = .expected) := by
  wire_cases b

theorem clsPost_honestAny_iff (b : Beh) :
    clsPost b = .honestAny ↔ (b.status = 200 ∧ b.transport = .full ∧ b.body = .expectedAny) := by
  wire_cases b

/-- the tolerated reply to pin/rm: a complete non-200 reply carrying an error object with exactly the
ErrNotPinned text -/
theorem clsPost_notPinned_iff (b : Beh) :
    clsPost b = .notPinned ↔
      (b.status ≠ 200 ∧ b.transport = .full ∧ b.body = .errObj .notPinned) := by
  obtain ⟨s, ct, body, tr⟩ := b
  by_cases h200 : s = 200
  · subst h200
    rcases tr with _ | _ | _ | ⟨_ | _⟩ | _ <;>
    rcases body with _ | _ | ⟨_ | _ | _ | _⟩ | _ | _ | _ | _ | _ | _ | _ | _ | _ | _ <;>
      simp (config := {decide := true}) [clsPost, clsErr, Beh.stalls, post_eq, postRef, Beh.facts, Body.decodesAsErrObj, Body.msg]
  · have h200' : (s == 200) = false := by simp [h200]
    rcases tr with _ | _ | _ | ⟨_ | _⟩ | _ <;>
    rcases body with _ | _ | ⟨_ | _ | _ | _⟩ | _ | _ | _ | _ | _ | _ | _ | _ | _ | _ <;>
      simp (config := {decide := true}) [clsPost, clsErr, Beh.stalls, post_eq, postRef, Beh.facts, Body.decodesAsErrObj,
        Body.msg, h200, h200']

/-- an IPFS error object is recognised exactly on a complete non-200 reply whose body decodes -/
theorem clsPost_ipfs_iff (b : Beh) :
    (clsPost b = .ipfsErr ∨ clsPost b = .notPinned) ↔
      (b.status ≠ 200 ∧ b.transport = .full ∧ b.body.decodesAsErrObj = true) := by
  obtain ⟨s, ct, body, tr⟩ := b
  by_cases h200 : s = 200
  · subst h200
    rcases tr with _ | _ | _ | ⟨_ | _⟩ | _ <;>
    rcases body with _ | _ | ⟨_ | _ | _ | _⟩ | _ | _ | _ | _ | _ | _ | _ | _ | _ | _ <;>
      simp (config := {decide := true}) [clsPost, clsErr, Beh.stalls, post_eq, postRef, Beh.facts, Body.decodesAsErrObj, Body.msg]
  · have h200' : (s == 200) = false := by simp [h200]
    rcases tr with _ | _ | _ | ⟨_ | _⟩ | _ <;>
    rcases body with _ | _ | ⟨_ | _ | _ | _⟩ | _ | _ | _ | _ | _ | _ | _ | _ | _ | _ <;>
      simp (config := {decide := true}) [clsPost, clsErr, Beh.stalls, post_eq, postRef, Beh.facts, Body.decodesAsErrObj,
        Body.msg, h200, h200']

/-- pin/add is reported as done only for a complete 200 stream that carries no error -/
theorem clsAdd_success_iff (b : Beh) :
    (clsAdd b = .honest ∨ clsAdd b = .slowOk) ↔
      (b.status = 200 ∧ b.transport = .full ∧
        (b.body = .expected ∨ b.body = .expectedAny ∨ b.body = .otherObj ∨ b.body = .jnull ∨ b.body = .empty ∨
          b.body = .slow)) := by
  wire_cases b

end CV.C16
