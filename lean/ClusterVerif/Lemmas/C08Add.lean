import ClusterVerif.Model.C08Add
import ClusterVerif.Lemmas.C08
import Std.Data.String.ToInt
/-! Lemmas for the query form of the add parameters (`Model/C08Add.lean`). -/
namespace CV.C08.Add
open CV.C08

theorem digits_ok (n : Nat) : ∀ c ∈ Nat.toDigits 10 n, c ≠ '+' ∧ c ≠ '_' := by
  intro c hc
  have h := Nat.isDigit_of_mem_toDigits (by decide) (by decide) hc
  constructor <;> (intro e; subst e; revert h; decide)

theorem digits_any (n : Nat) : (Nat.toDigits 10 n).any (· == '_') = false := by
  rw [List.any_eq_false]
  intro c hc
  have := (digits_ok n c hc).2
  simpa using this

theorem repr_toList (i : Int) : (∃ c rest, (Int.repr i).toList = c :: rest ∧ c ≠ '+') ∧ (Int.repr i).toList.any (· == '_') = false := by
  rw [Int.repr_eq_if]
  split
  · rw [Nat.toList_repr]
    refine ⟨?_, digits_any _⟩
    cases h : Nat.toDigits 10 i.toNat with
    | nil => exact absurd h Nat.toDigits_ne_nil
    | cons c rest => exact ⟨c, rest, rfl, (digits_ok i.toNat c (by rw [h]; simp)).1⟩
  · rw [String.toList_append, Nat.toList_repr]
    refine ⟨⟨'-', _, rfl, by decide⟩, ?_⟩
    show (['-'] ++ _).any _ = false
    rw [List.any_append, digits_any]; rfl

theorem atoi_showInt (i : Int) (h : inInt64 i = true) : showInt i ≠ "" ∧ atoi (showInt i) = some i := by
  obtain ⟨⟨c, rest, hl, hc⟩, hany⟩ := repr_toList i
  have hs : showInt i = Int.repr i := rfl
  constructor
  · intro he
    rw [hs] at he
    rw [he] at hl
    simp at hl
  · unfold atoi
    simp only [hs, hany, Bool.false_eq_true, if_false]
    rw [hl]
    split
    · rename_i heq
      injection heq with h1 _
      exact absurd h1 hc
    · simp [Int.toInt?_repr, h]

theorem parseBool_fmtBool (b : Bool) : parseBool (fmtBool b) = some b := by cases b <;> decide

theorem fmtBool_ne_empty (b : Bool) : (fmtBool b == "") = false := by cases b <;> decide

theorem boolParam_of_get {q : Params} {k : String} {b : Bool} (cur : Bool) (h : getP q k = fmtBool b) :
    boolParam q k cur = some b := by
  simp [boolParam, h, fmtBool_ne_empty, parseBool_fmtBool]

theorem intParam_of_get {q : Params} {k : String} {i : Int} (cur : Int) (hi : inInt64 i = true) (h : getP q k = showInt i) :
    intParam q k cur = some i := by
  have ⟨hne, ha⟩ := atoi_showInt i hi
  simp [intParam, h, hne, ha]

theorem fromParams_toParams (x : AddX) (hwf : wfX x = true) : fromParams (toParams x) = some x := by
  have hshard : getP (toParams x) "shard" = fmtBool x.shard := by rfl
  have hlocal : getP (toParams x) "local" = fmtBool x.local_ := by rfl
  have hrec : getP (toParams x) "recursive" = fmtBool x.recursive := by rfl
  have hlayout : getP (toParams x) "layout" = x.layout := by rfl
  have hchunker : getP (toParams x) "chunker" = x.chunker := by rfl
  have hraw : getP (toParams x) "raw-leaves" = fmtBool x.rawLeaves := by rfl
  have hhidden : getP (toParams x) "hidden" = fmtBool x.hidden := by rfl
  have hwrap : getP (toParams x) "wrap-with-directory" = fmtBool x.wrap := by rfl
  have hprog : getP (toParams x) "progress" = fmtBool x.progress := by rfl
  have hcid : getP (toParams x) "cid-version" = showInt x.cidVersion := by rfl
  have hhash : getP (toParams x) "hash" = x.hashFun := by rfl
  have hsc : getP (toParams x) "stream-channels" = fmtBool x.streamChannels := by rfl
  have hnc : getP (toParams x) "nocopy" = fmtBool x.noCopy := by rfl
  have hfmt : getP (toParams x) "format" = x.format := by rfl
  simp only [wfX, Bool.and_eq_true] at hwf
  obtain ⟨⟨⟨⟨⟨h1, h2⟩, h3⟩, h4⟩, h5⟩, h6⟩ := hwf
  unfold fromParams
  simp only [hlayout, hchunker, hhash, hfmt, boolParam_of_get _ hshard, boolParam_of_get _ hlocal, boolParam_of_get _ hrec,
    boolParam_of_get _ hraw, boolParam_of_get _ hhidden, boolParam_of_get _ hwrap, boolParam_of_get _ hprog,
    boolParam_of_get _ hsc, boolParam_of_get _ hnc, intParam_of_get _ h6 hcid, hcid]
  have hcond : (!isSha256 x.hashFun && x.cidVersion == 0) = false := by
    cases hs : isSha256 x.hashFun
    · simp [hs] at h5 ⊢; exact h5
    · simp
  have hcond' : ¬ (isSha256 x.hashFun = false ∧ x.cidVersion = 0) := by
    intro ⟨a, b⟩; simp [a, b] at hcond
  simp only [List.contains_cons, List.contains_nil, Bool.or_false, Bool.or_eq_true, beq_iff_eq] at h1 h2
  simp [h3, h4, hcond]
  refine ⟨?_, ?_, ?_, ?_⟩
  · intro a b; rcases h1 with h | h | h <;> simp_all
  · intro a b; rcases h2 with h | h | h <;> simp_all
  · intro a b; exact absurd ⟨a, b⟩ hcond'
  · simp [hcond']

end CV.C08.Add
