import ClusterVerif.Model.C02Keys
/-! # C02 round 8c: lemmas for the well-formed-writers and key-namespace theorems (core tactics only) -/
namespace CV.C02
namespace Hk

theorem mem_of_mem_firsts : ∀ (l seen : List Key) (k : Key), k ∈ firsts seen l → k ∈ l
  | [], _, _, h => by simp [firsts] at h
  | a :: t, seen, k, h => by
    unfold firsts at h
    split at h
    · exact List.mem_cons_of_mem _ (mem_of_mem_firsts t seen k h)
    · rcases List.mem_cons.1 h with h | h
      · exact h ▸ List.mem_cons_self
      · exact List.mem_cons_of_mem _ (mem_of_mem_firsts t _ k h)

theorem putTombs_hooks_wf (enc : Enc) (r : Rep) (ts : List (Key × Id))
    (hts : ts.all (fun t => wfKey enc t.1) = true) : ∀ h ∈ (r.putTombs ts).2, wfHook enc h = true := by
  intro h hm
  simp only [Rep.putTombs, List.mem_map] at hm
  obtain ⟨k, hk, rfl⟩ := hm
  have hk' := mem_of_mem_firsts _ _ _ hk
  obtain ⟨t, ht, rfl⟩ := List.mem_map.1 hk'
  exact (List.all_eq_true.1 hts) t ht

theorem putElems_hooks_wf (enc : Enc) (r : Rep) (id : Id) (prio : Nat) (es : List (Key × Val))
    (hes : es.all (fun e => wfKV enc e.1 e.2) = true) : ∀ h ∈ (r.putElems id prio es).2, wfHook enc h = true := by
  intro h hm
  simp only [Rep.putElems, List.mem_map] at hm
  obtain ⟨e, he, rfl⟩ := hm
  exact (List.all_eq_true.1 hes) e (List.mem_filter.1 he).1

theorem foldl_vals_wf (enc : Enc) (prio : Nat) : ∀ (ws : List (Key × Val)) (vs : List (Key × (Nat × Val))),
    ws.all (fun e => wfKV enc e.1 e.2) = true → vs.all (fun e => wfKV enc e.1 e.2.2) = true →
    (ws.foldl (fun vs e => (e.1, (prio, e.2)) :: vs) vs).all (fun e => wfKV enc e.1 e.2.2) = true
  | [], _, _, hv => hv
  | w :: ws, vs, hw, hv => by
    simp only [List.all_cons, Bool.and_eq_true] at hw
    exact foldl_vals_wf enc prio ws _ hw.2 (by simp only [List.all_cons, Bool.and_eq_true]; exact ⟨hw.1, hv⟩)

theorem filter_all {α} (p q : α → Bool) (l : List α) (h : l.all p = true) : (l.filter q).all p = true :=
  List.all_eq_true.2 (fun x hx => (List.all_eq_true.1 h) x (List.mem_filter.1 hx).1)

theorem putTombs_wf (enc : Enc) (r : Rep) (ts : List (Key × Id)) (hr : wfRep enc r = true)
    (hts : ts.all (fun t => wfKey enc t.1) = true) : wfRep enc (r.putTombs ts).1 = true := by
  simp only [wfRep, Bool.and_eq_true] at hr ⊢
  simp only [Rep.putTombs, List.all_append, Bool.and_eq_true]
  exact ⟨⟨hr.1.1, hr.1.2⟩, hts, hr.2⟩

theorem wfKey_of_wfKV (enc : Enc) (k : Key) (v : Val) (h : wfKV enc k v = true) : wfKey enc k = true := by
  simp only [wfKV, wfKey, wfHook] at h ⊢
  split at h <;> simp_all [cidOfKey]

theorem putElems_wf (enc : Enc) (r : Rep) (id : Id) (prio : Nat) (es : List (Key × Val)) (hr : wfRep enc r = true)
    (hes : es.all (fun e => wfKV enc e.1 e.2) = true) : wfRep enc (r.putElems id prio es).1 = true := by
  simp only [wfRep, Bool.and_eq_true] at hr ⊢
  simp only [Rep.putElems, List.all_append, Bool.and_eq_true]
  refine ⟨⟨foldl_vals_wf enc prio _ _ (filter_all _ _ _ hes) hr.1.1, ?_, hr.1.2⟩, hr.2⟩
  apply List.all_eq_true.2
  intro x hx
  obtain ⟨e, he, rfl⟩ := List.mem_map.1 hx
  exact wfKey_of_wfKV enc e.1 e.2 ((List.all_eq_true.1 hes) e he)

theorem merge_wf (enc : Enc) (r : Rep) (d : Delta) (hr : wfRep enc r = true) (hd : wfDelta enc d = true) :
    wfRep enc (r.merge d).1 = true ∧ ∀ h ∈ (r.merge d).2, wfHook enc h = true := by
  simp only [wfDelta, Bool.and_eq_true] at hd
  refine ⟨putElems_wf enc _ _ _ _ (putTombs_wf enc r _ hr hd.2) hd.1, ?_⟩
  intro h hm
  simp only [Rep.merge, List.mem_append] at hm
  rcases hm with hm | hm
  · exact putTombs_hooks_wf enc r _ hd.2 h hm
  · exact putElems_hooks_wf enc _ _ _ _ hd.1 h hm

theorem mergeAll_wf (enc : Enc) : ∀ (l : List Delta) (r : Rep), wfRep enc r = true →
    (∀ d ∈ l, wfDelta enc d = true) →
    wfRep enc (mergeAll l r) = true ∧ ∀ h ∈ mergeAllHooks l r, wfHook enc h = true
  | [], r, hr, _ => ⟨hr, by simp [mergeAllHooks]⟩
  | d :: l, r, hr, hl => by
    have h1 := merge_wf enc r d hr (hl d List.mem_cons_self)
    have h2 := mergeAll_wf enc l (r.merge d).1 h1.1 (fun d' hd' => hl d' (List.mem_cons_of_mem _ hd'))
    refine ⟨by simpa [mergeAll] using h2.1, ?_⟩
    intro h hm
    simp only [mergeAllHooks, List.mem_append] at hm
    rcases hm with hm | hm
    · exact h1.2 h hm
    · exact h2.2 h hm

/-- the pending delta of a batch of logged operations stays well-formed -/
theorem pend_add_wf (enc : Enc) (p : Pend) (r : Rep) (o : BOp) (hp : wfPend enc p = true) (hr : wfRep enc r = true)
    (ho : wfOp enc o = true) : wfPend enc (p.add r o) = true := by
  simp only [wfPend, Bool.and_eq_true] at hp ⊢
  cases o with
  | put k v =>
    simp only [Pend.add, List.all_append, Bool.and_eq_true, List.all_cons, List.all_nil, Bool.and_true]
    exact ⟨⟨hp.1, ho⟩, hp.2⟩
  | del k =>
    simp only [Pend.add, List.all_append, Bool.and_eq_true]
    refine ⟨filter_all _ _ _ hp.1, hp.2, ?_⟩
    simp only [wfRep, Bool.and_eq_true] at hr
    exact filter_all _ _ _ hr.1.2

/-! ### whole histories: local batches of logged operations and remote deltas, in any order -/

/-- what happens at one replica: a delta written by another peer is merged, or the local worker publishes the
    batch of the operations `ops` it was handed by LogPin/LogUnpin (`Pend.add` on the replica as it is now; a batch
    of one operation = batching off) under DAG-node id `id` at priority `prio` -/
inductive WEv where
  | remote (d : Delta)
  | localBatch (ops : List BOp) (id : Id) (prio : Nat)
  deriving Repr

def pendOf (r : Rep) (ops : List BOp) : Pend := ops.foldl (fun p o => p.add r o) {}

def WEv.delta (r : Rep) : WEv → Delta
  | .remote d => d
  | .localBatch ops id prio => { id := id, prio := prio, elems := (pendOf r ops).elems, tombs := (pendOf r ops).tombs }

/-- written by a peer running this code -/
def WEv.wf (enc : Enc) : WEv → Bool
  | .remote d => wfDelta enc d
  | .localBatch ops _ _ => ops.all (wfOp enc)

def wrun : List WEv → Rep → Rep × List Hook
  | [], r => (r, [])
  | e :: es, r =>
    let m := r.merge (e.delta r)
    let rest := wrun es m.1
    (rest.1, m.2 ++ rest.2)

theorem foldl_add_wf (enc : Enc) (r : Rep) (hr : wfRep enc r = true) : ∀ (ops : List BOp) (p : Pend),
    wfPend enc p = true → ops.all (wfOp enc) = true → wfPend enc (ops.foldl (fun p o => p.add r o) p) = true
  | [], _, hp, _ => hp
  | o :: ops, p, hp, ho => by
    simp only [List.all_cons, Bool.and_eq_true] at ho
    exact foldl_add_wf enc r hr ops _ (pend_add_wf enc p r o hp hr ho.1) ho.2

theorem wev_delta_wf (enc : Enc) (r : Rep) (hr : wfRep enc r = true) (e : WEv) (he : e.wf enc = true) :
    wfDelta enc (e.delta r) = true := by
  cases e with
  | remote d => exact he
  | localBatch ops id prio =>
    have := foldl_add_wf enc r hr ops {} (by simp [wfPend]) he
    simpa [wfPend, wfDelta, WEv.delta, pendOf] using this

theorem wrun_wf (enc : Enc) : ∀ (es : List WEv) (r : Rep), wfRep enc r = true → (∀ e ∈ es, e.wf enc = true) →
    wfRep enc (wrun es r).1 = true ∧ ∀ h ∈ (wrun es r).2, wfHook enc h = true
  | [], r, hr, _ => ⟨hr, by simp [wrun]⟩
  | e :: es, r, hr, hes => by
    have h1 := merge_wf enc r (e.delta r) hr (wev_delta_wf enc r hr e (hes e List.mem_cons_self))
    have h2 := wrun_wf enc es _ h1.1 (fun e' he' => hes e' (List.mem_cons_of_mem _ he'))
    refine ⟨h2.1, ?_⟩
    intro h hm
    simp only [wrun, List.mem_append] at hm
    rcases hm with hm | hm
    · exact h1.2 h hm
    · exact h2.2 h hm

/-! ### key namespace -/

theorem unkey_stKey (ns : DsKey) (c : Nat) : unkey (stKey ns c) = some c := by
  simp [unkey, stKey]

theorem stKey_under (ns : DsKey) (c : Nat) : underPrefix ns (stKey ns c) = true := by
  simp [underPrefix, stKey]

theorem stKey_inj (ns : DsKey) (c c' : Nat) (h : stKey ns c = stKey ns c') : c = c' := by
  have := congrArg unkey h
  simpa [unkey_stKey] using this

end Hk
end CV.C02
