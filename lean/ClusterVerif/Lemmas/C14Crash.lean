import ClusterVerif.Lemmas.C14
import ClusterVerif.Spec.C14Crash

/-!
# C14 — lemmas for the crash points: closed form of every state the rotation passes through
-/
set_option linter.unusedSimpArgs false
set_option linter.unusedVariables false
namespace CV.C14

variable {α : Type}

theorem dirs_ext {a b : Dirs α} (h1 : a.data = b.data) (h2 : ∀ i, a.old i = b.old i) : a = b := by
  cases a; cases b
  simp only [Dirs.mk.injEq]
  exact ⟨h1, funext h2⟩

/-- the backup slots after `j` steps of the rename loop over `n` names -/
def renamed (n j : Nat) (o : Nat → Option β) : Nat → Option β :=
  fun i => if n - 1 - j < i ∧ i ≤ n - 1 then o (i - 1) else if i = n - 1 - j ∧ 0 < j then none else o i

theorem renamed_zero (n : Nat) (o : Nat → Option β) : renamed n 0 o = o := by
  funext i
  unfold renamed
  split_ifs with h1 h2
  · omega
  · omega
  · rfl

theorem length_renameSteps : ∀ n : Nat, (renameSteps n : List (FsStep α)).length = n - 1
  | 0 => rfl
  | 1 => rfl
  | n + 2 => by simp [renameSteps, length_renameSteps (n + 1)]

theorem applyStep_mv_data (junk : Folder α) (d : Dirs α) (a b : Nat) : (applyStep junk d (.mv a b)).data = d.data := rfl

theorem renames_take (junk : Folder α) : ∀ (n : Nat) (d : Dirs α) (j : Nat), j ≤ n - 1 →
    applySteps junk d ((renameSteps n).take j) = { d with old := renamed n j d.old } := by
  intro n
  induction n with
  | zero =>
    intro d j hj
    have : j = 0 := by omega
    subst this
    simp [applySteps, renamed_zero]
  | succ n ih =>
    intro d j hj
    cases n with
    | zero =>
      have : j = 0 := by omega
      subst this
      simp [applySteps, renamed_zero]
    | succ m =>
      cases j with
      | zero => simp [applySteps, renamed_zero]
      | succ j' =>
        have h := ih (applyStep junk d (.mv m (m + 1))) j' (by omega)
        simp only [applySteps] at h
        simp only [renameSteps, List.take_succ_cons, applySteps, List.foldl_cons]
        rw [h]
        apply dirs_ext
        · rfl
        · intro i
          simp only [renamed, applyStep]
          split_ifs <;> first | rfl | omega | (congr 1; omega)

/-- number of names the rename loop of `makeBackup` walks over -/
def nOf (keep : Nat) (d : Dirs α) : Nat :=
  if firstGap d.old keep ≥ keep then firstGap d.old keep else firstGap d.old keep + 1

/-- the folders once the oldest backup is gone (window full) — else unchanged -/
def afterRemoval (keep : Nat) (d : Dirs α) : Dirs α :=
  if firstGap d.old keep ≥ keep then { d with old := fun k => if k = firstGap d.old keep - 1 then none else d.old k } else d

/-- the folders when `makeBackup` is through -/
def finalForm (keep : Nat) (d : Dirs α) : Dirs α :=
  { data := none, old := fun k => if k = 0 then d.data else (renamed (nOf keep d) (nOf keep d - 1) (afterRemoval keep d).old k) }

/-- every state `makeBackup` passes through -/
inductive BForm (junk : Folder α) (keep : Nat) (d : Dirs α) : Dirs α → Prop where
  | init : BForm junk keep d d
  | damaged : keep ≤ firstGap d.old keep →
      BForm junk keep d { d with old := fun k => if k = firstGap d.old keep - 1 then some junk else d.old k }
  | moving (j : Nat) : j ≤ nOf keep d - 1 →
      BForm junk keep d (Dirs.mk (afterRemoval keep d).data (renamed (nOf keep d) j (afterRemoval keep d).old))
  | final : BForm junk keep d (finalForm keep d)

theorem afterRemoval_data (keep : Nat) (d : Dirs α) : (afterRemoval keep d).data = d.data := by
  unfold afterRemoval; split_ifs <;> rfl

theorem take_append_le {β : Type} (a b : List β) (k : Nat) (h : k ≤ a.length) : (a ++ b).take k = a.take k := by
  rw [List.take_append]
  have : k - a.length = 0 := by omega
  simp [this]

theorem take_append_ge {β : Type} (a b : List β) (k : Nat) (h : a.length ≤ k) : (a ++ b).take k = a ++ b.take (k - a.length) := by
  rw [List.take_append, List.take_of_length_le h]

theorem applySteps_append (junk : Folder α) (d : Dirs α) (a b : List (FsStep α)) :
    applySteps junk d (a ++ b) = applySteps junk (applySteps junk d a) b := by
  simp [applySteps, List.foldl_append]

/-- rename loop and the final move, cut anywhere -/
theorem tail_forms (junk : Folder α) (keep : Nat) (d : Dirs α) (k : Nat) :
    let s := applySteps junk (afterRemoval keep d) ((renameSteps (nOf keep d) ++ [FsStep.mvData]).take k)
    (∃ j, j ≤ nOf keep d - 1 ∧ s = Dirs.mk (afterRemoval keep d).data (renamed (nOf keep d) j (afterRemoval keep d).old)) ∨
    s = finalForm keep d := by
  intro s
  by_cases hk : k ≤ nOf keep d - 1
  · left
    refine ⟨k, hk, ?_⟩
    show applySteps junk _ _ = _
    rw [take_append_le _ _ _ (by rw [length_renameSteps]; exact hk)]
    exact renames_take junk _ _ _ hk
  · right
    show applySteps junk _ _ = _
    have hl : (renameSteps (nOf keep d) : List (FsStep α)).length = nOf keep d - 1 := length_renameSteps _
    rw [List.take_of_length_le (by simp [hl]; omega), applySteps_append]
    have h := renames_take junk (nOf keep d) (afterRemoval keep d) (nOf keep d - 1) (Nat.le_refl _)
    rw [List.take_of_length_le (Nat.le_of_eq hl)] at h
    rw [h]
    simp only [applySteps, List.foldl_cons, List.foldl_nil, applyStep, afterRemoval_data]
    rfl

theorem backup_forms (junk : Folder α) (keep : Nat) (d : Dirs α) (k : Nat) :
    BForm junk keep d (crashAt junk d (backupSteps keep d) k) := by
  unfold crashAt backupSteps
  by_cases hfull : firstGap d.old keep ≥ keep
  · simp only [hfull, if_true]
    have hn : nOf keep d = firstGap d.old keep := by unfold nOf; simp [hfull]
    match k with
    | 0 => simp [applySteps]; exact .init
    | 1 =>
      simp only [List.append_assoc, List.cons_append, List.nil_append, List.take_succ_cons, List.take_zero, applySteps,
        List.foldl_cons, List.foldl_nil, applyStep]
      exact .damaged hfull
    | k + 2 =>
      simp only [List.append_assoc, List.cons_append, List.nil_append, List.take_succ_cons, applySteps, List.foldl_cons]
      have hrem : applyStep junk (applyStep junk d (.damage (firstGap d.old keep - 1))) (.rmOld (firstGap d.old keep - 1)) =
          afterRemoval keep d := by
        unfold afterRemoval
        simp only [hfull, if_true, applyStep]
        apply dirs_ext
        · rfl
        · intro i
          simp only
          split_ifs <;> rfl
      rw [hrem, ← hn]
      rcases tail_forms junk keep d k with ⟨j, hj, h⟩ | h
      · simp only [applySteps] at h
        rw [h]; exact .moving j hj
      · simp only [applySteps] at h
        rw [h]; exact .final
  · simp only [hfull, if_false]
    have hn : nOf keep d = firstGap d.old keep + 1 := by unfold nOf; simp [hfull]
    have hrem : afterRemoval keep d = d := by unfold afterRemoval; simp [hfull]
    rw [← hn]
    rcases tail_forms junk keep d k with ⟨j, hj, h⟩ | h
    · rw [hrem] at h; rw [h]; have := BForm.moving (junk := junk) (keep := keep) (d := d) j hj; rwa [hrem] at this
    · rw [hrem] at h; rw [h]; exact BForm.final

/-- the final form is what the rotation model computes -/
theorem final_eq_makeBackup {keep : Nat} (hk : 1 ≤ keep) (d : Dirs α) (f : Folder α) (hd : d.data = some f) :
    makeBackup keep d = some (finalForm keep d) := by
  have hle := firstGap_le d.old keep
  unfold makeBackup
  rw [hd]
  simp only [show ¬ keep = 0 by omega, if_false]
  congr 1
  apply dirs_ext
  · rfl
  intro i
  simp only [finalForm, renamed, nOf, afterRemoval]
  by_cases hfull : firstGap d.old keep ≥ keep
  · simp only [hfull, if_true]
    split_ifs <;> first | rfl | exact hd.symm | omega | (congr 1; omega)
  · simp only [hfull, if_false]
    split_ifs <;> first | rfl | exact hd.symm | omega | (congr 1; omega)

theorem firstGap_eq_of {β : Type} (o : Nat → Option β) (k g : Nat) (hg : g < k) (hs : ∀ j < g, (o j).isSome = true)
    (hn : (o g).isSome = false) : firstGap o k = g := by
  have h1 := firstGap_ge o k g (by omega) hs
  by_contra hne
  have h2 : g < firstGap o k := by omega
  have h3 := firstGap_some o k g h2
  rw [hn] at h3
  cases h3

theorem firstGap_congr {β : Type} (o o' : Nat → Option β) : ∀ k, (∀ j < k, (o j).isSome = (o' j).isSome) →
    firstGap o k = firstGap o' k := by
  intro k
  induction k with
  | zero => intro _; rfl
  | succ k ih =>
    intro h
    simp only [firstGap]
    rw [ih (fun j hj => h j (by omega)), h k (by omega)]

/-- what holds in every state the rotation passes through -/
theorem form_facts {keep : Nat} (hk : 1 ≤ keep) (junk : Folder α) (d : Dirs α) (f : Folder α) (hd : d.data = some f)
    (c : Dirs α) (hc : BForm junk keep d c) :
    (c.data = some f ∨ c.old 0 = some f) ∧
    (∀ i x, d.old i = some x → (i + 1 = keep ∧ ∀ j < keep, (d.old j).isSome = true) ∨ c.old i = some x ∨ c.old (i + 1) = some x) ∧
    (∀ i, keep ≤ i → c.old i = d.old i) ∧
    (c.data = some f ∨ c = finalForm keep d) := by
  have hle := firstGap_le d.old keep
  have hsome := firstGap_some d.old keep
  have hnone := firstGap_none d.old keep
  cases hc with
  | init => exact ⟨Or.inl hd, fun i x hx => Or.inr (Or.inl hx), fun _ _ => rfl, Or.inl hd⟩
  | damaged hfull =>
    refine ⟨Or.inl hd, ?_, ?_, Or.inl hd⟩
    · intro i x hx
      by_cases hi : i = firstGap d.old keep - 1
      · left
        exact ⟨by omega, fun j hj => hsome j (by omega)⟩
      · right; left
        simp only [hi, if_false, hx]
    · intro i hi
      simp only [show ¬ i = firstGap d.old keep - 1 by omega, if_false]
  | moving j hj =>
    refine ⟨Or.inl (by rw [afterRemoval_data]; exact hd), ?_, ?_, Or.inl (by rw [afterRemoval_data]; exact hd)⟩
    · intro i x hx
      by_cases hfull : firstGap d.old keep ≥ keep
      · by_cases hi : i = firstGap d.old keep - 1
        · left
          exact ⟨by omega, fun j hj => hsome j (by omega)⟩
        · right
          simp only [renamed, afterRemoval, nOf, hfull, if_true] at hj ⊢
          by_cases h1 : firstGap d.old keep - 1 - j ≤ i ∧ i + 1 ≤ firstGap d.old keep - 1
          · right
            rw [if_pos (by omega)]
            simp only [Nat.add_sub_cancel, hi, if_false, hx]
          · left
            rw [if_neg (by omega), if_neg (by omega)]
            simp only [hi, if_false, hx]
      · have hgap : (d.old (firstGap d.old keep)).isSome = false := hnone (by omega)
        have hi : i ≠ firstGap d.old keep := by
          intro h; rw [h] at hx; rw [hx] at hgap; cases hgap
        right
        simp only [renamed, afterRemoval, nOf, hfull, if_false] at hj ⊢
        by_cases h1 : firstGap d.old keep + 1 - 1 - j ≤ i ∧ i + 1 ≤ firstGap d.old keep + 1 - 1
        · right
          rw [if_pos (by omega)]
          simp only [Nat.add_sub_cancel, hx]
        · left
          rw [if_neg (by omega), if_neg (by omega)]
          exact hx
    · intro i hi
      simp only [renamed, afterRemoval, nOf] at hj ⊢
      by_cases hfull : firstGap d.old keep ≥ keep
      · simp only [hfull, if_true] at hj ⊢
        rw [if_neg (by omega), if_neg (by omega), if_neg (by omega)]
      · simp only [hfull, if_false] at hj ⊢
        rw [if_neg (by omega), if_neg (by omega)]
  | final =>
    refine ⟨Or.inr (by simp [finalForm, hd]), ?_, ?_, Or.inr rfl⟩
    · intro i x hx
      by_cases hfull : firstGap d.old keep ≥ keep
      · by_cases hi : i = firstGap d.old keep - 1
        · left
          exact ⟨by omega, fun j hj => hsome j (by omega)⟩
        · right
          simp only [finalForm, renamed, afterRemoval, nOf, hfull, if_true]
          by_cases h1 : i + 1 ≤ firstGap d.old keep - 1
          · right
            rw [if_neg (by omega), if_pos (by omega)]
            simp only [Nat.add_sub_cancel, hi, if_false, hx]
          · left
            rw [if_neg (by omega), if_neg (by omega), if_neg (by omega)]
            simp only [hi, if_false, hx]
      · have hgap : (d.old (firstGap d.old keep)).isSome = false := hnone (by omega)
        have hi : i ≠ firstGap d.old keep := by
          intro h; rw [h] at hx; rw [hx] at hgap; cases hgap
        right
        simp only [finalForm, renamed, afterRemoval, nOf, hfull, if_false]
        by_cases h1 : i + 1 ≤ firstGap d.old keep + 1 - 1
        · right
          rw [if_neg (by omega), if_pos (by omega)]
          simp only [Nat.add_sub_cancel, hx]
        · left
          rw [if_neg (by omega), if_neg (by omega), if_neg (by omega)]
          exact hx
    · intro i hi
      simp only [finalForm, renamed, afterRemoval, nOf]
      by_cases hfull : firstGap d.old keep ≥ keep
      · simp only [hfull, if_true]
        rw [if_neg (by omega), if_neg (by omega), if_neg (by omega), if_neg (by omega)]
      · simp only [hfull, if_false]
        rw [if_neg (by omega), if_neg (by omega), if_neg (by omega)]

/-- two rotations with the same explicit description are the same -/
theorem makeBackup_congr {keep : Nat} (hk : 1 ≤ keep) (c d : Dirs α) (f : Folder α) (hc : c.data = some f) (hd : d.data = some f)
    (h : ∀ nc nd, (firstGap c.old keep < keep → nc = firstGap c.old keep + 1) → (keep ≤ firstGap c.old keep → nc = keep) →
      (firstGap d.old keep < keep → nd = firstGap d.old keep + 1) → (keep ≤ firstGap d.old keep → nd = keep) →
      ∀ i, 0 < i → (if i < nc then c.old (i - 1) else c.old i) = (if i < nd then d.old (i - 1) else d.old i)) :
    makeBackup keep c = makeBackup keep d := by
  obtain ⟨a, n, ha, hda, hoa, _, _, _, hn1, hn2⟩ := makeBackup_eq hk d f hd
  obtain ⟨a', n', ha', hda', hoa', _, _, _, hn1', hn2'⟩ := makeBackup_eq hk c f hc
  rw [ha, ha']
  congr 1
  apply dirs_ext
  · rw [hda, hda']
  · intro i
    rw [hoa, hoa']
    by_cases hi : i = 0
    · simp [hi]
    · simp only [hi, if_false]
      exact h n' n hn1' hn2' hn1 hn2 i (by omega)

/-- a restart of the rotation from any state it passed through (data folder still in place) ends
    where the uninterrupted rotation ends -/
theorem form_restart {keep : Nat} (hk : 1 ≤ keep) (junk : Folder α) (d : Dirs α) (f : Folder α) (hd : d.data = some f)
    (c : Dirs α) (hc : BForm junk keep d c) (hcd : c.data = some f) : makeBackup keep c = makeBackup keep d := by
  have hle := firstGap_le d.old keep
  have hsome := firstGap_some d.old keep
  have hnone := firstGap_none d.old keep
  cases hc with
  | init => rfl
  | damaged hfull =>
    apply makeBackup_congr hk _ _ f hcd hd
    intro nc nd h1 h2 h3 h4 i hi
    have hfg : firstGap (fun k => if k = firstGap d.old keep - 1 then some junk else d.old k) keep = firstGap d.old keep := by
      apply firstGap_congr
      intro j hj
      by_cases hjj : j = firstGap d.old keep - 1
      · simp only [hjj, if_true]
        rw [hsome _ (by omega)]; rfl
      · simp only [hjj, if_false]
    simp only [hfg] at h1 h2
    have hnc : nc = keep := h2 hfull
    have hnd : nd = keep := h4 hfull
    subst hnc; subst hnd
    simp only
    split_ifs <;> first | rfl | omega
  | moving j hj =>
    apply makeBackup_congr hk _ _ f hcd hd
    intro nc nd h1 h2 h3 h4 i hi
    have hn1 : 1 ≤ nOf keep d := by unfold nOf; split_ifs <;> omega
    have hnk : nOf keep d ≤ keep := by unfold nOf; split_ifs <;> omega
    have hfg : firstGap (renamed (nOf keep d) j (afterRemoval keep d).old) keep = nOf keep d - 1 - j := by
      apply firstGap_eq_of _ _ _ (by omega)
      · intro i hi
        simp only [renamed]
        rw [if_neg (by omega), if_neg (by omega)]
        unfold afterRemoval nOf at *
        by_cases hfull : firstGap d.old keep ≥ keep
        · simp only [hfull, if_true] at hi ⊢
          rw [if_neg (by omega)]
          exact hsome i (by omega)
        · simp only [hfull, if_false] at hi ⊢
          exact hsome i (by omega)
      · simp only [renamed]
        rw [if_neg (by omega)]
        by_cases hj0 : 0 < j
        · simp [hj0]
        · rw [if_neg (by omega)]
          have hj00 : j = 0 := by omega
          subst hj00
          unfold afterRemoval nOf
          by_cases hfull : firstGap d.old keep ≥ keep
          · simp only [hfull, if_true, Nat.sub_zero]; rfl
          · simp only [hfull, if_false, Nat.add_sub_cancel, Nat.sub_zero]
            exact hnone (by omega)
    simp only [hfg] at h1 h2
    have hnc : nc = nOf keep d - 1 - j + 1 := h1 (by omega)
    subst hnc
    simp only [renamed]
    unfold afterRemoval nOf at *
    by_cases hfull : firstGap d.old keep ≥ keep
    · have hnd : nd = keep := h4 hfull
      subst hnd
      simp only [hfull, if_true] at hj hn1 hnk ⊢
      split_ifs <;> first | rfl | omega | (congr 1; omega)
    · have hnd : nd = firstGap d.old keep + 1 := h3 (by omega)
      subst hnd
      simp only [hfull, if_false] at hj hn1 hnk ⊢
      split_ifs <;> first | rfl | omega | (congr 1; omega)
  | final => simp [finalForm] at hcd

/-- all steps of the rotation: the final form -/
theorem backup_all (junk : Folder α) {keep : Nat} (hk : 1 ≤ keep) (d : Dirs α) (f : Folder α) (hd : d.data = some f) :
    applySteps junk d (backupSteps keep d) = finalForm keep d := by
  have hform := backup_forms junk keep d (backupSteps keep d).length
  unfold crashAt at hform
  rw [List.take_length] at hform
  have hdata : (applySteps junk d (backupSteps keep d)).data = none := by
    simp only [backupSteps, applySteps_append]
    rfl
  rcases (form_facts hk junk d f hd _ hform).2.2.2 with h | h
  · rw [hdata] at h; cases h
  · exact h

theorem crashAt_ge (junk : Folder α) (d : Dirs α) (l : List (FsStep α)) (k : Nat) (h : l.length ≤ k) :
    crashAt junk d l k = applySteps junk d l := by
  unfold crashAt
  rw [List.take_of_length_le h]

/-! ### the peerstore file -/

theorem foldl_writeTmp (fl : Option (List Line)) : ∀ (L t : List Line),
    (L.map PStep.writeTmp).foldl applyP { file := fl, tmp := some t } = { file := fl, tmp := some (t ++ L) } := by
  intro L
  induction L with
  | nil => intro t; simp
  | cons x L ih =>
    intro t
    simp only [List.map_cons, List.foldl_cons, applyP, Option.map_some]
    rw [ih]
    simp

theorem foldl_keeps_file : ∀ (l : List PStep) (f : PFiles), (∀ s ∈ l, s = PStep.createTmp ∨ ∃ x, s = PStep.writeTmp x) →
    (l.foldl applyP f).file = f.file := by
  intro l
  induction l with
  | nil => intro f _; rfl
  | cons s l ih =>
    intro f h
    simp only [List.foldl_cons]
    rw [ih _ (fun s' hs' => h s' (List.mem_cons_of_mem _ hs'))]
    rcases h s List.mem_cons_self with rfl | ⟨x, rfl⟩ <;> rfl

/-- the whole save from any state of the two files -/
theorem psave_all (f : PFiles) (pinfos : List (Nat × List Nat)) :
    (psaveSteps pinfos).foldl applyP f = { file := some (save pinfos), tmp := none } := by
  unfold psaveSteps
  simp only [List.foldl_append, List.foldl_cons, List.foldl_nil, applyP]
  rw [foldl_writeTmp]
  simp

/-! ### peers after importing an arbitrary file -/

theorem lastIdx_isSome_of_acc (p : Nat) : ∀ (l : List Line) (i : Nat) (acc : Option Nat), acc.isSome = true →
    (lastIdx p l i acc).isSome = true := by
  intro l
  induction l with
  | nil => intro i acc h; exact h
  | cons x t ih =>
    intro i acc h
    simp only [lastIdx]
    apply ih
    cases x with
    | full a q => by_cases hq : q = p <;> simp [hq, h]
    | _ => exact h

theorem lastIdx_isSome_of_mem (p a : Nat) : ∀ (l : List Line) (i : Nat) (acc : Option Nat), Line.full a p ∈ l →
    (lastIdx p l i acc).isSome = true := by
  intro l
  induction l with
  | nil => intro i acc h; cases h
  | cons x t ih =>
    intro i acc h
    simp only [lastIdx]
    rcases List.mem_cons.1 h with rfl | h
    · apply lastIdx_isSome_of_acc
      simp
    · exact ih _ _ h

theorem full_mem_load {a p : Nat} {file : List Line} : Line.full a p ∈ load file ↔ Line.full a p ∈ file := by
  unfold load
  rw [List.mem_filter]
  exact ⟨fun h => h.1, fun h => ⟨h, rfl⟩⟩

theorem mem_importedAddrs {self p a : Nat} {L : List Line} :
    a ∈ importedAddrs self L p ↔ Line.full a p ∈ L ∧ p ≠ self := by
  unfold importedAddrs
  rw [List.mem_filterMap]
  constructor
  · rintro ⟨l, hl, h⟩
    cases l with
    | full b q =>
      by_cases hc : q = p ∧ p ≠ self
      · obtain ⟨rfl, hps⟩ := hc
        simp only [hps, ne_eq, not_false_eq_true, and_self, if_true, Option.some.injEq] at h
        subst h
        exact ⟨hl, hps⟩
      · simp only [hc, if_false] at h
        cases h
    | _ => cases h
  · rintro ⟨hl, hps⟩
    exact ⟨_, hl, by simp [hps]⟩

/-! ### priority order after importing an arbitrary file -/

theorem mem_collapse {x : Nat} : ∀ {l : List Nat}, x ∈ l → x ∈ collapse l := by
  intro l
  induction l with
  | nil => intro h; cases h
  | cons a t ih =>
    intro h
    cases t with
    | nil => exact h
    | cons b t' =>
      simp only [collapse]
      by_cases hab : (a == b) = true
      · simp only [hab, if_true]
        have : a = b := by simpa using hab
        rcases List.mem_cons.1 h with rfl | h
        · exact ih (this ▸ List.mem_cons_self)
        · exact ih h
      · simp only [hab]
        rcases List.mem_cons.1 h with rfl | h
        · exact List.mem_cons_self
        · exact List.mem_cons_of_mem _ (ih h)

theorem contiguous_tail {p : Nat} {l : List Nat} (h : contiguous (p :: l) = true) : contiguous l = true := by
  unfold contiguous at *
  cases l with
  | nil => rfl
  | cons q t =>
    simp only [collapse] at h
    by_cases hpq : (p == q) = true
    · rw [if_pos hpq] at h; exact h
    · rw [if_neg hpq] at h
      simp only [nodupNat, Bool.and_eq_true] at h
      exact h.2

theorem contiguous_head {p : Nat} {l : List Nat} (h : contiguous (p :: l) = true) (hp : p ∈ l) : ∃ r, l = p :: r := by
  unfold contiguous at h
  cases l with
  | nil => cases hp
  | cons q t =>
    by_cases hpq : (p == q) = true
    · exact ⟨t, by have : p = q := by simpa using hpq
                   rw [this]⟩
    · simp only [collapse] at h
      rw [if_neg hpq] at h
      have hm := mem_collapse hp
      have hc : (collapse (q :: t)).contains p = true := by simpa using hm
      simp only [nodupNat, hc, Bool.not_true, Bool.false_and] at h
      cases h

theorem lastIdx_cons_self (p a : Nat) (t : List Line) (i : Nat) (acc : Option Nat) :
    lastIdx p (Line.full a p :: t) i acc = lastIdx p t (i + 1) (some i) := by
  simp [lastIdx]

theorem lastIdx_cons_other (p : Nat) (x : Line) (t : List Line) (i : Nat) (acc : Option Nat) (hx : ∀ a, x ≠ Line.full a p) :
    lastIdx p (x :: t) i acc = lastIdx p t (i + 1) acc := by
  simp only [lastIdx]
  cases x with
  | full a q =>
    have : q ≠ p := fun h => hx a (by rw [h])
    simp [this]
  | _ => rfl

theorem lastIdx_acc_irrel (p : Nat) : ∀ (l : List Line) (i : Nat) (acc1 acc2 : Option Nat), (∃ a, Line.full a p ∈ l) →
    lastIdx p l i acc1 = lastIdx p l i acc2 := by
  intro l
  induction l with
  | nil => intro i a1 a2 h; obtain ⟨a, h⟩ := h; cases h
  | cons x t ih =>
    intro i a1 a2 h
    obtain ⟨a, h⟩ := h
    by_cases hx : ∃ a', x = Line.full a' p
    · obtain ⟨a', rfl⟩ := hx
      rw [lastIdx_cons_self, lastIdx_cons_self]
    · have hx' : ∀ a', x ≠ Line.full a' p := fun a' he => hx ⟨a', he⟩
      rw [lastIdx_cons_other p x t i a1 hx', lastIdx_cons_other p x t i a2 hx']
      rcases List.mem_cons.1 h with rfl | h
      · exact absurd rfl (hx' a)
      · exact ih (i + 1) a1 a2 ⟨a, h⟩

theorem lastIdx_ge_or (p : Nat) : ∀ (l : List Line) (i : Nat) (acc : Option Nat) (b : Nat),
    lastIdx p l i acc = some b → acc = some b ∨ i ≤ b := by
  intro l
  induction l with
  | nil => intro i acc b h; exact Or.inl h
  | cons x t ih =>
    intro i acc b h
    by_cases hx : ∃ a', x = Line.full a' p
    · obtain ⟨a', rfl⟩ := hx
      rw [lastIdx_cons_self] at h
      rcases ih (i + 1) (some i) b h with h1 | h1
      · cases h1; exact Or.inr (Nat.le_refl _)
      · exact Or.inr (by omega)
    · have hx' : ∀ a', x ≠ Line.full a' p := fun a' he => hx ⟨a', he⟩
      rw [lastIdx_cons_other p x t i acc hx'] at h
      rcases ih (i + 1) acc b h with h1 | h1
      · exact Or.inl h1
      · exact Or.inr (by omega)

theorem lastIdx_ge (p : Nat) (l : List Line) (i b : Nat) (h : lastIdx p l i none = some b) : i ≤ b := by
  rcases lastIdx_ge_or p l i none b h with h1 | h1
  · cases h1
  · exact h1

def Rlast (L : List Line) (i : Nat) (p q : Nat) : Prop :=
  ∃ a b, lastIdx p L i none = some a ∧ lastIdx q L i none = some b ∧ a < b

theorem linePeers_cons_full {self a p : Nat} (t : List Line) (hp : p ≠ self) :
    linePeers self (Line.full a p :: t) = p :: linePeers self t := by
  simp [linePeers, List.filterMap_cons, hp]

theorem linePeers_cons_other {self : Nat} (x : Line) (t : List Line) (hx : ∀ a p, x = Line.full a p → p = self) :
    linePeers self (x :: t) = linePeers self t := by
  unfold linePeers
  rw [List.filterMap_cons]
  cases x with
  | full a p => have := hx a p rfl; subst this; simp
  | _ => rfl

theorem mem_linePeers {self p : Nat} : ∀ {L : List Line}, p ∈ linePeers self L ↔ p ≠ self ∧ ∃ a, Line.full a p ∈ L := by
  intro L
  unfold linePeers
  rw [List.mem_filterMap]
  constructor
  · rintro ⟨l, hl, h⟩
    cases l with
    | full a q =>
      by_cases hq : (q == self) = true
      · simp [hq] at h
      · simp only [hq] at h
        cases h
        exact ⟨by simpa using hq, a, hl⟩
    | _ => cases h
  · rintro ⟨hps, a, ha⟩
    exact ⟨_, ha, by simp [hps]⟩

theorem mem_dedupKeepFirst {x : Nat} : ∀ {l : List Nat}, x ∈ dedupKeepFirst l ↔ x ∈ l := by
  intro l
  induction l with
  | nil => simp [dedupKeepFirst]
  | cons a t ih =>
    simp only [dedupKeepFirst, List.mem_cons, List.mem_filter, ih, bne_iff_ne, ne_eq]
    constructor
    · rintro (h | ⟨h, _⟩)
      · exact Or.inl h
      · exact Or.inr h
    · rintro (h | h)
      · exact Or.inl h
      · by_cases hxa : x = a
        · exact Or.inl hxa
        · exact Or.inr ⟨h, hxa⟩

/-- peers in the order of their first line have increasing last-line indices when every peer's lines are adjacent -/
theorem dedup_prio_increasing (self : Nat) : ∀ (L : List Line) (i : Nat), contiguous (linePeers self L) = true →
    (dedupKeepFirst (linePeers self L)).Pairwise (Rlast L i) := by
  intro L
  induction L with
  | nil => intro i _; exact List.Pairwise.nil
  | cons x t ih =>
    intro i hc
    by_cases hx : ∃ a p0, x = Line.full a p0 ∧ p0 ≠ self
    · obtain ⟨a, p0, rfl, hp0⟩ := hx
      rw [linePeers_cons_full t hp0] at hc ⊢
      have iht := ih (i + 1) (contiguous_tail hc)
      simp only [dedupKeepFirst]
      have hother : ∀ q, q ≠ p0 → lastIdx q (Line.full a p0 :: t) i none = lastIdx q t (i + 1) none := by
        intro q hq
        apply lastIdx_cons_other
        intro a' he
        injection he with _ h2
        exact hq h2.symm
      rw [List.pairwise_cons]
      constructor
      · intro q hq
        rw [List.mem_filter] at hq
        obtain ⟨hqD, hqne⟩ := hq
        have hqne' : q ≠ p0 := by simpa using hqne
        have hqS : q ∈ linePeers self t := mem_dedupKeepFirst.1 hqD
        obtain ⟨_, aq, haq⟩ := mem_linePeers.1 hqS
        obtain ⟨b, hb⟩ := Option.isSome_iff_exists.1 (lastIdx_isSome_of_mem q aq t (i + 1) none haq)
        have hbge := lastIdx_ge q t (i + 1) b hb
        by_cases hin : p0 ∈ linePeers self t
        · obtain ⟨r, hr⟩ := contiguous_head hc hin
          rw [hr] at iht hqD
          simp only [dedupKeepFirst] at iht hqD
          rw [List.pairwise_cons] at iht
          rcases List.mem_cons.1 hqD with h | h
          · exact absurd h hqne'
          · obtain ⟨a1, b1, h1, h2, h3⟩ := iht.1 q h
            obtain ⟨_, ap, hap⟩ := mem_linePeers.1 hin
            refine ⟨a1, b1, ?_, ?_, h3⟩
            · rw [lastIdx_cons_self, lastIdx_acc_irrel p0 t (i + 1) (some i) none ⟨ap, hap⟩]; exact h1
            · rw [hother q hqne']; exact h2
        · have habs : ∀ a', Line.full a' p0 ∉ t := fun a' ha' => hin (mem_linePeers.2 ⟨hp0, a', ha'⟩)
          refine ⟨i, b, ?_, ?_, by omega⟩
          · rw [lastIdx_cons_self, lastIdx_absent p0 t (i + 1) (some i) habs]
          · rw [hother q hqne']; exact hb
      · have hsub : ((dedupKeepFirst (linePeers self t)).filter (· != p0)).Pairwise (Rlast t (i + 1)) :=
          List.Pairwise.sublist List.filter_sublist iht
        refine List.Pairwise.imp_of_mem ?_ hsub
        intro p q hp hq ⟨a1, b1, h1, h2, h3⟩
        have hpne : p ≠ p0 := by simpa using (List.mem_filter.1 hp).2
        have hqne : q ≠ p0 := by simpa using (List.mem_filter.1 hq).2
        exact ⟨a1, b1, by rw [hother p hpne]; exact h1, by rw [hother q hqne]; exact h2, h3⟩
    · have hx' : ∀ a p, x = Line.full a p → p = self := by
        intro a p he
        by_contra hne
        exact hx ⟨a, p, he, hne⟩
      rw [linePeers_cons_other x t hx'] at hc ⊢
      have iht := ih (i + 1) hc
      refine List.Pairwise.imp_of_mem ?_ iht
      intro p q hp hq ⟨a1, b1, h1, h2, h3⟩
      have hne : ∀ r, r ∈ dedupKeepFirst (linePeers self t) → ∀ a', x ≠ Line.full a' r := by
        intro r hr a' he
        have := hx' a' r he
        exact (mem_linePeers.1 (mem_dedupKeepFirst.1 hr)).1 this
      exact ⟨a1, b1, by rw [lastIdx_cons_other p x t i none (hne p hp)]; exact h1,
        by rw [lastIdx_cons_other q x t i none (hne q hq)]; exact h2, h3⟩

end CV.C14
