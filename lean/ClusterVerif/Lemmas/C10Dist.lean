import ClusterVerif.Model.C10Dist
import Mathlib.Data.List.Basic
/-! C10 — lemmas for the byte level of the distance checker (util.go) -/
namespace CV.C10.Dist
open CV

theorem xor_mul_add (i a b c d : Nat) (hb : b < 2 ^ i) (hd : d < 2 ^ i) :
    (2 ^ i * a + b) ^^^ (2 ^ i * c + d) = 2 ^ i * (a ^^^ c) + (b ^^^ d) := by
  apply Nat.eq_of_testBit_eq
  intro j
  have hbd : b ^^^ d < 2 ^ i := Nat.xor_lt_two_pow hb hd
  rw [Nat.testBit_xor, Nat.testBit_two_pow_mul_add _ hb, Nat.testBit_two_pow_mul_add _ hd,
    Nat.testBit_two_pow_mul_add _ hbd]
  split <;> simp [Nat.testBit_xor]

theorem isBytes_cons (x : Nat) (xs : Bytes) : isBytes (x :: xs) = true ↔ x < 256 ∧ isBytes xs = true := by
  simp [isBytes]

theorem beVal_lt (b : Bytes) (h : isBytes b = true) : beVal b < 2 ^ (8 * b.length) := by
  induction b with
  | nil => simp [beVal]
  | cons x xs ih =>
    obtain ⟨hx, hxs⟩ := (isBytes_cons x xs).1 h
    have := ih hxs
    have e : 2 ^ (8 * (x :: xs).length) = 2 ^ (8 * xs.length) * 256 := by
      simp [List.length_cons, Nat.mul_add, Nat.pow_add]
    rw [e]
    simp only [beVal]
    have h1 : 2 ^ (8 * xs.length) * (x + 1) ≤ 2 ^ (8 * xs.length) * 256 := Nat.mul_le_mul_left _ hx
    rw [Nat.mul_add, Nat.mul_one] at h1
    omega

theorem length_xorB (a b : Bytes) (hl : a.length = b.length) : (xorB a b).length = a.length := by
  induction a generalizing b with
  | nil => cases b <;> simp [xorB]
  | cons x xs ih =>
    cases b with
    | nil => simp at hl
    | cons y ys => simp [xorB, ih ys (by simpa using hl)]

theorem isBytes_xorB (a b : Bytes) (ha : isBytes a = true) (hb : isBytes b = true) : isBytes (xorB a b) = true := by
  induction a generalizing b with
  | nil => cases b <;> simp [xorB, isBytes]
  | cons x xs ih =>
    cases b with
    | nil => simp [xorB, isBytes]
    | cons y ys =>
      obtain ⟨hx, hxs⟩ := (isBytes_cons x xs).1 ha
      obtain ⟨hy, hys⟩ := (isBytes_cons y ys).1 hb
      simp only [xorB]
      rw [isBytes_cons]
      exact ⟨Nat.xor_lt_two_pow (n := 8) hx hy, ih ys hxs hys⟩

/-- the big-endian value of the byte-wise xor is the xor of the big-endian values -/
theorem beVal_xorB (a b : Bytes) (hl : a.length = b.length) (ha : isBytes a = true) (hb : isBytes b = true) :
    beVal (xorB a b) = beVal a ^^^ beVal b := by
  induction a generalizing b with
  | nil =>
    cases b with
    | nil => simp [xorB, beVal]
    | cons y ys => simp at hl
  | cons x xs ih =>
    cases b with
    | nil => simp at hl
    | cons y ys =>
      obtain ⟨_, hxs⟩ := (isBytes_cons x xs).1 ha
      obtain ⟨_, hys⟩ := (isBytes_cons y ys).1 hb
      have hl' : xs.length = ys.length := by simpa using hl
      simp only [xorB, beVal]
      rw [length_xorB xs ys hl', ih ys hl' hxs hys]
      have h1 := beVal_lt xs hxs
      have h2 := beVal_lt ys hys
      rw [← hl'] at h2 ⊢
      exact (xor_mul_add _ _ _ _ _ h1 h2).symm

/-- `bytes.Compare` on equal-length byte strings is the numeric order of their big-endian values -/
theorem cmpB_eq (a b : Bytes) (hl : a.length = b.length) (ha : isBytes a = true) (hb : isBytes b = true) :
    cmpB a b = if beVal a < beVal b then .lt else if beVal a > beVal b then .gt else .eq := by
  induction a generalizing b with
  | nil =>
    cases b with
    | nil => simp [cmpB, beVal]
    | cons y ys => simp at hl
  | cons x xs ih =>
    cases b with
    | nil => simp at hl
    | cons y ys =>
      obtain ⟨_, hxs⟩ := (isBytes_cons x xs).1 ha
      obtain ⟨_, hys⟩ := (isBytes_cons y ys).1 hb
      have hl' : xs.length = ys.length := by simpa using hl
      have h1 := beVal_lt xs hxs
      have h2 := beVal_lt ys hys
      rw [← hl'] at h2
      have hPy : 2 ^ (8 * ys.length) = 2 ^ (8 * xs.length) := by rw [hl']
      simp only [cmpB, beVal, hPy]
      generalize hP : 2 ^ (8 * xs.length) = P at h1 h2 ⊢
      by_cases hxy : x < y
      · have : P * (x + 1) ≤ P * y := Nat.mul_le_mul_left _ hxy
        rw [Nat.mul_add, Nat.mul_one] at this
        have hlt : P * x + beVal xs < P * y + beVal ys := by omega
        simp [hxy, hlt]
      · by_cases hyx : y < x
        · have : P * (y + 1) ≤ P * x := Nat.mul_le_mul_left _ hyx
          rw [Nat.mul_add, Nat.mul_one] at this
          have hgt : P * y + beVal ys < P * x + beVal xs := by omega
          have hnl : ¬ (P * x + beVal xs < P * y + beVal ys) := by omega
          simp [hxy, hyx, hgt, hnl]
        · have he : x = y := by omega
          subst he
          rw [ih ys hl' hxs hys]
          simp [Nat.add_lt_add_iff_left]

theorem cmpB_gt_iff (a b : Bytes) (hl : a.length = b.length) (ha : isBytes a = true) (hb : isBytes b = true) :
    (cmpB a b == .gt) = decide (beVal a > beVal b) := by
  rw [cmpB_eq a b hl ha hb]
  by_cases h1 : beVal a < beVal b
  · have : ¬ beVal a > beVal b := by omega
    simp [h1, this]
  · by_cases h2 : beVal a > beVal b <;> simp [h1, h2]

/-! ### the cache -/

theorem get_cons (c : Cache) (id id' : Nat) (h : Bytes) :
    Cache.get ((id, h) :: c) id' = if id == id' then some h else c.get id' := by
  unfold Cache.get C04.lookup
  simp only [List.find?_cons]
  by_cases e : id == id' <;> simp [e]

theorem convertPeerID_spec (hashFn : Nat → Bytes) (c : Cache) (id : Nat) (hc : Consistent hashFn c) :
    (convertPeerID hashFn c id).1 = hashFn id ∧ Consistent hashFn (convertPeerID hashFn c id).2 := by
  unfold convertPeerID
  cases hg : c.get id with
  | some h => exact ⟨hc id h hg, hc⟩
  | none =>
    refine ⟨rfl, ?_⟩
    intro id' h' hget
    rw [get_cons] at hget
    by_cases e : id == id'
    · simp [e] at hget
      have : id = id' := by simpa using e
      subst this
      exact hget.symm
    · simp [e] at hget
      exact hc id' h' hget

theorem scan_spec (hashFn : Nat → Bytes) (ch my : Bytes) (ps : List Nat) (c : Cache) (hc : Consistent hashFn c) :
    (scan hashFn ch my c ps).1 = ps.all (fun p => !(cmpB my (xorB (hashFn p) ch) == .gt)) ∧
    Consistent hashFn (scan hashFn ch my c ps).2 := by
  induction ps generalizing c with
  | nil => exact ⟨rfl, hc⟩
  | cons p ps ih =>
    obtain ⟨h1, h2⟩ := convertPeerID_spec hashFn c p hc
    simp only [scan, List.all_cons]
    rw [h1]
    by_cases hg : (cmpB my (xorB (hashFn p) ch) == .gt) = true
    · simp only [hg, if_true, Bool.not_true, Bool.false_and]
      exact ⟨trivial, h2⟩
    · have hg' : (cmpB my (xorB (hashFn p) ch) == .gt) = false := by simpa using hg
      simp only [hg', Bool.false_eq_true, if_false, Bool.not_false, Bool.true_and]
      exact ih _ h2

end CV.C10.Dist
