import ClusterVerif.Model.C10Dist
namespace CV.C10.Dist
end CV.C10.Dist
