import ClusterVerif.Lemmas.C04
import ClusterVerif.Lemmas.PinMap
import ClusterVerif.Model.C04Faults
import ClusterVerif.Spec.C04Conc

/-! Helper lemmas for consensus faults and overlapping calls (Props/C04 states the theorems). -/
namespace CV.C04
open CV

theorem applyLog_unpins (cs : List Nat) (m : PinMap) :
    applyLog (cs.map .logUnpin) m = cs.foldl PinMap.erase m := by
  induction cs generalizing m with
  | nil => rfl
  | cons c t ih => simp only [List.map_cons, applyLog, List.foldl_cons, applyEntry]; exact ih _

/-- every call's new pinset is its consensus calls applied to the pinset it read -/
theorem post_eq_applyLog {T : List Nat} {pre : PinMap} {out : Out} (h : Shape T pre out) :
    out.post = applyLog out.log pre := by
  cases h with
  | refused _ hp hl => rw [hp, hl]; rfl
  | logged p _ _ hp hl => rw [hp, hl]; rfl
  | erased p cs _ _ hp hl => rw [hp, hl, applyLog_unpins]

/-- cids a call's consensus calls write -/
def touched (l : List LogEntry) (k : Nat) : Bool :=
  l.any (fun e => match e with | .logPin p => p.cid == k | .logUnpin c => c == k)

theorem touched_unpins (cs : List Nat) (k : Nat) : touched (cs.map LogEntry.logUnpin) k = decide (k ∈ cs) := by
  unfold touched
  induction cs with
  | nil => simp
  | cons c t ih =>
    simp only [List.map_cons, List.any_cons, ih, List.mem_cons]
    by_cases h : c = k
    · simp [h]
    · have h' : ¬ k = c := fun e => h e.symm
      simp [h, h']

theorem wf_applyLog (l : List LogEntry) {m : PinMap} (hw : m.wf = true) : (applyLog l m).wf = true := by
  induction l generalizing m with
  | nil => exact hw
  | cons e t ih =>
    simp only [applyLog, List.foldl_cons]
    apply ih
    cases e with
    | logPin p => exact wf_put hw _
    | logUnpin c => exact wf_erase hw c

/-- what a call's consensus calls leave at `k` does not depend on the pinset they hit (a put overwrites, an erase
    removes), and elsewhere they change nothing -/
theorem get_applyLog_of_shape {T : List Nat} {pre : PinMap} {out : Out} (h : Shape T pre out)
    (hpre : pre.wf = true) {s : PinMap} (hs : s.wf = true) (k : Nat) :
    (applyLog out.log s).get k = if touched out.log k then out.post.get k else s.get k := by
  cases h with
  | refused _ hp hl => rw [hl]; simp [applyLog, touched]
  | logged p _ _ hp hl =>
    rw [hl, hp]
    simp only [applyLog, List.foldl_cons, List.foldl_nil, applyEntry, touched, List.any_cons, List.any_nil, Bool.or_false]
    rw [get_put hs, get_put hpre]
    by_cases hk : p.cid = k
    · simp [hk, stored_cid]
    · simp [hk, stored_cid]
  | erased p cs _ _ hp hl =>
    rw [hl, hp, applyLog_unpins, get_foldl_erase, get_foldl_erase]
    rw [touched_unpins]
    by_cases hk : k ∈ cs <;> simp [hk]

/-! ### the sharded unpin, call by call -/

theorem unpin_meta_log {cfg : Cfg} {pre : PinMap} {c r : Nat} {p q : Pin} {links : List Nat}
    (hfol : cfg.follower = false) (hp : pre.get c = some p) (hty : p.type = .metaT) (hr : p.ref = some r)
    (hq : pre.get r = some q) (hb : lookup cfg.blocks r = some links) (ch : List Nat) :
    (step cfg pre (.unpin c) ch).log = (links.reverse ++ [r, c, c]).map .logUnpin ∧
    (step cfg pre (.unpin c) ch).res = some p ∧
    shardedCalls cfg pre c = links.reverse ++ [r, c, c] := by
  refine ⟨?_, ?_, ?_⟩
  · simp [step, unpinOp, hfol, hp, hty, hr, hq, hb]
  · simp [step, unpinOp, hfol, hp, hty, hr, hq, hb]
  · simp [shardedCalls, hp, hty, hr, hq, hb]

theorem stepF_fault {cfg : Cfg} {pre : PinMap} {op : Op} {ch : List Nat} {k : Nat}
    (hk : k < (step cfg pre op ch).log.length) :
    (stepF cfg pre op ch (some k)).res = none ∧
    (stepF cfg pre op ch (some k)).post = applyLog ((step cfg pre op ch).log.take k) pre ∧
    (stepF cfg pre op ch (some k)).log = (step cfg pre op ch).log.take k := by
  simp [stepF, hk]

theorem log_length_le_one_of_not_erased {T : List Nat} {pre : PinMap} {out : Out} (h : Shape T pre out)
    (hne : ∀ (p : Pin) (cs : List Nat), out.log = cs.map LogEntry.logUnpin → out.res = some p → cs.length ≤ 1) : out.log.length ≤ 1 := by
  cases h with
  | refused _ _ hl => simp [hl]
  | logged p _ _ _ hl => simp [hl]
  | erased p cs _ hr _ hl => rw [hl, List.length_map]; exact hne p cs hl hr

end CV.C04
