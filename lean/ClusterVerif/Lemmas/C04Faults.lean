import ClusterVerif.Lemmas.C04
import ClusterVerif.Model.C04Faults
import ClusterVerif.Spec.C04Conc
namespace CV.C04
end CV.C04
