/-
C12 — helper lemmas: escaping round trip, query rewriting by slashHandler,
the router over the generated table against the Spec's definition of a
hijacked request, and one lemma per handler model.
-/
import ClusterVerif.Spec.C12
import Mathlib.Tactic.SplitIfs
import Mathlib.Tactic.Cases
set_option linter.unusedSimpArgs false
namespace CV.C12

/-! ## literals -/

@[simp] theorem lit_empty : b!"" = [] := by decide
theorem lit_api : b!"api" = [97,112,105] := by decide
theorem lit_v0 : b!"v0" = [118,48] := by decide
theorem lit_pin : b!"pin" = [112,105,110] := by decide
theorem lit_add : b!"add" = [97,100,100] := by decide
theorem lit_rm : b!"rm" = [114,109] := by decide
theorem lit_ls : b!"ls" = [108,115] := by decide
theorem lit_update : b!"update" = [117,112,100,97,116,101] := by decide
theorem lit_repo : b!"repo" = [114,101,112,111] := by decide
theorem lit_stat : b!"stat" = [115,116,97,116] := by decide
theorem lit_gc : b!"gc" = [103,99] := by decide

/-! ## escaping -/

theorem hexVal_hexDigit : ∀ n, n < 16 → hexVal (hexDigit n) = some n := by decide

theorem shouldEscape_37 : shouldEscape 37 = true := by decide

theorem pctDecode_cons_ne (c : Nat) (rest d : Bytes) (h : c ≠ 37) (hr : pctDecode false rest = some d) :
    pctDecode false (c :: rest) = some (c :: d) := by
  unfold pctDecode
  simp [h, hr]

theorem pctDecode_pct (plus : Bool) (a b h l : Nat) (r d : Bytes) (ha : hexVal a = some h) (hb : hexVal b = some l)
    (hr : pctDecode plus r = some d) :
    pctDecode plus (37 :: a :: b :: r) = some ((h * 16 + l) :: d) := by
  unfold pctDecode
  simp [ha, hb, hr]

theorem validEncoded_of_rfc (s : Bytes) (h : rfcValidPath s = true) : validEncoded s = true := by
  simp only [rfcValidPath, Bool.and_eq_true, List.all_eq_true] at h
  simp only [validEncoded, List.all_eq_true]
  intro c hc
  have := h.1 c hc
  simp [pchar, shouldEscape, isAlnum] at this ⊢
  omega

/-- url.unescape (url.escape s) = s -/
theorem pctDecode_goEscape (s : Bytes) (h : ∀ c ∈ s, c < 256) : pctDecode false (goEscape s) = some s := by
  induction s with
  | nil => simp [goEscape, pctDecode]
  | cons c cs ih =>
    have hc : c < 256 := h c (by simp)
    have ih' := ih (fun x hx => h x (by simp [hx]))
    by_cases he : shouldEscape c = true
    · have h1 : c / 16 < 16 := by omega
      have h2 : c % 16 < 16 := by omega
      simp only [goEscape, he, if_true]
      rw [pctDecode_pct false _ _ _ _ _ _ (hexVal_hexDigit _ h1) (hexVal_hexDigit _ h2) ih']
      simp only [Option.some.injEq, List.cons.injEq, and_true]
      omega
    · have hne : c ≠ 37 := by
        intro h37; subst h37; exact he shouldEscape_37
      simp only [goEscape, he]
      exact pctDecode_cons_ne _ _ _ hne ih'

theorem fwdPath_of_rfc (raw p : Bytes) (h : rfcValidPath raw = true) : fwdPath raw p = raw := by
  simp [fwdPath, validEncoded_of_rfc raw h]

theorem fwdPath_decodes (raw p : Bytes) (hd : pctDecode false raw = some p) (hb : ∀ c ∈ p, c < 256) :
    pctDecode false (fwdPath raw p) = some p := by
  unfold fwdPath
  split_ifs
  · exact hd
  · exact pctDecode_goEscape p hb

theorem hexVal_lt (a h : Nat) (ha : hexVal a = some h) : h < 16 := by
  unfold hexVal at ha
  split_ifs at ha <;> simp at ha <;> omega

theorem pctDecode_lt (plus : Bool) (s : Bytes) : ∀ d, (∀ c ∈ s, c < 256) → pctDecode plus s = some d → ∀ c ∈ d, c < 256 := by
  induction s using pctDecode.induct (plus := plus) with
  | case1 => intro d _ h; simp [pctDecode] at h; subst h; simp
  | case2 a b r h l d' hr hb ha ih =>
    intro d hs hd
    unfold pctDecode at hd
    simp [ha, hb, hr] at hd; subst hd
    have h1 := hexVal_lt _ _ ha
    have h2 := hexVal_lt _ _ hb
    intro c hc
    simp at hc
    rcases hc with hc | hc
    · omega
    · exact ih d' (fun x hx => hs x (by simp [hx])) hr c hc
  | case3 a b r hno ih =>
    intro d hs hd
    unfold pctDecode at hd
    simp at hd
  | case4 cs hno =>
    intro d hs hd
    unfold pctDecode at hd
    simp at hd
  | case5 c cs hne d' hr ih =>
    intro d hs hd
    unfold pctDecode at hd
    simp [hne, hr] at hd; subst hd
    intro x hx
    simp at hx
    rcases hx with hx | hx
    · subst hx
      have := hs c (by simp)
      split_ifs <;> omega
    · exact ih d' (fun y hy => hs y (by simp [hy])) hr x hx
  | case6 c cs hne hr ih =>
    intro d hs hd
    unfold pctDecode at hd
    simp [hne, hr] at hd

/-! ## the router over the generated table = the Spec's definition of a hijacked request -/

theorem routeC_map {α β : Type} (f : α → β) (tbl : List (List Pat × α × Bool)) (segs : List Bytes) :
    (routeC tbl segs).map (fun x => (f x.1, x.2)) = routeC (tbl.map (fun r => (r.1, f r.2.1, r.2.2))) segs := by
  induction tbl with
  | nil => simp [routeC]
  | cons r rest ih =>
    simp only [routeC, List.map_cons, List.findSome?_cons] at ih ⊢
    cases h : matchPats r.1 segs with
    | none => simpa [routeC] using ih
    | some caps => simp

def compiledExpected : List (List Pat × Option Endpoint × Bool) :=
  [ ([.lit [], .lit [97,112,105], .lit [118,48], .lit [112,105,110], .lit [97,100,100], .var], some .pinAdd, true),
    ([.lit [], .lit [97,112,105], .lit [118,48], .lit [112,105,110], .lit [97,100,100]], some .pinAdd, false),
    ([.lit [], .lit [97,112,105], .lit [118,48], .lit [112,105,110], .lit [114,109], .var], some .pinRm, true),
    ([.lit [], .lit [97,112,105], .lit [118,48], .lit [112,105,110], .lit [114,109]], some .pinRm, false),
    ([.lit [], .lit [97,112,105], .lit [118,48], .lit [112,105,110], .lit [108,115], .var], some .pinLs, true),
    ([.lit [], .lit [97,112,105], .lit [118,48], .lit [112,105,110], .lit [108,115]], some .pinLs, false),
    ([.lit [], .lit [97,112,105], .lit [118,48], .lit [112,105,110], .lit [117,112,100,97,116,101]], some .pinUpdate, false),
    ([.lit [], .lit [97,112,105], .lit [118,48], .lit [97,100,100]], some .add, false),
    ([.lit [], .lit [97,112,105], .lit [118,48], .lit [114,101,112,111], .lit [115,116,97,116]], some .repoStat, false),
    ([.lit [], .lit [97,112,105], .lit [118,48], .lit [114,101,112,111], .lit [103,99]], some .repoGC, false) ]

theorem compiled_table :
    Gen.C12.routes.map (fun r => (patsOf r, endpointOfHandler r.handler, r.slash)) = compiledExpected := by
  decide

theorem routeC_expected (segs : List Bytes) :
    routeC compiledExpected segs = (classifySegs segs).map (fun x => (some x.1, x.2)) := by
  match segs with
  | [] => simp [routeC, compiledExpected, matchPats, classifySegs]
  | [a] => simp [routeC, compiledExpected, matchPats, classifySegs]
  | [a, b] => simp [routeC, compiledExpected, matchPats, classifySegs]
  | [a, b, c] => simp [routeC, compiledExpected, matchPats, classifySegs]
  | [e, a, v, x] =>
    simp only [routeC, compiledExpected, matchPats, classifySegs, underApi, List.findSome?, lit_empty, lit_api, lit_v0, lit_pin, lit_add, lit_rm, lit_ls, lit_update, lit_repo, lit_stat, lit_gc]
    by_cases he : e = [] <;> by_cases ha : a = [97,112,105] <;> by_cases hv : v = [118,48] <;>
      by_cases hx : x = [97,100,100] <;> simp_all
  | [e, a, v, x, y] =>
    simp only [routeC, compiledExpected, matchPats, classifySegs, underApi, List.findSome?, lit_empty, lit_api, lit_v0, lit_pin, lit_add, lit_rm, lit_ls, lit_update, lit_repo, lit_stat, lit_gc]
    by_cases he : e = [] <;> by_cases ha : a = [97,112,105] <;> by_cases hv : v = [118,48] <;>
      by_cases hx : x = [112,105,110] <;> by_cases hx' : x = [114,101,112,111] <;> simp_all <;>
      split_ifs <;> simp_all
  | [e, a, v, x, y, z] =>
    simp only [routeC, compiledExpected, matchPats, classifySegs, underApi, List.findSome?, lit_empty, lit_api, lit_v0, lit_pin, lit_add, lit_rm, lit_ls, lit_update, lit_repo, lit_stat, lit_gc]
    by_cases he : e = [] <;> by_cases ha : a = [97,112,105] <;> by_cases hv : v = [118,48] <;>
      by_cases hx : x = [112,105,110] <;> by_cases hz : z = [] <;> simp_all <;>
      split_ifs <;> simp_all
  | e :: a :: v :: x :: y :: z :: w :: rest =>
    simp [routeC, compiledExpected, matchPats, classifySegs]

theorem routeSegs_eq_classifySegs (segs : List Bytes) :
    (routeSegs Gen.C12.routes segs).map (fun x => (endpointOfHandler x.1, x.2))
      = (classifySegs segs).map (fun x => (some x.1, x.2)) := by
  rw [routeSegs, routeC_map, List.map_map]
  have := compiled_table
  simp only [Function.comp_def] at this ⊢
  rw [this, routeC_expected]

/-! ## slashHandler's rewriting of the query -/

theorem qAll_setArg_arg (q : List (Bytes × Bytes)) (a : Bytes) : qAll (setArg q a) b!"arg" = [a] := by
  simp [qAll, setArg, List.filter_append, List.filter_filter]

theorem qGet_setArg_arg (q : List (Bytes × Bytes)) (a : Bytes) : qGet (setArg q a) b!"arg" = a := by
  simp [qGet, qAll_setArg_arg]

theorem qAll_setArg_other (q : List (Bytes × Bytes)) (a : Bytes) (k : Bytes) (hk : k ≠ b!"arg") :
    qAll (setArg q a) k = qAll q k := by
  have h2 : (b!"arg" == k) = false := by
    simp only [beq_eq_false_iff_ne, ne_eq]; exact fun h => hk h.symm
  simp only [qAll, setArg, List.filter_append, List.filter_filter, List.filter_cons, List.filter_nil, h2]
  simp only [Bool.false_eq_true, if_false, List.append_nil]
  congr 1
  apply List.filter_congr
  intro x _
  by_cases hx : x.1 = k
  · simp [hx, hk]
  · simp [hx]

theorem qGet_setArg_other (q : List (Bytes × Bytes)) (a : Bytes) (k : Bytes) (hk : k ≠ b!"arg") :
    qGet (setArg q a) k = qGet q k := by
  simp [qGet, qAll_setArg_other q a k hk]

/-! ## one lemma per handler model: clauses `hijack_error_no_op` and `hijack_success_op` -/

abbrev argOf (i : Input) (sl : Option Bytes) : Bytes := requestedArg (parseQuery (i.query.getD [])) sl

theorem handlerQuery_arg (i : Input) (sl : Option Bytes) : qGet (handlerQuery i sl) b!"arg" = argOf i sl := by
  cases sl <;> simp [handlerQuery, argOf, requestedArg, qGet_setArg_arg]

theorem handlerQuery_other (i : Input) (sl : Option Bytes) (k : Bytes) (hk : k ≠ b!"arg") :
    qGet (handlerQuery i sl) k = qGet (parseQuery (i.query.getD [])) k := by
  cases sl <;> simp [handlerQuery, qGet_setArg_other _ _ k hk]

theorem lit_type_ne : b!"type" ≠ b!"arg" := by decide

theorem ppSound_some (e : Env) (a p : Bytes) (h : e.ppSound a = true) (hp : e.pp a = some p) : samePath e p a = true := by
  simpa [Env.ppSound, hp] using h

/-- clauses 3 and 4 of a hijacked request on an observed behaviour -/
def hClauses (i : Input) (ep : Endpoint) (sl : Option Bytes) (o : Output) : Prop :=
  (o.success || (doneOps o).isEmpty) = true ∧ (!o.success || opsAsRequested i ep sl o) = true

theorem pinAdd_clauses (i : Input) (sl : Option Bytes) (d : List DReq) (hs : i.env.ppSound (argOf i sl) = true) :
    hClauses i .pinAdd sl (mkOut (pinOpH i.env (handlerQuery i sl) .pinPath) d) := by
  unfold hClauses pinOpH
  rw [handlerQuery_arg, handlerQuery_other i sl b!"type" lit_type_ne]
  cases hp : i.env.pp (argOf i sl) with
  | none => simp [mkOut, Output.success, doneOps]
  | some p =>
    have hsame := ppSound_some _ _ _ hs hp
    by_cases hf : i.env.fail .pinPath = true
    · simp [hf, mkOut, Output.success, doneOps]
    · simp only [hf, Bool.false_eq_true, if_false]
      simp [mkOut, Output.success, doneOps, RpcName.mutating, opsAsRequested, typeHonoured]
      exact ⟨hsame, fun h => Or.inr h⟩

theorem pinRm_clauses (i : Input) (sl : Option Bytes) (d : List DReq) (hs : i.env.ppSound (argOf i sl) = true) :
    hClauses i .pinRm sl (mkOut (pinOpH i.env (handlerQuery i sl) .unpinPath) d) := by
  unfold hClauses pinOpH
  rw [handlerQuery_arg, handlerQuery_other i sl b!"type" lit_type_ne]
  cases hp : i.env.pp (argOf i sl) with
  | none => simp [mkOut, Output.success, doneOps]
  | some p =>
    have hsame := ppSound_some _ _ _ hs hp
    by_cases hf : i.env.fail .unpinPath = true
    · simp [hf, mkOut, Output.success, doneOps]
    · simp only [hf, Bool.false_eq_true, if_false]
      simp [mkOut, Output.success, doneOps, RpcName.mutating, opsAsRequested]
      exact hsame

theorem pinLs_clauses (i : Input) (sl : Option Bytes) (d : List DReq) :
    hClauses i .pinLs sl (mkOut (pinLsH i.env (handlerQuery i sl)) d) := by
  unfold hClauses pinLsH
  rw [handlerQuery_arg]
  by_cases he : (argOf i sl).isEmpty = true
  · by_cases hf : i.env.fail .pins = true
    · simp [he, hf, mkOut, Output.success, doneOps]
    · simp [he, hf, mkOut, Output.success, doneOps, RpcName.mutating, opsAsRequested]
  · cases hc : i.env.cd (argOf i sl) with
    | none => simp [he, mkOut, Output.success, doneOps]
    | some c =>
      by_cases hf : i.env.fail .pinGet = true
      · simp [he, hf, mkOut, Output.success, doneOps]
      · simp [he, hf, hc, mkOut, Output.success, doneOps, RpcName.mutating, opsAsRequested]

theorem repoStat_clauses (i : Input) (sl : Option Bytes) (d : List DReq) :
    hClauses i .repoStat sl (mkOut (repoStatH i.env) d) := by
  unfold hClauses repoStatH
  by_cases hf : i.env.fail .peers = true
  · simp [hf, mkOut, Output.success, doneOps]
  · have hnil : List.filter (fun r : Rpc => r.ok && r.name.mutating)
        ((List.range i.env.npeers).map (fun k => ({ name := .repoStat, ok := statOk i.env k } : Rpc))) = [] := by
      rw [List.filter_eq_nil_iff]
      intro r hr
      obtain ⟨k, _, rfl⟩ := List.mem_map.1 hr
      simp [RpcName.mutating]
    simp [hf, mkOut, Output.success, doneOps, RpcName.mutating, opsAsRequested, hnil]

theorem lit_streamErrors_ne : b!"stream-errors" ≠ b!"arg" := by decide

theorem repoGC_clauses (i : Input) (sl : Option Bytes) (d : List DReq)
    (hcorner : gcSerr i.env (parseQuery (i.query.getD [])) = false) :
    hClauses i .repoGC sl (mkOut (repoGCH i.env (handlerQuery i sl)) d) := by
  have hg : gcSerr i.env (handlerQuery i sl) = false := by
    unfold gcSerr at hcorner ⊢
    rw [handlerQuery_other i sl b!"stream-errors" lit_streamErrors_ne]
    exact hcorner
  unfold hClauses repoGCH
  by_cases hf : i.env.fail .repoGC = true
  · simp [hf, mkOut, Output.success, doneOps]
  · simp [hf, hg, mkOut, Output.success, doneOps, RpcName.mutating, opsAsRequested]


theorem pinUpdate_clauses (i : Input) (d : List DReq)
    (hs : ∀ a, i.env.ppSound a = true) (hres : i.env.resCid ≠ []) (hu : i.env.fail .unpin = false) :
    hClauses i .pinUpdate none (mkOut (pinUpdateH i.env (handlerQuery i none)) d) := by
  unfold hClauses pinUpdateH
  simp only [handlerQuery]
  match hargs : qAll (parseQuery (i.query.getD [])) b!"arg" with
  | [] => simp [mkOut, Output.success, doneOps]
  | [_] => simp [mkOut, Output.success, doneOps]
  | frm :: to :: rest =>
    simp only []
    cases hpf : i.env.pp frm with
    | none => simp [mkOut, Output.success, doneOps]
    | some pf =>
      cases hpt : i.env.pp to with
      | none => simp [mkOut, Output.success, doneOps]
      | some pt =>
        have h1 := ppSound_some _ _ _ (hs frm) hpf
        have h2 := ppSound_some _ _ _ (hs to) hpt
        by_cases hfr : i.env.fail .resolve = true
        · simp [hfr, mkOut, Output.success, doneOps, RpcName.mutating]
        · by_cases hfp : i.env.fail .pinPath = true
          · simp [hfr, hfp, mkOut, Output.success, doneOps, RpcName.mutating]
          · by_cases hun : (qGet (parseQuery (i.query.getD [])) b!"unpin" == b!"false") = true
            · have hun' : qGet (parseQuery (i.query.getD [])) b!"unpin" = b!"false" := by simpa using hun
              have hob : optBool (b!"false") true = some false := by decide
              simp [hfr, hfp, hun, hun', hu, hargs, mkOut, Output.success, doneOps, RpcName.mutating, opsAsRequested, h1, h2,
                hres, unpinTail, hob]
            · have hun' : ¬ qGet (parseQuery (i.query.getD [])) b!"unpin" = b!"false" := by simpa using hun
              simp [hfr, hfp, hun, hun', hu, hargs, mkOut, Output.success, doneOps, RpcName.mutating, opsAsRequested, h1, h2,
                hres]
              unfold optBool
              split_ifs <;> simp_all [unpinTail]


theorem lit_true_ne_nil : b!"true" ≠ [] := by decide
theorem lit_false_ne_nil : b!"false" ≠ [] := by decide
theorem lit_false_ne_true : b!"false" ≠ b!"true" := by decide

theorem optBool_false_dflt (v : Bytes) : (optBool v false == some true) = (v == b!"true") := by
  unfold optBool
  by_cases h1 : v = []
  · subst h1; simp
  · by_cases h2 : v = b!"true"
    · subst h2; simp [lit_true_ne_nil]
    · have : (v == b!"true") = false := by simpa using h2
      simp [h1, h2, this]

theorem optBool_pin_false : (optBool (b!"false") true).map (!·) = some true := by decide

theorem optBool_pin_other (v : Bytes) (h : v ≠ b!"false") :
    (optBool v true).map (!·) = some false ∨ (optBool v true).map (!·) = none := by
  unfold optBool
  split_ifs <;> simp_all

theorem add_clauses (typed : Bool) (i : Input) (obs : AddObs) (d : List DReq)
    (hroot : obs.items.getLast? = some obs.root)
    (hcorner : (qGet (parseQuery (i.query.getD [])) b!"pin" == b!"false" && (!typed || i.env.fail .unpin)) = false) :
    hClauses i .add none (mkOut (addH typed i.env (handlerQuery i none) obs) d) := by
  unfold hClauses addH
  simp only [handlerQuery]
  by_cases c0 : (i.env.ing == 0) = true
  · simp [c0, mkOut, Output.success, doneOps]
  by_cases c1 : (qGet (parseQuery (i.query.getD [])) b!"only-hash" == b!"true") = true
  · simp [c0, c1, mkOut, Output.success, doneOps]
  by_cases c2 : addParamsErr (parseQuery (i.query.getD [])) = true
  · simp [c0, c1, c2, mkOut, Output.success, doneOps]
  by_cases c3 : addNoRoot i.env (parseQuery (i.query.getD [])) = true
  · by_cases cs : addStream (parseQuery (i.query.getD [])) = true <;>
      simp [c0, c1, c2, c3, cs, mkOut, Output.success, doneOps]
  by_cases c4 : (i.env.ing == 1 || i.env.fail .blockAllocate || i.env.fail .blockPut) = true
  · by_cases cs : addStream (parseQuery (i.query.getD [])) = true <;>
      simp [c0, c1, c2, c3, c4, cs, mkOut, Output.success, doneOps]
  by_cases c5 : i.env.fail .pin = true
  · by_cases cs : addStream (parseQuery (i.query.getD [])) = true <;>
      simp [c0, c1, c2, c3, c4, c5, cs, mkOut, Output.success, doneOps, addPinRpc]
  have hoh : (optBool (qGet (parseQuery (i.query.getD [])) b!"only-hash") false == some true) = false := by
    rw [optBool_false_dflt]; simpa using c1
  by_cases c6 : (qGet (parseQuery (i.query.getD [])) b!"pin" == b!"false") = true
  · have hpin : qGet (parseQuery (i.query.getD [])) b!"pin" = b!"false" := by simpa using c6
    simp only [c6, Bool.true_and, Bool.or_eq_false_iff, Bool.not_eq_false'] at hcorner
    obtain ⟨ht, hu⟩ := hcorner
    simp [c0, c1, c2, c3, c4, c5, c6, ht, hu, mkOut, Output.success, doneOps, RpcName.mutating, addPinRpc, opsAsRequested, hoh,
      hroot, hpin, optBool_pin_false, unpinTail]
  · have hpin : qGet (parseQuery (i.query.getD [])) b!"pin" ≠ b!"false" := by simpa using c6
    simp [c0, c1, c2, c3, c4, c5, c6, mkOut, Output.success, doneOps, RpcName.mutating, addPinRpc, opsAsRequested, hoh, hroot]
    rcases optBool_pin_other _ hpin with h | h <;> simp [h, unpinTail]

/-! ## linking the router to the Spec's classification -/

def handlerModel (typed : Bool) (ep : Endpoint) (e : Env) (q : List (Bytes × Bytes)) (obs : AddObs) : HOut :=
  match ep with
  | .pinAdd => pinOpH e q .pinPath
  | .pinRm => pinOpH e q .unpinPath
  | .pinLs => pinLsH e q
  | .pinUpdate => pinUpdateH e q
  | .add => addH typed e q obs
  | .repoStat => repoStatH e
  | .repoGC => repoGCH e q

theorem handlerOut_of_endpoint (typed : Bool) (h : String) (ep : Endpoint) (e : Env) (q : List (Bytes × Bytes)) (obs : AddObs)
    (hh : endpointOfHandler h = some ep) : handlerOut typed h e q obs = handlerModel typed ep e q obs := by
  unfold endpointOfHandler at hh
  split at hh <;> simp at hh <;> subst hh <;>
    simp [handlerOut, handlerModel, pinOpOf, Gen.C12.pinOps, rpcOfString]

theorem methods_eq : Gen.C12.methods = hijackMethods := by decide

theorem route_spec (m : String) (raw p : Bytes) (hd : pctDecode false raw = some p) (hcl : isClean p = true) :
    (classify m p = none → route m raw = .relay) ∧
    (∀ ep sl, classify m p = some (ep, sl) → ∃ h, endpointOfHandler h = some ep ∧ route m raw = .hijack h sl) := by
  have key := routeSegs_eq_classifySegs (splitOn 47 p)
  unfold route routeWith classify
  rw [methods_eq]
  simp only [hd, hcl, Bool.not_true, Bool.false_eq_true, if_false]
  by_cases hm : hijackMethods.contains m = true
  · simp only [hm, if_true]
    cases hr : routeSegs Gen.C12.routes (splitOn 47 p) with
    | none =>
      rw [hr] at key
      cases hc : classifySegs (splitOn 47 p) with
      | none => simp
      | some x => rw [hc] at key; simp at key
    | some y =>
      obtain ⟨h, a⟩ := y
      rw [hr] at key
      cases hc : classifySegs (splitOn 47 p) with
      | none => rw [hc] at key; simp at key
      | some x =>
        obtain ⟨ep, sl⟩ := x
        rw [hc] at key
        simp at key
        obtain ⟨k1, k2⟩ := key
        simp
        exact ⟨h, k1, rfl, k2⟩
  · have hm' : ¬ m ∈ hijackMethods := by simpa using hm
    simp [hm, hm']
/-! ## hijacked requests -/

theorem classifySegs_slash (segs : List Bytes) (ep : Endpoint) (z : Bytes) (h : classifySegs segs = some (ep, some z)) :
    ep = .pinAdd ∨ ep = .pinRm ∨ ep = .pinLs := by
  unfold classifySegs at h
  split at h <;> (try split_ifs at h) <;> simp_all

theorem classify_segs (m : String) (p : Bytes) (x : Endpoint × Option Bytes) (h : classify m p = some x) :
    hijackMethods.contains m = true ∧ classifySegs (splitOn 47 p) = some x := by
  unfold classify at h
  split_ifs at h with hm
  exact ⟨hm, h⟩

theorem hijack_method_ne (m : String) (h : hijackMethods.contains m = true) : m ≠ "OPTIONS" ∧ m ≠ "HEAD" := by
  simp [hijackMethods] at h
  rcases h with rfl | rfl | rfl <;> decide

/-- what the theorems assume of an input: a byte string, sound dependency oracles, a sane configuration -/
structure WF (i : Input) (obs : AddObs) : Prop where
  bytes : ∀ c ∈ i.path, c < 256
  oracle : ∀ a, i.env.ppSound a = true
  extract : endpointOfPath i.env.extractPath = none
  root : obs.items.getLast? = some obs.root
  resolved : i.env.resCid ≠ []

/-- the corners in which today's code does not meet the property (known findings K30, K31, K32 and, round 8c, K12d:
    repo/gc whose collection reported an error without `stream-errors=true`) -/
def corner (typed : Bool) (i : Input) : Bool :=
  match pctDecode false i.path with
  | none => false
  | some p =>
    match classify i.method p with
    | none => !isClean p
    | some (.pinUpdate, _) => i.env.fail .unpin
    | some (.add, _) => qGet (parseQuery (i.query.getD [])) b!"pin" == b!"false" && (!typed || i.env.fail .unpin)
    | some (.repoGC, _) => gcSerr i.env (parseQuery (i.query.getD []))
    | some _ => false

theorem helper_clauses (i : Input) (p : Bytes) (ep : Endpoint) (sl : Option Bytes)
    (hcls : classify i.method p = some (ep, sl)) (hx : endpointOfPath i.env.extractPath = none) :
    (helperReqs i p).all (fun d => !(d.method == i.method && pctDecode false d.path == some p)) = true ∧
    (!ep.mutating || (helperReqs i p).all (fun d => d.method == "OPTIONS" || d.method == "HEAD" || endpointOfPath d.path != some ep)) = true := by
  obtain ⟨hm, hseg⟩ := classify_segs _ _ _ hcls
  obtain ⟨hno, _⟩ := hijack_method_ne _ hm
  have hne : ¬ pctDecode false i.env.extractPath = some p := by
    intro hq
    simp [endpointOfPath, hq, hseg] at hx
  have hno' : ¬ "OPTIONS" = i.method := fun h => hno h.symm
  simp [helperReqs, hno', hne, hx]

theorem hijack_holds (typed : Bool) (i : Input) (obs : AddObs) (p : Bytes) (ep : Endpoint) (sl : Option Bytes)
    (hwf : WF i obs) (hd : pctDecode false i.path = some p) (hcls : classify i.method p = some (ep, sl))
    (hc : corner typed i = false) :
    holds i (runWith Gen.C12.methods Gen.C12.routes typed i obs) = true := by
  obtain ⟨hm, hseg⟩ := classify_segs _ _ _ hcls
  by_cases hcl : isClean p = true
  · obtain ⟨h, hh, hroute⟩ := (route_spec i.method i.path p hd hcl).2 ep sl hcls
    have hrun : runWith Gen.C12.methods Gen.C12.routes typed i obs =
        mkOut (handlerModel typed ep i.env (handlerQuery i sl) obs) (helperReqs i p) := by
      unfold route at hroute
      simp [runWith, hroute, hd, handlerOut_of_endpoint typed h ep _ _ _ hh]
    obtain ⟨g1, g2⟩ := helper_clauses i p ep sl hcls hwf.extract
    have g34 : hClauses i ep sl (mkOut (handlerModel typed ep i.env (handlerQuery i sl) obs) (helperReqs i p)) := by
      cases ep with
      | pinAdd => exact pinAdd_clauses i sl _ (hwf.oracle _)
      | pinRm => exact pinRm_clauses i sl _ (hwf.oracle _)
      | pinLs => exact pinLs_clauses i sl _
      | repoStat => exact repoStat_clauses i sl _
      | repoGC =>
        have hg : gcSerr i.env (parseQuery (i.query.getD [])) = false := by simpa [corner, hd, hcls] using hc
        exact repoGC_clauses i sl _ hg
      | pinUpdate =>
        have hsl : sl = none := by
          cases sl with
          | none => rfl
          | some z => rcases classifySegs_slash _ _ _ hseg with h | h | h <;> simp at h
        subst hsl
        have hu : i.env.fail .unpin = false := by simpa [corner, hd, hcls] using hc
        exact pinUpdate_clauses i _ hwf.oracle hwf.resolved hu
      | add =>
        have hsl : sl = none := by
          cases sl with
          | none => rfl
          | some z => rcases classifySegs_slash _ _ _ hseg with h | h | h <;> simp at h
        subst hsl
        have hu : (qGet (parseQuery (i.query.getD [])) b!"pin" == b!"false" && (!typed || i.env.fail .unpin)) = false := by
          simpa [corner, hd, hcls] using hc
        exact add_clauses typed i obs _ hwf.root hu
    rw [hrun]
    unfold hClauses at g34
    simp only [holds, clauses, hd, hcls, List.all_cons, List.all_nil, Bool.and_true, Bool.and_eq_true]
    refine ⟨?_, ?_, g34.1, g34.2⟩
    · simpa [mkOut] using g1
    · simpa [mkOut] using g2
  · have hroute : routeWith Gen.C12.methods Gen.C12.routes i.method i.path = .redirect := by
      simp [routeWith, hd, hcl]
    have hrun : runWith Gen.C12.methods Gen.C12.routes typed i obs = { status := 301 } := by
      simp [runWith, hroute]
    rw [hrun]
    simp [holds, clauses, hd, hcls, Output.success, doneOps]
/-! ## relayed requests -/

theorem relay_holds (typed : Bool) (i : Input) (obs : AddObs) (p : Bytes)
    (hb : ∀ c ∈ i.path, c < 256) (hd : pctDecode false i.path = some p)
    (hcls : classify i.method p = none) (hcl : isClean p = true) :
    runWith Gen.C12.methods Gen.C12.routes typed i obs = relayOut i p ∧ holds i (relayOut i p) = true := by
  have hroute := (route_spec i.method i.path p hd hcl).1 hcls
  unfold route at hroute
  have hrun : runWith Gen.C12.methods Gen.C12.routes typed i obs = relayOut i p := by
    simp [runWith, hroute, hd]
  refine ⟨hrun, ?_⟩
  have hpb := pctDecode_lt false i.path p hb hd
  have hpath : (if rfcValidPath i.path = true then (fwdPath i.path p == i.path) else (pctDecode false (fwdPath i.path p) == some p)) = true := by
    split_ifs with hr
    · simp [fwdPath_of_rfc _ _ hr]
    · simp [fwdPath_decodes _ _ hd hpb]
  simp [holds, clauses, hd, hcls, relayOut, relayClause]
  simpa [relayOut] using hpath

/-! ## concrete witnesses of the three corners -/

/-- pin/update from an unpinned CID: POST /api/v0/pin/update?arg=a&arg=b, Cluster.Unpin fails -/
def witUpdate : Input :=
  { method := "POST", path := b!"/api/v0/pin/update", query := some (b!"arg=a&arg=b"), hdrs := [], body := [],
    env := { fails := [.unpin], resCid := [1], pinCid := [2], extractPath := b!"/api/v0/version",
             oracle := [(b!"a", some (b!"/ipfs/a"), none), (b!"b", some (b!"/ipfs/b"), none)] } }

/-- POST /api/v0/add?pin=false with a good multipart body -/
def witAdd : Input :=
  { method := "POST", path := b!"/api/v0/add", query := some (b!"pin=false"), hdrs := [], body := [],
    env := { resCid := [1], extractPath := b!"/api/v0/version" } }

/-- POST /api/v0/repo/gc, a second peer's collection failed (K12d) -/
def witGC : Input :=
  { method := "POST", path := b!"/api/v0/repo/gc", query := none, hdrs := [], body := [],
    env := { resCid := [1], extractPath := b!"/api/v0/version", gcKeys := [[9]], gcErr := 1 } }

/-- GET //x -/
def witRedirect : Input :=
  { method := "GET", path := [47, 47, 120], query := none, hdrs := [], body := [],
    env := { resCid := [1], extractPath := b!"/api/v0/version" } }

theorem wf_of_oracle (i : Input) (obs : AddObs) (hb : i.path.all (· < 256) = true)
    (ho : i.env.oracle.all (fun o => match o.2.1 with
        | some p => p == o.1 || p == b!"/ipfs/" ++ o.1
        | none => true) = true)
    (hx : endpointOfPath i.env.extractPath = none) (hr : obs.items.getLast? = some obs.root)
    (hres : i.env.resCid ≠ []) : WF i obs := by
  refine ⟨by simpa using hb, ?_, hx, hr, hres⟩
  intro a
  unfold Env.ppSound Env.pp
  cases hf : i.env.oracle.find? (fun o => o.1 == a) with
  | none => simp
  | some o =>
    have hmem := List.mem_of_find?_eq_some hf
    have hkey : o.1 = a := by simpa using List.find?_some hf
    have := (List.all_eq_true.mp ho) o hmem
    cases hp : o.2.1 with
    | none => simp [hp]
    | some pth =>
      simp only [hp] at this
      simp only [hp, samePath, Bool.or_eq_true]
      subst hkey
      rcases (Bool.or_eq_true _ _).mp this with h | h
      · exact Or.inl (Or.inl h)
      · exact Or.inl (Or.inr h)

theorem witUpdate_wf : WF witUpdate { root := [], items := [[]] } :=
  wf_of_oracle _ _ (by decide) (by decide) (by decide) (by decide) (by decide)

theorem witAdd_wf : WF witAdd { root := [7], items := [[7]] } :=
  wf_of_oracle _ _ (by decide) (by decide) (by decide) (by decide) (by decide)

theorem witGC_wf : WF witGC { root := [], items := [[]] } :=
  wf_of_oracle _ _ (by decide) (by decide) (by decide) (by decide) (by decide)

theorem witRedirect_wf : WF witRedirect { root := [], items := [[]] } :=
  wf_of_oracle _ _ (by decide) (by decide) (by decide) (by decide) (by decide)

end CV.C12
