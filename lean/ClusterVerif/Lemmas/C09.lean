import ClusterVerif.Spec.C09
import Mathlib.Data.List.Basic
import Mathlib.Data.List.Nodup
import Mathlib.Data.List.Perm.Basic
import Mathlib.Tactic.SplitIfs

/-! Helper lemmas for Props/C09. -/
namespace CV.C09

/-! ### the ring -/

/-- `w` holds exactly the metrics `xs` (oldest first), right-aligned before the cursor -/
def RingRep (cap : Nat) (w : Window) (xs : List Metric) : Prop :=
  xs.length ≤ cap ∧ w = List.replicate (cap - xs.length) none ++ xs.map some

theorem ringRep_new (cap : Nat) : RingRep cap (Window.new cap) [] := by
  simp [RingRep, Window.new]

/-- what the window holds after one more `Add` -/
def pushCap (cap : Nat) (xs : List Metric) (m : Metric) : List Metric :=
  if xs.length < cap then xs ++ [m] else xs.tail ++ [m]

theorem ringRep_add {cap : Nat} (hc : 0 < cap) {w : Window} {xs : List Metric} (m : Metric)
    (h : RingRep cap w xs) : RingRep cap (w.add m) (pushCap cap xs m) := by
  obtain ⟨hl, rfl⟩ := h
  unfold pushCap
  by_cases hlt : xs.length < cap
  · rw [if_pos hlt]
    have : cap - xs.length = (cap - (xs.length + 1)) + 1 := by omega
    refine ⟨by simp; omega, ?_⟩
    rw [this, List.replicate_succ]
    simp [Window.add]
  · rw [if_neg hlt]
    have he : xs.length = cap := by omega
    cases xs with
    | nil => simp at he; omega
    | cons a t =>
      refine ⟨by simp at he ⊢; omega, ?_⟩
      simp at he
      simp [Window.add, he]

theorem ringRep_all {cap : Nat} {w : Window} {xs : List Metric} (h : RingRep cap w xs) :
    w.all = xs.reverse := by
  obtain ⟨_, rfl⟩ := h
  simp [Window.all, List.filterMap_append, List.filterMap_replicate_of_none]

theorem ringRep_count {cap : Nat} {w : Window} {xs : List Metric} (h : RingRep cap w xs) :
    w.count = xs.length := by
  simp [Window.count, ringRep_all h]

theorem ringRep_latest {cap : Nat} {w : Window} {xs : List Metric} (h : RingRep cap w xs) :
    w.latest = xs.getLast? := by
  obtain ⟨_, rfl⟩ := h
  unfold Window.latest
  rw [List.getLast?_append, List.getLast?_map, List.getLast?_replicate]
  cases xs.getLast? <;> simp
  split_ifs <;> rfl

theorem pushCap_length (cap : Nat) (hc : 0 < cap) (xs : List Metric) (m : Metric) (c : Nat)
    (h : xs.length = min cap c) : (pushCap cap xs m).length = min cap (c + 1) := by
  unfold pushCap
  split_ifs with hlt
  · simp; omega
  · simp; omega

theorem pushCap_getLast (cap : Nat) (xs : List Metric) (m : Metric) : (pushCap cap xs m).getLast? = some m := by
  unfold pushCap; split_ifs <;> simp

/-! ### one failure check, key by key -/

theorem latestOf_congr {s s' : State} {k : Key} (h : s'.win k = s.win k) : latestOf s' k = latestOf s k := by
  unfold latestOf; rw [h]

theorem failedK_congr (P : Params) (i : Nat) {s s' : State} {k : Key} (h : s'.win k = s.win k)
    (hn : s'.now = s.now) : failedK P i s' k = failedK P i s k := by
  unfold failedK; rw [h, hn]

theorem upd_same {α : Type} (f : Key → α) (k : Key) (v : α) : upd f k v k = v := by simp [upd]
theorem upd_other {α : Type} (f : Key → α) {k k' : Key} (v : α) (h : k' ≠ k) : upd f k v k' = f k' := by
  simp [upd, h]

/-- the check would find (name, peer) failed in the state the check started from -/
def Hot (P : Params) (i : Nat) (s0 : State) (k : Key) : Prop :=
  (latestOf s0 k).isSome = true ∧ failedK P i s0 k = true

/-- the alert bookkeeping of the checker for one (name, peer): count and stamp -/
def ca (s : State) (k : Key) : Nat × Nat := (s.cnt k, s.af k)

theorem ecnt_congr {s s' : State} {k : Key} (hw : s'.win k = s.win k) (hc : ca s' k = ca s k) :
    ecnt s' k = ecnt s k := by
  simp only [ca, Prod.mk.injEq] at hc
  unfold ecnt; rw [latestOf_congr hw, hc.1, hc.2]

theorem ecnt_le (s : State) (k : Key) : ecnt s k ≤ s.cnt k := by
  unfold ecnt; split_ifs <;> omega

/-- untouched so far -/
def PhA (s0 : State) (acc : State × List Alert) (k : Key) : Prop :=
  acc.1.win k = s0.win k ∧ ca acc.1 k = ca s0 k ∧ k ∉ alertKeys acc.2
/-- alerted by this check -/
def PhB (P : Params) (i : Nat) (s0 : State) (acc : State × List Alert) (k : Key) : Prop :=
  acc.1.win k = s0.win k ∧ ecnt s0 k = 0 ∧ ca acc.1 k = (1, stampOf (latestOf s0 k)) ∧
    k ∈ alertKeys acc.2 ∧ Hot P i s0 k
/-- forgotten by this check -/
def PhC (P : Params) (i : Nat) (s0 : State) (acc : State × List Alert) (k : Key) : Prop :=
  acc.1.win k = none ∧ ca acc.1 k = (0, 0) ∧ Hot P i s0 k ∧
    ((ecnt s0 k = 1 ∧ k ∉ alertKeys acc.2) ∨ (ecnt s0 k = 0 ∧ k ∈ alertKeys acc.2))

structure Track (P : Params) (i : Nat) (s0 : State) (done : List Key) (acc : State × List Alert) : Prop where
  keys : acc.1.keys = s0.keys
  ps : acc.1.ps = s0.ps
  now : acc.1.now = s0.now
  nodup : (alertKeys acc.2).Nodup
  phase : ∀ k, PhA s0 acc k ∨ PhB P i s0 acc k ∨ PhC P i s0 acc k
  prog : ∀ k ∈ done, Hot P i s0 k → ¬ PhA s0 acc k

theorem track_init (P : Params) (i : Nat) (s0 : State) : Track P i s0 [] (s0, []) :=
  { keys := rfl, ps := rfl, now := rfl, nodup := by simp [alertKeys],
    phase := fun k => Or.inl ⟨rfl, rfl, by simp [alertKeys]⟩,
    prog := by simp }

theorem track_step (P : Params) (hmax : P.maxA = 1) (i : Nat) (s0 : State) (hc : ∀ k, s0.cnt k ≤ 1)
    (done : List Key) (acc : State × List Alert) (k : Key) (h : Track P i s0 done acc) :
    Track P i s0 (k :: done) (checkOneP P i acc k) := by
  have keep : (Hot P i s0 k → ¬ PhA s0 acc k) → Track P i s0 (k :: done) acc := fun hk =>
    { keys := h.keys, ps := h.ps, now := h.now, nodup := h.nodup, phase := h.phase,
      prog := by
        intro k' hk'
        rcases List.mem_cons.1 hk' with rfl | hk'
        · exact hk
        · exact h.prog k' hk' }
  unfold checkOneP
  by_cases hl : (latestOf acc.1 k).isNone = true
  · rw [if_pos hl]
    refine keep ?_
    rintro ⟨hs, _⟩ ⟨hw, _, _⟩
    rw [latestOf_congr hw] at hl
    cases hx : latestOf s0 k <;> simp [hx] at hl hs
  · rw [if_neg hl]
    by_cases hf : failedK P i acc.1 k = true
    · rw [if_pos hf]
      unfold alertK
      by_cases hcnt : ecnt acc.1 k ≥ P.maxA
      · -- forget
        rw [if_pos hcnt]
        rw [hmax] at hcnt
        have hkC : PhC P i s0 (({ acc.1 with win := upd acc.1.win k none, cnt := upd acc.1.cnt k 0, af := upd acc.1.af k 0 } : State), acc.2) k := by
          rcases h.phase k with ⟨hw, hc', hn⟩ | ⟨hw, h0, h1, hm, hh⟩ | ⟨hw, _⟩
          · refine ⟨upd_same _ _ _, by simp [ca, upd], ⟨?_, ?_⟩, Or.inl ⟨?_, hn⟩⟩
            · rw [← latestOf_congr hw]; cases hx : latestOf acc.1 k <;> simp [hx] at hl ⊢
            · rw [← failedK_congr P i hw h.now]; exact hf
            · have h1 := hc k
              have h2 := ecnt_le s0 k
              rw [ecnt_congr hw hc'] at hcnt
              omega
          · exact ⟨upd_same _ _ _, by simp [ca, upd], hh, Or.inr ⟨h0, hm⟩⟩
          · exfalso; apply hl; unfold latestOf; rw [hw]; rfl
        refine { keys := h.keys, ps := h.ps, now := h.now, nodup := h.nodup, phase := ?_, prog := ?_ }
        · intro k'
          by_cases hk' : k' = k
          · subst hk'; exact Or.inr (Or.inr hkC)
          · rcases h.phase k' with ⟨a, b, c⟩ | ⟨a, b, c, d, e⟩ | ⟨a, b, c, d⟩
            · exact Or.inl ⟨by simpa [upd, hk'] using a, by simpa [ca, upd, hk'] using b, c⟩
            · exact Or.inr (Or.inl ⟨by simpa [upd, hk'] using a, b, by simpa [ca, upd, hk'] using c, d, e⟩)
            · exact Or.inr (Or.inr ⟨by simpa [upd, hk'] using a, by simpa [ca, upd, hk'] using b, c, d⟩)
        · intro k' hk'm hh hA
          by_cases hk' : k' = k
          · subst hk'
            obtain ⟨hw, _, _⟩ := hA
            have : (upd acc.1.win k' none) k' = none := upd_same _ _ _
            obtain ⟨hs, _⟩ := hh
            simp only at hw
            rw [this] at hw
            unfold latestOf at hs; rw [← hw] at hs; simp at hs
          · rcases List.mem_cons.1 hk'm with rfl | hk'm
            · exact hk' rfl
            · apply h.prog k' hk'm hh
              obtain ⟨a, b, c⟩ := hA
              exact ⟨by simpa [upd, hk'] using a, by simpa [ca, upd, hk'] using b, c⟩
      · -- alert
        rw [if_neg hcnt]
        rw [hmax] at hcnt
        have hc0 : ecnt acc.1 k = 0 := by omega
        have hA : PhA s0 acc k := by
          rcases h.phase k with hA | ⟨hw, _, h1, _⟩ | ⟨hw, _⟩
          · exact hA
          · exfalso
            simp only [ca, Prod.mk.injEq] at h1
            have : ecnt acc.1 k = 1 := by
              unfold ecnt; rw [latestOf_congr hw, h1.2, h1.1]; simp
            omega
          · exfalso; apply hl; unfold latestOf; rw [hw]; rfl
        obtain ⟨hw, hcc, hn⟩ := hA
        have he0 : ecnt s0 k = 0 := by rw [← ecnt_congr hw hcc]; exact hc0
        have hkeys : alertKeys (acc.2 ++ [(k.1, k.2, (latestOf acc.1 k).map (·.id))]) = alertKeys acc.2 ++ [k] := by
          simp [alertKeys, Alert.key]
        have hhot : Hot P i s0 k := by
          refine ⟨?_, ?_⟩
          · rw [← latestOf_congr hw]; cases hx : latestOf acc.1 k <;> simp [hx] at hl ⊢
          · rw [← failedK_congr P i hw h.now]; exact hf
        refine { keys := h.keys, ps := h.ps, now := h.now, nodup := ?_, phase := ?_, prog := ?_ }
        · simp only; rw [hkeys]
          exact List.nodup_append.2 ⟨h.nodup, by simp, by
            intro a ha b hb; simp at hb; subst hb; intro hab; subst hab; exact hn ha⟩
        · intro k'
          by_cases hk' : k' = k
          · subst hk'
            refine Or.inr (Or.inl ⟨hw, he0, ?_, ?_, hhot⟩)
            · simp [ca, upd, hc0, latestOf_congr hw]
            · simp only; rw [hkeys]; simp
          · have hmem : k' ∈ alertKeys (acc.2 ++ [(k.1, k.2, (latestOf acc.1 k).map (·.id))]) ↔ k' ∈ alertKeys acc.2 := by
              rw [hkeys]; simp [hk']
            rcases h.phase k' with ⟨a, b, c⟩ | ⟨a, b, c, d, e⟩ | ⟨a, b, c, d⟩
            · exact Or.inl ⟨a, by simpa [ca, upd, hk'] using b, by simpa only [hmem] using c⟩
            · exact Or.inr (Or.inl ⟨a, b, by simpa [ca, upd, hk'] using c, by simpa only [hmem] using d, e⟩)
            · refine Or.inr (Or.inr ⟨a, by simpa [ca, upd, hk'] using b, c, ?_⟩)
              simpa only [hmem] using d
        · intro k' hk'm hh hA
          by_cases hk' : k' = k
          · subst hk'
            obtain ⟨_, _, hnn⟩ := hA
            apply hnn; simp only; rw [hkeys]; simp
          · rcases List.mem_cons.1 hk'm with rfl | hk'm
            · exact hk' rfl
            · apply h.prog k' hk'm hh
              have hmem : k' ∈ alertKeys (acc.2 ++ [(k.1, k.2, (latestOf acc.1 k).map (·.id))]) ↔ k' ∈ alertKeys acc.2 := by
                rw [hkeys]; simp [hk']
              obtain ⟨a, b, c⟩ := hA
              exact ⟨a, by simpa [ca, upd, hk'] using b, by simpa only [hmem] using c⟩
    · rw [if_neg hf]
      refine keep ?_
      rintro ⟨_, hs⟩ ⟨hw, _, _⟩
      rw [failedK_congr P i hw h.now] at hf
      exact hf hs

theorem track_fold (P : Params) (hmax : P.maxA = 1) (i : Nat) (s0 : State) (hc : ∀ k, s0.cnt k ≤ 1) :
    ∀ (L : List Key) (done : List Key) (acc : State × List Alert), Track P i s0 done acc →
      Track P i s0 (L.reverse ++ done) (L.foldl (checkOneP P i) acc) := by
  intro L
  induction L with
  | nil => intro done acc h; simpa using h
  | cons x xs ih =>
    intro done acc h
    have := ih (x :: done) _ (track_step P hmax i s0 hc done acc x h)
    simpa using this

/-- a visit of one (name, peer) leaves the others alone -/
theorem checkOneP_frame (P : Params) (i : Nat) (acc : State × List Alert) {k k' : Key} (h : k' ≠ k) :
    (checkOneP P i acc k).1.win k' = acc.1.win k' ∧ (checkOneP P i acc k).1.cnt k' = acc.1.cnt k' := by
  unfold checkOneP alertK
  by_cases h1 : (latestOf acc.1 k).isNone = true
  · simp [h1]
  · by_cases h2 : failedK P i acc.1 k = true
    · by_cases h3 : ecnt acc.1 k ≥ P.maxA
      · simp [h1, h2, h3, upd, h]
      · simp [h1, h2, h3, upd, h]
    · simp [h1, h2]

theorem checkOneA_eq (P : Params) (i : Nat) (acc : State × List Alert) (k : Key)
    (h : (latestOf acc.1 k).isSome = true) : checkOneA P i acc k = checkOneP P i acc k := by
  unfold checkOneA checkOneP
  have : ¬ (latestOf acc.1 k).isNone = true := by
    cases hx : latestOf acc.1 k <;> simp [hx] at h ⊢
  rw [if_neg this]

theorem foldA_eq (P : Params) (i : Nat) : ∀ (L : List Key) (acc : State × List Alert), L.Nodup →
    (∀ k ∈ L, (latestOf acc.1 k).isSome = true) →
    L.foldl (checkOneA P i) acc = L.foldl (checkOneP P i) acc := by
  intro L
  induction L with
  | nil => intros; rfl
  | cons x xs ih =>
    intro acc hnd hall
    rw [List.nodup_cons] at hnd
    simp only [List.foldl_cons]
    rw [checkOneA_eq P i acc x (hall x (by simp))]
    apply ih _ hnd.2
    intro k hk
    have hne : k ≠ x := by rintro rfl; exact hnd.1 hk
    rw [latestOf_congr (checkOneP_frame P i acc hne).1]
    exact hall k (by simp [hk])

theorem mem_allKeys {s : State} {k : Key} :
    k ∈ allKeys s ↔ k ∈ s.keys ∧ (latestOf s k).isSome = true := by
  unfold allKeys
  rw [List.mem_filter]

theorem checkAll_eq (P : Params) (i : Nat) (s : State) (hnd : s.keys.Nodup) :
    checkAll P i s = (allKeys s).foldl (checkOneP P i) (s, []) := by
  unfold checkAll
  apply foldA_eq P i _ _ (hnd.filter _)
  intro k hk
  exact (mem_allKeys.1 hk).2

/-- what a failure check (either kind) does, as a `Track` -/
theorem track_checkPeers (P : Params) (hmax : P.maxA = 1) (i : Nat) (s : State) (hc : ∀ k, s.cnt k ≤ 1)
    (l : List Nat) : Track P i s (peersKeys s l).reverse (checkPeers P i s l) := by
  have := track_fold P hmax i s hc (peersKeys s l) [] (s, []) (track_init P i s)
  simpa [checkPeers] using this

theorem track_checkAll (P : Params) (hmax : P.maxA = 1) (i : Nat) (s : State) (hc : ∀ k, s.cnt k ≤ 1)
    (hnd : s.keys.Nodup) : Track P i s (allKeys s).reverse (checkAll P i s) := by
  rw [checkAll_eq P i s hnd]
  have := track_fold P hmax i s hc (allKeys s) [] (s, []) (track_init P i s)
  simpa using this

/-- the keys a check at `op` visits in state `s` -/
def visited (s : State) : Op → List Key
  | .checkPeers l => peersKeys s l
  | .tick => match s.ps with
    | .unknown => allKeys s
    | .error => []
    | .known l => peersKeys s l
  | _ => []

/-- the state and alerts after the check at `op` -/
def checkRes (P : Params) (i : Nat) (s : State) : Op → State × List Alert
  | .checkPeers l => checkPeers P i s l
  | .tick => tick P i s
  | _ => (s, [])

theorem track_check (P : Params) (hmax : P.maxA = 1) (i : Nat) (s : State) (hc : ∀ k, s.cnt k ≤ 1)
    (hnd : s.keys.Nodup) (op : Op) : Track P i s (visited s op).reverse (checkRes P i s op) := by
  cases op with
  | checkPeers l => exact track_checkPeers P hmax i s hc l
  | tick =>
    unfold visited checkRes tick
    cases hps : s.ps with
    | unknown => simpa [hps] using track_checkAll P hmax i s hc hnd
    | error => simpa [hps] using track_init P i s
    | known l => simpa [hps] using track_checkPeers P hmax i s hc l
  | _ => simpa [visited, checkRes] using track_init P i s

/-! ### the invariant tying the model state to the property's bookkeeping -/

structure Inv (P : Params) (hist : List Op) (s : State) (t : SState) : Prop where
  ps : s.ps = t.ps
  keys : s.keys = t.seen
  nodup : s.keys.Nodup
  stored : ∀ k, s.win k ≠ none → k ∈ s.keys
  ringNone : ∀ k, s.win k = none →
    (t.key k).count = 0 ∧ (t.key k).latest = none ∧ (t.key k).reported = false
  ringSome : ∀ k w, s.win k = some w → ∃ xs, RingRep P.cap w xs ∧
    xs.length = min P.cap (t.key k).count ∧ 0 < (t.key k).count ∧ (t.key k).latest = xs.getLast?
  own : ∀ k m, (t.key k).latest = some m → (m.name, m.peer) = k ∧ Op.add m ∈ hist
  cnt : ∀ k, s.cnt k ≤ 1
  rep : ∀ k, (t.key k).reported = true → s.cnt k = 1 ∧ s.af k = stampOf (t.key k).latest
  now : s.now = t.now

/-- the extra part that only holds while the alert counters follow the renewals -/
def Sync (s : State) (t : SState) : Prop :=
  ∀ k, (t.key k).latest ≠ none → s.cnt k = 1 → s.af k = stampOf (t.key k).latest → (t.key k).reported = true

/-- stamps in use are older than the position `i` the history has reached -/
def Fresh (i : Nat) (s : State) (t : SState) : Prop :=
  (∀ k, s.af k ≤ i) ∧ ∀ k m, (t.key k).latest = some m → m.id < i

theorem Fresh.mono {i j : Nat} {s : State} {t : SState} (h : Fresh i s t) (hij : i ≤ j) : Fresh j s t :=
  ⟨fun k => Nat.le_trans (h.1 k) hij, fun k m hm => Nat.lt_of_lt_of_le (h.2 k m hm) hij⟩

theorem fresh_of {i : Nat} {s s' : State} {t t' : SState} (h : Fresh i s t) (ha : ∀ k, s'.af k = s.af k)
    (hl : ∀ k m, (t'.key k).latest = some m → (t.key k).latest = some m) : Fresh (i + 1) s' t' :=
  ⟨fun k => by rw [ha]; have := h.1 k; omega, fun k m hm => by have := h.2 k m (hl k m hm); omega⟩

theorem fresh_init (ps : Peerset) (t0 : Nat := 0) : Fresh 0 (State.init ps t0) (SState.init ps t0) := by
  refine ⟨by simp [State.init], ?_⟩
  intro k m hm; simp [SState.init] at hm

theorem Inv.latest {P : Params} {hist : List Op} {s : State} {t : SState} (h : Inv P hist s t) (k : Key) :
    latestOf s k = (t.key k).latest := by
  unfold latestOf
  cases hw : s.win k with
  | none => simp [(h.ringNone k hw).2.1]
  | some w =>
    obtain ⟨xs, hr, _, _, hl⟩ := h.ringSome k w hw
    simp [ringRep_latest hr, hl]

theorem Inv.count {P : Params} {hist : List Op} {s : State} {t : SState} (h : Inv P hist s t) {k : Key}
    {w : Window} (hw : s.win k = some w) : w.count = min P.cap (t.key k).count := by
  obtain ⟨xs, hr, hlen, _, _⟩ := h.ringSome k w hw
  rw [ringRep_count hr, hlen]

theorem inv_init (P : Params) (hist : List Op) (ps : Peerset) (t0 : Nat := 0) :
    Inv P hist (State.init ps t0) (SState.init ps t0) :=
  { ps := rfl, keys := rfl, now := rfl, nodup := by simp [State.init], stored := by simp [State.init],
    ringNone := by intro k _; simp [SState.init],
    ringSome := by intro k w hw; simp [State.init] at hw,
    own := by intro k m hm; simp [SState.init] at hm,
    cnt := by intro k; simp [State.init],
    rep := by intro k hk; simp [SState.init] at hk }

theorem sync_init (ps : Peerset) (t0 : Nat := 0) : Sync (State.init ps t0) (SState.init ps t0) := by
  intro k hk; simp [SState.init] at hk

theorem Inv.ecnt_eq {P : Params} {hist : List Op} {s : State} {t : SState} (h : Inv P hist s t) (k : Key) :
    ecnt s k = if s.af k = stampOf (t.key k).latest then s.cnt k else 0 := by
  unfold CV.C09.ecnt; rw [h.latest]

theorem Inv.ecnt_one {P : Params} {hist : List Op} {s : State} {t : SState} (h : Inv P hist s t) {k : Key}
    (he : CV.C09.ecnt s k = 1) : s.cnt k = 1 ∧ s.af k = stampOf (t.key k).latest := by
  rw [h.ecnt_eq] at he
  split_ifs at he with ha
  exact ⟨he, ha⟩

theorem Inv.ecnt_zero_or_one {P : Params} {hist : List Op} {s : State} {t : SState} (h : Inv P hist s t)
    (k : Key) : CV.C09.ecnt s k = 0 ∨ CV.C09.ecnt s k = 1 := by
  have := ecnt_le s k
  have := h.cnt k
  omega

/-- the bookkeeping entry after an arrival -/
def addEntry (e : SKey) (m : Metric) : SKey :=
  { e with latest := some m, count := e.count + 1, reported := false }

@[simp] theorem addEntry_latest (e : SKey) (m : Metric) : (addEntry e m).latest = some m := rfl
@[simp] theorem addEntry_count (e : SKey) (m : Metric) : (addEntry e m).count = e.count + 1 := rfl
@[simp] theorem addEntry_reported (e : SKey) (m : Metric) : (addEntry e m).reported = false := rfl

theorem inv_add {P : Params} {hist : List Op} {s : State} {t : SState} (hc : 0 < P.cap) (h : Inv P hist s t)
    (m : Metric) (hm : Op.add m ∈ hist) (o : Obs) : Inv P hist (s.add P m) (specStep t (.add m) o) := by
  have hkey : ∀ k', (specStep t (.add m) o).key k' =
      if k' = (m.name, m.peer) then addEntry (t.key (m.name, m.peer)) m else t.key k' := by
    intro k'; simp [specStep, setKey, upd, addEntry]
  have hwin : ∀ k', (s.add P m).win k' =
      if k' = (m.name, m.peer) then some (((s.win (m.name, m.peer)).getD (Window.new P.cap)).add m) else s.win k' := by
    intro k'; simp [State.add, upd]
  have hkeys : (s.add P m).keys = if s.keys.contains (m.name, m.peer) then s.keys else s.keys ++ [(m.name, m.peer)] := by
    simp [State.add]
  refine { ps := ?_, keys := ?_, nodup := ?_, stored := ?_, ringNone := ?_, ringSome := ?_, own := ?_, cnt := ?_, rep := ?_, now := by simpa [State.add, specStep, setKey] using h.now }
  · simpa [State.add, specStep, setKey] using h.ps
  · rw [hkeys]; simp [specStep, setKey, h.keys]
  · rw [hkeys]
    split_ifs with hin
    · exact h.nodup
    · refine List.nodup_append.2 ⟨h.nodup, by simp, ?_⟩
      intro a ha b hb; simp at hb; subst hb; intro hab; subst hab
      simp at hin; exact hin ha
  · intro k' hk'
    rw [hwin] at hk'
    rw [hkeys]
    by_cases he : k' = (m.name, m.peer)
    · subst he
      split_ifs with hin
      · simpa using hin
      · simp
    · rw [if_neg he] at hk'
      have := h.stored k' hk'
      split_ifs
      · exact this
      · simp [this]
  · intro k' hk'
    rw [hwin] at hk'
    by_cases he : k' = (m.name, m.peer)
    · rw [if_pos he] at hk'; simp at hk'
    · rw [if_neg he] at hk'
      rw [hkey, if_neg he]
      exact h.ringNone k' hk'
  · intro k' w hw
    rw [hwin] at hw
    by_cases he : k' = (m.name, m.peer)
    · rw [if_pos he] at hw
      simp only [Option.some.injEq] at hw
      rw [hkey, if_pos he]
      subst hw
      cases hs : s.win (m.name, m.peer) with
      | none =>
        obtain ⟨h0, _, _⟩ := h.ringNone _ hs
        refine ⟨pushCap P.cap [] m, ?_, ?_, by simp, ?_⟩
        · simpa using ringRep_add hc m (ringRep_new P.cap)
        · simpa [h0] using pushCap_length P.cap hc [] m 0 (by simp)
        · simp [pushCap_getLast]
      | some w0 =>
        obtain ⟨xs, hr, hlen, _, _⟩ := h.ringSome _ w0 hs
        refine ⟨pushCap P.cap xs m, ?_, ?_, by simp, ?_⟩
        · simpa using ringRep_add hc m hr
        · simpa using pushCap_length P.cap hc xs m _ hlen
        · simp [pushCap_getLast]
    · rw [if_neg he] at hw
      rw [hkey, if_neg he]
      exact h.ringSome k' w hw
  · intro k' m' hm'
    rw [hkey] at hm'
    by_cases he : k' = (m.name, m.peer)
    · rw [if_pos he] at hm'
      simp at hm'
      subst hm'
      exact ⟨he.symm, hm⟩
    · rw [if_neg he] at hm'
      exact h.own k' m' hm'
  · intro k'; simpa [State.add] using h.cnt k'
  · intro k' hk'
    rw [hkey] at hk' ⊢
    have hcnt : (s.add P m).cnt k' = s.cnt k' := by simp [State.add]
    have haf : (s.add P m).af k' = s.af k' := by simp [State.add]
    rw [hcnt, haf]
    by_cases he : k' = (m.name, m.peer)
    · rw [if_pos he] at hk'; simp at hk'
    · rw [if_neg he] at hk' ⊢
      exact h.rep k' hk'

/-- an arrival at position `i` carries a stamp no alert count refers to yet -/
theorem sync_add {P : Params} {i : Nat} {s : State} {t : SState} (hs : Sync s t)
    (hF : Fresh i s t) (m : Metric) (hid : m.id = i) (o : Obs) :
    Sync (s.add P m) (specStep t (.add m) o) ∧ Fresh (i + 1) (s.add P m) (specStep t (.add m) o) := by
  have hkey : ∀ k', (specStep t (.add m) o).key k' =
      if k' = (m.name, m.peer) then addEntry (t.key (m.name, m.peer)) m else t.key k' := by
    intro k'; simp [specStep, setKey, upd, addEntry]
  have hcnt : ∀ k', (s.add P m).cnt k' = s.cnt k' := by intro k'; simp [State.add]
  have haf : ∀ k', (s.add P m).af k' = s.af k' := by intro k'; simp [State.add]
  constructor
  · intro k' hl hc ha
    rw [hcnt] at hc
    rw [haf] at ha
    rw [hkey] at hl ha ⊢
    by_cases he : k' = (m.name, m.peer)
    · rw [if_pos he] at ha
      simp only [addEntry_latest, stampOf] at ha
      have := hF.1 k'
      omega
    · rw [if_neg he] at hl ha ⊢
      exact hs k' hl hc ha
  · refine ⟨fun k' => by rw [haf]; have := hF.1 k'; omega, ?_⟩
    intro k' m' hm'
    rw [hkey] at hm'
    by_cases he : k' = (m.name, m.peer)
    · rw [if_pos he] at hm'
      simp at hm'; subst hm'; omega
    · rw [if_neg he] at hm'
      have := hF.2 k' m' hm'; omega

theorem inv_rmPeer {P : Params} {hist : List Op} {s : State} {t : SState} (h : Inv P hist s t)
    (p : Nat) (o : Obs) : Inv P hist (s.rmPeer p) (specStep t (.rmPeer p) o) := by
  have hkey : ∀ k', (specStep t (.rmPeer p) o).key k' =
      if k'.2 = p then { t.key k' with latest := none, count := 0, reported := false } else t.key k' := by
    intro k'; simp [specStep]
  have hwin : ∀ k', (s.rmPeer p).win k' = if k'.2 = p then none else s.win k' := by
    intro k'; simp [State.rmPeer]
  refine { ps := ?_, keys := ?_, nodup := ?_, stored := ?_, ringNone := ?_, ringSome := ?_, own := ?_, cnt := ?_, rep := ?_, now := by simpa [State.rmPeer, specStep] using h.now }
  · simpa [State.rmPeer, specStep] using h.ps
  · simpa [State.rmPeer, specStep] using h.keys
  · simpa [State.rmPeer] using h.nodup
  · intro k' hk'
    rw [hwin] at hk'
    by_cases he : k'.2 = p
    · simp [he] at hk'
    · rw [if_neg he] at hk'
      simpa [State.rmPeer] using h.stored k' hk'
  · intro k' hk'
    rw [hwin] at hk'
    rw [hkey]
    by_cases he : k'.2 = p
    · simp [he]
    · rw [if_neg he] at hk' ⊢
      exact h.ringNone k' hk'
  · intro k' w hw
    rw [hwin] at hw
    rw [hkey]
    by_cases he : k'.2 = p
    · simp [he] at hw
    · rw [if_neg he] at hw ⊢
      exact h.ringSome k' w hw
  · intro k' m hm
    rw [hkey] at hm
    by_cases he : k'.2 = p
    · simp [he] at hm
    · rw [if_neg he] at hm
      exact h.own k' m hm
  · intro k'; simpa [State.rmPeer] using h.cnt k'
  · intro k' hk'
    rw [hkey] at hk' ⊢
    by_cases he : k'.2 = p
    · simp [he] at hk'
    · rw [if_neg he] at hk' ⊢
      simpa [State.rmPeer] using h.rep k' hk'

theorem sync_rmPeer {s : State} {t : SState} (hs : Sync s t) (p : Nat) (o : Obs) :
    Sync (s.rmPeer p) (specStep t (.rmPeer p) o) := by
  intro k' hl hc ha
  have hkey : (specStep t (.rmPeer p) o).key k' =
      if k'.2 = p then { t.key k' with latest := none, count := 0, reported := false } else t.key k' := by
    simp [specStep]
  rw [hkey] at hl ha ⊢
  by_cases he : k'.2 = p
  · simp [he] at hl
  · rw [if_neg he] at hl ha ⊢
    exact hs k' hl (by simpa [State.rmPeer] using hc) (by simpa [State.rmPeer] using ha)

theorem inv_rmMetrics {P : Params} {hist : List Op} {s : State} {t : SState} (h : Inv P hist s t)
    (n p : Nat) (o : Obs) : Inv P hist (s.rmMetrics (n, p)) (specStep t (.rmMetrics n p) o) := by
  have hkey : ∀ k', (specStep t (.rmMetrics n p) o).key k' =
      if k' = (n, p) then { t.key (n, p) with latest := none, count := 0, reported := false } else t.key k' := by
    intro k'; simp [specStep, setKey, upd]
  have hwin : ∀ k', (s.rmMetrics (n, p)).win k' = if k' = (n, p) then none else s.win k' := by
    intro k'; simp [State.rmMetrics, upd]
  refine { ps := ?_, keys := ?_, nodup := ?_, stored := ?_, ringNone := ?_, ringSome := ?_, own := ?_, cnt := ?_, rep := ?_, now := by simpa [State.rmMetrics, specStep, setKey] using h.now }
  · simpa [State.rmMetrics, specStep, setKey] using h.ps
  · simpa [State.rmMetrics, specStep, setKey] using h.keys
  · simpa [State.rmMetrics] using h.nodup
  · intro k' hk'
    rw [hwin] at hk'
    by_cases he : k' = (n, p)
    · simp [he] at hk'
    · rw [if_neg he] at hk'
      simpa [State.rmMetrics] using h.stored k' hk'
  · intro k' hk'
    rw [hwin] at hk'
    rw [hkey]
    by_cases he : k' = (n, p)
    · simp [he]
    · rw [if_neg he] at hk' ⊢
      exact h.ringNone k' hk'
  · intro k' w hw
    rw [hwin] at hw
    rw [hkey]
    by_cases he : k' = (n, p)
    · simp [he] at hw
    · rw [if_neg he] at hw ⊢
      exact h.ringSome k' w hw
  · intro k' m hm
    rw [hkey] at hm
    by_cases he : k' = (n, p)
    · simp [he] at hm
    · rw [if_neg he] at hm
      exact h.own k' m hm
  · intro k'; simpa [State.rmMetrics] using h.cnt k'
  · intro k' hk'
    rw [hkey] at hk' ⊢
    by_cases he : k' = (n, p)
    · simp [he] at hk'
    · rw [if_neg he] at hk' ⊢
      simpa [State.rmMetrics] using h.rep k' hk'

theorem sync_rmMetrics {s : State} {t : SState} (hs : Sync s t) (n p : Nat) (o : Obs) :
    Sync (s.rmMetrics (n, p)) (specStep t (.rmMetrics n p) o) := by
  intro k' hl hc ha
  have hkey : (specStep t (.rmMetrics n p) o).key k' =
      if k' = (n, p) then { t.key (n, p) with latest := none, count := 0, reported := false } else t.key k' := by
    simp [specStep, setKey, upd]
  rw [hkey] at hl ha ⊢
  by_cases he : k' = (n, p)
  · simp [he] at hl
  · rw [if_neg he] at hl ha ⊢
    exact hs k' hl (by simpa [State.rmMetrics] using hc) (by simpa [State.rmMetrics] using ha)

theorem inv_setPeers {P : Params} {hist : List Op} {s : State} {t : SState} (h : Inv P hist s t)
    (ps : Peerset) (o : Obs) : Inv P hist { s with ps := ps } (specStep t (.setPeers ps) o) :=
  { ps := by simp [specStep], keys := by simpa [specStep] using h.keys, nodup := h.nodup, stored := h.stored,
    now := by simpa [specStep] using h.now,
    ringNone := by simpa [specStep] using h.ringNone, ringSome := by simpa [specStep] using h.ringSome,
    own := by simpa [specStep] using h.own, cnt := h.cnt, rep := by simpa [specStep] using h.rep }

/-! ### a failure check against the bookkeeping -/

theorem step_check (P : Params) (i : Nat) (s : State) (op : Op) (hop : isCheck op = true) :
    step P i s op = ((checkRes P i s op).1, .check (checkRes P i s op).2 (forgotten s (checkRes P i s op).1)) := by
  cases op <;> simp [isCheck] at hop <;> rfl

/-- the bookkeeping entry after a check that raised `al` and forgot `fg` -/
def checkEntry (t : SState) (al : List Alert) (fg : List Key) (k : Key) : SKey :=
  if fg.contains k then { latest := none, count := 0, reported := false, stuck := false }
  else if (alertKeys al).contains k then { t.key k with reported := true, stuck := true }
  else t.key k

theorem specStep_check (t : SState) (op : Op) (hop : isCheck op = true) (al : List Alert) (fg : List Key) :
    (specStep t op (.check al fg)).key = checkEntry t al fg ∧
    (specStep t op (.check al fg)).seen = t.seen ∧ (specStep t op (.check al fg)).ps = t.ps := by
  cases op <;> simp [isCheck] at hop <;> (refine ⟨?_, rfl, rfl⟩; funext k; simp [specStep, checkEntry])

theorem specStep_check_now (t : SState) (op : Op) (hop : isCheck op = true) {o : Obs} :
    (specStep t op o).now = t.now := by
  cases op <;> simp [isCheck] at hop <;> (simp only [specStep]; split <;> rfl)

theorem mem_forgotten {s s' : State} {k : Key} :
    k ∈ forgotten s s' ↔ k ∈ s.keys ∧ (latestOf s k).isSome = true ∧ (latestOf s' k).isNone = true := by
  simp [forgotten, List.mem_filter]

theorem hot_expired {P : Params} {i : Nat} {s : State} {k : Key} (h : Hot P i s k) :
    ∃ m, latestOf s k = some m ∧ m.expiredAt s.now = true := by
  obtain ⟨h1, h2⟩ := h
  unfold latestOf at h1 ⊢
  unfold failedK at h2
  cases hw : s.win k with
  | none => simp [hw] at h1
  | some w =>
    simp only [hw, Option.bind_some] at h1 h2 ⊢
    cases hl : w.latest with
    | none => simp [hl] at h1
    | some m =>
      refine ⟨m, rfl, ?_⟩
      simp only [hl] at h2
      by_cases hx : m.expiredAt s.now = true
      · exact hx
      · simp [hx] at h2

theorem latest_some_win {s : State} {k : Key} (h : (latestOf s k).isSome = true) : s.win k ≠ none := by
  intro hw; unfold latestOf at h; simp [hw] at h

/-- forgotten by the check = phase C -/
theorem forgotten_iff {P : Params} {hist : List Op} {i : Nat} {s : State} {t : SState} {done : List Key}
    {acc : State × List Alert} (hI : Inv P hist s t) (hT : Track P i s done acc) (k : Key) :
    k ∈ forgotten s acc.1 ↔ PhC P i s acc k := by
  rw [mem_forgotten]
  constructor
  · rintro ⟨_, h1, h2⟩
    rcases hT.phase k with ⟨hw, _⟩ | ⟨hw, _⟩ | hC
    · rw [latestOf_congr hw] at h2; cases hx : latestOf s k <;> simp [hx] at h1 h2
    · rw [latestOf_congr hw] at h2; cases hx : latestOf s k <;> simp [hx] at h1 h2
    · exact hC
  · rintro ⟨hw, _, hh, _⟩
    refine ⟨hI.stored k (latest_some_win hh.1), hh.1, ?_⟩
    unfold latestOf; rw [hw]; rfl

theorem not_forgotten_win {P : Params} {hist : List Op} {i : Nat} {s : State} {t : SState} {done : List Key}
    {acc : State × List Alert} (hI : Inv P hist s t) (hT : Track P i s done acc) {k : Key}
    (hk : k ∉ forgotten s acc.1) : acc.1.win k = s.win k := by
  rcases hT.phase k with ⟨hw, _⟩ | ⟨hw, _⟩ | hC
  · exact hw
  · exact hw
  · exact absurd ((forgotten_iff hI hT k).2 hC) hk

theorem inv_check {P : Params} {hist : List Op} {i : Nat} {s : State} {t : SState} {done : List Key}
    {acc : State × List Alert} (hI : Inv P hist s t) (hT : Track P i s done acc) (op : Op)
    (hop : isCheck op = true) :
    Inv P hist acc.1 (specStep t op (.check acc.2 (forgotten s acc.1))) := by
  obtain ⟨hkey, hseen, hps⟩ := specStep_check t op hop acc.2 (forgotten s acc.1)
  have hent : ∀ k, (specStep t op (.check acc.2 (forgotten s acc.1))).key k =
      checkEntry t acc.2 (forgotten s acc.1) k := fun k => by rw [hkey]
  -- entry of a (name, peer) that was not forgotten: only the report flags may differ
  have hkeep : ∀ k, k ∉ forgotten s acc.1 →
      (checkEntry t acc.2 (forgotten s acc.1) k).latest = (t.key k).latest ∧
      (checkEntry t acc.2 (forgotten s acc.1) k).count = (t.key k).count ∧
      ((checkEntry t acc.2 (forgotten s acc.1) k).reported = true ↔
        ((t.key k).reported = true ∨ k ∈ alertKeys acc.2)) := by
    intro k hk
    unfold checkEntry
    have : (forgotten s acc.1).contains k = false := by simpa using hk
    rw [this]
    by_cases ha : (alertKeys acc.2).contains k = true
    · have ha' : k ∈ alertKeys acc.2 := by simpa using ha
      simp [ha']
    · have ha' : k ∉ alertKeys acc.2 := by simpa using ha
      simp [ha']
  have hgone : ∀ k, k ∈ forgotten s acc.1 →
      checkEntry t acc.2 (forgotten s acc.1) k = { latest := none, count := 0, reported := false, stuck := false } := by
    intro k hk
    unfold checkEntry
    have : (forgotten s acc.1).contains k = true := by simpa using hk
    rw [this]; rfl
  refine { ps := ?_, keys := ?_, nodup := ?_, stored := ?_, ringNone := ?_, ringSome := ?_, own := ?_, cnt := ?_, rep := ?_, now := by rw [specStep_check_now t op hop, hT.now, hI.now] }
  · rw [hps, hT.ps, hI.ps]
  · rw [hseen, hT.keys, hI.keys]
  · rw [hT.keys]; exact hI.nodup
  · intro k hk
    rw [hT.keys]
    rcases hT.phase k with ⟨hw, _⟩ | ⟨hw, _⟩ | ⟨hw, _⟩
    · exact hI.stored k (hw ▸ hk)
    · exact hI.stored k (hw ▸ hk)
    · exact absurd hw hk
  · intro k hk
    rw [hent]
    by_cases hf : k ∈ forgotten s acc.1
    · rw [hgone k hf]; simp
    · have hw := not_forgotten_win hI hT hf
      obtain ⟨h1, h2, h3⟩ := hkeep k hf
      obtain ⟨c0, l0, r0⟩ := hI.ringNone k (hw ▸ hk)
      refine ⟨by rw [h2, c0], by rw [h1, l0], ?_⟩
      cases hr : (checkEntry t acc.2 (forgotten s acc.1) k).reported with
      | false => rfl
      | true =>
        rcases h3.1 hr with hr' | hm
        · rw [r0] at hr'; cases hr'
        · -- alerted keys have a stored metric
          exfalso
          rcases hT.phase k with ⟨_, _, hn⟩ | ⟨_, _, _, _, hh⟩ | hC
          · exact hn hm
          · exact latest_some_win hh.1 (hw ▸ hk)
          · exact hf ((forgotten_iff hI hT k).2 hC)
  · intro k w hk
    rw [hent]
    by_cases hf : k ∈ forgotten s acc.1
    · have := (forgotten_iff hI hT k).1 hf
      rw [this.1] at hk; cases hk
    · have hw := not_forgotten_win hI hT hf
      obtain ⟨h1, h2, _⟩ := hkeep k hf
      rw [h1, h2]
      exact hI.ringSome k w (hw ▸ hk)
  · intro k m hm
    rw [hent] at hm
    by_cases hf : k ∈ forgotten s acc.1
    · rw [hgone k hf] at hm; cases hm
    · rw [(hkeep k hf).1] at hm
      exact hI.own k m hm
  · intro k
    rcases hT.phase k with ⟨_, hc, _⟩ | ⟨_, _, hc, _⟩ | ⟨_, hc, _⟩
    · simp only [ca, Prod.mk.injEq] at hc; rw [hc.1]; exact hI.cnt k
    · simp only [ca, Prod.mk.injEq] at hc; omega
    · simp only [ca, Prod.mk.injEq] at hc; omega
  · intro k hk
    rw [hent] at hk ⊢
    by_cases hf : k ∈ forgotten s acc.1
    · rw [hgone k hf] at hk; cases hk
    · rw [(hkeep k hf).1]
      rcases hT.phase k with ⟨_, hc, hn⟩ | ⟨_, _, hc, _⟩ | hC
      · simp only [ca, Prod.mk.injEq] at hc
        rw [hc.1, hc.2]
        rcases ((hkeep k hf).2.2).1 hk with hr | hm
        · exact hI.rep k hr
        · exact absurd hm hn
      · simp only [ca, Prod.mk.injEq] at hc
        rw [← hI.latest]; exact hc
      · exact absurd ((forgotten_iff hI hT k).2 hC) hf

theorem sync_check {P : Params} {hist : List Op} {i : Nat} {s : State} {t : SState} {done : List Key}
    {acc : State × List Alert} (hI : Inv P hist s t) (hS : Sync s t) (hT : Track P i s done acc) (op : Op)
    (hop : isCheck op = true) :
    Sync acc.1 (specStep t op (.check acc.2 (forgotten s acc.1))) := by
  obtain ⟨hkey, _, _⟩ := specStep_check t op hop acc.2 (forgotten s acc.1)
  intro k hl hc ha
  rw [hkey] at hl ha ⊢
  unfold checkEntry at hl ha ⊢
  by_cases hf : (forgotten s acc.1).contains k = true
  · rw [if_pos hf] at hl; simp at hl
  · rw [if_neg hf] at hl ha ⊢
    have hf' : k ∉ forgotten s acc.1 := by simpa using hf
    by_cases hal : (alertKeys acc.2).contains k = true
    · rw [if_pos hal]
    · rw [if_neg hal] at hl ha ⊢
      have ha' : k ∉ alertKeys acc.2 := by simpa using hal
      rcases hT.phase k with ⟨_, hcc, _⟩ | ⟨_, _, _, hm, _⟩ | hC
      · simp only [ca, Prod.mk.injEq] at hcc
        exact hS k hl (hcc.1 ▸ hc) (hcc.2 ▸ ha)
      · exact absurd hm ha'
      · exact absurd ((forgotten_iff hI hT k).2 hC) hf'

theorem fresh_check {P : Params} {hist : List Op} {i : Nat} {s : State} {t : SState} {done : List Key}
    {acc : State × List Alert} (hI : Inv P hist s t) (hF : Fresh i s t) (hT : Track P i s done acc) (op : Op)
    (hop : isCheck op = true) :
    Fresh (i + 1) acc.1 (specStep t op (.check acc.2 (forgotten s acc.1))) := by
  obtain ⟨hkey, _, _⟩ := specStep_check t op hop acc.2 (forgotten s acc.1)
  constructor
  · intro k
    rcases hT.phase k with ⟨_, hc, _⟩ | ⟨_, _, hc, _, hh⟩ | ⟨_, hc, _⟩
    · simp only [ca, Prod.mk.injEq] at hc; rw [hc.2]; have := hF.1 k; omega
    · simp only [ca, Prod.mk.injEq] at hc
      obtain ⟨m, hm⟩ := Option.isSome_iff_exists.1 hh.1
      rw [hc.2, hm]
      have := hF.2 k m (by rw [← hI.latest]; exact hm)
      simp only [stampOf]; omega
    · simp only [ca, Prod.mk.injEq] at hc; omega
  · intro k m hm
    rw [hkey] at hm
    unfold checkEntry at hm
    split_ifs at hm with h1 h2
    · have := hF.2 k m hm; omega
    · have := hF.2 k m hm; omega

/-! ### the clauses at a failure check -/

theorem alerted_facts {P : Params} {i : Nat} {s : State} {done : List Key} {acc : State × List Alert}
    (hT : Track P i s done acc) {k : Key} (hk : k ∈ alertKeys acc.2) : ecnt s k = 0 ∧ Hot P i s k := by
  rcases hT.phase k with ⟨_, _, hn⟩ | ⟨_, h0, _, _, hh⟩ | ⟨_, _, hh, ⟨_, hn⟩ | ⟨h0, _⟩⟩
  · exact absurd hk hn
  · exact ⟨h0, hh⟩
  · exact absurd hk hn
  · exact ⟨h0, hh⟩

theorem check_fresh_never_failed {P : Params} {hist : List Op} {i : Nat} {s : State} {t : SState}
    {done : List Key} {acc : State × List Alert} (hI : Inv P hist s t) (hT : Track P i s done acc) :
    acc.2.all (fun a => match (t.key a.key).latest with | some m => m.expiredAt t.now | none => true) = true := by
  rw [List.all_eq_true]
  intro a ha
  have hk : a.key ∈ alertKeys acc.2 := List.mem_map_of_mem ha
  obtain ⟨m, hm, hx⟩ := hot_expired (alerted_facts hT hk).2
  rw [← hI.latest, hm, ← hI.now]
  exact hx

theorem check_alert_once {P : Params} {hist : List Op} {i : Nat} {s : State} {t : SState}
    {done : List Key} {acc : State × List Alert} (hI : Inv P hist s t) (hT : Track P i s done acc) :
    (decide (alertKeys acc.2).Nodup && acc.2.all (fun a => !(t.key a.key).reported)) = true := by
  rw [Bool.and_eq_true, decide_eq_true_eq, List.all_eq_true]
  refine ⟨hT.nodup, ?_⟩
  intro a ha
  have hk : a.key ∈ alertKeys acc.2 := List.mem_map_of_mem ha
  have h0 := (alerted_facts hT hk).1
  cases hr : (t.key a.key).reported with
  | false => rfl
  | true =>
    have := hI.rep _ hr
    rw [hI.ecnt_eq, if_pos this.2] at h0
    omega

theorem mem_dedupN {l : List Nat} {x : Nat} : x ∈ dedupN l ↔ x ∈ l := by
  induction l with
  | nil => simp [dedupN]
  | cons a t ih =>
    unfold dedupN
    by_cases h : x = a
    · simp [h]
    · simp [h, List.mem_filter, ih]

theorem mem_peersKeys {s : State} {l : List Nat} {k : Key} :
    k ∈ peersKeys s l ↔ k.1 ∈ names s ∧ k.2 ∈ l := by
  unfold peersKeys
  simp only [List.mem_flatMap, List.mem_map]
  constructor
  · rintro ⟨n, hn, p, hp, rfl⟩; exact ⟨hn, hp⟩
  · rintro ⟨hn, hp⟩; exact ⟨k.1, hn, k.2, hp, rfl⟩

theorem mem_names {s : State} {k : Key} (h : k ∈ s.keys) : k.1 ∈ names s := by
  unfold names; rw [mem_dedupN]; exact List.mem_map_of_mem h

theorem covered_visited {P : Params} {hist : List Op} {s : State} {t : SState} (hI : Inv P hist s t)
    {op : Op} {k : Key} (hc : covered t op k = true)
    (hl : (latestOf s k).isSome = true) : k ∈ visited s op := by
  have hkeys : k ∈ s.keys := hI.stored k (latest_some_win hl)
  cases op with
  | checkPeers l =>
    simp only [covered, List.contains_iff_mem] at hc
    exact mem_peersKeys.2 ⟨mem_names hkeys, hc⟩
  | tick =>
    unfold covered at hc
    unfold visited
    rw [← hI.ps] at hc
    cases hps : s.ps with
    | unknown =>
      simp only
      exact mem_allKeys.2 ⟨hkeys, hl⟩
    | error => simp [hps] at hc
    | known l =>
      simp only [hps, List.contains_iff_mem] at hc ⊢
      exact mem_peersKeys.2 ⟨mem_names hkeys, hc⟩
  | _ => simp [covered] at hc

theorem hot_of_stale {P : Params} {hist : List Op} {i : Nat} {s : State} {t : SState} (hI : Inv P hist s t)
    {k : Key} (hs : stale t k = true) (hd : deferred P.cap P.orc i t k = false) : Hot P i s k := by
  unfold stale at hs
  cases hl : (t.key k).latest with
  | none => simp [hl] at hs
  | some m =>
    simp only [hl] at hs
    have hlat : latestOf s k = some m := by rw [hI.latest, hl]
    refine ⟨by simp [hlat], ?_⟩
    unfold failedK
    cases hw : s.win k with
    | none => rfl
    | some w =>
      have hwl : w.latest = some m := by simpa [latestOf, hw] using hlat
      rw [← hI.now] at hs
      simp only [hwl, hs, Bool.not_true, Bool.false_eq_true, if_false]
      by_cases hlt : w.count < accrualMin
      · simp [hlt]
      · rw [if_neg hlt]
        unfold deferred at hd
        rw [← hI.count hw] at hd
        have : decide (accrualMin ≤ w.count) = true := by simp; omega
        simpa [this] using hd

theorem visited_not_A {P : Params} {i : Nat} {s : State} {op : Op} {acc : State × List Alert}
    (hT : Track P i s (visited s op).reverse acc) {k : Key} (hv : k ∈ visited s op) (hh : Hot P i s k) :
    PhB P i s acc k ∨ PhC P i s acc k := by
  rcases hT.phase k with hA | hB | hC
  · exact absurd hA (hT.prog k (List.mem_reverse.2 hv) hh)
  · exact Or.inl hB
  · exact Or.inr hC

theorem check_expired_reported {P : Params} {hist : List Op} {i : Nat} {s : State} {t : SState} {op : Op}
    {acc : State × List Alert} (hI : Inv P hist s t) (hS : Sync s t)
    (hT : Track P i s (visited s op).reverse acc) :
    t.seen.all (fun k => !mustAlert P.cap P.orc i t op k || (alertKeys acc.2).contains k) = true := by
  rw [List.all_eq_true]
  intro k _
  by_cases hm : mustAlert P.cap P.orc i t op k = true
  · simp only [hm, Bool.not_true, Bool.false_or, List.contains_iff_mem]
    unfold mustAlert at hm
    simp only [Bool.and_eq_true, Bool.not_eq_true'] at hm
    obtain ⟨⟨⟨hc, hs⟩, hr⟩, hd⟩ := hm
    have hh := hot_of_stale (i := i) hI hs hd
    have hv := covered_visited hI hc hh.1
    have hl : (t.key k).latest ≠ none := by
      unfold stale at hs; intro h; simp [h] at hs
    have hc0 : ecnt s k = 0 := by
      rcases hI.ecnt_zero_or_one k with h0 | h1
      · exact h0
      · obtain ⟨a, b⟩ := hI.ecnt_one h1
        have := hS k hl a b
        rw [hr] at this; cases this
    rcases visited_not_A hT hv hh with ⟨_, _, _, hmem, _⟩ | ⟨_, _, _, ⟨h1, _⟩ | ⟨_, hmem⟩⟩
    · simpa using hmem
    · omega
    · simpa using hmem
  · simp [hm]

theorem check_stale_forgotten {P : Params} {hist : List Op} {i : Nat} {s : State} {t : SState} {op : Op}
    {acc : State × List Alert} (hI : Inv P hist s t)
    (hT : Track P i s (visited s op).reverse acc) :
    t.seen.all (fun k => !mustForget P.cap P.orc i t op k || (forgotten s acc.1).contains k) = true := by
  rw [List.all_eq_true]
  intro k _
  by_cases hm : mustForget P.cap P.orc i t op k = true
  · simp only [hm, Bool.not_true, Bool.false_or, List.contains_iff_mem]
    unfold mustForget at hm
    simp only [Bool.and_eq_true, Bool.not_eq_true'] at hm
    obtain ⟨⟨⟨hc, hs⟩, hr⟩, hd⟩ := hm
    have hh := hot_of_stale (i := i) hI hs hd
    have hv := covered_visited hI hc hh.1
    have hc1 := hI.rep k hr
    rcases visited_not_A hT hv hh with ⟨_, h0, _⟩ | hC
    · rw [hI.ecnt_eq, if_pos hc1.2] at h0; omega
    · exact (forgotten_iff hI hT k).2 hC
  · simp [hm]

theorem check_forget_only_reported {P : Params} {hist : List Op} {i : Nat} {s : State} {t : SState}
    {done : List Key} {acc : State × List Alert} (hI : Inv P hist s t) (hS : Sync s t)
    (hT : Track P i s done acc) :
    (forgotten s acc.1).all (fun k =>
      stale t k && ((t.key k).reported || (alertKeys acc.2).contains k)) = true := by
  rw [List.all_eq_true]
  intro k hk
  obtain ⟨_, _, hh, hcase⟩ := (forgotten_iff hI hT k).1 hk
  obtain ⟨m, hm, hx⟩ := hot_expired hh
  have hl : (t.key k).latest = some m := by rw [← hI.latest, hm]
  have hst : stale t k = true := by unfold stale; rw [hl, ← hI.now]; exact hx
  rw [hst, Bool.true_and, Bool.or_eq_true]
  rcases hcase with ⟨h1, _⟩ | ⟨_, hmem⟩
  · obtain ⟨a, b⟩ := hI.ecnt_one h1
    exact Or.inl (hS k (by rw [hl]; simp) a b)
  · exact Or.inr (by simpa using hmem)

/-! ### the clauses at a query -/

theorem mem_ids {ops : List Op} {m : Metric} (h : Op.add m ∈ ops) : m.id ∈ ids ops := by
  unfold ids
  rw [List.mem_filterMap]
  exact ⟨.add m, h, rfl⟩

theorem arrival_of_mem {hist : List Op} (hn : (ids hist).Nodup) {m : Metric} (h : Op.add m ∈ hist) :
    arrival hist m.id = some m := by
  induction hist with
  | nil => cases h
  | cons op rest ih =>
    unfold arrival
    rw [List.findSome?_cons]
    rcases List.mem_cons.1 h with rfl | hr
    · simp
    · cases op with
      | add m0 =>
        have hids : ids (Op.add m0 :: rest) = m0.id :: ids rest := by simp [ids]
        rw [hids, List.nodup_cons] at hn
        have hne : m0.id ≠ m.id := by
          intro he; exact hn.1 (he ▸ mem_ids hr)
        have := ih hn.2 hr
        simpa [arrival, hne] using this
      | _ =>
        have := ih (by simpa [ids] using hn) hr
        simpa [arrival] using this

theorem mem_latestValid {s : State} {n : Nat} {m : Metric} :
    m ∈ latestValid s n ↔ ∃ k ∈ s.keys, k.1 = n ∧ latestOf s k = some m ∧ m.discard s.now = false := by
  unfold latestValid
  rw [List.mem_filterMap]
  constructor
  · rintro ⟨k, hk, hf⟩
    rw [List.mem_filter] at hk
    cases hl : latestOf s k with
    | none => simp [hl] at hf
    | some m' =>
      simp only [hl] at hf
      by_cases hd : m'.discard s.now = true
      · simp [hd] at hf
      · simp only [hd, Bool.false_eq_true, if_false, Option.some.injEq] at hf
        subst hf
        exact ⟨k, hk.1, by simpa using hk.2, hl, by simpa using hd⟩
  · rintro ⟨k, hk, hn, hl, hd⟩
    exact ⟨k, List.mem_filter.2 ⟨hk, by simpa using hn⟩, by simp [hl, hd]⟩

theorem latestValid_peers_nodup {P : Params} {hist : List Op} {s : State} {t : SState} (hI : Inv P hist s t)
    (n : Nat) : ((latestValid s n).map (·.peer)).Nodup := by
  unfold latestValid
  have key : ∀ L : List Key, L.Nodup → (((L.filter (fun k => k.1 == n)).filterMap (fun k =>
      match latestOf s k with
      | some m => if m.discard s.now then none else some m
      | none => none)).map (·.peer)).Nodup ∧
      ∀ m ∈ ((L.filter (fun k => k.1 == n)).filterMap (fun k =>
      match latestOf s k with
      | some m => if m.discard s.now then none else some m
      | none => none)), (n, m.peer) ∈ L := by
    intro L
    induction L with
    | nil => intro _; simp
    | cons a rest ih =>
      intro hnd
      rw [List.nodup_cons] at hnd
      obtain ⟨ih1, ih2⟩ := ih hnd.2
      by_cases hp : (a.1 == n) = true
      · have hfil : List.filter (fun k : Key => k.1 == n) (a :: rest) =
            a :: List.filter (fun k : Key => k.1 == n) rest := by simp [hp]
        rw [hfil, List.filterMap_cons]
        cases hl : latestOf s a with
        | none =>
          simp only
          exact ⟨ih1, fun m hm => List.mem_cons_of_mem _ (ih2 m hm)⟩
        | some m0 =>
          simp only
          by_cases hd : m0.discard s.now = true
          · simp only [hd, if_true]
            exact ⟨ih1, fun m hm => List.mem_cons_of_mem _ (ih2 m hm)⟩
          · simp only [hd, Bool.false_eq_true, if_false, List.map_cons, List.nodup_cons, List.mem_cons]
            have hown := (hI.own a m0 (by rw [← hI.latest]; exact hl)).1
            have ha : a = (n, m0.peer) := by
              rw [← hown]; simp at hp; rw [← hp, ← hown]
            refine ⟨⟨?_, ih1⟩, ?_⟩
            · intro hmem
              rw [List.mem_map] at hmem
              obtain ⟨m', hm', hpe⟩ := hmem
              have := ih2 m' hm'
              rw [hpe, ← ha] at this
              exact hnd.1 this
            · rintro m (rfl | hm)
              · exact Or.inl ha.symm
              · exact Or.inr (ih2 m hm)
      · have hfil : List.filter (fun k : Key => k.1 == n) (a :: rest) =
            List.filter (fun k : Key => k.1 == n) rest := by simp [hp]
        rw [hfil]
        exact ⟨ih1, fun m hm => List.mem_cons_of_mem _ (ih2 m hm)⟩
  exact (key s.keys hI.nodup).1

theorem latestMetrics_sublist (s : State) (n : Nat) : (latestMetrics s n).Sublist (latestValid s n) := by
  unfold latestMetrics
  cases s.ps with
  | unknown => exact List.Sublist.refl _
  | error => exact List.nil_sublist _
  | known l => exact List.filter_sublist

theorem query_clauses_hold {P : Params} {hist : List Op} {s : State} {t : SState} (hI : Inv P hist s t)
    (hids : (ids hist).Nodup) (n : Nat) :
    ∀ c ∈ queryClauses hist t n ((latestMetrics s n).map (fun m => (m.peer, m.id))), c.2 = true := by
  have hmem : ∀ m ∈ latestMetrics s n, (t.key (n, m.peer)).latest = some m ∧ Op.add m ∈ hist ∧
      m.discard s.now = false := by
    intro m hm
    obtain ⟨k, _, hkn, hl, hd⟩ := mem_latestValid.1 ((latestMetrics_sublist s n).subset hm)
    rw [hI.latest] at hl
    obtain ⟨hown, hadd⟩ := hI.own k m hl
    have : k = (n, m.peer) := by rw [← hown, ← hkn, ← hown]
    rw [this] at hl
    exact ⟨hl, hadd, hd⟩
  intro c hc
  simp only [queryClauses, List.mem_cons, List.mem_nil_iff, or_false] at hc
  rcases hc with rfl | rfl | rfl | rfl
  · simp only [List.map_map, decide_eq_true_eq]
    have : ((fun x : Nat × Nat => x.1) ∘ fun m : Metric => (m.peer, m.id)) = (·.peer) := rfl
    rw [this]
    exact ((latestMetrics_sublist s n).map _).nodup (latestValid_peers_nodup hI n)
  · simp only [List.all_map, List.all_eq_true]
    intro m hm
    simp [(hmem m hm).1]
  · simp only [List.all_map, List.all_eq_true]
    intro m hm
    obtain ⟨_, hadd, hd⟩ := hmem m hm
    simp only [Function.comp, arrival_of_mem hids hadd]
    unfold Metric.discard at hd
    rw [← hI.now]
    cases hv : m.valid <;> cases hx : m.expiredAt s.now <;> simp [hv, hx] at hd ⊢
  · simp only
    rw [← hI.ps]
    cases hps : s.ps with
    | known l =>
      simp only [List.all_map, List.all_eq_true]
      intro m hm
      unfold latestMetrics at hm
      rw [hps] at hm
      simp only [peersetFilter, List.mem_filter] at hm
      exact hm.2
    | _ => rfl

/-! ### one operation, then whole histories -/

/-- the clauses that need no bookkeeping of the alert counters (first sentence, never-failed-if-fresh, not-repeatedly) -/
def safeNames : List String :=
  ["at_most_one_per_peer", "most_recent", "valid_unexpired", "member", "fresh_never_failed", "alert_once",
   "shape", "no_panic"]

theorem op_step {P : Params} (hc : 0 < P.cap) (hmax : P.maxA = 1) {hist : List Op} (hids : (ids hist).Nodup)
    (i : Nat) {s : State} {t : SState} (hI : Inv P hist s t) (op : Op) (hop : op ∈ hist) :
    Inv P hist (step P i s op).1 (specStep t op (step P i s op).2) ∧
    (∀ c ∈ opClauses P.cap P.orc hist i t op (step P i s op).2, c.1 ∈ safeNames → c.2 = true) ∧
    (Sync s t → Fresh i s t → (∀ m, op = .add m → m.id = i) →
      Sync (step P i s op).1 (specStep t op (step P i s op).2) ∧
      Fresh (i + 1) (step P i s op).1 (specStep t op (step P i s op).2) ∧
      ∀ c ∈ opClauses P.cap P.orc hist i t op (step P i s op).2, c.2 = true) := by
  cases op with
  | add m =>
    refine ⟨inv_add hc hI m hop _, by simp [step, opClauses], fun hS hF hid => ?_⟩
    obtain ⟨a, b⟩ := sync_add (P := P) hS hF m (hid m rfl) Obs.silent
    exact ⟨a, b, by simp [step, opClauses]⟩
  | rmPeer p =>
    refine ⟨inv_rmPeer hI p _, by simp [step, opClauses], fun hS hF _ =>
      ⟨sync_rmPeer hS p _, ?_, by simp [step, opClauses]⟩⟩
    apply fresh_of hF (by intro k; simp [step, State.rmPeer])
    intro k m hm
    simp only [specStep] at hm
    split_ifs at hm
    exact hm
  | rmMetrics n p =>
    refine ⟨inv_rmMetrics hI n p _, by simp [step, opClauses], fun hS hF _ =>
      ⟨sync_rmMetrics hS n p _, ?_, by simp [step, opClauses]⟩⟩
    apply fresh_of hF (by intro k; simp [step, State.rmMetrics])
    intro k m hm
    simp only [specStep, setKey, upd] at hm
    split_ifs at hm
    exact hm
  | setPeers ps =>
    refine ⟨inv_setPeers hI ps _, by simp [step, opClauses], fun hS hF _ => ⟨?_, ?_, by simp [step, opClauses]⟩⟩
    · intro k hl hcnt ha
      exact hS k (by simpa [specStep] using hl) hcnt (by simpa [step, specStep] using ha)
    · exact fresh_of hF (by intro k; simp [step]) (by intro k m hm; simpa [step, specStep] using hm)
  | query n =>
    have hq := query_clauses_hold hI hids n
    refine ⟨by simpa [step, specStep] using hI, ?_, fun hS hF _ => ⟨by simpa [step, specStep] using hS, ?_, ?_⟩⟩
    · intro c hcm _
      exact hq c (by simpa [step, opClauses] using hcm)
    · exact fresh_of hF (by intro k; simp [step]) (by intro k m hm; simpa [step, specStep] using hm)
    · intro c hcm
      exact hq c (by simpa [step, opClauses] using hcm)
  | advance d =>
    have hI' : Inv P hist { s with now := s.now + d } { t with now := t.now + d } :=
      { ps := hI.ps, keys := hI.keys, nodup := hI.nodup, stored := hI.stored, ringNone := hI.ringNone,
        ringSome := hI.ringSome, own := hI.own, cnt := hI.cnt, rep := hI.rep, now := by simp [hI.now] }
    refine ⟨by simpa [step, specStep] using hI', by simp [step, opClauses], fun hS hF _ =>
      ⟨?_, ?_, by simp [step, opClauses]⟩⟩
    · intro k hl hcnt ha
      exact hS k (by simpa [specStep] using hl) hcnt (by simpa [step, specStep] using ha)
    · exact fresh_of hF (by intro k; simp [step]) (by intro k m hm; simpa [step, specStep] using hm)
  | tick =>
    have hT := track_check P hmax i s hI.cnt hI.nodup .tick
    rw [step_check P i s .tick rfl]
    refine ⟨inv_check hI hT .tick rfl, ?_, fun hS hF _ =>
      ⟨sync_check hI hS hT .tick rfl, fresh_check hI hF hT .tick rfl, ?_⟩⟩
    · intro c hcm hn
      simp only [opClauses, checkClauses, List.mem_cons, List.mem_nil_iff, or_false] at hcm
      rcases hcm with rfl | rfl | rfl | rfl | rfl
      · exact check_fresh_never_failed hI hT
      · exact check_alert_once hI hT
      · simp [safeNames] at hn
      · simp [safeNames] at hn
      · simp [safeNames] at hn
    · intro c hcm
      simp only [opClauses, checkClauses, List.mem_cons, List.mem_nil_iff, or_false] at hcm
      rcases hcm with rfl | rfl | rfl | rfl | rfl
      · exact check_fresh_never_failed hI hT
      · exact check_alert_once hI hT
      · exact check_expired_reported hI hS hT
      · exact check_stale_forgotten hI hT
      · exact check_forget_only_reported hI hS hT
  | checkPeers l =>
    have hT := track_check P hmax i s hI.cnt hI.nodup (.checkPeers l)
    rw [step_check P i s (.checkPeers l) rfl]
    refine ⟨inv_check hI hT (.checkPeers l) rfl, ?_, fun hS hF _ =>
      ⟨sync_check hI hS hT (.checkPeers l) rfl, fresh_check hI hF hT (.checkPeers l) rfl, ?_⟩⟩
    · intro c hcm hn
      simp only [opClauses, checkClauses, List.mem_cons, List.mem_nil_iff, or_false] at hcm
      rcases hcm with rfl | rfl | rfl | rfl | rfl
      · exact check_fresh_never_failed hI hT
      · exact check_alert_once hI hT
      · simp [safeNames] at hn
      · simp [safeNames] at hn
      · simp [safeNames] at hn
    · intro c hcm
      simp only [opClauses, checkClauses, List.mem_cons, List.mem_nil_iff, or_false] at hcm
      rcases hcm with rfl | rfl | rfl | rfl | rfl
      · exact check_fresh_never_failed hI hT
      · exact check_alert_once hI hT
      · exact check_expired_reported hI hS hT
      · exact check_stale_forgotten hI hT
      · exact check_forget_only_reported hI hS hT

theorem safe_from {P : Params} (hc : 0 < P.cap) (hmax : P.maxA = 1) {hist : List Op} (hids : (ids hist).Nodup) :
    ∀ (ops : List Op) (i : Nat) (s : State) (t : SState), Inv P hist s t → (∀ op ∈ ops, op ∈ hist) →
      ∀ c ∈ clausesFrom P.cap P.orc hist i t ops (runFrom P i s ops), c.1 ∈ safeNames → c.2 = true := by
  intro ops
  induction ops with
  | nil => intro i s t _ _ c hcm; simp [clausesFrom, runFrom] at hcm
  | cons op ops ih =>
    intro i s t hI hsub c hcm hn
    obtain ⟨hI', hsafe, _⟩ := op_step hc hmax hids i hI op (hsub op (by simp))
    simp only [runFrom, clausesFrom, List.mem_append] at hcm
    rcases hcm with h1 | h2
    · exact hsafe c h1 hn
    · exact ih (i + 1) _ _ hI' (fun o ho => hsub o (by simp [ho])) c h2 hn

theorem idsAt_cons {i : Nat} {op : Op} {ops : List Op} (h : idsAt i (op :: ops) = true) :
    (∀ m, op = .add m → m.id = i) ∧ idsAt (i + 1) ops = true := by
  cases op <;> simp [idsAt] at h ⊢
  · exact h
  all_goals exact h

theorem all_from {P : Params} (hc : 0 < P.cap) (hmax : P.maxA = 1) {hist : List Op} (hids : (ids hist).Nodup) :
    ∀ (ops : List Op) (i : Nat) (s : State) (t : SState), Inv P hist s t → Sync s t → Fresh i s t →
      (∀ op ∈ ops, op ∈ hist) → idsAt i ops = true →
      ∀ c ∈ clausesFrom P.cap P.orc hist i t ops (runFrom P i s ops), c.2 = true := by
  intro ops
  induction ops with
  | nil => intro i s t _ _ _ _ _ c hcm; simp [clausesFrom, runFrom] at hcm
  | cons op ops ih =>
    intro i s t hI hS hF hsub hid c hcm
    obtain ⟨hid1, hid2⟩ := idsAt_cons hid
    obtain ⟨hI', _, hstrong⟩ := op_step hc hmax hids i hI op (hsub op (by simp))
    obtain ⟨hS', hF', hall⟩ := hstrong hS hF hid1
    simp only [runFrom, clausesFrom, List.mem_append] at hcm
    rcases hcm with h1 | h2
    · exact hall c h1
    · exact ih (i + 1) _ _ hI' hS' hF' (fun o ho => hsub o (by simp [ho])) hid2 c h2

/-! ### wrap-around -/

theorem pushCap_reverse (cap : Nat) (hc : 0 < cap) (xs pre : List Metric) (m : Metric) (hl : xs.length ≤ cap)
    (h : xs.reverse = pre.reverse.take cap) : (pushCap cap xs m).reverse = (m :: pre.reverse).take cap := by
  obtain ⟨c, rfl⟩ : ∃ c, cap = c + 1 := ⟨cap - 1, by omega⟩
  rw [List.take_succ_cons]
  unfold pushCap
  have hlen : xs.length = min (c + 1) pre.length := by
    have := congrArg List.length h
    simpa using this
  by_cases hlt : xs.length < c + 1
  · rw [if_pos hlt, List.reverse_append, List.reverse_singleton, List.singleton_append, h]
    congr 1
    have hp : pre.reverse.length ≤ c := by simp; omega
    rw [List.take_of_length_le hp, List.take_of_length_le (by omega)]
  · rw [if_neg hlt]
    cases xs with
    | nil => simp at hlt
    | cons a t =>
      simp only [List.tail_cons, List.reverse_append, List.reverse_singleton, List.singleton_append]
      congr 1
      simp only [List.reverse_cons] at h
      have ht : t.reverse.length = c := by simp at hl hlt ⊢; omega
      have := congrArg (List.take c) h
      rw [List.take_take, List.take_left' ht] at this
      simpa using this

theorem fold_add_rep (cap : Nat) (hc : 0 < cap) : ∀ (ms : List Metric) (w : Window) (xs pre : List Metric),
    RingRep cap w xs → xs.reverse = pre.reverse.take cap →
    ∃ xs', RingRep cap (ms.foldl Window.add w) xs' ∧ xs'.reverse = (pre ++ ms).reverse.take cap := by
  intro ms
  induction ms with
  | nil => intro w xs pre hr h; exact ⟨xs, hr, by simpa using h⟩
  | cons m rest ih =>
    intro w xs pre hr h
    have := ih (w.add m) (pushCap cap xs m) (pre ++ [m]) (ringRep_add hc m hr)
      (by rw [pushCap_reverse cap hc xs pre m hr.1 h]; simp)
    simpa using this


/-! ### an expired metric followed by checks only -/

/-- number of alerts for (name, peer) in a list of observations -/
def alertsFor (k : Key) : List Obs → Nat
  | [] => 0
  | .check a _ :: os => (alertKeys a).count k + alertsFor k os
  | _ :: os => alertsFor k os

section once
variable (P : Params) (hmax : P.maxA = 1) (k : Key) (w0 : Window) (m : Metric)
  (now : Nat) (hl : w0.latest = some m) (hx : m.expiredAt now = true)
  (hf : w0.count < accrualMin ∨ ∀ i, P.orc i k.1 k.2 = true)

def S0 (s : State) : Prop := s.win k = some w0 ∧ ecnt s k = 0
def S1 (s : State) : Prop := s.win k = some w0 ∧ ca s k = (1, stampOf (some m))
def S2 (s : State) : Prop := s.win k = none ∧ ca s k = (0, 0)
def Gd (s : State) : Prop := ((∀ k', s.cnt k' ≤ 1) ∧ k ∈ s.keys) ∧ s.now = now

include hl hx hf in
theorem hot_of_win (i : Nat) (s : State) (hw : s.win k = some w0) (hn : s.now = now) : Hot P i s k := by
  rw [← hn] at hx
  refine ⟨by simp [latestOf, hw, hl], ?_⟩
  unfold failedK
  simp only [hw, hl, hx, Bool.not_true, Bool.false_eq_true, if_false]
  rcases hf with h | h
  · simp [h]
  · split_ifs
    · rfl
    · exact h i

include hl in
theorem latest_of_win (s : State) (hw : s.win k = some w0) : latestOf s k = some m := by
  simp [latestOf, hw, hl]

include hmax hl hx hf in
theorem one_check (i : Nat) (s : State) (l : List Nat) (hk : k.2 ∈ l) (hG : Gd k now s) :
    Gd k now (checkPeers P i s l).1 ∧
    (S0 k w0 s → (S1 k w0 m (checkPeers P i s l).1 ∨ S2 k (checkPeers P i s l).1) ∧
        (alertKeys (checkPeers P i s l).2).count k = 1) ∧
    (S1 k w0 m s → S2 k (checkPeers P i s l).1 ∧ (alertKeys (checkPeers P i s l).2).count k = 0) ∧
    (S2 k s → S2 k (checkPeers P i s l).1 ∧ (alertKeys (checkPeers P i s l).2).count k = 0) := by
  have hT := track_checkPeers P hmax i s hG.1.1 l
  have hv : k ∈ (peersKeys s l).reverse := List.mem_reverse.2 (mem_peersKeys.2 ⟨mem_names hG.1.2, hk⟩)
  refine ⟨⟨⟨?_, by rw [hT.keys]; exact hG.1.2⟩, by rw [hT.now]; exact hG.2⟩, ?_, ?_, ?_⟩
  · intro k'
    rcases hT.phase k' with ⟨_, hc, _⟩ | ⟨_, _, hc, _⟩ | ⟨_, hc, _⟩
    · simp only [ca, Prod.mk.injEq] at hc; rw [hc.1]; exact hG.1.1 k'
    · simp only [ca, Prod.mk.injEq] at hc; omega
    · simp only [ca, Prod.mk.injEq] at hc; omega
  · rintro ⟨hw, h0⟩
    have hh := hot_of_win P k w0 m now hl hx hf i s hw hG.2
    rcases hT.phase k with hA | ⟨hw', _, h1, hm, _⟩ | ⟨hw', hc', _, ⟨h1, _⟩ | ⟨_, hm⟩⟩
    · exact absurd hA (hT.prog k hv hh)
    · rw [latest_of_win k w0 m hl s hw] at h1
      exact ⟨Or.inl ⟨hw' ▸ hw, h1⟩, List.count_eq_one_of_mem hT.nodup hm⟩
    · omega
    · exact ⟨Or.inr ⟨hw', hc'⟩, List.count_eq_one_of_mem hT.nodup hm⟩
  · rintro ⟨hw, h1⟩
    have hh := hot_of_win P k w0 m now hl hx hf i s hw hG.2
    have he : ecnt s k = 1 := by
      simp only [ca, Prod.mk.injEq] at h1
      unfold ecnt; rw [latest_of_win k w0 m hl s hw, h1.2, h1.1]; simp
    rcases hT.phase k with hA | ⟨_, h0, _⟩ | ⟨hw', hc', _, ⟨_, hn⟩ | ⟨h0, _⟩⟩
    · exact absurd hA (hT.prog k hv hh)
    · omega
    · exact ⟨⟨hw', hc'⟩, List.count_eq_zero_of_not_mem hn⟩
    · omega
  · rintro ⟨hw, h0⟩
    have hnh : ¬ Hot P i s k := by
      rintro ⟨h, _⟩; simp [latestOf, hw] at h
    rcases hT.phase k with ⟨hw', hc', hn⟩ | ⟨_, _, _, _, hh⟩ | ⟨_, _, hh, _⟩
    · exact ⟨⟨hw' ▸ hw, hc' ▸ h0⟩, List.count_eq_zero_of_not_mem hn⟩
    · exact absurd hh hnh
    · exact absurd hh hnh

include hmax hl hx hf in
theorem silent_after (ls : List (List Nat)) (hcov : ∀ l ∈ ls, k.2 ∈ l) :
    ∀ (i : Nat) (s : State), Gd k now s → S2 k s →
      alertsFor k (runFrom P i s (ls.map .checkPeers)) = 0 ∧
      S2 k (stateAfter P i s (ls.map .checkPeers)) := by
  induction ls with
  | nil => intro i s _ h2; exact ⟨rfl, h2⟩
  | cons l rest ih =>
    intro i s hG h2
    obtain ⟨hG', _, _, h⟩ := one_check P hmax k w0 m now hl hx hf i s l (hcov l (by simp)) hG
    obtain ⟨h2', hc⟩ := h h2
    obtain ⟨ha, hs⟩ := ih (fun l' hl' => hcov l' (by simp [hl'])) (i + 1) _ hG' h2'
    refine ⟨?_, by simpa [stateAfter, step] using hs⟩
    simp only [List.map_cons, runFrom, step, alertsFor]
    rw [hc, ha]

include hmax hl hx hf in
theorem after_first (ls : List (List Nat)) (hcov : ∀ l ∈ ls, k.2 ∈ l) (i : Nat) (s : State) (hG : Gd k now s)
    (h : S1 k w0 m s ∨ S2 k s) :
    alertsFor k (runFrom P i s (ls.map .checkPeers)) = 0 ∧
    (ls ≠ [] → S2 k (stateAfter P i s (ls.map .checkPeers))) := by
  rcases h with h1 | h2
  · cases ls with
    | nil => exact ⟨rfl, fun h => absurd rfl h⟩
    | cons l rest =>
      obtain ⟨hG', _, h, _⟩ := one_check P hmax k w0 m now hl hx hf i s l (hcov l (by simp)) hG
      obtain ⟨h2', hc⟩ := h h1
      obtain ⟨ha, hs⟩ := silent_after P hmax k w0 m now hl hx hf rest (fun l' hl' => hcov l' (by simp [hl']))
        (i + 1) _ hG' h2'
      refine ⟨?_, fun _ => by simpa [stateAfter, step] using hs⟩
      simp only [List.map_cons, runFrom, step, alertsFor]
      rw [hc, ha]
  · obtain ⟨ha, hs⟩ := silent_after P hmax k w0 m now hl hx hf ls hcov i s hG h2
    exact ⟨ha, fun _ => hs⟩

include hmax hl hx hf in
/-- from a state holding the stale metric with a clear counter: exactly one alert, forgotten by the second check -/
theorem once_from (ls : List (List Nat)) (hcov : ∀ l ∈ ls, k.2 ∈ l) (i : Nat) (s : State) (hG : Gd k now s)
    (h0 : S0 k w0 s) :
    alertsFor k (runFrom P i s (ls.map .checkPeers)) = (if ls = [] then 0 else 1) ∧
    (2 ≤ ls.length → S2 k (stateAfter P i s (ls.map .checkPeers))) := by
  cases ls with
  | nil => exact ⟨rfl, fun h => by simp at h⟩
  | cons l rest =>
    obtain ⟨hG', h, _, _⟩ := one_check P hmax k w0 m now hl hx hf i s l (hcov l (by simp)) hG
    obtain ⟨h12, hc⟩ := h h0
    obtain ⟨ha, hs⟩ := after_first P hmax k w0 m now hl hx hf rest (fun l' hl' => hcov l' (by simp [hl']))
      (i + 1) _ hG' h12
    refine ⟨?_, fun hlen => ?_⟩
    · simp only [List.map_cons, runFrom, step, alertsFor]
      rw [hc, ha]; simp
    · have : rest ≠ [] := by rintro rfl; simp at hlen
      simpa [stateAfter, step] using hs this
end once

/-- operations other than checks leave the alert counters alone and keep every stored window listed -/
theorem noCheck_state (P : Params) : ∀ (h : List Op) (i : Nat) (s : State), (∀ op ∈ h, isCheck op = false) →
    (∀ k, s.cnt k = 0) → (∀ k, s.win k ≠ none → k ∈ s.keys) →
    (∀ k, (stateAfter P i s h).cnt k = 0) ∧ (∀ k, (stateAfter P i s h).win k ≠ none → k ∈ (stateAfter P i s h).keys) := by
  intro h
  induction h with
  | nil => intro i s _ hc hs; exact ⟨hc, hs⟩
  | cons op rest ih =>
    intro i s hn hc hs
    have hrest : ∀ o ∈ rest, isCheck o = false := fun o ho => hn o (by simp [ho])
    have hop := hn op (by simp)
    simp only [stateAfter]
    cases op with
    | add m =>
      apply ih _ _ hrest
      · intro k; simpa [step, State.add] using hc k
      · intro k hk
        simp only [step, State.add, upd] at hk ⊢
        by_cases he : k = (m.name, m.peer)
        · subst he; split_ifs with hin
          · simpa using hin
          · simp
        · simp only [he, if_false] at hk
          have := hs k hk
          split_ifs
          · exact this
          · simp [this]
    | rmPeer p =>
      apply ih _ _ hrest
      · intro k; simpa [step, State.rmPeer] using hc k
      · intro k hk
        simp only [step, State.rmPeer] at hk ⊢
        by_cases he : k.2 = p
        · simp [he] at hk
        · simp only [he, if_false] at hk; exact hs k hk
    | rmMetrics n p =>
      apply ih _ _ hrest
      · intro k; simpa [step, State.rmMetrics] using hc k
      · intro k hk
        simp only [step, State.rmMetrics, upd] at hk ⊢
        by_cases he : k = (n, p)
        · simp [he] at hk
        · simp only [he, if_false] at hk; exact hs k hk
    | setPeers ps => exact ih _ _ hrest (by simpa [step] using hc) (by simpa [step] using hs)
    | query n => exact ih _ _ hrest (by simpa [step] using hc) (by simpa [step] using hs)
    | tick => simp [isCheck] at hop
    | checkPeers l => simp [isCheck] at hop
    | advance d => exact ih _ _ hrest (by simpa [step] using hc) (by simpa [step] using hs)

/-! ### the clauses do not depend on the order of what Go takes out of maps -/

theorem obs_same_refl (o : Obs) : o.same o = true := by
  cases o <;> simp [Obs.same, List.isPerm_iff]

theorem sameAll_refl (l : List Obs) : sameAll l l = true := by
  induction l with
  | nil => rfl
  | cons a t ih => simp [sameAll, obs_same_refl, ih]


theorem contains_perm {α : Type} [BEq α] [LawfulBEq α] {l l' : List α} (h : l.Perm l') (x : α) :
    l.contains x = l'.contains x := by
  rw [Bool.eq_iff_iff]; simp [h.mem_iff]

theorem alertKeys_perm {a a' : List Alert} (h : a.Perm a') : (alertKeys a).Perm (alertKeys a') := h.map _

theorem all_perm {α : Type} {l l' : List α} (h : l.Perm l') (f : α → Bool) : l.all f = l'.all f := by
  rw [Bool.eq_iff_iff]; simp only [List.all_eq_true]; exact ⟨fun H x hx => H x (h.mem_iff.2 hx), fun H x hx => H x (h.mem_iff.1 hx)⟩

theorem checkClauses_perm (cap : Nat) (orc : Nat → Nat → Nat → Bool) (i : Nat) (t : SState) (op : Op)
    {a a' : List Alert} {f f' : List Key} (ha : a.Perm a') (hf : f.Perm f') :
    checkClauses cap orc i t op a f = checkClauses cap orc i t op a' f' := by
  have hk := alertKeys_perm ha
  have e1 : (fun k => !mustAlert cap orc i t op k || (alertKeys a).contains k) =
      (fun k => !mustAlert cap orc i t op k || (alertKeys a').contains k) := by
    funext k; rw [contains_perm hk]
  have e2 : (fun k => !mustForget cap orc i t op k || f.contains k) =
      (fun k => !mustForget cap orc i t op k || f'.contains k) := by
    funext k; rw [contains_perm hf]
  have e3 : (fun k => stale t k && ((t.key k).reported || (alertKeys a).contains k)) =
      (fun k => stale t k && ((t.key k).reported || (alertKeys a').contains k)) := by
    funext k; rw [contains_perm hk]
  have e4 : decide (alertKeys a).Nodup = decide (alertKeys a').Nodup := by
    rw [Bool.eq_iff_iff]; simp [hk.nodup_iff]
  unfold checkClauses
  rw [e1, e2, e3, e4, all_perm ha, all_perm ha, all_perm hf]

theorem queryClauses_perm (hist : List Op) (t : SState) (n : Nat) {l l' : List (Nat × Nat)} (h : l.Perm l') :
    queryClauses hist t n l = queryClauses hist t n l' := by
  have e4 : decide (l.map (·.1)).Nodup = decide (l'.map (·.1)).Nodup := by
    rw [Bool.eq_iff_iff]; simp [(h.map _).nodup_iff]
  unfold queryClauses
  rw [e4, all_perm h, all_perm h]
  cases t.ps <;> simp [all_perm h]

theorem specStep_same (t : SState) (op : Op) {o o' : Obs} (h : o.same o' = true) :
    specStep t op o = specStep t op o' := by
  cases o <;> cases o' <;> simp [Obs.same] at h
  · rfl
  · cases op <;> rfl
  · obtain ⟨ha, hf⟩ := h
    rw [List.isPerm_iff] at ha hf
    have hk := alertKeys_perm ha
    cases op <;> try rfl
    all_goals
      simp only [specStep]
      congr 1
      funext k
      rw [contains_perm hf, contains_perm hk]
  · rfl

theorem opClauses_same (cap : Nat) (orc : Nat → Nat → Nat → Bool) (hist : List Op) (i : Nat) (t : SState)
    (op : Op) {o o' : Obs} (h : o.same o' = true) :
    opClauses cap orc hist i t op o = opClauses cap orc hist i t op o' := by
  cases o <;> cases o' <;> simp [Obs.same] at h
  · rfl
  · obtain ⟨hl, hs⟩ := h
    rw [List.isPerm_iff] at hl
    cases op <;> simp only [opClauses]
    exact queryClauses_perm hist t _ hl
  · obtain ⟨ha, hf⟩ := h
    rw [List.isPerm_iff] at ha hf
    cases op <;> simp only [opClauses]
    · exact checkClauses_perm cap orc i t _ ha hf
    · exact checkClauses_perm cap orc i t _ ha hf
  · rfl

theorem clausesFrom_same (cap : Nat) (orc : Nat → Nat → Nat → Bool) (hist : List Op) :
    ∀ (ops : List Op) (i : Nat) (t : SState) (os os' : List Obs), sameAll os os' = true →
      clausesFrom cap orc hist i t ops os = clausesFrom cap orc hist i t ops os' := by
  intro ops
  induction ops with
  | nil =>
    intro i t os os' h
    cases os <;> cases os' <;> simp [sameAll] at h <;> rfl
  | cons op ops ih =>
    intro i t os os' h
    cases os with
    | nil => cases os' <;> simp [sameAll] at h; rfl
    | cons o rest =>
      cases os' with
      | nil => simp [sameAll] at h
      | cons o' rest' =>
        simp only [sameAll, Bool.and_eq_true] at h
        simp only [clausesFrom]
        rw [opClauses_same cap orc hist i t op h.1, specStep_same t op h.1, ih _ _ _ _ h.2]

end CV.C09
