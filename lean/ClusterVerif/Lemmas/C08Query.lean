import ClusterVerif.Lemmas.C08Wire
/-! C08 — query strings: `url.QueryEscape` / `url.QueryUnescape` / `url.Values.Encode` / `url.ParseQuery`
    round trips on arbitrary byte strings (`Model/C08Wire.lean`, section "query strings"). -/
namespace CV.C08.Wire

/-! ### hex digits -/

theorem unhex_hexDigit_fin : ∀ n : Fin 16, unhex (hexDigit n.val) = some n.val := by decide

theorem unhex_hexDigit {n : Nat} (h : n < 16) : unhex (hexDigit n) = some n :=
  unhex_hexDigit_fin ⟨n, h⟩

theorem unreserved_hexDigit_fin : ∀ n : Fin 16, unreserved (hexDigit n.val) = true := by decide

theorem unreserved_hexDigit {n : Nat} (h : n < 16) : unreserved (hexDigit n) = true :=
  unreserved_hexDigit_fin ⟨n, h⟩

theorem unreserved_toNat {b : UInt8} (h : unreserved b = true) :
    b.toNat ≠ 37 ∧ b.toNat ≠ 43 ∧ b.toNat ≠ 38 ∧ b.toNat ≠ 61 ∧ b.toNat ≠ 59 ∧ b.toNat ≠ 32 := by
  simp only [unreserved, Bool.or_eq_true, Bool.and_eq_true, decide_eq_true_eq, beq_iff_eq] at h
  omega

theorem byte_recombine (b : UInt8) : UInt8.ofNat (b.toNat / 16 * 16 + b.toNat % 16) = b := by
  have e : b.toNat / 16 * 16 + b.toNat % 16 = b.toNat := by omega
  rw [e]
  exact UInt8.ofNat_toNat

/-! ### 1. `QueryUnescape ∘ QueryEscape = id` on all byte strings -/

theorem unescape_escape (s : Bytes) : unescape (escape s) = some s := by
  induction s with
  | nil => simp [escape, unescape]
  | cons b bs ih =>
    unfold escape
    by_cases hu : unreserved b = true
    · obtain ⟨h37, h43, -⟩ := unreserved_toNat hu
      simp only [hu, if_true]
      unfold unescape
      have e1 : (b.toNat == 37) = false := by simpa using h37
      have e2 : (b.toNat == 43) = false := by simpa using h43
      simp [e1, e2, ih]
    · simp only [hu]
      by_cases h32 : b.toNat = 32
      · have hb : b = 32 := UInt8.toNat_inj.mp (by simpa using h32)
        subst hb
        simp only [Bool.false_eq_true, if_false]
        have : ((32 : UInt8).toNat == 32) = true := by decide
        simp only [this, if_true]
        unfold unescape
        simp [ih]
      · have e32 : (b.toNat == 32) = false := by simpa using h32
        simp only [Bool.false_eq_true, if_false, e32]
        unfold unescape
        have e1 : ((37 : UInt8).toNat == 37) = true := by decide
        have hlt : b.toNat < 256 := UInt8.toNat_lt b
        have hx : unhex (hexDigit (b.toNat / 16)) = some (b.toNat / 16) := unhex_hexDigit (by omega)
        have hy : unhex (hexDigit (b.toNat % 16)) = some (b.toNat % 16) := unhex_hexDigit (by omega)
        simp only [e1, if_true, hx, hy, ih, byte_recombine]

/-! ### 2. escaped text holds none of `&`, `=`, `;` -/

theorem escape_bytes (s : Bytes) : ∀ b ∈ escape s, unreserved b = true ∨ b = 43 ∨ b = 37 := by
  induction s with
  | nil => simp [escape]
  | cons c cs ih =>
    intro b hb
    unfold escape at hb
    by_cases hu : unreserved c = true
    · simp only [hu, if_true, List.mem_cons] at hb
      rcases hb with rfl | hb
      · exact Or.inl hu
      · exact ih b hb
    · simp only [hu, Bool.false_eq_true, if_false] at hb
      by_cases h32 : (c.toNat == 32) = true
      · simp only [h32, if_true, List.mem_cons] at hb
        rcases hb with rfl | hb
        · exact Or.inr (Or.inl rfl)
        · exact ih b hb
      · simp only [h32, Bool.false_eq_true, if_false, List.mem_cons] at hb
        have hlt : c.toNat < 256 := UInt8.toNat_lt c
        rcases hb with rfl | rfl | rfl | hb
        · exact Or.inr (Or.inr rfl)
        · exact Or.inl (unreserved_hexDigit (by omega))
        · exact Or.inl (unreserved_hexDigit (by omega))
        · exact ih b hb

theorem escape_clean (s : Bytes) : ∀ b ∈ escape s, b ≠ amp ∧ b ≠ eqs ∧ b ≠ semi := by
  intro b hb
  rcases escape_bytes s b hb with hu | rfl | rfl
  · obtain ⟨-, -, h38, h61, h59, -⟩ := unreserved_toNat hu
    refine ⟨?_, ?_, ?_⟩
    · rintro rfl; exact h38 (by decide)
    · rintro rfl; exact h61 (by decide)
    · rintro rfl; exact h59 (by decide)
  · decide
  · decide

/-! ### 3. splitting -/

theorem cutAt_append (a rest : Bytes) (h : ∀ b ∈ a, b ≠ eqs) : cutAt eqs (a ++ eqs :: rest) = (a, rest) := by
  induction a with
  | nil => simp [cutAt]
  | cons c cs ih =>
    have hc : c ≠ eqs := h c (by simp)
    have hcs : ∀ b ∈ cs, b ≠ eqs := fun b hb => h b (by simp [hb])
    simp [cutAt, hc, ih hcs]

theorem splitSep_ne_nil (sep : UInt8) (s : Bytes) : splitSep sep s ≠ [] := by
  cases s with
  | nil => simp [splitSep]
  | cons b bs =>
    unfold splitSep
    by_cases hb : (b == sep) = true
    · simp [hb]
    · simp only [hb, Bool.false_eq_true, if_false]
      split <;> simp

theorem splitSep_append (a rest : Bytes) (h : ∀ b ∈ a, b ≠ amp) :
    splitSep amp (a ++ amp :: rest) = a :: splitSep amp rest := by
  induction a with
  | nil => simp [splitSep]
  | cons c cs ih =>
    have hc : c ≠ amp := h c (by simp)
    have hcs : ∀ b ∈ cs, b ≠ amp := fun b hb => h b (by simp [hb])
    simp [splitSep, hc, ih hcs]

theorem splitSep_clean (a : Bytes) (h : ∀ b ∈ a, b ≠ amp) : splitSep amp a = [a] := by
  induction a with
  | nil => simp [splitSep]
  | cons c cs ih =>
    have hc : c ≠ amp := h c (by simp)
    have hcs : ∀ b ∈ cs, b ≠ amp := fun b hb => h b (by simp [hb])
    simp [splitSep, hc, ih hcs]

/-! ### 4. one `key=value` part -/

/-- the text of one parameter -/
def partOf (kv : Bytes × Bytes) : Bytes := escape kv.1 ++ eqs :: escape kv.2

theorem partOf_clean (kv : Bytes × Bytes) : ∀ b ∈ partOf kv, b ≠ amp ∧ b ≠ semi := by
  intro b hb
  simp only [partOf, List.mem_append, List.mem_cons] at hb
  rcases hb with hb | rfl | hb
  · exact ⟨(escape_clean _ b hb).1, (escape_clean _ b hb).2.2⟩
  · decide
  · exact ⟨(escape_clean _ b hb).1, (escape_clean _ b hb).2.2⟩

theorem partOf_ne_nil (kv : Bytes × Bytes) : partOf kv ≠ [] := by
  simp [partOf]

theorem parsePart_pair (kv : Bytes × Bytes) : parsePart (escape kv.1 ++ eqs :: escape kv.2) = some kv := by
  have hs : (escape kv.1 ++ eqs :: escape kv.2).contains semi = false := by
    rw [Bool.eq_false_iff]
    intro hc
    rw [List.contains_iff_mem] at hc
    exact (partOf_clean kv semi hc).2 rfl
  have hcut := cutAt_append (escape kv.1) (escape kv.2) (fun b hb => (escape_clean _ b hb).2.1)
  unfold parsePart
  simp only [hs, Bool.false_eq_true, if_false, hcut, unescape_escape]

/-! ### 5. `ParseQuery` reads back what `joinPairs` wrote -/

theorem joinPairs_cons_cons (kv kv' : Bytes × Bytes) (rest : List (Bytes × Bytes)) :
    joinPairs (kv :: kv' :: rest) = partOf kv ++ amp :: joinPairs (kv' :: rest) := by
  simp [joinPairs, partOf]

theorem splitSep_joinPairs (kv : Bytes × Bytes) (rest : List (Bytes × Bytes)) :
    splitSep amp (joinPairs (kv :: rest)) = (kv :: rest).map partOf := by
  induction rest generalizing kv with
  | nil =>
    have : joinPairs [kv] = partOf kv := by simp [joinPairs, partOf]
    rw [this, splitSep_clean _ (fun b hb => (partOf_clean kv b hb).1)]
    rfl
  | cons kv' rest ih =>
    rw [joinPairs_cons_cons, splitSep_append _ _ (fun b hb => (partOf_clean kv b hb).1), ih kv']
    rfl

theorem filter_parts (l : List (Bytes × Bytes)) :
    (l.map partOf).filter (fun p => !p.isEmpty) = l.map partOf := by
  rw [List.filter_eq_self]
  intro p hp
  obtain ⟨kv, -, rfl⟩ := List.mem_map.mp hp
  have := partOf_ne_nil kv
  cases h : partOf kv with
  | nil => exact absurd h this
  | cons _ _ => rfl

theorem mapOpt_parts (l : List (Bytes × Bytes)) : mapOpt parsePart (l.map partOf) = some l := by
  induction l with
  | nil => rfl
  | cons kv rest ih =>
    have h := parsePart_pair kv
    simp only [List.map_cons, mapOpt, partOf, h, ih]

theorem parseQuery_joinPairs (l : List (Bytes × Bytes)) : parseQuery (joinPairs l) = some l := by
  unfold parseQuery
  cases l with
  | nil => simp [joinPairs, splitSep, mapOpt]
  | cons kv rest => rw [splitSep_joinPairs, filter_parts, mapOpt_parts]

/-! ### 6. `Values.Encode` then `ParseQuery` then `Get` -/

theorem insertKV_perm (kv : Bytes × Bytes) (l : List (Bytes × Bytes)) : (insertKV kv l).Perm (kv :: l) := by
  induction l with
  | nil => exact List.Perm.refl _
  | cons x xs ih =>
    unfold insertKV
    by_cases h : bytesLe kv.1 x.1 = true
    · simp only [h, if_true]; exact List.Perm.refl _
    · simp only [h, Bool.false_eq_true, if_false]
      exact ((List.Perm.cons x ih).trans (List.Perm.swap kv x xs))

theorem sortKV_perm (l : List (Bytes × Bytes)) : (sortKV l).Perm l := by
  induction l with
  | nil => exact List.Perm.refl _
  | cons kv rest ih =>
    unfold sortKV
    exact (insertKV_perm kv (sortKV rest)).trans (List.Perm.cons kv ih)

theorem query_roundtrip_text (l : List (Bytes × Bytes)) : parseQuery (encodeQuery l) = some (sortKV l) :=
  parseQuery_joinPairs (sortKV l)

theorem getQ_of_mem (l : List (Bytes × Bytes)) (k v : Bytes) (hn : (l.map (·.1)).Nodup) (hm : (k, v) ∈ l) :
    getQ k l = v := by
  induction l with
  | nil => simp at hm
  | cons x xs ih =>
    simp only [List.map_cons, List.nodup_cons] at hn
    obtain ⟨hx, hxs⟩ := hn
    unfold getQ
    rcases List.mem_cons.mp hm with rfl | hm'
    · simp
    · have hne : x.1 ≠ k := by
        rintro rfl
        exact hx (List.mem_map.mpr ⟨(x.1, v), hm', rfl⟩)
      have : (x.1 == k) = false := by simpa using hne
      simp only [this, Bool.false_eq_true, if_false]
      exact ih hxs hm'

theorem query_get_roundtrip (l : List (Bytes × Bytes)) (k v : Bytes) (hn : (l.map (·.1)).Nodup)
    (hm : (k, v) ∈ l) : (parseQuery (encodeQuery l)).map (getQ k) = some v := by
  rw [query_roundtrip_text, Option.map_some]
  have hp := sortKV_perm l
  have hn' : ((sortKV l).map (·.1)).Nodup := ((hp.map (·.1)).nodup_iff).mpr hn
  have hm' : (k, v) ∈ sortKV l := hp.mem_iff.mpr hm
  rw [getQ_of_mem _ k v hn' hm']

/-! ### 7. concrete checks -/

example : unescape (escape [38, 61, 37, 43, 32, 255, 195, 40]) = some [38, 61, 37, 43, 32, 255, 195, 40] := by decide
example : escape [38, 32, 65] = [37, 50, 54, 43, 65] := by decide
example : unescape [37, 52] = none := by decide
example : unescape [37, 71, 48] = none := by decide

end CV.C08.Wire
