/-
C12 — lemmas about the interpreted handler structures (Model/C12Flow.lean):
* `interp_congr`, `flow_forall`, `flow_forallV`: `interp` only reads the guard atoms and the failable positions, so a
  statement checked on the finite table of all atom valuations × failure patterns holds for EVERY valuation and failure script;
* `interp_quiet`, `interp_errFinal`: for every well-formed flow (every error arm returns and answers at most once with an
  error status, every free-standing error answer is followed by `return`), every valuation and every failure script:
  after an error nothing is issued any more / an error status is the last thing the handler does;
* `statTotal_*`: the repo/stat sum for every peer list.
-/
import ClusterVerif.Lemmas.C12
import ClusterVerif.Model.C12Flow
import Mathlib.Tactic.SplitIfs
import Mathlib.Tactic.Cases
import Mathlib.Data.List.Perm.Basic
set_option linter.unusedSimpArgs false
set_option linter.unusedVariables false
namespace CV.C12
open CV.Gen.C12 (Step StepKind Arm)

/-! ## congruence: what `interp` looks at -/

theorem guardHolds_congr (v v' : Nat → Bool) (g : List (Nat × Bool)) (h : ∀ a ∈ g, v a.1 = v' a.1) :
    guardHolds v g = guardHolds v' g := by
  unfold guardHolds
  induction g with
  | nil => rfl
  | cons a g ih =>
    have h1 : v a.1 = v' a.1 := h a (by simp)
    have h2 := ih (fun b hb => h b (by simp [hb]))
    simp only [List.all_cons, h1, h2]

theorem stepEvs_failed_irrel (s : Step) (b b' : Bool) (n : List Ev) (h : failable s = false) :
    stepEvs s b n = stepEvs s b' n := by
  cases hk : s.kind <;> simp_all [stepEvs, failable]

theorem interp_congr (v v' f f' : Nat → Bool) : ∀ (steps : List Step) (k : Nat),
    (∀ s ∈ steps, ∀ a ∈ s.guard, v a.1 = v' a.1) → (∀ j ∈ failIdx k steps, f j = f' j) →
    interp v f k steps = interp v' f' k steps := by
  intro steps
  induction steps with
  | nil => intros; rfl
  | cons s rest ih =>
    intro k hv hf
    have hg : guardHolds v s.guard = guardHolds v' s.guard := guardHolds_congr v v' s.guard (hv s (by simp))
    have hrest : interp v f (k + 1) rest = interp v' f' (k + 1) rest := by
      apply ih
      · intro t ht; exact hv t (by simp [ht])
      · intro j hj
        apply hf
        simp only [failIdx]
        split_ifs <;> simp [hj]
    simp only [interp, hg, hrest]
    by_cases hfa : failable s = true
    · have hk : f k = f' k := hf k (by simp [failIdx, hfa])
      rw [hk]
    · have hfa' : failable s = false := by simpa using hfa
      rw [stepEvs_failed_irrel s (f k) (f' k) _ hfa']

theorem filter_mem_subsets (p : Nat → Bool) : ∀ l : List Nat, l.filter p ∈ subsets l := by
  intro l
  induction l with
  | nil => simp [subsets]
  | cons a l ih =>
    simp only [subsets, List.mem_append, List.mem_map]
    by_cases h : p a = true
    · left; exact ⟨l.filter p, ih, by simp [List.filter_cons, h]⟩
    · right; simpa [List.filter_cons, h] using ih

theorem memOf_filter (p : Nat → Bool) (l : List Nat) (a : Nat) (ha : a ∈ l) : memOf (l.filter p) a = p a := by
  unfold memOf
  cases hp : p a <;> simp [List.mem_filter, ha, hp]

theorem mem_dedupNat (a : Nat) : ∀ l : List Nat, a ∈ dedupNat l ↔ a ∈ l := by
  intro l
  induction l with
  | nil => simp [dedupNat]
  | cons b l ih =>
    simp only [dedupNat]
    split_ifs with h
    · have hb : b ∈ dedupNat l := by simpa using h
      constructor
      · intro ha; exact List.mem_cons_of_mem _ (ih.mp ha)
      · intro ha
        rcases List.mem_cons.mp ha with hab | ha
        · rw [hab]; exact hb
        · exact ih.mpr ha
    · simp [ih]

theorem mem_atomsOf (steps : List Step) (s : Step) (hs : s ∈ steps) (a : Nat × Bool) (ha : a ∈ s.guard) :
    a.1 ∈ atomsOf steps := by
  unfold atomsOf
  rw [mem_dedupNat]
  simp only [List.mem_flatMap, List.mem_map]
  exact ⟨s, hs, a, ha, rfl⟩

/-- a statement checked on the finite table holds for every valuation and every failure script -/
theorem flow_forall (P : List Ev → Bool) (steps : List Step) (h : flowAll P steps = true) (v f : Nat → Bool) :
    P (interp v f 0 steps) = true := by
  unfold flowAll at h
  have h1 := (List.all_eq_true.mp h) _ (filter_mem_subsets v (atomsOf steps))
  have h2 := (List.all_eq_true.mp h1) _ (filter_mem_subsets f (failIdx 0 steps))
  rw [interp_congr v (memOf ((atomsOf steps).filter v)) f (memOf ((failIdx 0 steps).filter f)) steps 0]
  · exact h2
  · intro s hs a ha; exact (memOf_filter v _ _ (mem_atomsOf steps s hs a ha)).symm
  · intro j hj; exact (memOf_filter f _ _ hj).symm

/-- same, for statements that also read the valuation (on atoms of the flow only) -/
theorem flow_forallV (P : (Nat → Bool) → List Ev → Bool) (steps : List Step)
    (hP : ∀ v v' evs, (∀ a ∈ atomsOf steps, v a = v' a) → P v evs = P v' evs)
    (h : flowAllV P steps = true) (v f : Nat → Bool) : P v (interp v f 0 steps) = true := by
  unfold flowAllV at h
  have h1 := (List.all_eq_true.mp h) _ (filter_mem_subsets v (atomsOf steps))
  have h2 := (List.all_eq_true.mp h1) _ (filter_mem_subsets f (failIdx 0 steps))
  rw [interp_congr v (memOf ((atomsOf steps).filter v)) f (memOf ((failIdx 0 steps).filter f)) steps 0,
    hP v (memOf ((atomsOf steps).filter v))]
  · exact h2
  · intro a ha; exact (memOf_filter v _ _ ha).symm
  · intro s hs a ha; exact (memOf_filter v _ _ (mem_atomsOf steps s hs a ha)).symm
  · intro j hj; exact (memOf_filter f _ _ hj).symm

/-! ## error arms -/

theorem mem_armEvs (a : Option Arm) (e : Ev) (h : e ∈ armEvs a) : e = .serr ∨ ∃ c, e = .resp c ∧ (a.map (·.code)) = some c := by
  cases a with
  | none => simp [armEvs] at h
  | some a =>
    simp only [armEvs, List.mem_append, List.mem_replicate] at h
    rcases h with h | h
    · split_ifs at h <;> simp_all
    · right; exact ⟨_, h.2, rfl⟩

theorem armEvs_noOps (a : Option Arm) : (armEvs a).any isOp = false := by
  rw [Bool.eq_false_iff]
  intro h
  rw [List.any_eq_true] at h
  obtain ⟨e, he, hop⟩ := h
  rcases mem_armEvs a e he with h | ⟨c, h, _⟩ <;> simp [h, isOp] at hop

theorem quiet_of_noOps : ∀ l : List Ev, l.any isOp = false → quietAfterError l = true := by
  intro l
  induction l with
  | nil => intro; rfl
  | cons e rest ih =>
    intro h
    simp only [List.any_cons, Bool.or_eq_false_iff] at h
    simp [quietAfterError, h.2, ih h.2]

theorem failTail_of_ok (a : Option Arm) (next : List Ev) (h : armOK a = true) : failTail a next = armEvs a := by
  cases a with
  | none => simp [armOK] at h
  | some a =>
    simp only [armOK, Bool.and_eq_true] at h
    simp [failTail, armReturns, h.1.1]

theorem errFinal_armEvs (a : Option Arm) (h : armOK a = true) : errFinal (armEvs a) = true := by
  cases a with
  | none => simp [armOK] at h
  | some a =>
    simp only [armOK, Bool.and_eq_true, decide_eq_true_eq, Bool.or_eq_true, beq_iff_eq] at h
    obtain ⟨⟨_, hw⟩, hc⟩ := h
    have hw' : a.writes = 0 ∨ a.writes = 1 := by omega
    rcases hw' with h0 | h1
    · cases hs : a.serr <;> simp [armEvs, h0, hs, errFinal]
    · have hcode : isErr a.code = true := by
        rcases hc with hc | hc
        · omega
        · exact hc
      cases hs : a.serr <;> simp [armEvs, h1, hs, errFinal, hcode, List.replicate]

/-- the step after a free-standing error answer is a `return` under the same guard: nothing follows -/
theorem interp_after_respondErr (v f : Nat → Bool) (s : Step) (rest : List Step) (k : Nat)
    (hg : guardHolds v s.guard = true)
    (hn : (match rest.head? with | some n => isRet n.kind && n.guard == s.guard | none => false) = true) :
    interp v f k rest = [] := by
  cases rest with
  | nil => simp at hn
  | cons n rest' =>
    simp only [List.head?_cons, Bool.and_eq_true, beq_iff_eq] at hn
    obtain ⟨hr, hgd⟩ := hn
    simp only [interp, hgd, hg, if_true]
    cases hk : n.kind <;> simp_all [stepEvs, isRet]

/-- EVERY well-formed flow, every valuation, every failure script: once an error is detected or answered, no RPC and no
    add is issued any more -/
theorem interp_quiet (v f : Nat → Bool) : ∀ (steps : List Step) (k : Nat), wfFlow steps = true →
    quietAfterError (interp v f k steps) = true := by
  intro steps
  induction steps with
  | nil => intros; rfl
  | cons s rest ih =>
    intro k hwf
    simp only [wfFlow, Bool.and_eq_true] at hwf
    obtain ⟨hs, hrest⟩ := hwf
    have hn := ih (k + 1) hrest
    simp only [interp]
    split_ifs with hg
    · cases hk : s.kind with
      | check a b =>
        have ha : armOK s.arm = true := by simpa [stepOK, hk] using hs
        simp only [stepEvs, hk]
        split_ifs
        · rw [failTail_of_ok _ _ ha]; exact quiet_of_noOps _ (armEvs_noOps _)
        · exact hn
      | rpc a b c =>
        have ha : armOK s.arm = true := by simpa [stepOK, hk] using hs
        simp only [stepEvs, hk]
        split_ifs
        · rw [failTail_of_ok _ _ ha]
          simp [quietAfterError, armEvs_noOps, quiet_of_noOps]
        · simp [quietAfterError, isErrEv, hn]
      | adder =>
        have ha : armOK s.arm = true := by simpa [stepOK, hk] using hs
        simp only [stepEvs, hk]
        split_ifs
        · rw [failTail_of_ok _ _ ha]
          simp [quietAfterError, armEvs_noOps, quiet_of_noOps]
        · simp [quietAfterError, isErrEv, hn]
      | respondErr c =>
        simp only [stepOK, hk, Bool.and_eq_true] at hs
        have hnil := interp_after_respondErr v f s rest (k + 1) hg hs.2
        simp [stepEvs, hk, hnil, quietAfterError]
      | respond c =>
        have hc : isErr c = false := by simpa [stepOK, hk] using hs
        simp [stepEvs, hk, quietAfterError, isErrEv, hc, hn]
      | ret => simp [stepEvs, hk, quietAfterError]
      | multi a b => simp [stepEvs, hk, quietAfterError, isErrEv, hn]
      | assign a b => simp [stepEvs, hk, quietAfterError, isErrEv, hn]
      | serr => simp [stepEvs, hk, quietAfterError, isErrEv, hn]
      | setHeaders => simpa [stepEvs, hk] using hn
      | write => simpa [stepEvs, hk] using hn
      | emit => simpa [stepEvs, hk] using hn
      | trailer => simpa [stepEvs, hk] using hn
      | cont => simpa [stepEvs, hk] using hn
      | unknown u => simp [stepOK, hk] at hs
    · exact hn

/-- EVERY well-formed flow: an error status is the last thing the handler does (no second answer, no RPC, nothing) -/
theorem interp_errFinal (v f : Nat → Bool) : ∀ (steps : List Step) (k : Nat), wfFlow steps = true →
    errFinal (interp v f k steps) = true := by
  intro steps
  induction steps with
  | nil => intros; rfl
  | cons s rest ih =>
    intro k hwf
    simp only [wfFlow, Bool.and_eq_true] at hwf
    obtain ⟨hs, hrest⟩ := hwf
    have hn := ih (k + 1) hrest
    simp only [interp]
    split_ifs with hg
    · cases hk : s.kind with
      | check a b =>
        have ha : armOK s.arm = true := by simpa [stepOK, hk] using hs
        simp only [stepEvs, hk]
        split_ifs
        · rw [failTail_of_ok _ _ ha]; exact errFinal_armEvs _ ha
        · exact hn
      | rpc a b c =>
        have ha : armOK s.arm = true := by simpa [stepOK, hk] using hs
        simp only [stepEvs, hk]
        split_ifs
        · rw [failTail_of_ok _ _ ha]
          simpa [errFinal] using errFinal_armEvs _ ha
        · simpa [errFinal] using hn
      | adder =>
        have ha : armOK s.arm = true := by simpa [stepOK, hk] using hs
        simp only [stepEvs, hk]
        split_ifs
        · rw [failTail_of_ok _ _ ha]
          simpa [errFinal] using errFinal_armEvs _ ha
        · simpa [errFinal] using hn
      | respondErr c =>
        simp only [stepOK, hk, Bool.and_eq_true] at hs
        have hnil := interp_after_respondErr v f s rest (k + 1) hg hs.2
        simp [stepEvs, hk, hnil, errFinal]
      | respond c =>
        have hc : isErr c = false := by simpa [stepOK, hk] using hs
        simp [stepEvs, hk, errFinal, hc, hn]
      | ret => simp [stepEvs, hk, errFinal]
      | multi a b => simpa [stepEvs, hk, errFinal] using hn
      | assign a b => simpa [stepEvs, hk, errFinal] using hn
      | serr => simpa [stepEvs, hk, errFinal] using hn
      | setHeaders => simpa [stepEvs, hk] using hn
      | write => simpa [stepEvs, hk] using hn
      | emit => simpa [stepEvs, hk] using hn
      | trailer => simpa [stepEvs, hk] using hn
      | cont => simpa [stepEvs, hk] using hn
      | unknown u => simp [stepOK, hk] at hs
    · exact hn

/-! ## repo/stat aggregation -/

theorem statTotal_append (l m : List (Option (Nat × Nat))) :
    statTotal (l ++ m) = ((statTotal l).1 + (statTotal m).1, (statTotal l).2 + (statTotal m).2) := by
  induction l with
  | nil => simp [statTotal]
  | cons x l ih =>
    cases x with
    | none => simpa [statTotal] using ih
    | some p =>
      obtain ⟨a, b⟩ := p
      simp only [List.cons_append, statTotal, ih]
      ext <;> simp <;> omega

theorem statTotal_perm {l m : List (Option (Nat × Nat))} (h : l.Perm m) : statTotal l = statTotal m := by
  induction h with
  | nil => rfl
  | cons x _ ih =>
    cases x with
    | none => simpa [statTotal] using ih
    | some p => obtain ⟨a, b⟩ := p; simp [statTotal, ih]
  | swap x y l =>
    cases x with
    | none => cases y with
      | none => rfl
      | some q => rfl
    | some p =>
      cases y with
      | none => rfl
      | some q =>
        obtain ⟨a, b⟩ := p
        obtain ⟨c, d⟩ := q
        simp only [statTotal]
        ext <;> simp <;> omega
  | trans _ _ ih1 ih2 => exact ih1.trans ih2

theorem statTotal_none (n : Nat) : statTotal (List.replicate n none) = (0, 0) := by
  induction n with
  | zero => rfl
  | succ n ih => simpa [List.replicate, statTotal] using ih

theorem statTotal_const (n a b : Nat) : statTotal (List.replicate n (some (a, b))) = (n * a, n * b) := by
  induction n with
  | zero => simp [statTotal]
  | succ n ih =>
    simp only [List.replicate, statTotal, ih]
    ext <;> simp [Nat.add_mul] <;> omega

/-- failed peers contribute nothing, whatever they would have reported -/
theorem statTotal_filter (l : List (Option (Nat × Nat))) : statTotal l = statTotal (l.filter Option.isSome) := by
  induction l with
  | nil => rfl
  | cons x l ih =>
    cases x with
    | none => simpa [statTotal] using ih
    | some p => obtain ⟨a, b⟩ := p; simp [statTotal, ih]

end CV.C12
