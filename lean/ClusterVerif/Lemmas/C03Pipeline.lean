import ClusterVerif.Model.C03Pipeline
import ClusterVerif.Spec.C03
import Mathlib.Data.List.Basic
import Mathlib.Data.List.Nodup

/-! Helper lemmas for the raw-metric pipeline of C03 (Props/C03 states the theorems). -/
namespace CV.C03

theorem mem_window {arr : List RawMetric} {name peer : Nat} {m : RawMetric} :
    m ∈ window arr name peer ↔ m ∈ arr ∧ m.name = name ∧ m.peer = peer := by
  simp [window]

theorem windowLatest_mem {arr : List RawMetric} {name peer : Nat} {m : RawMetric}
    (h : windowLatest arr name peer = some m) : m ∈ arr ∧ m.name = name ∧ m.peer = peer := by
  unfold windowLatest at h
  exact mem_window.1 (List.mem_of_getLast? h)

/-- only the last arrival of (name, peer) matters: metrics of other names or other peers, and every earlier
    metric of the same (name, peer), are irrelevant -/
theorem windowLatest_append_same (arr : List RawMetric) (m : RawMetric) :
    windowLatest (arr ++ [m]) m.name m.peer = some m := by
  simp [windowLatest, window, List.filter_append]

theorem windowLatest_append_other (arr : List RawMetric) (m : RawMetric) (name peer : Nat)
    (h : ¬ (m.name = name ∧ m.peer = peer)) :
    windowLatest (arr ++ [m]) name peer = windowLatest arr name peer := by
  have : (m.name == name && m.peer == peer) = false := by
    rcases not_and_or.1 h with h | h <;> simp [h]
  simp [windowLatest, window, List.filter_append, this]

/-- one step of the pipeline, per peer of `order` -/
def stepMetric (arr : List RawMetric) (name : Nat) (view : PeersetView) (p : Nat) : Option RawMetric :=
  match windowLatest arr name p with
  | some m => if m.discard then none else if view.admits m.peer then some m else none
  | none => none

theorem members_aux (arr : List RawMetric) (name : Nat) (l : List Nat) (order : List Nat) :
    (latestValid order arr name).filter (fun m => l.contains m.peer) =
      order.filterMap (stepMetric arr name (.members l)) := by
  unfold latestValid
  rw [List.filter_filterMap]
  congr 1; funext p
  unfold stepMetric
  cases windowLatest arr name p with
  | none => rfl
  | some m =>
    by_cases hd : m.discard = true
    · simp [hd]
    · by_cases ha : l.contains m.peer = true <;> simp [hd, PeersetView.admits, Option.filter]

theorem latestMetrics_eq_filterMap (order : List Nat) (arr : List RawMetric) (name : Nat) (view : PeersetView) :
    latestMetrics order arr name view = order.filterMap (stepMetric arr name view) := by
  cases view with
  | noProvider =>
    unfold latestMetrics latestValid stepMetric
    congr 1
  | failed =>
    unfold latestMetrics stepMetric
    symm
    rw [List.filterMap_eq_nil_iff]
    intro p _
    cases windowLatest arr name p with
    | none => rfl
    | some m => by_cases hd : m.discard = true <;> simp [PeersetView.admits, hd]
  | members l => exact members_aux arr name l order

theorem stepMetric_state (arr : List RawMetric) (name : Nat) (view : PeersetView) (p : Nat) :
    (stepMetric arr name view p).map (fun m => (m.peer, m.state)) =
      (if (stateOfRaw arr name view p).healthy then some (p, stateOfRaw arr name view p) else none) := by
  unfold stepMetric stateOfRaw
  cases hw : windowLatest arr name p with
  | none => by_cases ha : view.admits p = true <;> simp [ha, MState.healthy]
  | some m =>
    have hp : m.peer = p := (windowLatest_mem hw).2.2
    subst hp
    by_cases ha : view.admits m.peer = true
    · cases hv : m.valid with
      | false => simp [RawMetric.discard, hv, ha, MState.healthy]
      | true =>
        cases he : m.expired with
        | true => simp [RawMetric.discard, hv, he, ha, MState.healthy]
        | false =>
          cases hval : m.val <;> simp [RawMetric.discard, hv, he, ha, MState.healthy, RawMetric.state, hval]
    · by_cases hd : m.discard = true <;> simp [ha, hd, MState.healthy]

theorem pipeline_yields_states_aux (order : List Nat) (arr : List RawMetric) (name : Nat) (view : PeersetView)
    (desc : Bool) (rmin rmax : Int) (cur bl pri : List Nat) :
    (latestMetrics order arr name view).map (fun m => (m.peer, m.state)) =
      metrics (rawInput order arr name view desc rmin rmax cur bl pri) := by
  rw [latestMetrics_eq_filterMap]
  unfold metrics rawInput
  simp only
  induction order with
  | nil => rfl
  | cons p t ih =>
    have hs := stepMetric_state arr name view p
    simp only [List.filterMap_cons, List.map_cons, List.filter_cons]
    cases hsm : stepMetric arr name view p with
    | none =>
      rw [hsm] at hs
      by_cases hh : (stateOfRaw arr name view p).healthy = true
      · rw [if_pos hh] at hs; cases hs
      · simp only [hh, Bool.false_eq_true, if_false]; exact ih
    | some m =>
      rw [hsm] at hs
      by_cases hh : (stateOfRaw arr name view p).healthy = true
      · rw [if_pos hh] at hs
        simp only [Option.map_some, Option.some.injEq] at hs
        simp only [hh, if_true, List.map_cons, hs]; rw [ih]
      · rw [if_neg hh] at hs; cases hs

theorem rawInput_wf (order : List Nat) (arr : List RawMetric) (name : Nat) (view : PeersetView)
    (desc : Bool) (rmin rmax : Int) (cur bl pri : List Nat) (h : order.Nodup) :
    wf (rawInput order arr name view desc rmin rmax cur bl pri) = true := by
  unfold wf rawInput
  simp only [List.map_map, decide_eq_true_eq]
  have : ((fun x : Nat × MState => x.1) ∘ fun p => (p, stateOfRaw arr name view p)) = id := by funext p; rfl
  rw [this, List.map_id]; exact h

/-- every metric `LatestMetrics` hands to allocate() is undiscarded, so the second `Discard()` test in
    `SortNumeric` (same instant) drops nothing: the sorter sees exactly the model's `numerics` -/
theorem stepMetric_not_discard {arr : List RawMetric} {name : Nat} {view : PeersetView} {p : Nat} {m : RawMetric}
    (h : stepMetric arr name view p = some m) : m.discard = false := by
  unfold stepMetric at h
  cases hw : windowLatest arr name p with
  | none => rw [hw] at h; cases h
  | some m' =>
    rw [hw] at h
    by_cases hd : m'.discard = true
    · simp [hd] at h
    · by_cases ha : view.admits m'.peer = true
      · simp only [hd, ha, Bool.false_eq_true, if_false, if_true, Option.some.injEq] at h
        subst h; simpa using hd
      · simp [hd, ha] at h

theorem numericsRaw_eq (l : List RawMetric) (h : ∀ m ∈ l, m.discard = false) :
    numericsRaw l = numerics (l.map (fun m => (m.peer, m.state))) := by
  unfold numericsRaw numerics
  induction l with
  | nil => rfl
  | cons m t ih =>
    have hm := h m (by simp)
    have ht := ih (fun x hx => h x (List.mem_cons_of_mem _ hx))
    simp only [List.filterMap_cons, List.map_cons, hm, Bool.false_eq_true, if_false]
    cases hv : m.val <;> simp [RawMetric.state, hv, MState.numeric, ht]

theorem latestMetrics_not_discard {order : List Nat} {arr : List RawMetric} {name : Nat} {view : PeersetView}
    {m : RawMetric} (h : m ∈ latestMetrics order arr name view) : m.discard = false := by
  rw [latestMetrics_eq_filterMap, List.mem_filterMap] at h
  obtain ⟨p, _, hp⟩ := h
  exact stepMetric_not_discard hp

/-! ### the classifier -/

theorem classifySpec_cases (bl cur pri : List Nat) (p : Nat) :
    (classifySpec bl cur pri p = .skip ↔ p ∈ bl) ∧
    (classifySpec bl cur pri p = .current ↔ p ∉ bl ∧ p ∈ cur) ∧
    (classifySpec bl cur pri p = .priority ↔ p ∉ bl ∧ p ∉ cur ∧ p ∈ pri) ∧
    (classifySpec bl cur pri p = .candidate ↔ p ∉ bl ∧ p ∉ cur ∧ p ∉ pri) := by
  unfold classifySpec
  by_cases h1 : p ∈ bl <;> by_cases h2 : p ∈ cur <;> by_cases h3 : p ∈ pri <;> simp [h1, h2, h3]

/-- the model's three groups are the classes of `classifySpec` -/
theorem model_groups_are_classes (i : Input) :
    curIds i = ((metrics i).filter (fun q => classifySpec i.blacklist i.current i.priority q.1 == .current)).map (·.1) ∧
    priM i = (metrics i).filter (fun q => classifySpec i.blacklist i.current i.priority q.1 == .priority) ∧
    candM i = (metrics i).filter (fun q => classifySpec i.blacklist i.current i.priority q.1 == .candidate) := by
  unfold curIds priM candM
  refine ⟨?_, ?_, ?_⟩
  · congr 1; apply List.filter_congr; intro q _
    have := classifySpec_cases i.blacklist i.current i.priority q.1
    by_cases h1 : q.1 ∈ i.blacklist <;> by_cases h2 : q.1 ∈ i.current <;> simp [classifySpec, h1, h2]
    by_cases h3 : q.1 ∈ i.priority <;> simp [h3]
  · apply List.filter_congr; intro q _
    by_cases h1 : q.1 ∈ i.blacklist <;> by_cases h2 : q.1 ∈ i.current <;> by_cases h3 : q.1 ∈ i.priority <;>
      simp [classifySpec, h1, h2, h3]
  · apply List.filter_congr; intro q _
    by_cases h1 : q.1 ∈ i.blacklist <;> by_cases h2 : q.1 ∈ i.current <;> by_cases h3 : q.1 ∈ i.priority <;>
      simp [classifySpec, h1, h2, h3]

/-! ### the sorter's comparison against the model's `before` -/

/-- a list sorted by `sort.Sort` under a strict comparison that is `<` (or `>` when reversed) is in the model's
    strategy order: no adjacent pair is inverted ⇒ every adjacent pair is `before` -/
theorem noInversion_before (desc : Bool) (less : Nat → Nat → Bool)
    (hl : ∀ x y, less x y = if desc then decide (x > y) else decide (x < y)) :
    ∀ l : List Nat, noInversion less l = true → (l.zip l.tail).all (fun (x, y) => before desc x y) = true := by
  intro l
  induction l with
  | nil => intro _; rfl
  | cons x t ih =>
    cases t with
    | nil => intro _; rfl
    | cons y rest =>
      intro h
      simp only [noInversion, Bool.and_eq_true, Bool.not_eq_true'] at h
      have ih' := ih h.2
      simp only [List.tail_cons, List.zip_cons_cons, List.all_cons, Bool.and_eq_true]
      refine ⟨?_, by simpa using ih'⟩
      have := h.1
      rw [hl] at this
      unfold before
      cases desc <;> simp at this ⊢ <;> omega

end CV.C03
