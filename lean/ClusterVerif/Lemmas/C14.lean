import ClusterVerif.Spec.C14
import Mathlib.Data.List.Basic
import Mathlib.Data.List.Perm.Basic
import Mathlib.Data.List.Nodup
import Mathlib.Data.List.Pairwise

/-! Helper lemmas for Props/C14. -/
set_option linter.unusedSimpArgs false
namespace CV.C14

/-! ### lists strictly sorted by a key are determined by their members -/

theorem strict_sorted_unique {α : Type} (f : α → Nat) :
    ∀ a b : List α, a.Pairwise (fun x y => f x < f y) → b.Pairwise (fun x y => f x < f y) →
      (∀ x, x ∈ a ↔ x ∈ b) → a = b := by
  intro a
  induction a with
  | nil =>
    intro b _ _ h
    cases b with
    | nil => rfl
    | cons y b' => exact absurd ((h y).2 (List.mem_cons_self)) (by simp)
  | cons x a' ih =>
    intro b ha hb h
    cases b with
    | nil => exact absurd ((h x).1 (List.mem_cons_self)) (by simp)
    | cons y b' =>
      rw [List.pairwise_cons] at ha hb
      have hxy : x = y := by
        have hx := (h x).1 List.mem_cons_self
        have hy := (h y).2 List.mem_cons_self
        rw [List.mem_cons] at hx hy
        rcases hx with hx | hx
        · exact hx
        · rcases hy with hy | hy
          · exact hy.symm
          · have h1 := hb.1 x hx
            have h2 := ha.1 y hy
            omega
      subst hxy
      congr 1
      apply ih b' ha.2 hb.2
      intro z
      constructor
      · intro hz
        have := (h z).1 (List.mem_cons_of_mem _ hz)
        rw [List.mem_cons] at this
        rcases this with rfl | h'
        · have := ha.1 z hz; omega
        · exact h'
      · intro hz
        have := (h z).2 (List.mem_cons_of_mem _ hz)
        rw [List.mem_cons] at this
        rcases this with rfl | h'
        · have := hb.1 z hz; omega
        · exact h'

/-! ### the pin map -/

/-- strictly sorted by cid, as a Prop -/
def SS (m : List Pin) : Prop := m.Pairwise (fun a b => a.cid < b.cid)

theorem sortedMap_iff (m : List Pin) : sortedMap m = true ↔ SS m := by
  unfold SS
  induction m with
  | nil => simp [sortedMap]
  | cons a t ih =>
    cases t with
    | nil => simp [sortedMap]
    | cons b t' =>
      simp only [sortedMap, Bool.and_eq_true, decide_eq_true_eq, ih]
      constructor
      · rintro ⟨hab, hb⟩
        refine List.pairwise_cons.2 ⟨?_, hb⟩
        have hb' := List.pairwise_cons.1 hb
        intro x hx
        rw [List.mem_cons] at hx
        rcases hx with rfl | hx
        · exact hab
        · exact Nat.lt_trans hab (hb'.1 x hx)
      · intro h
        have h' := List.pairwise_cons.1 h
        exact ⟨h'.1 b List.mem_cons_self, h'.2⟩

theorem mem_put_of {p x : Pin} {m : List Pin} (h : x ∈ put p m) : x = p ∨ x ∈ m := by
  induction m with
  | nil => simp [put] at h; exact Or.inl h
  | cons q t ih =>
    unfold put at h
    split_ifs at h with h1 h2
    · rw [List.mem_cons] at h; exact h
    · rw [List.mem_cons] at h
      rcases h with h | h
      · exact Or.inl h
      · exact Or.inr (List.mem_cons_of_mem _ h)
    · rw [List.mem_cons] at h
      rcases h with h | h
      · exact Or.inr (h ▸ List.mem_cons_self)
      · rcases ih h with h | h
        · exact Or.inl h
        · exact Or.inr (List.mem_cons_of_mem _ h)

theorem mem_put {p x : Pin} {m : List Pin} (hs : SS m) :
    x ∈ put p m ↔ x = p ∨ (x ∈ m ∧ x.cid ≠ p.cid) := by
  induction m with
  | nil => simp [put]
  | cons q t ih =>
    unfold SS at hs
    rw [List.pairwise_cons] at hs
    unfold put
    split_ifs with h1 h2
    · rw [List.mem_cons]
      constructor
      · rintro (h | h)
        · exact Or.inl h
        · right
          refine ⟨h, ?_⟩
          rw [List.mem_cons] at h
          rcases h with rfl | h
          · omega
          · have := hs.1 x h; omega
      · rintro (h | ⟨h, _⟩)
        · exact Or.inl h
        · exact Or.inr h
    · rw [List.mem_cons]
      constructor
      · rintro (h | h)
        · exact Or.inl h
        · right
          refine ⟨List.mem_cons_of_mem _ h, ?_⟩
          have := hs.1 x h; omega
      · rintro (h | ⟨h, hne⟩)
        · exact Or.inl h
        · rw [List.mem_cons] at h
          rcases h with rfl | h
          · exact absurd h2.symm hne
          · exact Or.inr h
    · rw [List.mem_cons, ih hs.2]
      constructor
      · rintro (h | h | ⟨h, hne⟩)
        · right
          subst h
          exact ⟨List.mem_cons_self, by omega⟩
        · exact Or.inl h
        · exact Or.inr ⟨List.mem_cons_of_mem _ h, hne⟩
      · rintro (h | ⟨h, hne⟩)
        · exact Or.inr (Or.inl h)
        · rw [List.mem_cons] at h
          rcases h with h | h
          · exact Or.inl h
          · exact Or.inr (Or.inr ⟨h, hne⟩)

theorem ss_put {p : Pin} {m : List Pin} (hs : SS m) : SS (put p m) := by
  induction m with
  | nil => simp [put, SS]
  | cons q t ih =>
    have hs' := hs
    unfold SS at hs
    rw [List.pairwise_cons] at hs
    unfold put
    split_ifs with h1 h2
    · unfold SS
      rw [List.pairwise_cons]
      refine ⟨?_, hs'⟩
      intro x hx
      rw [List.mem_cons] at hx
      rcases hx with rfl | hx
      · exact h1
      · have := hs.1 x hx; omega
    · unfold SS
      rw [List.pairwise_cons]
      refine ⟨?_, hs.2⟩
      intro x hx
      have := hs.1 x hx; omega
    · unfold SS
      rw [List.pairwise_cons]
      refine ⟨?_, ih hs.2⟩
      intro x hx
      rcases mem_put_of hx with rfl | hx
      · omega
      · exact hs.1 x hx

theorem ss_putAll {l : List Pin} : ∀ {m : List Pin}, SS m → SS (putAll m l) := by
  induction l with
  | nil => intro m h; exact h
  | cons p t ih => intro m h; exact ih (ss_put h)

theorem ss_addAll {l : List Pin} : ∀ {m : List Pin}, SS m → SS (addAll m l) := by
  induction l with
  | nil => intro m h; exact h
  | cons p t ih => intro m h; exact ih (ss_put h)

theorem ss_nil : SS [] := List.Pairwise.nil

theorem ss_fromList (g : List Pin) : SS (fromList g) := ss_addAll ss_nil

/-- the entries of a stream with pairwise different keys all end up in the map -/
theorem mem_putAll {l : List Pin} (hl : l.Pairwise (fun a b => a.cid ≠ b.cid)) :
    ∀ {m : List Pin}, SS m → ∀ x, x ∈ putAll m l ↔ (x ∈ l ∨ (x ∈ m ∧ ∀ y ∈ l, y.cid ≠ x.cid)) := by
  induction l with
  | nil => intro m _ x; simp [putAll]
  | cons p t ih =>
    intro m hm x
    rw [List.pairwise_cons] at hl
    have := ih hl.2 (ss_put (p := p) hm) x
    show x ∈ putAll (put p m) t ↔ _
    rw [this, mem_put hm]
    constructor
    · rintro (h | ⟨h | ⟨h, hne⟩, hall⟩)
      · exact Or.inl (List.mem_cons_of_mem _ h)
      · exact Or.inl (h ▸ List.mem_cons_self)
      · right
        refine ⟨h, ?_⟩
        intro y hy
        rw [List.mem_cons] at hy
        rcases hy with rfl | hy
        · exact fun e => hne e.symm
        · exact hall y hy
    · rintro (h | ⟨h, hall⟩)
      · rw [List.mem_cons] at h
        rcases h with rfl | h
        · right
          exact ⟨Or.inl rfl, fun y hy => (hl.1 y hy).symm⟩
        · exact Or.inl h
      · right
        refine ⟨Or.inr ⟨h, fun e => hall p List.mem_cons_self e.symm⟩, ?_⟩
        intro y hy
        exact hall y (List.mem_cons_of_mem _ hy)

theorem ss_distinct {m : List Pin} (h : SS m) : m.Pairwise (fun a b => a.cid ≠ b.cid) :=
  List.Pairwise.imp (fun hlt => Nat.ne_of_lt hlt) h

/-- putting any arrangement of a sorted map's entries into an empty store rebuilds the map -/
theorem putAll_arrangement {s stream : List Pin} (hs : SS s) (hp : stream.Perm s) : putAll [] stream = s := by
  have hd : stream.Pairwise (fun a b => a.cid ≠ b.cid) :=
    (hp.pairwise_iff (fun {x y} (h : x.cid ≠ y.cid) => Ne.symm h)).2 (ss_distinct hs)
  apply strict_sorted_unique (fun p : Pin => p.cid) _ _ (ss_putAll ss_nil) hs
  intro x
  rw [mem_putAll hd ss_nil x]
  simp only [List.not_mem_nil, false_and, or_false]
  exact hp.mem_iff

theorem nodupCids_of_ss {s : List Pin} (h : SS s) : nodupCids s = true := by
  induction s with
  | nil => rfl
  | cons p t ih =>
    unfold SS at h
    rw [List.pairwise_cons] at h
    simp only [nodupCids, Bool.and_eq_true, Bool.not_eq_true', ih h.2, and_true]
    rw [Bool.eq_false_iff]
    intro hany
    rw [List.any_eq_true] at hany
    obtain ⟨q, hq, hc⟩ := hany
    have := h.1 q hq
    simp only [beq_iff_eq] at hc
    omega

theorem samePinset_self {s : List Pin} (h : SS s) : samePinset s s = true := by
  unfold samePinset
  simp only [nodupCids_of_ss h, Bool.true_and, Bool.and_eq_true, and_self]
  rw [List.all_eq_true]
  intro p hp
  simpa using hp

/-! ### the stored form and the JSON document -/

theorem wrap32_idem (x : Int) : wrap32 (wrap32 x) = wrap32 x := by
  unfold wrap32; omega

theorem wrap32_of_int32 {x : Int} (h : int32 x = true) : wrap32 x = x := by
  unfold int32 at h
  simp only [Bool.and_eq_true, decide_eq_true_eq] at h
  unfold wrap32; omega

theorem normType_wf {t : Nat} (h : t = 2 ∨ t = 4 ∨ t = 8 ∨ t = 16) : normType t = t := by
  rcases h with rfl | rfl | rfl | rfl <;> decide

structure WF (p : Pin) : Prop where
  ptype : p.ptype = 2 ∨ p.ptype = 4 ∨ p.ptype = 8 ∨ p.ptype = 16
  depth : int32 p.depth = true
  rmin : int32 p.rmin = true
  rmax : int32 p.rmax = true
  expire : p.expire ≤ maxJSONTime
  shard : p.shard < 18446744073709551616
  pmeta : keysSorted p.pmeta = true
  mode : p.mode ≤ 1

theorem wfPin_iff (p : Pin) : wfPin p = true ↔ WF p := by
  unfold wfPin
  simp only [Bool.and_eq_true, Bool.or_eq_true, beq_iff_eq, decide_eq_true_eq]
  constructor
  · rintro ⟨⟨⟨⟨⟨⟨⟨h1, h2⟩, h3⟩, h4⟩, h5⟩, h6⟩, h7⟩, h8⟩
    exact ⟨by tauto, h2, h3, h4, h5, h6, h7, h8⟩
  · intro h
    exact ⟨⟨⟨⟨⟨⟨⟨by have := h.ptype; tauto, h.depth⟩, h.rmin⟩, h.rmax⟩, h.expire⟩, h.shard⟩, h.pmeta⟩, h.mode⟩

/-- stored form of a well-formed pin: a fixed point of `store` -/
theorem store_idem {p : Pin} (h : WF p) : store (store p) = store p := by
  unfold store
  simp only [wrap32_idem, normType_wf h.ptype]

theorem json_roundtrip {p : Pin} (h : WF p) (ho : p.origins = []) :
    ∃ j, jenc (store p) = some j ∧ ∃ p', jdec j = some p' ∧ store p' = store p := by
  have he : ¬ (store p).expire > maxJSONTime := by
    have := h.expire; simp only [store]; omega
  refine ⟨_, by unfold jenc; rw [if_neg he], ?_⟩
  unfold jdec
  simp only [store, ho]
  refine ⟨_, rfl, ?_⟩
  simp only [wrap32_idem, normType_wf h.ptype, Option.getD_some, nullIfEmpty]
  have hexp : (if (if p.expire = 0 then zeroTime else (p.expire : Int)) = zeroTime ∨
      (if p.expire = 0 then zeroTime else (p.expire : Int)) = 0 then 0
      else (if p.expire = 0 then zeroTime else (p.expire : Int)).toNat) = p.expire := by
    by_cases h0 : p.expire = 0
    · simp [h0]
    · have h1 : ¬ ((p.expire : Int) = zeroTime) := by unfold zeroTime; omega
      simp [h0, h1]
  have hmeta : (if p.pmeta.isEmpty = true then none else some p.pmeta).getD [] = p.pmeta := by
    cases p.pmeta <;> simp
  rw [hexp, hmeta]

/-- a pin in stored form coming from a well-formed pin without origins -/
def StoredPlain (x : Pin) : Prop := ∃ p, WF p ∧ p.origins = [] ∧ x = store p

theorem export_import_stream {l : List Pin} (hl : ∀ x ∈ l, StoredPlain x) :
    ∃ js, exportStream l = some js ∧ ∀ m, importInto m js = some (putAll m l) := by
  induction l with
  | nil => exact ⟨[], rfl, fun m => rfl⟩
  | cons x t ih =>
    obtain ⟨js, hjs, himp⟩ := ih (fun y hy => hl y (List.mem_cons_of_mem _ hy))
    obtain ⟨p, hw, ho, rfl⟩ := hl x List.mem_cons_self
    obtain ⟨j, hj, p', hp', hst⟩ := json_roundtrip hw ho
    refine ⟨j :: js, ?_, ?_⟩
    · simp only [exportStream, hj, hjs]
    · intro m
      simp only [importInto, hp']
      rw [himp]
      simp only [add, hst]
      rfl

theorem mem_addAll {g : List Pin} : ∀ {m : List Pin} {x : Pin}, x ∈ addAll m g → x ∈ m ∨ ∃ p ∈ g, x = store p := by
  induction g with
  | nil => intro m x h; exact Or.inl h
  | cons p t ih =>
    intro m x h
    rcases ih (m := add p m) h with h | ⟨q, hq, rfl⟩
    · rcases mem_put_of h with rfl | h
      · exact Or.inr ⟨p, List.mem_cons_self, rfl⟩
      · exact Or.inl h
    · exact Or.inr ⟨q, List.mem_cons_of_mem _ hq, rfl⟩

theorem mem_fromList {g : List Pin} {x : Pin} (h : x ∈ fromList g) : ∃ p ∈ g, x = store p := by
  rcases mem_addAll h with h | h
  · simp at h
  · exact h

/-! ### rotation of the Raft data folder -/

variable {β : Type}

theorem firstGap_le (old : Nat → Option β) : ∀ k, firstGap old k ≤ k := by
  intro k
  induction k with
  | zero => simp [firstGap]
  | succ k ih =>
    simp only [firstGap]
    split_ifs <;> omega

theorem firstGap_some (old : Nat → Option β) : ∀ k j, j < firstGap old k → (old j).isSome = true := by
  intro k
  induction k with
  | zero => intro j h; simp [firstGap] at h
  | succ k ih =>
    intro j h
    simp only [firstGap] at h
    split_ifs at h with hc
    · by_cases hj : j < firstGap old k
      · exact ih j hj
      · have : j = k := by omega
        rw [this]; exact hc.2
    · exact ih j h

theorem firstGap_none (old : Nat → Option β) : ∀ k, firstGap old k < k → (old (firstGap old k)).isSome = false := by
  intro k
  induction k with
  | zero => intro h; simp [firstGap] at h
  | succ k ih =>
    intro h
    simp only [firstGap] at h ⊢
    split_ifs at h ⊢ with hc
    · omega
    · by_cases hg : firstGap old k = k
      · rw [hg]
        have : ¬ (old k).isSome = true := fun hh => hc ⟨hg, hh⟩
        simpa using this
      · have := firstGap_le old k
        exact ih (by omega)

theorem firstGap_ge (old : Nat → Option β) : ∀ k n, n ≤ k → (∀ j < n, (old j).isSome = true) → n ≤ firstGap old k := by
  intro k
  induction k with
  | zero => intro n hn _; omega
  | succ k ih =>
    intro n hn hall
    simp only [firstGap]
    by_cases hnk : n ≤ k
    · have := ih n hnk hall
      split_ifs <;> omega
    · have hn' : n = k + 1 := by omega
      have h1 := ih k (Nat.le_refl k) (fun j hj => hall j (by omega))
      have h2 := firstGap_le old k
      have h3 := hall k (by omega)
      rw [if_pos ⟨by omega, h3⟩]
      omega

theorem runUpTo_iff (d : Dirs β) (i : Nat) : runUpTo d i = true ↔ ∀ j ≤ i, (d.old j).isSome = true := by
  unfold runUpTo
  rw [List.all_eq_true]
  constructor
  · intro h j hj; exact h j (List.mem_range.2 (by omega))
  · intro h j hj; exact h j (by have := List.mem_range.1 hj; omega)

theorem windowFull_iff (keep : Nat) (d : Dirs β) : windowFull keep d = true ↔ ∀ j < keep, (d.old j).isSome = true := by
  unfold windowFull
  rw [List.all_eq_true]
  constructor
  · intro h j hj; exact h j (List.mem_range.2 hj)
  · intro h j hj; exact h j (List.mem_range.1 hj)

/-- explicit description of `makeBackup` for data that exists and retention ≥ 1 -/
theorem makeBackup_eq {keep : Nat} (hk : 1 ≤ keep) (d : Dirs β) (f : Folder β) (hd : d.data = some f) :
    ∃ a n, makeBackup keep d = some a ∧ a.data = none ∧
      (∀ i, a.old i = if i = 0 then some f else if i < n then d.old (i - 1) else d.old i) ∧
      n ≤ keep ∧ firstGap d.old keep ≤ n ∧ 1 ≤ n ∧
      (firstGap d.old keep < keep → n = firstGap d.old keep + 1) ∧
      (keep ≤ firstGap d.old keep → n = keep) := by
  have hle := firstGap_le d.old keep
  refine ⟨{ data := none, old := fun i => if i = 0 then some f else
      if i < (if firstGap d.old keep ≥ keep then firstGap d.old keep else firstGap d.old keep + 1) then d.old (i - 1) else d.old i },
    (if firstGap d.old keep ≥ keep then firstGap d.old keep else firstGap d.old keep + 1), ?_, rfl, fun i => rfl, ?_, ?_, ?_, ?_, ?_⟩
  · unfold makeBackup
    rw [hd]
    simp only [show ¬ keep = 0 by omega, if_false]
  all_goals (split_ifs <;> omega)


theorem rotClauses_makeBackup [DecidableEq β] {keep : Nat} (hk : 1 ≤ keep) (m : Nat) (s : β) (d a : Dirs β)
    (hd : d.data = some (.snap s)) (ha : makeBackup keep d = some a) :
    allHold (rotClauses keep m s d a) = true := by
  obtain ⟨a', n, h1, _, hold, hnk, hln, hn1, hlt, hge⟩ := makeBackup_eq hk d (.snap s) hd
  rw [h1] at ha
  cases ha
  have hL := firstGap_le d.old keep
  have hsome := firstGap_some d.old keep
  have hnone := firstGap_none d.old keep
  -- an unbroken run up to i inside the window lies below the first gap
  have hrun : ∀ i, i < keep → (∀ j ≤ i, (d.old j).isSome = true) → i < firstGap d.old keep := by
    intro i hi hall
    have := firstGap_ge d.old keep (i + 1) (by omega) (fun j hj => hall j (by omega))
    omega
  have hshift : ∀ i, i + 1 < keep → (∀ j ≤ i, (d.old j).isSome = true) → a.old (i + 1) = d.old i := by
    intro i hi hall
    have hg := hrun i (by omega) hall
    rw [hold]
    have : i + 1 < n := by
      by_cases hc : firstGap d.old keep < keep
      · rw [hlt hc]; omega
      · rw [hge (by omega)]; omega
    simp [this]
  unfold rotClauses allHold
  simp only [List.all_cons, List.all_nil, Bool.and_true, Bool.and_eq_true]
  refine ⟨?_, ?_, ?_, ?_⟩
  · rw [hold]; simp
  · rw [List.all_eq_true]
    intro i _
    by_cases hc : (decide (i + 1 < keep) && runUpTo d i) = true
    · simp only [hc, Bool.not_true, Bool.false_or, beq_iff_eq]
      simp only [Bool.and_eq_true, decide_eq_true_eq, runUpTo_iff] at hc
      exact hshift i hc.1 hc.2
    · simp only [Bool.not_eq_true] at hc
      simp [hc]
  · rw [List.all_eq_true]
    intro i _
    by_cases hi : (d.old i).isNone = true
    · simp [hi]
    · by_cases hfull : (i + 1 == keep && windowFull keep d) = true
      · simp [hfull]
      · simp only [hi, hfull, Bool.false_or]
        by_cases hc : (decide (i + 1 < keep) = true ∧ runUpTo d i = true)
        · rw [if_pos hc]
          simp only [decide_eq_true_eq, runUpTo_iff] at hc
          simp only [beq_iff_eq]
          exact hshift i hc.1 hc.2
        · rw [if_neg hc]
          simp only [beq_iff_eq]
          rw [hold]
          have hisome : (d.old i).isSome = true := by
            cases h : d.old i <;> simp_all
          -- i is not 0 and not below n
          have hi0 : i ≠ 0 := by
            intro h0
            subst h0
            -- old.0 exists; not (1 < keep and run) means keep = 1, then the window is full
            have hk1 : keep = 1 := by
              by_contra hne
              apply hc
              simp only [decide_eq_true_eq, runUpTo_iff]
              exact ⟨by omega, fun j hj => by have : j = 0 := by omega
                                              rw [this]; exact hisome⟩
            apply hfull
            simp only [Bool.and_eq_true, beq_iff_eq, windowFull_iff]
            exact ⟨by omega, fun j hj => by have : j = 0 := by omega
                                            rw [this]; exact hisome⟩
          have hin : ¬ i < n := by
            intro hlt'
            by_cases hik : i + 1 = keep
            · -- the last slot: either the window is full or old.i is the gap
              by_cases hc2 : firstGap d.old keep < keep
              · have : i = firstGap d.old keep := by have := hlt hc2; omega
                have := hnone hc2
                rw [← ‹i = firstGap d.old keep›] at this
                simp [hisome] at this
              · apply hfull
                simp only [Bool.and_eq_true, beq_iff_eq, windowFull_iff]
                exact ⟨hik, fun j hj => hsome j (by omega)⟩
            · have hik' : i + 1 < keep := by omega
              apply hc
              simp only [decide_eq_true_eq, runUpTo_iff]
              refine ⟨hik', ?_⟩
              intro j hj
              by_cases hc2 : firstGap d.old keep < keep
              · have hn := hlt hc2
                by_cases hjl : j < firstGap d.old keep
                · exact hsome j hjl
                · have : j = i := by omega
                  rw [this]; exact hisome
              · exact hsome j (by omega)
          simp [hi0, hin]
  · rw [List.all_eq_true]
    intro i _
    by_cases hik : i < keep
    · simp [hik]
    · simp only [hik, decide_false, Bool.false_or, beq_iff_eq]
      rw [hold]
      have h0 : i ≠ 0 := by omega
      have hn : ¬ i < n := by omega
      simp [h0, hn]


/-- every step of a model trace meets the step clauses (generic over the snapshot type) -/
def stepsHold [DecidableEq β] (m : Nat) : Nat × Dirs β → List (Op β) → List (Nat × Dirs β) → Bool
  | st, op :: ops, st' :: sts => allHold (rotStepClauses st.1 m st.2 op (some st'.2) true) && stepsHold m st' ops sts
  | _, [], [] => true
  | _, _, _ => false

theorem step_spec [DecidableEq β] {keep : Nat} (hk : 1 ≤ keep) (m : Nat) (d : Dirs β) (op : Op β) :
    ∃ st', step (keep, d) op = some st' ∧ allHold (rotStepClauses keep m d op (some st'.2) true) = true ∧
      st'.1 = (match op with | .setKeep k => k | _ => keep) := by
  have hk0 : ¬ keep = 0 := by omega
  cases op with
  | clean =>
    cases hd : d.data with
    | none => exact ⟨(keep, { d with data := none }), by simp [step, cleanupRaft, hd], by simp [rotStepClauses, hd, hk0, allHold], rfl⟩
    | some f =>
      cases f with
      | nosnap => exact ⟨(keep, { d with data := none }), by simp [step, cleanupRaft, hd], by simp [rotStepClauses, hd, hk0, allHold], rfl⟩
      | snap s =>
        obtain ⟨a, n, h1, h2, _⟩ := makeBackup_eq hk d (.snap s) hd
        refine ⟨(keep, a), by simp [step, cleanupRaft, hd, h1], ?_, rfl⟩
        have := rotClauses_makeBackup hk m s d a hd h1
        simp only [rotStepClauses, hk0, if_false, hd]
        simp only [allHold, List.all_cons, Bool.and_eq_true] at this ⊢
        exact ⟨by simp [h2], this⟩
  | save t =>
    cases hd : d.data with
    | none => exact ⟨(keep, { d with data := some (.snap t) }), by simp [step, snapshotSave, hd], by simp [rotStepClauses, hd, hk0, allHold], rfl⟩
    | some f =>
      cases f with
      | nosnap => exact ⟨(keep, { d with data := some (.snap t) }), by simp [step, snapshotSave, hd], by simp [rotStepClauses, hd, hk0, allHold], rfl⟩
      | snap s =>
        obtain ⟨a, n, h1, h2, _⟩ := makeBackup_eq hk d (.snap s) hd
        refine ⟨(keep, { a with data := some (.snap t) }), by simp [step, snapshotSave, cleanupRaft, hd, h1], ?_, rfl⟩
        have := rotClauses_makeBackup hk m s d a hd h1
        simp only [rotStepClauses, hk0, if_false, hd]
        simp only [allHold, List.all_cons, Bool.and_eq_true] at this ⊢
        exact ⟨by simp, this⟩
  | mkdir =>
    refine ⟨_, rfl, ?_, rfl⟩
    simp only [rotStepClauses, hk0, if_false]
    cases d.data with
    | none => simp [allHold]
    | some f => cases f <;> simp [allHold]
  | setKeep k =>
    refine ⟨_, rfl, ?_, rfl⟩
    simp only [rotStepClauses, hk0, if_false]
    cases d.data with
    | none => simp [allHold]
    | some f => cases f <;> simp [allHold]

/-! ### the peerstore file -/

def block (e : Nat × List Nat) : List Line := e.2.map (fun a => Line.full a e.1)

theorem save_cons (e : Nat × List Nat) (rest : List (Nat × List Nat)) : save (e :: rest) = block e ++ save rest := by
  simp [save, block]

theorem mem_save {P : List (Nat × List Nat)} {l : Line} : l ∈ save P ↔ ∃ e ∈ P, ∃ a ∈ e.2, l = Line.full a e.1 := by
  simp only [save, List.mem_flatMap, List.mem_map]
  constructor
  · rintro ⟨e, he, a, ha, rfl⟩; exact ⟨e, he, a, ha, rfl⟩
  · rintro ⟨e, he, a, ha, rfl⟩; exact ⟨e, he, a, ha, rfl⟩

theorem load_save (P : List (Nat × List Nat)) : load (save P) = save P := by
  unfold load
  rw [List.filter_eq_self]
  intro l hl
  obtain ⟨e, _, a, _, rfl⟩ := mem_save.1 hl
  rfl

theorem lastIdx_append (p : Nat) : ∀ (l1 l2 : List Line) (i : Nat) (acc : Option Nat),
    lastIdx p (l1 ++ l2) i acc = lastIdx p l2 (i + l1.length) (lastIdx p l1 i acc) := by
  intro l1
  induction l1 with
  | nil => intro l2 i acc; simp [lastIdx]
  | cons l t ih =>
    intro l2 i acc
    simp only [List.cons_append, lastIdx, List.length_cons]
    rw [ih]
    congr 1
    omega

theorem lastIdx_absent (p : Nat) : ∀ (l : List Line) (i : Nat) (acc : Option Nat),
    (∀ a, Line.full a p ∉ l) → lastIdx p l i acc = acc := by
  intro l
  induction l with
  | nil => intro i acc _; rfl
  | cons x t ih =>
    intro i acc h
    simp only [lastIdx]
    rw [ih]
    · cases x with
      | full a q =>
        have : q ≠ p := by
          intro hq; subst hq
          exact h a List.mem_cons_self
        simp [this]
      | _ => rfl
    · intro a ha; exact h a (List.mem_cons_of_mem _ ha)

theorem lastIdx_block (p : Nat) : ∀ (as : List Nat) (i : Nat) (acc : Option Nat), as ≠ [] →
    lastIdx p (block (p, as)) i acc = some (i + as.length - 1) := by
  intro as
  induction as with
  | nil => intro i acc h; exact absurd rfl h
  | cons a t ih =>
    intro i acc _
    simp only [block, List.map_cons, lastIdx, if_true]
    cases t with
    | nil => simp [lastIdx]
    | cons b t' =>
      have := ih (i + 1) (some i) (by simp)
      simp only [block] at this
      rw [this]
      simp only [List.length_cons]
      congr 1
      omega

/-- after importing a saved file every listed peer has a priority, later peers a larger one -/
theorem prio_increasing : ∀ (P : List (Nat × List Nat)) (off : Nat), (P.map (·.1)).Nodup → (∀ e ∈ P, e.2 ≠ []) →
    (P.map (·.1)).Pairwise (fun p q => ∃ a b, lastIdx p (save P) off none = some a ∧
        lastIdx q (save P) off none = some b ∧ a < b) ∧
    ∀ p ∈ P.map (·.1), ∃ k, lastIdx p (save P) off none = some k ∧ off ≤ k := by
  intro P
  induction P with
  | nil => intro off _ _; simp
  | cons e rest ih =>
    intro off hn hne
    rw [List.map_cons, List.nodup_cons] at hn
    have he : e.2 ≠ [] := hne e List.mem_cons_self
    obtain ⟨ihp, ihk⟩ := ih (off + (block e).length) hn.2 (fun x hx => hne x (List.mem_cons_of_mem _ hx))
    have hblen : (block e).length = e.2.length := by simp [block]
    have hpos : 0 < e.2.length := List.length_pos_iff.2 he
    -- the head peer
    have hhead : lastIdx e.1 (save (e :: rest)) off none = some (off + e.2.length - 1) := by
      rw [save_cons, lastIdx_append]
      have hb : lastIdx e.1 (block e) off none = some (off + e.2.length - 1) := lastIdx_block e.1 e.2 off none he
      rw [hb]
      apply lastIdx_absent
      intro a ha
      obtain ⟨x, hx, _, _, heq⟩ := mem_save.1 ha
      injection heq with _ h2
      exact hn.1 (List.mem_map.2 ⟨x, hx, h2.symm⟩)
    -- the others
    have htail : ∀ q ∈ rest.map (·.1), lastIdx q (save (e :: rest)) off none =
        lastIdx q (save rest) (off + (block e).length) none := by
      intro q hq
      rw [save_cons, lastIdx_append]
      congr 1
      apply lastIdx_absent
      intro a ha
      simp only [block, List.mem_map] at ha
      obtain ⟨_, _, heq⟩ := ha
      injection heq with _ h2
      exact hn.1 (h2 ▸ hq)
    constructor
    · rw [List.map_cons, List.pairwise_cons]
      constructor
      · intro q hq
        obtain ⟨k, hk, hok⟩ := ihk q hq
        exact ⟨_, k, hhead, by rw [htail q hq]; exact hk, by omega⟩
      · refine List.Pairwise.imp_of_mem ?_ ihp
        intro p q hp hq ⟨a, b, ha, hb, hab⟩
        exact ⟨a, b, by rw [htail p hp]; exact ha, by rw [htail q hq]; exact hb, hab⟩
    · intro p hp
      rw [List.map_cons, List.mem_cons] at hp
      rcases hp with rfl | hp
      · exact ⟨_, hhead, by omega⟩
      · obtain ⟨k, hk, hok⟩ := ihk p hp
        exact ⟨k, by rw [htail p hp]; exact hk, by omega⟩

theorem find_filterMap (f : Nat → Option Known) (hf : ∀ q k, f q = some k → k.id = q) (p : Nat) :
    ∀ univ : List Nat, (univ.filterMap f).find? (fun k => k.id == p) = if p ∈ univ then f p else none := by
  intro univ
  induction univ with
  | nil => simp
  | cons q t ih =>
    rw [List.filterMap_cons]
    cases hq : f q with
    | none =>
      simp only [ih, List.mem_cons]
      by_cases hp : p = q
      · subst hp; simp [hq]
      · simp [hp]
    | some k =>
      have hk := hf q k hq
      simp only [List.find?_cons, List.mem_cons]
      by_cases hp : p = q
      · subst hp; simp [hk, hq]
      · have : (k.id == p) = false := by simp [hk]; exact fun h => hp h.symm
        simp [this, ih, hp]

theorem lookup_importPeers (self : Nat) (L : List Line) (univ : List Nat) (p : Nat) :
    lookup (importPeers self L univ) p = if p ∈ univ then importedEntry self L p else none := by
  unfold lookup importPeers
  apply find_filterMap
  intro q k h
  unfold importedEntry at h
  split at h
  · cases h
  · cases h; rfl

theorem lastIdx_present (p : Nat) (L : List Line) (i : Nat) (h : lastIdx p L i none ≠ none) : ∃ a, Line.full a p ∈ L := by
  by_contra hc
  exact h (lastIdx_absent p L i none (fun a ha => hc ⟨a, ha⟩))

theorem importedAddrs_ne_nil {self p a : Nat} {L : List Line} (hp : p ≠ self) (h : Line.full a p ∈ L) :
    importedAddrs self L p ≠ [] := by
  intro hnil
  have : a ∈ importedAddrs self L p := by
    unfold importedAddrs
    rw [List.mem_filterMap]
    exact ⟨_, h, by simp [hp]⟩
  rw [hnil] at this
  simp at this

theorem pairwise_both {α : Type} {R : α → α → Prop} : ∀ {l : List α}, l.Pairwise R →
    ∀ x ∈ l, ∀ y ∈ l, x = y ∨ R x y ∨ R y x := by
  intro l
  induction l with
  | nil => intro _ x hx; simp at hx
  | cons a t ih =>
    intro h x hx y hy
    rw [List.pairwise_cons] at h
    rw [List.mem_cons] at hx hy
    rcases hx with rfl | hx <;> rcases hy with rfl | hy
    · exact Or.inl rfl
    · exact Or.inr (Or.inl (h.1 y hy))
    · exact Or.inr (Or.inr (h.1 x hx))
    · exact ih h.2 x hx y hy

/-- chain-sorted (Bool) implies pairwise ≤ -/
theorem sortedByPrio_pairwise (known : List Known) : ∀ l : List Nat, sortedByPrio known l = true →
    l.Pairwise (fun a b => prioOf known a ≤ prioOf known b) := by
  intro l
  induction l with
  | nil => intro _; exact List.Pairwise.nil
  | cons a t ih =>
    intro h
    cases t with
    | nil => simp
    | cons b t' =>
      simp only [sortedByPrio, Bool.and_eq_true, decide_eq_true_eq] at h
      have ht := ih h.2
      refine List.pairwise_cons.2 ⟨?_, ht⟩
      intro x hx
      rw [List.mem_cons] at hx
      rcases hx with rfl | hx
      · exact h.1
      · exact Nat.le_trans h.1 ((List.pairwise_cons.1 ht).1 x hx)

/-- the order a fresh host gives the peers after importing a saved file is the saved order -/
theorem import_order (self : Nat) (P : List (Nat × List Nat)) (univ out : List Nat)
    (hn : (P.map (·.1)).Nodup) (hne : ∀ e ∈ P, e.2 ≠ []) (hself : self ∉ P.map (·.1))
    (hu : ∀ p ∈ P.map (·.1), p ∈ univ) (hun : univ.Nodup)
    (hperm : out.Perm (listed { self := self, known := importPeers self (save P) univ, peers := univ }))
    (hsorted : sortedByPrio (importPeers self (save P) univ) out = true) :
    out = P.map (·.1) := by
  set known2 := importPeers self (save P) univ with hk2
  obtain ⟨hinc, hk⟩ := prio_increasing P 0 hn hne
  -- priorities of the saved peers
  have hprio : ∀ p ∈ P.map (·.1), ∀ k, lastIdx p (save P) 0 none = some k → prioOf known2 p = k := by
    intro p hp k hk'
    have hps : p ≠ self := fun h => hself (h ▸ hp)
    unfold prioOf
    rw [hk2, lookup_importPeers, if_pos (hu p hp)]
    simp [importedEntry, importPrio, hps, hk']
  -- members of the listing
  have hmem : ∀ p, p ∈ listed { self := self, known := known2, peers := univ } ↔ p ∈ P.map (·.1) := by
    intro p
    unfold listed
    simp only [List.mem_filter, Bool.and_eq_true, bne_iff_ne, Bool.not_eq_true', ne_eq]
    constructor
    · rintro ⟨hpu, hps, hadd⟩
      have hent : importedEntry self (save P) p ≠ none := by
        intro hnone
        simp only [addrsOf] at hadd
        rw [hk2, lookup_importPeers, if_pos hpu, hnone] at hadd
        simp at hadd
      have hl : lastIdx p (save P) 0 none ≠ none := by
        intro hnone
        apply hent
        simp [importedEntry, importPrio, hps, hnone]
      obtain ⟨a, ha⟩ := lastIdx_present p (save P) 0 hl
      obtain ⟨e, he, _, _, heq⟩ := mem_save.1 ha
      injection heq with _ h2
      exact List.mem_map.2 ⟨e, he, h2.symm⟩
    · intro hp
      have hps : p ≠ self := fun h => hself (h ▸ hp)
      refine ⟨hu p hp, hps, ?_⟩
      obtain ⟨k, hk', _⟩ := hk p hp
      obtain ⟨e, he, rfl⟩ := List.mem_map.1 hp
      obtain ⟨a, ha⟩ := List.exists_mem_of_ne_nil _ (hne e he)
      have hline : Line.full a e.1 ∈ save P := mem_save.2 ⟨e, he, a, ha, rfl⟩
      simp only [addrsOf]
      rw [hk2, lookup_importPeers, if_pos (hu _ hp)]
      simp only [importedEntry, importPrio, hps, if_false, hk', Option.map_some, Option.getD_some]
      have := importedAddrs_ne_nil (self := self) hps hline
      cases h : importedAddrs self (save P) e.1 with
      | nil => exact absurd h this
      | cons _ _ => rfl
  -- both lists strictly sorted by priority, same members
  have hPstrict : (P.map (·.1)).Pairwise (fun a b => prioOf known2 a < prioOf known2 b) := by
    refine List.Pairwise.imp_of_mem ?_ hinc
    intro p q hp hq ⟨a, b, ha, hb, hab⟩
    rw [hprio p hp a ha, hprio q hq b hb]
    exact hab
  have houtmem : ∀ x, x ∈ out ↔ x ∈ P.map (·.1) := fun x => (hperm.mem_iff).trans (hmem x)
  have houtnd : out.Nodup := by
    rw [hperm.nodup_iff]
    exact List.Nodup.filter _ hun
  have hdist : ∀ x ∈ P.map (·.1), ∀ y ∈ P.map (·.1), x = y ∨ prioOf known2 x ≠ prioOf known2 y := by
    intro x hx y hy
    rcases pairwise_both hPstrict x hx y hy with h | h | h
    · exact Or.inl h
    · exact Or.inr (Nat.ne_of_lt h)
    · exact Or.inr (Nat.ne_of_gt h)
  have houtstrict : out.Pairwise (fun a b => prioOf known2 a < prioOf known2 b) := by
    have h1 := sortedByPrio_pairwise known2 out hsorted
    have h2 : out.Pairwise (fun a b => a ≠ b) := houtnd
    have h3 := List.Pairwise.and h1 h2
    refine List.Pairwise.imp_of_mem ?_ h3
    intro a b ha hb ⟨hle, hne'⟩
    rcases hdist a ((houtmem a).1 ha) b ((houtmem b).1 hb) with h | h
    · exact absurd h hne'
    · omega
  exact strict_sorted_unique (prioOf known2) out (P.map (·.1)) houtstrict hPstrict houtmem


theorem step_outside {keep : Nat} (hk : 1 ≤ keep) (d : Dirs β) (op : Op β) (st' : Nat × Dirs β)
    (hs : step (keep, d) op = some st') (hno : ∀ k, op ≠ .setKeep k) :
    st'.1 = keep ∧ ∀ i, keep ≤ i → st'.2.old i = d.old i := by
  have hmb : ∀ f, d.data = some f → ∀ a, makeBackup keep d = some a → ∀ i, keep ≤ i → a.old i = d.old i := by
    intro f hd a ha i hi
    obtain ⟨a', n, h1, _, hold, hnk, _⟩ := makeBackup_eq hk d f hd
    rw [h1] at ha
    cases ha
    rw [hold]
    have h0 : i ≠ 0 := by omega
    have hn : ¬ i < n := by omega
    simp [h0, hn]
  cases op with
  | clean =>
    cases hd : d.data with
    | none => simp [step, cleanupRaft, hd] at hs; subst hs; exact ⟨rfl, fun i _ => rfl⟩
    | some f =>
      cases f with
      | nosnap => simp [step, cleanupRaft, hd] at hs; subst hs; exact ⟨rfl, fun i _ => rfl⟩
      | snap s =>
        simp only [step, cleanupRaft, hd, Option.map_eq_some_iff] at hs
        obtain ⟨a, ha, rfl⟩ := hs
        exact ⟨rfl, hmb _ hd a ha⟩
  | save t =>
    cases hd : d.data with
    | none => simp [step, snapshotSave, hd] at hs; subst hs; exact ⟨rfl, fun i _ => rfl⟩
    | some f =>
      cases f with
      | nosnap => simp [step, snapshotSave, hd] at hs; subst hs; exact ⟨rfl, fun i _ => rfl⟩
      | snap s =>
        simp only [step, snapshotSave, cleanupRaft, hd, Option.map_eq_some_iff] at hs
        obtain ⟨a', ⟨a, ha, rfl⟩, rfl⟩ := hs
        exact ⟨rfl, hmb _ hd a ha⟩
  | mkdir =>
    simp only [step, Option.some.injEq] at hs
    subst hs
    refine ⟨rfl, fun i _ => ?_⟩
    cases d.data <;> rfl
  | setKeep k => exact absurd rfl (hno k)

theorem importedAddrs_append (self p : Nat) (l1 l2 : List Line) :
    importedAddrs self (l1 ++ l2) p = importedAddrs self l1 p ++ importedAddrs self l2 p := by
  simp [importedAddrs, List.filterMap_append]

theorem importedAddrs_block_self {self p : Nat} (hp : p ≠ self) (as : List Nat) :
    importedAddrs self (block (p, as)) p = as := by
  induction as with
  | nil => rfl
  | cons a t ih =>
    simp only [block, importedAddrs, List.map_cons, List.filterMap_cons] at ih ⊢
    simp only [hp, ne_eq, not_false_eq_true, and_self, if_true] at ih ⊢
    rw [ih]

theorem importedAddrs_absent {self p : Nat} {L : List Line} (h : ∀ a, Line.full a p ∉ L) :
    importedAddrs self L p = [] := by
  induction L with
  | nil => rfl
  | cons x t ih =>
    have iht := ih (fun a ha => h a (List.mem_cons_of_mem _ ha))
    simp only [importedAddrs, List.filterMap_cons] at iht ⊢
    cases x with
    | full a q =>
      have : q ≠ p := by
        intro hq; subst hq; exact h a List.mem_cons_self
      simp [this, iht]
    | _ => simp [iht]

/-- a fresh host holds, for every saved peer, exactly the saved addresses in the saved order -/
theorem imported_addresses (self : Nat) : ∀ (P : List (Nat × List Nat)), (P.map (·.1)).Nodup → self ∉ P.map (·.1) →
    ∀ e ∈ P, importedAddrs self (save P) e.1 = e.2 := by
  intro P
  induction P with
  | nil => intro _ _ e he; simp at he
  | cons x rest ih =>
    intro hn hs e he
    rw [List.map_cons, List.nodup_cons] at hn
    rw [List.map_cons, List.mem_cons, not_or] at hs
    rw [save_cons, importedAddrs_append]
    rw [List.mem_cons] at he
    rcases he with rfl | he
    · have h1 : importedAddrs self (block e) e.1 = e.2 := importedAddrs_block_self (fun h => hs.1 h.symm) e.2
      have h2 : importedAddrs self (save rest) e.1 = [] := by
        apply importedAddrs_absent
        intro a ha
        obtain ⟨y, hy, _, _, heq⟩ := mem_save.1 ha
        injection heq with _ h2
        exact hn.1 (List.mem_map.2 ⟨y, hy, h2.symm⟩)
      rw [h1, h2, List.append_nil]
    · have h1 : importedAddrs self (block x) e.1 = [] := by
        apply importedAddrs_absent
        intro a ha
        simp only [block, List.mem_map] at ha
        obtain ⟨_, _, heq⟩ := ha
        injection heq with _ h2
        exact hn.1 (h2 ▸ List.mem_map.2 ⟨e, he, rfl⟩)
      rw [h1, List.nil_append]
      exact ih hn.2 hs.2 e he

theorem length_insertSorted (a : Nat) (l : List Nat) : (insertSorted a l).length = l.length + 1 := by
  induction l with
  | nil => rfl
  | cons b t ih =>
    simp only [insertSorted]
    split_ifs <;> simp [ih]

theorem length_sortNat (l : List Nat) : (sortNat l).length = l.length := by
  induction l with
  | nil => rfl
  | cons a t ih => simp [sortNat, length_insertSorted] at ih ⊢; exact ih

/-- what `peerInfosAllowed` guarantees about the list handed to `SavePeerstore` -/
theorem allowed_facts (i : PSInput) (P : List (Nat × List Nat)) (hpeers : i.peers.Nodup)
    (h : peerInfosAllowed i P = true) :
    (P.map (·.1)).Nodup ∧ (∀ e ∈ P, e.2 ≠ []) ∧ i.self ∉ P.map (·.1) ∧ (∀ p ∈ P.map (·.1), p ∈ i.peers) ∧
    sortedByPrio i.known (P.map (·.1)) = true := by
  unfold peerInfosAllowed at h
  simp only [Bool.and_eq_true] at h
  obtain ⟨⟨hperm, hsorted⟩, haddrs⟩ := h
  have hp : (P.map (·.1)).Perm (listed i) := List.isPerm_iff.1 hperm
  have hlisted : ∀ p, p ∈ listed i ↔ p ∈ i.peers ∧ p ≠ i.self ∧ addrsOf i.known p ≠ [] := by
    intro p
    unfold listed
    simp only [List.mem_filter, Bool.and_eq_true, bne_iff_ne, Bool.not_eq_true', ne_eq]
    constructor
    · rintro ⟨h1, h2, h3⟩
      refine ⟨h1, h2, ?_⟩
      intro hnil; rw [hnil] at h3; simp at h3
    · rintro ⟨h1, h2, h3⟩
      refine ⟨h1, h2, ?_⟩
      cases h : addrsOf i.known p with
      | nil => exact absurd h h3
      | cons _ _ => rfl
  refine ⟨?_, ?_, ?_, ?_, hsorted⟩
  · rw [hp.nodup_iff]; exact List.Nodup.filter _ hpeers
  · intro e he
    have hmem : e.1 ∈ listed i := hp.mem_iff.1 (List.mem_map.2 ⟨e, he, rfl⟩)
    have hne := ((hlisted e.1).1 hmem).2.2
    rw [List.all_eq_true] at haddrs
    have ha := haddrs e he
    unfold addrsAllowed at ha
    simp only at ha
    split_ifs at ha with hd
    · have : e.2 = sortNat (addrsOf i.known e.1) := by simpa using ha
      intro hnil
      have hl := length_sortNat (addrsOf i.known e.1)
      rw [← this, hnil] at hl
      exact hne (List.length_eq_zero_iff.1 hl.symm)
    · have hperm2 : e.2.Perm ((addrsOf i.known e.1).filter isDns) := List.isPerm_iff.1 ha
      intro hnil
      rw [hnil] at hperm2
      have := hperm2.length_eq
      simp only [List.length_nil] at this
      have hz := List.length_eq_zero_iff.1 this.symm
      rw [hz] at hd
      exact hd rfl
  · intro hmem
    exact ((hlisted i.self).1 (hp.mem_iff.1 hmem)).2.1 rfl
  · intro p hpm
    exact ((hlisted p).1 (hp.mem_iff.1 hpm)).1

theorem nodupCids_iff (l : List Pin) : nodupCids l = true ↔ (l.map (·.cid)).Nodup := by
  induction l with
  | nil => simp [nodupCids]
  | cons p t ih =>
    simp only [nodupCids, Bool.and_eq_true, Bool.not_eq_true', ih, List.map_cons, List.nodup_cons, List.mem_map, not_exists, not_and]
    constructor
    · rintro ⟨h1, h2⟩
      refine ⟨?_, h2⟩
      intro q hq hc
      rw [Bool.eq_false_iff] at h1
      apply h1
      rw [List.any_eq_true]
      exact ⟨q, hq, by simpa using hc⟩
    · rintro ⟨h1, h2⟩
      refine ⟨?_, h2⟩
      rw [Bool.eq_false_iff]
      intro hany
      rw [List.any_eq_true] at hany
      obtain ⟨q, hq, hc⟩ := hany
      exact h1 q hq (by simpa using hc)

/-! ### file shapes -/

theorem loadShaped_eq_validLines (sh : FileShape) (file : List FLine) : loadShaped sh file = validLines sh file := by
  unfold loadShaped
  cases file with
  | nil => cases sh.bom <;> rfl
  | cons fl t =>
    cases hb : sh.bom
    · simp only [Bool.false_eq_true, if_false, validLines, hb, Bool.not_false, Bool.and_true, List.filter_cons]
      by_cases hp : fl.parses = true
      · have : (fl.l.loads && decide (fl.cr ≤ 1)) = true := hp
        simp only [hp, this, if_true, List.map_cons, List.singleton_append]
        rfl
      · have : ¬ (fl.l.loads && decide (fl.cr ≤ 1)) = true := hp
        simp only [hp, this, Bool.false_eq_true, if_false, List.nil_append]
        rfl
    · simp only [if_true, List.drop_succ_cons, List.drop_zero, validLines, hb, Bool.not_true, Bool.and_false,
        Bool.false_eq_true, if_false, List.nil_append]
      rfl

theorem validLines_plain (file : List Line) :
    validLines { finalNewline := true, bom := false } (file.map (fun l => (⟨l, 0⟩ : FLine))) = file.filter Line.loads := by
  cases file with
  | nil => rfl
  | cons x t =>
    simp only [List.map_cons, validLines, Bool.not_false, Bool.and_true, Nat.zero_le, decide_true, List.filter_cons]
    have ht : ((t.map (fun l => (⟨l, 0⟩ : FLine))).filter (fun x => x.l.loads && decide (x.cr ≤ 1))).map (·.l) = t.filter Line.loads := by
      induction t with
      | nil => rfl
      | cons y t' ih => cases hy : y.loads <;> simp_all [List.filter_cons]
    rw [ht]
    cases hx : x.loads <;> simp

end CV.C14
