import ClusterVerif.Spec.C14

/-! Helper lemmas for Props/C14. -/
namespace CV.C14

end CV.C14
