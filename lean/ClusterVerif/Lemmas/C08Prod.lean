import ClusterVerif.Model.C08Prod
import ClusterVerif.Gen.C08Prod

/-!
C08 — the producer value space: theorems over the table of construction sites that
`harness/extract_c08prod` regenerates from the repository (`Gen/C08Prod.lean`).

Together they say: every site of the non-test code that builds or mutates a wire record is of a recognised
shape, and none of them sets a field combination that the codec theorems of `Props/C08.lean` exclude
(`proto_property_partial` needs `mode = ToPinMode(depth)` and a reference that is not `&cid.Undef`;
`wfProto` needs a PinType constant).
-/
namespace CV.C08.Prod
open CV.C08.Gen.Prod

/-- the facts the translator re-established from the source on this run -/
def facts : Facts :=
  { pinCidDepthMinus1 := pinCidDepthMinus1, pinWithOptsDerivesDepth := pinWithOptsDerivesDepth,
    shardingForcesRecursive := shardingForcesRecursive, shardOptionsFromDagService := shardOptionsFromDagService,
    recordTypesDeclared := recordTypesDeclared, filesRead := filesRead }

/-- every construction site has one of the shapes the translator understands (no unkeyed literal, no conversion,
    no type derived from a record); the allow-list is empty -/
theorem producers_recognised : noUnrecognised sites unrecognisedAllowed = true := by decide

/-- `PinCid` and `PinWithOpts` are what the abstract evaluation assumes, and every site that builds a Pin ends,
    on every path, with a mode and a depth that agree; a zero Pin gets no mode, depth, type or reference -/
theorem producers_mode_depth_agree :
    facts.constructors = true ∧ (sites.all (modeDepthOK facts.recursive)) = true := by decide

/-- no site sets `Reference` to `&cid.Undef`, to the address of a variable that is still the zero Cid, or to an
    address that is neither guarded by `x.Defined()` nor on `referenceKnownDefined` -/
theorem producers_reference_defined : (sites.all referenceOK) = true := by decide

/-- a site that builds a Pin sets `Type` to DataType, MetaType, ClusterDAGType or ShardType only -/
theorem producers_type_const : (sites.all typeOK) = true := by decide

/-- assignments to Mode / MaxDepth / Type / Reference / PinOptions of values built elsewhere happen only on
    PinOptions, PinPath, AddParams (Mode, PinOptions) or inside the functions of `fieldAssignAllowed` -/
theorem producers_field_assign_allowed : (sites.all fieldAssignOK) = true := by decide

/-- the table has the producers it must have and a site for each record type; the translator read the tree -/
theorem producers_coverage : facts.read = true ∧ coverage sites = true := by decide

theorem producers_ok : allOK facts sites = true := by decide

/-! ## the predicates are not vacuous -/

private def fs (name : String) (key : FieldKey) (val : Val) (cond : Bool := false) (guard : String := "") : FieldSet :=
  { name := name, key := key, val := val, conditional := cond, afterConstruction := true, guard := guard, line := 0 }

private def pinSite (file func : String) (shape : Shape) (fields : List FieldSet) : Site :=
  { file := file, func := func, line := 0, record := "Pin", recK := .pin, shape := shape, reason := "", fields := fields }

/-- the cluster-DAG pin as dag_service.go built it before ad1b1c6 (finding K13): `PinWithOpts`, then
    `MaxDepth = 0` without `Mode = api.PinModeDirect` -/
example : modeDepthOK true (pinSite "adder/sharding/dag_service.go" "DAGService.Finalize" .pinWithOpts
    [fs "MaxDepth" .maxDepth (.intLit 0)]) = false := by decide

/-- … and as it is built now -/
example : modeDepthOK true (pinSite "adder/sharding/dag_service.go" "DAGService.Finalize" .pinWithOpts
    [fs "MaxDepth" .maxDepth (.intLit 0), fs "Mode" .mode (.modeConst 1)]) = true := by decide

/-- the fix applied only under a condition is not enough -/
example : modeDepthOK true (pinSite "adder/sharding/dag_service.go" "DAGService.Finalize" .pinWithOpts
    [fs "MaxDepth" .maxDepth (.intLit 0), fs "Mode" .mode (.modeConst 1) true "x"]) = false := by decide

/-- a shard pin's `MaxDepth = 1` is accepted in shard.Flush only with the evidence that sharding forces recursive
    options, and nowhere else -/
example : modeDepthOK false (pinSite "adder/sharding/shard.go" "shard.Flush" .pinWithOpts
    [fs "MaxDepth" .maxDepth (.intLit 1)]) = false ∧
  modeDepthOK true (pinSite "cluster.go" "Cluster.Pin" .pinWithOpts [fs "MaxDepth" .maxDepth (.intLit 1)]) = false ∧
  modeDepthOK true (pinSite "adder/sharding/shard.go" "shard.Flush" .pinWithOpts
    [fs "MaxDepth" .maxDepth (.intLit 1)]) = true := by decide

/-- a keyed Pin literal that leaves MaxDepth out has Go's zero values: recursive with depth 0 -/
example : modeDepthOK true (pinSite "x.go" "f" .literal
    [{ fs "Cid" .cid (.other "c") with afterConstruction := false }]) = false := by decide

/-- a zero Pin whose depth is set afterwards -/
example : modeDepthOK true (pinSite "x.go" "f" .zero [fs "MaxDepth" .maxDepth (.intLit (-1))]) = false := by decide

/-- the first shard's pin as shard.go built it before 9d8b946 (finding K38): `Reference = &prev` with
    `prev` = cid.Undef -/
example : referenceOK (pinSite "adder/sharding/shard.go" "shard.Flush" .pinWithOpts
    [fs "Reference" .reference .addrOfCidUndef]) = false := by decide

/-- `&prev` without the `prev.Defined()` guard, and under its negation -/
example : referenceOK (pinSite "adder/sharding/shard.go" "shard.Flush" .pinWithOpts
    [fs "Reference" .reference (.addrOf "prev")]) = false ∧
  referenceOK (pinSite "adder/sharding/shard.go" "shard.Flush" .pinWithOpts
    [fs "Reference" .reference (.addrOf "prev") true "!(prev.Defined())"]) = false ∧
  referenceOK (pinSite "adder/sharding/shard.go" "shard.Flush" .pinWithOpts
    [fs "Reference" .reference (.addrOf "prev") true "shardN > 0 && prev.Defined()"]) = true := by decide

/-- BadType, AllType and computed types are refused -/
example : typeOK (pinSite "x.go" "f" .pinCid [fs "Type" .type (.typeConst 1)]) = false ∧
  typeOK (pinSite "x.go" "f" .pinCid [fs "Type" .type (.typeConst 30)]) = false ∧
  typeOK (pinSite "x.go" "f" .pinCid [fs "Type" .type (.other "t")]) = false := by decide

/-- a depth assigned to a pin received as a parameter, outside the allowed functions -/
example : fieldAssignOK (pinSite "x.go" "f" .fieldAssign [fs "MaxDepth" .maxDepth (.intLit 0)]) = false := by decide

example : recognised unrecognisedAllowed (pinSite "x.go" "f" .unrecognised []) = false := by decide

example : coverage [] = false := by decide

end CV.C08.Prod
