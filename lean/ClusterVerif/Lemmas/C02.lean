import ClusterVerif.Spec.C02
import Mathlib.Data.List.Basic
import Mathlib.Tactic.SplitIfs
import Mathlib.Tactic.ByContra
import Mathlib.Tactic.Cases

/-! Helper lemmas for C02 (property theorems are in `Props/C02.lean`). -/
namespace CV.C02

/-! ### the set: basic facts -/

@[simp] theorem putTombs_tombs (r : Rep) (ts) : (r.putTombs ts).1.tombs = ts ++ r.tombs := rfl
@[simp] theorem putTombs_elems (r : Rep) (ts) : (r.putTombs ts).1.elems = r.elems := rfl
@[simp] theorem putTombs_vals (r : Rep) (ts) : (r.putTombs ts).1.vals = r.vals := rfl
@[simp] theorem putElems_tombs (r : Rep) (id p es) : (r.putElems id p es).1.tombs = r.tombs := rfl
@[simp] theorem putElems_elems (r : Rep) (id p es) :
    (r.putElems id p es).1.elems = es.map (fun e => (e.1, id)) ++ r.elems := rfl
@[simp] theorem putElems_vals (r : Rep) (id p es) :
    (r.putElems id p es).1.vals = (es.filter (r.wins id p)).foldl (fun vs e => (e.1, (p, e.2)) :: vs) r.vals := rfl
@[simp] theorem putElems_hooks (r : Rep) (id p es) :
    (r.putElems id p es).2 = (es.filter (r.wins id p)).map (fun e => Hook.put e.1 e.2) := rfl

theorem tombed_iff (r : Rep) (k : Key) (id : Id) : r.tombed k id = true ↔ (k, id) ∈ r.tombs := by
  simp [Rep.tombed]

theorem alive_iff (r : Rep) (k : Key) : r.alive k = true ↔ ∃ id, (k, id) ∈ r.elems ∧ (k, id) ∉ r.tombs := by
  simp only [Rep.alive, List.any_eq_true, Bool.and_eq_true, beq_iff_eq, Bool.not_eq_true', Prod.exists]
  constructor
  · rintro ⟨k', id, hm, rfl, ht⟩
    refine ⟨id, hm, ?_⟩
    intro hc
    have := (tombed_iff r k' id).2 hc
    rw [this] at ht; cases ht
  · rintro ⟨id, hm, ht⟩
    refine ⟨k, id, hm, rfl, ?_⟩
    cases h : r.tombed k id with
    | false => rfl
    | true => exact absurd ((tombed_iff r k id).1 h) ht

/-- the value the last winning write of key `k` leaves -/
def lastWin : List (Key × Val) → Key → Option Val
  | [], _ => none
  | e :: t, k => match lastWin t k with
    | some v => some v
    | none => if e.1 = k then some e.2 else none

theorem lookup_foldl_cons (p : Nat) (ws : List (Key × Val)) (vs : List (Key × (Nat × Val))) (k : Key) :
    (ws.foldl (fun vs e => (e.1, (p, e.2)) :: vs) vs).lookup k =
      match lastWin ws k with
      | some v => some (p, v)
      | none => vs.lookup k := by
  induction ws generalizing vs with
  | nil => simp [lastWin]
  | cons e t ih =>
    rw [List.foldl_cons, ih]
    simp only [lastWin]
    cases h : lastWin t k with
    | some v => rfl
    | none =>
      simp only [List.lookup_cons]
      by_cases hk : e.1 = k
      · subst hk; simp
      · have : (k == e.1) = false := by simpa using fun h => hk h.symm
        simp [this, hk]

theorem lastWin_mem {ws : List (Key × Val)} {k : Key} {v : Val} (h : lastWin ws k = some v) : (k, v) ∈ ws := by
  induction ws with
  | nil => simp [lastWin] at h
  | cons e t ih =>
    simp only [lastWin] at h
    cases ht : lastWin t k with
    | some w => rw [ht] at h; cases h; exact List.mem_cons_of_mem _ (ih ht)
    | none =>
      rw [ht] at h
      split_ifs at h with hk
      cases h; subst hk
      exact List.mem_cons_self

theorem lastWin_none_iff {ws : List (Key × Val)} {k : Key} : lastWin ws k = none ↔ ∀ e ∈ ws, e.1 ≠ k := by
  induction ws with
  | nil => simp [lastWin]
  | cons e t ih =>
    simp only [lastWin, List.mem_cons, forall_eq_or_imp]
    cases ht : lastWin t k with
    | some w =>
      simp only [reduceCtorEq, false_iff, not_and]
      intro _ hall
      have := ih.2 hall
      rw [ht] at this; cases this
    | none =>
      have := ih.1 ht
      by_cases hk : e.1 = k
      · simp [hk]
      · simp only [hk, if_false, true_iff, ne_eq, not_false_eq_true, true_and]
        exact this

theorem lastWin_of_nodup {ws : List (Key × Val)} (hn : (ws.map (·.1)).Nodup) {k : Key} {v : Val}
    (h : (k, v) ∈ ws) : lastWin ws k = some v := by
  induction ws with
  | nil => cases h
  | cons e t ih =>
    simp only [List.map_cons, List.nodup_cons, List.mem_map, not_exists, not_and] at hn
    simp only [lastWin]
    rcases List.mem_cons.1 h with rfl | ht
    · have : lastWin t k = none := lastWin_none_iff.2 (fun e he hk => hn.1 e he hk)
      simp [this]
    · rw [ih hn.2 ht]

theorem prioVal_putElems (r : Rep) (id p es) (k : Key) :
    (r.putElems id p es).1.prioVal k =
      match lastWin (es.filter (r.wins id p)) k with
      | some v => (p, v)
      | none => r.prioVal k := by
  simp only [Rep.prioVal, putElems_vals, lookup_foldl_cons]
  cases lastWin (es.filter (r.wins id p)) k <;> rfl

theorem lookup_putElems_isSome (r : Rep) (id p es) (k : Key) :
    ((r.putElems id p es).1.vals.lookup k).isSome =
      ((lastWin (es.filter (r.wins id p)) k).isSome || (r.vals.lookup k).isSome) := by
  simp only [putElems_vals, lookup_foldl_cons]
  cases lastWin (es.filter (r.wins id p)) k <;> simp

/-! ### lexicographic order on (priority, value) -/
def lexLt (a b : Nat × Nat) : Prop := a.1 < b.1 ∨ (a.1 = b.1 ∧ a.2 < b.2)
def lexLe (a b : Nat × Nat) : Prop := a.1 < b.1 ∨ (a.1 = b.1 ∧ a.2 ≤ b.2)

theorem lexLe_refl (a : Nat × Nat) : lexLe a a := Or.inr ⟨rfl, Nat.le_refl _⟩
theorem lexLe_trans {a b c : Nat × Nat} (h1 : lexLe a b) (h2 : lexLe b c) : lexLe a c := by
  unfold lexLe at *; omega
theorem lexLe_antisymm {a b : Nat × Nat} (h1 : lexLe a b) (h2 : lexLe b a) : a = b := by
  unfold lexLe at *
  have : a.1 = b.1 ∧ a.2 = b.2 := by omega
  exact Prod.ext this.1 this.2
theorem lexLe_of_lexLt {a b : Nat × Nat} (h : lexLt a b) : lexLe a b := by
  unfold lexLt at h; unfold lexLe; omega
theorem lexLe_of_not_lexLt {a b : Nat × Nat} (h : ¬ lexLt a b) : lexLe b a := by
  unfold lexLt at h; unfold lexLe; omega

theorem wins_iff (r : Rep) (id : Id) (p : Nat) (e : Key × Val) :
    r.wins id p e = true ↔ (e.1, id) ∉ r.tombs ∧ lexLt (r.prioVal e.1) (p, e.2) := by
  simp only [Rep.wins, Bool.and_eq_true, Bool.not_eq_true', Bool.or_eq_true, decide_eq_true_eq, beq_iff_eq, lexLt]
  constructor
  · rintro ⟨ht, h⟩
    refine ⟨?_, h⟩
    intro hc
    rw [(tombed_iff r e.1 id).2 hc] at ht; cases ht
  · rintro ⟨ht, h⟩
    refine ⟨?_, h⟩
    cases hb : r.tombed e.1 id with
    | false => rfl
    | true => exact absurd ((tombed_iff r e.1 id).1 hb) ht

/-- the stored (priority, value) of a key never decreases -/
theorem prioVal_mono_putElems (r : Rep) (id p es) (k : Key) :
    lexLe (r.prioVal k) ((r.putElems id p es).1.prioVal k) := by
  rw [prioVal_putElems]
  cases h : lastWin (es.filter (r.wins id p)) k with
  | none => exact lexLe_refl _
  | some v =>
    have hm := lastWin_mem h
    have hw := (List.mem_filter.1 hm).2
    exact lexLe_of_lexLt ((wins_iff r id p (k, v)).1 hw).2

theorem prioVal_mono_applyPh (r : Rep) (ph : Ph) (k : Key) : lexLe (r.prioVal k) ((r.applyPh ph).prioVal k) := by
  cases ph with
  | T d => exact lexLe_refl _
  | E d => exact prioVal_mono_putElems r d.id d.prio d.elems k

theorem runPh_cons (ph : Ph) (l : List Ph) (r : Rep) : runPh (ph :: l) r = runPh l (r.applyPh ph) := rfl
theorem runPh_nil (r : Rep) : runPh [] r = r := rfl

theorem prioVal_mono_runPh (l : List Ph) (r : Rep) (k : Key) : lexLe (r.prioVal k) ((runPh l r).prioVal k) := by
  induction l generalizing r with
  | nil => exact lexLe_refl _
  | cons ph t ih => rw [runPh_cons]; exact lexLe_trans (prioVal_mono_applyPh r ph k) (ih _)

/-! ### what a schedule leaves in the element and tombstone sets -/

theorem applyPh_elems_mem (r : Rep) (ph : Ph) (e : Key × Id) :
    e ∈ (r.applyPh ph).elems ↔ e ∈ r.elems ∨ ∃ d, ph = .E d ∧ e.2 = d.id ∧ ∃ v, (e.1, v) ∈ d.elems := by
  cases ph with
  | T d => simp [Rep.applyPh]
  | E d =>
    simp only [Rep.applyPh, putElems_elems, List.mem_append, List.mem_map, Prod.exists, Ph.E.injEq, exists_eq_left']
    constructor
    · rintro (⟨a, b, hm, rfl⟩ | h)
      · exact Or.inr ⟨rfl, b, hm⟩
      · exact Or.inl h
    · rintro (h | ⟨hid, v, hm⟩)
      · exact Or.inr h
      · refine Or.inl ⟨e.1, v, hm, ?_⟩
        exact Prod.ext rfl hid.symm

theorem applyPh_tombs_mem (r : Rep) (ph : Ph) (t : Key × Id) :
    t ∈ (r.applyPh ph).tombs ↔ t ∈ r.tombs ∨ ∃ d, ph = .T d ∧ t ∈ d.tombs := by
  cases ph with
  | T d => simp only [Rep.applyPh, putTombs_tombs, List.mem_append, Ph.T.injEq, exists_eq_left']; tauto
  | E d => simp [Rep.applyPh]

theorem runPh_elems_mem (l : List Ph) (r : Rep) (e : Key × Id) :
    e ∈ (runPh l r).elems ↔ e ∈ r.elems ∨ ∃ d, Ph.E d ∈ l ∧ e.2 = d.id ∧ ∃ v, (e.1, v) ∈ d.elems := by
  induction l generalizing r with
  | nil => simp [runPh_nil]
  | cons ph t ih =>
    rw [runPh_cons, ih, applyPh_elems_mem]
    constructor
    · rintro ((h | ⟨d, rfl, h⟩) | ⟨d, hd, h⟩)
      · exact Or.inl h
      · exact Or.inr ⟨d, List.mem_cons_self, h⟩
      · exact Or.inr ⟨d, List.mem_cons_of_mem _ hd, h⟩
    · rintro (h | ⟨d, hd, h⟩)
      · exact Or.inl (Or.inl h)
      · rcases List.mem_cons.1 hd with rfl | hd
        · exact Or.inl (Or.inr ⟨d, rfl, h⟩)
        · exact Or.inr ⟨d, hd, h⟩

theorem runPh_tombs_mem (l : List Ph) (r : Rep) (t : Key × Id) :
    t ∈ (runPh l r).tombs ↔ t ∈ r.tombs ∨ ∃ d, Ph.T d ∈ l ∧ t ∈ d.tombs := by
  induction l generalizing r with
  | nil => simp [runPh_nil]
  | cons ph tl ih =>
    rw [runPh_cons, ih, applyPh_tombs_mem]
    constructor
    · rintro ((h | ⟨d, rfl, h⟩) | ⟨d, hd, h⟩)
      · exact Or.inl h
      · exact Or.inr ⟨d, List.mem_cons_self, h⟩
      · exact Or.inr ⟨d, List.mem_cons_of_mem _ hd, h⟩
    · rintro (h | ⟨d, hd, h⟩)
      · exact Or.inl (Or.inl h)
      · rcases List.mem_cons.1 hd with rfl | hd
        · exact Or.inl (Or.inr ⟨d, rfl, h⟩)
        · exact Or.inr ⟨d, hd, h⟩

/-! ### a key with a live element has a stored value -/

def HV (r : Rep) : Prop := ∀ k, r.alive k = true → (r.vals.lookup k).isSome = true

theorem HV_empty : HV {} := by
  intro k h
  simp [Rep.alive] at h

theorem HV_applyPh (r : Rep) (ph : Ph) (h : HV r) (hp : ∀ d, ph = .E d → 1 ≤ d.prio) : HV (r.applyPh ph) := by
  intro k hk
  rw [alive_iff] at hk
  obtain ⟨id, hm, ht⟩ := hk
  cases ph with
  | T d =>
    simp only [Rep.applyPh, putTombs_elems, putTombs_tombs, List.mem_append, not_or, putTombs_vals] at hm ht ⊢
    exact h k ((alive_iff r k).2 ⟨id, hm, ht.2⟩)
  | E d =>
    have hp := hp d rfl
    simp only [Rep.applyPh, putElems_tombs] at ht
    simp only [Rep.applyPh]
    rw [lookup_putElems_isSome]
    simp only [Rep.applyPh, putElems_elems, List.mem_append, List.mem_map, Prod.exists] at hm
    rcases hm with ⟨a, v, hmem, heq⟩ | hm
    · cases heq
      by_cases hw : r.wins d.id d.prio (k, v) = true
      · have : lastWin (d.elems.filter (r.wins d.id d.prio)) k ≠ none := by
          intro hn
          exact lastWin_none_iff.1 hn (k, v) (List.mem_filter.2 ⟨hmem, hw⟩) rfl
        cases hl : lastWin (d.elems.filter (r.wins d.id d.prio)) k with
        | none => exact absurd hl this
        | some _ => rfl
      · have hnl : ¬ lexLt (r.prioVal k) (d.prio, v) := fun hl => hw ((wins_iff r d.id d.prio (k, v)).2 ⟨ht, hl⟩)
        cases hv : r.vals.lookup k with
        | some _ => simp
        | none =>
          exfalso
          apply hnl
          simp only [Rep.prioVal, hv, Option.getD_none, lexLt]
          omega
    · rw [h k ((alive_iff r k).2 ⟨id, hm, ht⟩)]; simp

theorem HV_runPh (l : List Ph) (r : Rep) (h : HV r) (hp : ∀ d, Ph.E d ∈ l → 1 ≤ d.prio) : HV (runPh l r) := by
  induction l generalizing r with
  | nil => exact h
  | cons ph t ih =>
    rw [runPh_cons]
    apply ih
    · exact HV_applyPh r ph h (fun d hd => hp d (hd ▸ List.mem_cons_self))
    · exact fun d hd => hp d (List.mem_cons_of_mem _ hd)

theorem member_eq_alive_of_HV {r : Rep} (h : HV r) (k : Key) : r.member k = r.alive k := by
  unfold Rep.member
  cases ha : r.alive k with
  | false => simp
  | true => simp [h k ha]

/-- membership after a schedule, as a statement about the set of its events -/
def memberP (l : List Ph) (k : Key) : Prop :=
  ∃ d, Ph.E d ∈ l ∧ (∃ v, (k, v) ∈ d.elems) ∧ ∀ d', Ph.T d' ∈ l → (k, d.id) ∉ d'.tombs

theorem alive_runPh_empty (l : List Ph) (k : Key) : (runPh l {}).alive k = true ↔ memberP l k := by
  rw [alive_iff]
  constructor
  · rintro ⟨id, hm, ht⟩
    rw [runPh_elems_mem] at hm
    rcases hm with hm | ⟨d, hd, hid, hv⟩
    · cases hm
    · simp only at hid
      subst hid
      refine ⟨d, hd, hv, ?_⟩
      intro d' hd' hc
      exact ht ((runPh_tombs_mem l {} (k, d.id)).2 (Or.inr ⟨d', hd', hc⟩))
  · rintro ⟨d, hd, hv, hnt⟩
    refine ⟨d.id, (runPh_elems_mem l {} (k, d.id)).2 (Or.inr ⟨d, hd, rfl, hv⟩), ?_⟩
    intro hc
    rw [runPh_tombs_mem] at hc
    rcases hc with hc | ⟨d', hd', hc⟩
    · cases hc
    · exact hnt d' hd' hc

theorem memberP_congr {l1 l2 : List Ph} (h : ∀ ph, ph ∈ l1 ↔ ph ∈ l2) (k : Key) : memberP l1 k ↔ memberP l2 k := by
  unfold memberP
  constructor
  · rintro ⟨d, hd, hv, hn⟩
    exact ⟨d, (h _).1 hd, hv, fun d' hd' => hn d' ((h _).2 hd')⟩
  · rintro ⟨d, hd, hv, hn⟩
    exact ⟨d, (h _).2 hd, hv, fun d' hd' => hn d' ((h _).1 hd')⟩

/-! ### bounds on the stored (priority, value) -/

/-- the stored pair of a key is `(0,0)` or comes from an element of some processed delta -/
def FromElems (U : Delta → Prop) (r : Rep) : Prop :=
  ∀ k, r.prioVal k = (0, 0) ∨ ∃ d, U d ∧ (k, (r.prioVal k).2) ∈ d.elems ∧ d.prio = (r.prioVal k).1

theorem FromElems_applyPh (U : Delta → Prop) (r : Rep) (ph : Ph) (hU : ∀ d, ph = .E d → U d)
    (h : FromElems U r) : FromElems U (r.applyPh ph) := by
  intro k
  cases ph with
  | T d => exact h k
  | E d =>
    simp only [Rep.applyPh]
    rw [prioVal_putElems]
    cases hl : lastWin (d.elems.filter (r.wins d.id d.prio)) k with
    | none => exact h k
    | some v =>
      right
      exact ⟨d, hU d rfl, (List.mem_filter.1 (lastWin_mem hl)).1, rfl⟩

theorem FromElems_runPh (U : Delta → Prop) (l : List Ph) (r : Rep) (hU : ∀ d, Ph.E d ∈ l → U d)
    (h : FromElems U r) : FromElems U (runPh l r) := by
  induction l generalizing r with
  | nil => exact h
  | cons ph t ih =>
    rw [runPh_cons]
    apply ih
    · exact fun d hd => hU d (List.mem_cons_of_mem _ hd)
    · exact FromElems_applyPh U r ph (fun d hd => hU d (hd ▸ List.mem_cons_self)) h

theorem FromElems_empty (U : Delta → Prop) : FromElems U {} := fun _ => Or.inl rfl

def nodupKeys (d : Delta) : Prop := (d.elems.map (·.1)).Nodup

instance (d : Delta) : Decidable (nodupKeys d) := by unfold nodupKeys; infer_instance

theorem eq_of_nodup_keys {l : List (Key × Val)} (hn : (l.map (·.1)).Nodup) {a b : Key × Val}
    (ha : a ∈ l) (hb : b ∈ l) (h : a.1 = b.1) : a = b := by
  induction l with
  | nil => cases ha
  | cons x t ih =>
    simp only [List.map_cons, List.nodup_cons, List.mem_map, not_exists, not_and] at hn
    rcases List.mem_cons.1 ha with rfl | ha' <;> rcases List.mem_cons.1 hb with rfl | hb'
    · rfl
    · exact absurd h.symm (hn.1 b hb')
    · exact absurd h (hn.1 a ha')
    · exact ih hn.2 ha' hb'

/-- processing the elements of a delta that puts each key once: an element that is not
    tombstoned at that moment is dominated by what is stored afterwards -/
theorem lower_step (r : Rep) (d : Delta) (hn : nodupKeys d) (k : Key) (v : Val) (hm : (k, v) ∈ d.elems)
    (ht : (k, d.id) ∉ r.tombs) : lexLe (d.prio, v) ((r.applyPh (.E d)).prioVal k) := by
  simp only [Rep.applyPh]
  rw [prioVal_putElems]
  have hnw : ((d.elems.filter (r.wins d.id d.prio)).map (·.1)).Nodup :=
    List.Nodup.sublist (List.Sublist.map _ List.filter_sublist) hn
  by_cases hw : r.wins d.id d.prio (k, v) = true
  · rw [lastWin_of_nodup hnw (List.mem_filter.2 ⟨hm, hw⟩)]
    exact lexLe_refl _
  · have hnone : lastWin (d.elems.filter (r.wins d.id d.prio)) k = none := by
      rw [lastWin_none_iff]
      intro e he hk
      have hem := (List.mem_filter.1 he).1
      -- e and (k,v) have the same key in a list with distinct keys
      have : e = (k, v) := by
        exact eq_of_nodup_keys hn hem hm hk
      rw [this] at he
      exact hw (List.mem_filter.1 he).2
    rw [hnone]
    exact lexLe_of_not_lexLt (fun hl => hw ((wins_iff r d.id d.prio (k, v)).2 ⟨ht, hl⟩))

/-- lower bound: every element of a processed delta that is never tombstoned is dominated by
    the stored pair at the end -/
theorem lower_runPh (NT : Key → Id → Prop) (l : List Ph) (r : Rep)
    (hr : ∀ k id, NT k id → (k, id) ∉ r.tombs)
    (hT : ∀ d', Ph.T d' ∈ l → ∀ k id, NT k id → (k, id) ∉ d'.tombs)
    (hn : ∀ d, Ph.E d ∈ l → nodupKeys d)
    (d : Delta) (hd : Ph.E d ∈ l) (k : Key) (v : Val) (hm : (k, v) ∈ d.elems) (hnt : NT k d.id) :
    lexLe (d.prio, v) ((runPh l r).prioVal k) := by
  induction l generalizing r with
  | nil => cases hd
  | cons ph t ih =>
    rw [runPh_cons]
    have hr' : ∀ k id, NT k id → (k, id) ∉ (r.applyPh ph).tombs := by
      intro k id hk hc
      rw [applyPh_tombs_mem] at hc
      rcases hc with hc | ⟨d', rfl, hc⟩
      · exact hr k id hk hc
      · exact hT d' List.mem_cons_self k id hk hc
    rcases List.mem_cons.1 hd with rfl | hd'
    · exact lexLe_trans (lower_step r d (hn d List.mem_cons_self) k v hm (hr k d.id hnt))
        (prioVal_mono_runPh t _ k)
    · exact ih _ hr' (fun d' h => hT d' (List.mem_cons_of_mem _ h)) (fun d h => hn d (List.mem_cons_of_mem _ h)) hd'

/-- hypothesis of DESIGN A.2: whenever a key is in the set, the greatest (priority, value) among
    all the elements ever put for it belongs to an element that is never tombstoned -/
def MaxSurvives (l : List Ph) : Prop :=
  ∀ k, memberP l k → ∃ d v, Ph.E d ∈ l ∧ (k, v) ∈ d.elems ∧ (∀ d', Ph.T d' ∈ l → (k, d.id) ∉ d'.tombs) ∧
    ∀ d'' v'', Ph.E d'' ∈ l → (k, v'') ∈ d''.elems → lexLe (d''.prio, v'') (d.prio, v)

theorem MaxSurvives_congr {l1 l2 : List Ph} (h : ∀ ph, ph ∈ l1 ↔ ph ∈ l2) (hm : MaxSurvives l1) : MaxSurvives l2 := by
  intro k hk
  obtain ⟨d, v, hd, hv, hnt, hmax⟩ := hm k ((memberP_congr h k).2 hk)
  exact ⟨d, v, (h _).1 hd, hv, fun d' hd' => hnt d' ((h _).2 hd'),
    fun d'' v'' hd'' hv'' => hmax d'' v'' ((h _).2 hd'') hv''⟩

/-- under the hypothesis the stored pair of a member key is that greatest pair -/
theorem prioVal_runPh_of_max (l : List Ph) (hn : ∀ d, Ph.E d ∈ l → nodupKeys d) (k : Key) (d : Delta) (v : Val)
    (hd : Ph.E d ∈ l) (hv : (k, v) ∈ d.elems) (hnt : ∀ d', Ph.T d' ∈ l → (k, d.id) ∉ d'.tombs)
    (hmax : ∀ d'' v'', Ph.E d'' ∈ l → (k, v'') ∈ d''.elems → lexLe (d''.prio, v'') (d.prio, v)) :
    (runPh l {}).prioVal k = (d.prio, v) := by
  apply lexLe_antisymm
  · rcases FromElems_runPh (fun d => Ph.E d ∈ l) l {} (fun _ h => h) (FromElems_empty _) k with h0 | ⟨d2, hd2, hm2, hp2⟩
    · rw [h0]; unfold lexLe; omega
    · have := hmax d2 _ hd2 hm2
      rw [hp2] at this
      exact this
  · exact lower_runPh (fun k' id => k' = k ∧ id = d.id) l {}
      (fun _ _ _ hc => by cases hc)
      (fun d' hd' k' id hk hc => by
        obtain ⟨rfl, rfl⟩ := hk
        exact hnt d' hd' hc)
      hn d hd k v hv ⟨rfl, rfl⟩

/-! ### merging deltas one after the other is a schedule -/

theorem runPh_append (a b : List Ph) (r : Rep) : runPh (a ++ b) r = runPh b (runPh a r) := by
  simp [runPh, List.foldl_append]

theorem merge_eq_phases (r : Rep) (d : Delta) : (r.merge d).1 = runPh [.T d, .E d] r := rfl

theorem mergeAll_eq_runPh (l : List Delta) (r : Rep) : mergeAll l r = runPh (phasesOf l) r := by
  induction l generalizing r with
  | nil => rfl
  | cons d t ih =>
    have h1 : mergeAll (d :: t) r = mergeAll t (r.merge d).1 := rfl
    have h2 : phasesOf (d :: t) = [.T d, .E d] ++ phasesOf t := by simp [phasesOf]
    rw [h1, h2, runPh_append, ih, merge_eq_phases]

theorem mem_phasesOf_T (l : List Delta) (d : Delta) : Ph.T d ∈ phasesOf l ↔ d ∈ l := by
  simp [phasesOf]

theorem mem_phasesOf_E (l : List Delta) (d : Delta) : Ph.E d ∈ phasesOf l ↔ d ∈ l := by
  simp [phasesOf]

theorem phasesOf_congr {a b : List Delta} (h : ∀ d, d ∈ a ↔ d ∈ b) (ph : Ph) :
    ph ∈ phasesOf a ↔ ph ∈ phasesOf b := by
  cases ph with
  | T d => rw [mem_phasesOf_T, mem_phasesOf_T]; exact h d
  | E d => rw [mem_phasesOf_E, mem_phasesOf_E]; exact h d

theorem lexLeB_iff (a b : Nat × Nat) : lexLeB a b = true ↔ lexLe a b := by
  simp [lexLeB, lexLe]

theorem neverTombed_iff (l : List Delta) (k : Key) (id : Id) :
    neverTombed l k id = true ↔ ∀ d' ∈ l, (k, id) ∉ d'.tombs := by
  simp [neverTombed]

/-- the decidable reading of (H2) implies the hypothesis of the theorem, for merges of `l` -/
theorem maxSurvivesK_sound (l : List Delta) (h : ∀ k, maxSurvivesK l k = true) : MaxSurvives (phasesOf l) := by
  intro k hk
  obtain ⟨d, hd, ⟨v, hv⟩, hnt⟩ := hk
  rw [mem_phasesOf_E] at hd
  have hk := h k
  simp only [maxSurvivesK, Bool.or_eq_true, Bool.not_eq_true', List.any_eq_false, Bool.and_eq_true,
    List.any_eq_true, beq_iff_eq, List.all_eq_true, bne_iff_ne, ne_eq, lexLeB_iff, neverTombed_iff, not_and,
    Prod.exists, Prod.forall] at hk
  rcases hk with hk | ⟨m, hm, hmnt, a, b, hme, rfl, hmax⟩
  · exfalso
    exact hk d hd ⟨k, v, hv, rfl⟩ (fun d' hd' => hnt d' ((mem_phasesOf_T l d').2 hd'))
  · refine ⟨m, b, (mem_phasesOf_E l m).2 hm, hme, fun d' hd' => hmnt d' ((mem_phasesOf_T l d').1 hd'), ?_⟩
    intro d'' v'' hd'' hv''
    have := hmax d'' ((mem_phasesOf_E l d'').1 hd'') a v'' hv''
    rcases this with h | h
    · exact absurd rfl h
    · exact h

/-! ### hooks of one merge -/

theorem mem_firsts (seen l : List Key) (k : Key) : k ∈ firsts seen l ↔ k ∈ l ∧ k ∉ seen := by
  induction l generalizing seen with
  | nil => simp [firsts]
  | cons a t ih =>
    simp only [firsts]
    split_ifs with hc
    · rw [ih]
      simp only [List.contains_eq_mem, decide_eq_true_eq] at hc
      simp only [List.mem_cons]
      constructor
      · rintro ⟨h1, h2⟩; exact ⟨Or.inr h1, h2⟩
      · rintro ⟨h1 | h1, h2⟩
        · subst h1; exact absurd hc h2
        · exact ⟨h1, h2⟩
    · simp only [List.contains_eq_mem, decide_eq_true_eq] at hc
      simp only [List.mem_cons, ih]
      constructor
      · rintro (rfl | ⟨h1, h2⟩)
        · exact ⟨Or.inl rfl, hc⟩
        · exact ⟨Or.inr h1, fun h => h2 (Or.inr h)⟩
      · rintro ⟨h1 | h1, h2⟩
        · exact Or.inl h1
        · by_cases hka : k = a
          · exact Or.inl hka
          · exact Or.inr ⟨h1, by rintro (h | h); exact hka h; exact h2 h⟩

theorem del_mem_putTombs (r : Rep) (ts : List (Key × Id)) (k : Key) :
    Hook.del k ∈ (r.putTombs ts).2 ↔ ∃ id, (k, id) ∈ ts := by
  simp only [Rep.putTombs, List.mem_map, Hook.del.injEq, exists_eq_right, mem_firsts, List.not_mem_nil,
    not_false_eq_true, and_true, Prod.exists, exists_and_right, exists_eq_right]

theorem put_mem_putElems (r : Rep) (id p es) (k : Key) (v : Val) :
    Hook.put k v ∈ (r.putElems id p es).2 ↔ (k, v) ∈ es.filter (r.wins id p) := by
  simp only [putElems_hooks, List.mem_map, Hook.put.injEq, Prod.exists]
  constructor
  · rintro ⟨a, b, hm, rfl, rfl⟩; exact hm
  · intro h; exact ⟨k, v, h, rfl, rfl⟩

theorem merge_fst (r : Rep) (d : Delta) :
    (r.merge d).1 = ((r.putTombs d.tombs).1.putElems d.id d.prio d.elems).1 := rfl
theorem merge_snd (r : Rep) (d : Delta) :
    (r.merge d).2 = (r.putTombs d.tombs).2 ++ ((r.putTombs d.tombs).1.putElems d.id d.prio d.elems).2 := rfl

theorem prioVal_putTombs (r : Rep) (ts) (k : Key) : (r.putTombs ts).1.prioVal k = r.prioVal k := rfl

/-- the hook that tells the tracker what the pinset now holds for `k` -/
def hookFor (now : Option Val) (k : Key) : Hook :=
  match now with
  | some v => .put k v
  | none => .del k

theorem hooks_cover_or_revival (r : Rep) (d : Delta) (k : Key)
    (hch : r.viewAt k ≠ (r.merge d).1.viewAt k) :
    hookFor ((r.merge d).1.viewAt k) k ∈ (r.merge d).2 ∨
    (r.viewAt k = none ∧ (r.vals.lookup k).isSome = true ∧ (r.merge d).1.viewAt k = some (r.prioVal k).2) := by
  set r1 := (r.putTombs d.tombs).1 with hr1
  have hlook : ((r.merge d).1.vals.lookup k).isSome =
      ((lastWin (d.elems.filter (r1.wins d.id d.prio)) k).isSome || (r.vals.lookup k).isSome) := by
    rw [merge_fst, lookup_putElems_isSome]; rfl
  have hpv : (r.merge d).1.prioVal k = match lastWin (d.elems.filter (r1.wins d.id d.prio)) k with
      | some v => (d.prio, v)
      | none => r.prioVal k := by
    rw [merge_fst, prioVal_putElems]; rfl
  cases hnow : (r.merge d).1.viewAt k with
  | none =>
    left
    rw [hnow] at hch
    simp only [hookFor, merge_snd, List.mem_append]
    left
    rw [del_mem_putTombs]
    -- k was a member, its stored value persists, so its live element got tombstoned by d
    have hmem : r.member k = true := by
      unfold Rep.viewAt at hch
      by_contra hc
      simp [hc] at hch
    simp only [Rep.member, Bool.and_eq_true] at hmem
    obtain ⟨hl, ha⟩ := hmem
    obtain ⟨id, hme, hnt⟩ := (alive_iff r k).1 ha
    have hmem' : (r.merge d).1.member k = false := by
      unfold Rep.viewAt at hnow
      by_contra hc
      simp [hc] at hnow
    have hl' : ((r.merge d).1.vals.lookup k).isSome = true := by rw [hlook, hl]; simp
    have ha' : (r.merge d).1.alive k = false := by
      simp only [Rep.member, hl', Bool.true_and] at hmem'
      exact hmem'
    refine ⟨id, ?_⟩
    by_contra hnd
    have : (r.merge d).1.alive k = true := by
      rw [alive_iff]
      refine ⟨id, ?_, ?_⟩
      · rw [merge_fst]; simp only [putElems_elems, List.mem_append]; right; exact hme
      · rw [merge_fst]; simp only [putElems_tombs, putTombs_tombs, List.mem_append, not_or]; exact ⟨hnd, hnt⟩
    rw [this] at ha'; cases ha'
  | some v' =>
    have hmem' : (r.merge d).1.member k = true := by
      unfold Rep.viewAt at hnow
      by_contra hc
      simp [hc] at hnow
    have hv' : v' = ((r.merge d).1.prioVal k).2 := by
      unfold Rep.viewAt at hnow
      simp only [hmem', if_true, Option.some.injEq] at hnow
      exact hnow.symm
    cases hl : lastWin (d.elems.filter (r1.wins d.id d.prio)) k with
    | some v =>
      left
      rw [hpv, hl] at hv'
      simp only at hv'
      subst hv'
      simp only [hookFor, merge_snd, List.mem_append]
      right
      rw [put_mem_putElems]
      exact lastWin_mem hl
    | none =>
      right
      rw [hpv, hl] at hv'
      simp only at hv'
      have hlk : (r.vals.lookup k).isSome = true := by
        have := hmem'
        simp only [Rep.member, Bool.and_eq_true] at this
        rw [hlook, hl] at this
        simpa using this.1
      refine ⟨?_, hlk, by rw [hv']⟩
      rw [hnow] at hch
      unfold Rep.viewAt at hch ⊢
      split_ifs with hm
      · exfalso; apply hch; simp [hm, hv']
      · rfl

/-! ### publishing a pending delta on the local replica -/

/-- the pinset entry of `k` once the pending delta is published as node `id` at priority `prio` -/
def viewAfter (r : Rep) (p : Pend) (id : Id) (prio : Nat) (k : Key) : Option Val :=
  (r.merge { id := id, prio := prio, elems := p.elems, tombs := p.tombs }).1.viewAt k

/-- some element of `k` survives the tombstones `ts` -/
def aliveWith (r : Rep) (ts : List (Key × Id)) (k : Key) : Prop :=
  ∃ id, (k, id) ∈ r.elems ∧ (k, id) ∉ ts ∧ (k, id) ∉ r.tombs

def aliveWithB (r : Rep) (ts : List (Key × Id)) (k : Key) : Bool :=
  r.elems.any (fun e => e.1 == k && !ts.contains e && !r.tombs.contains e)

theorem aliveWithB_iff (r : Rep) (ts : List (Key × Id)) (k : Key) : aliveWithB r ts k = true ↔ aliveWith r ts k := by
  simp only [aliveWithB, aliveWith, List.any_eq_true, Bool.and_eq_true, beq_iff_eq, Bool.not_eq_true',
    List.contains_eq_mem, decide_eq_false_iff_not, Prod.exists]
  constructor
  · rintro ⟨a, id, hm, ⟨rfl, h2⟩, h3⟩; exact ⟨id, hm, h2, h3⟩
  · rintro ⟨id, hm, h2, h3⟩; exact ⟨k, id, hm, ⟨rfl, h2⟩, h3⟩

/-- closed form of `viewAfter` for a node that is new (fresh id, priority above everything stored) -/
def viewFormula (r : Rep) (p : Pend) (k : Key) : Option Val :=
  match lastWin p.elems k with
  | some v => some v
  | none => if (r.vals.lookup k).isSome && aliveWithB r p.tombs k then some (r.prioVal k).2 else none

structure RepInv (r : Rep) (h n : Nat) : Prop where
  prio : ∀ k, (r.prioVal k).1 ≤ h
  hv : HV r
  eid : ∀ e ∈ r.elems, e.2 < n
  tid : ∀ t ∈ r.tombs, t.2 < n

theorem filter_wins_all (r : Rep) (ts : List (Key × Id)) (es : List (Key × Val)) (h n : Nat) (hi : RepInv r h n)
    (hts : ∀ t ∈ ts, t.2 < n) :
    es.filter ((r.putTombs ts).1.wins n (h + 1)) = es := by
  rw [List.filter_eq_self]
  intro e _
  rw [wins_iff]
  constructor
  · simp only [putTombs_tombs, List.mem_append, not_or]
    exact ⟨fun hc => Nat.lt_irrefl _ (hts _ hc), fun hc => Nat.lt_irrefl _ (hi.tid _ hc)⟩
  · left
    rw [prioVal_putTombs]
    exact Nat.lt_succ_of_le (hi.prio e.1)

theorem viewAfter_eq_formula (r : Rep) (p : Pend) (h n : Nat) (hi : RepInv r h n) (hts : ∀ t ∈ p.tombs, t.2 < n)
    (k : Key) : viewAfter r p n (h + 1) k = viewFormula r p k := by
  unfold viewAfter viewFormula
  have hf := filter_wins_all r p.tombs p.elems h n hi hts
  have hpv : (r.merge ⟨n, h + 1, p.elems, p.tombs⟩).1.prioVal k = match lastWin p.elems k with
      | some v => (h + 1, v)
      | none => r.prioVal k := by
    rw [merge_fst, prioVal_putElems]; simp only [hf]; rfl
  have hlook : ((r.merge ⟨n, h + 1, p.elems, p.tombs⟩).1.vals.lookup k).isSome =
      ((lastWin p.elems k).isSome || (r.vals.lookup k).isSome) := by
    rw [merge_fst, lookup_putElems_isSome]; simp only [hf]; rfl
  have hal : (r.merge ⟨n, h + 1, p.elems, p.tombs⟩).1.alive k = true ↔
      (∃ v, (k, v) ∈ p.elems) ∨ aliveWith r p.tombs k := by
    rw [alive_iff, merge_fst]
    simp only [putElems_elems, putElems_tombs, putTombs_tombs, putTombs_elems, List.mem_append, List.mem_map,
      Prod.exists, not_or, Prod.mk.injEq]
    constructor
    · rintro ⟨id, (⟨a, v, hm, rfl, rfl⟩ | hm), ht1, ht2⟩
      · exact Or.inl ⟨v, hm⟩
      · exact Or.inr ⟨id, hm, ht1, ht2⟩
    · rintro (⟨v, hm⟩ | ⟨id, hm, ht1, ht2⟩)
      · exact ⟨n, Or.inl ⟨k, v, hm, rfl, rfl⟩, fun hc => Nat.lt_irrefl _ (hts _ hc), fun hc => Nat.lt_irrefl _ (hi.tid _ hc)⟩
      · exact ⟨id, Or.inr hm, ht1, ht2⟩
  unfold Rep.viewAt Rep.member
  rw [hpv, hlook]
  cases hl : lastWin p.elems k with
  | some v =>
    have : (r.merge ⟨n, h + 1, p.elems, p.tombs⟩).1.alive k = true := hal.2 (Or.inl ⟨v, lastWin_mem hl⟩)
    simp [this]
  | none =>
    have hno : ¬ ∃ v, (k, v) ∈ p.elems := by
      rintro ⟨v, hm⟩
      exact lastWin_none_iff.1 hl (k, v) hm rfl
    simp only [Option.isSome_none, Bool.false_or]
    have hab : (r.merge ⟨n, h + 1, p.elems, p.tombs⟩).1.alive k = aliveWithB r p.tombs k := by
      rw [Bool.eq_iff_iff, hal, aliveWithB_iff]
      constructor
      · rintro (h1 | h1)
        · exact absurd h1 hno
        · exact h1
      · exact Or.inr
    rw [hab]

theorem lastWin_append_single (es : List (Key × Val)) (k' : Key) (v : Val) (k : Key) :
    lastWin (es ++ [(k', v)]) k = if k' = k then some v else lastWin es k := by
  induction es with
  | nil => simp [lastWin]
  | cons e t ih =>
    simp only [List.cons_append, lastWin, ih]
    split_ifs with hk <;> rfl

theorem lastWin_filter_ne (es : List (Key × Val)) (k' k : Key) :
    lastWin (es.filter (fun e => e.1 != k')) k = if k = k' then none else lastWin es k := by
  induction es with
  | nil => simp [lastWin]
  | cons e t ih =>
    by_cases he : e.1 = k'
    · have : (e.1 != k') = false := by simp [he]
      rw [List.filter_cons_of_neg (by simp [this]), ih]
      simp only [lastWin]
      by_cases hk : k = k'
      · simp [hk]
      · have hne : e.1 ≠ k := by rw [he]; exact fun h => hk h.symm
        simp only [hk, if_false, hne]
        cases lastWin t k <;> rfl
    · have : (e.1 != k') = true := by simp [he]
      rw [List.filter_cons_of_pos (by simp [this])]
      simp only [lastWin, ih]
      by_cases hk : k = k'
      · simp [hk, he]
      · simp only [hk, if_false]

/-- function-level meaning of a pin / unpin on the pinset -/
def applyAt (f : Key → Option Val) (o : BOp) : Key → Option Val :=
  fun k => if o.key = k then effect o else f k

def replayAt (ops : List BOp) (f : Key → Option Val) : Key → Option Val := ops.foldl applyAt f

theorem replayAt_append (a b : List BOp) (f) : replayAt (a ++ b) f = replayAt b (replayAt a f) := by
  simp [replayAt, List.foldl_append]

theorem mem_rmv (r : Rep) (k : Key) (t : Key × Id) : t ∈ r.rmv k ↔ t ∈ r.elems ∧ t.1 = k ∧ (k, t.2) ∉ r.tombs := by
  simp only [Rep.rmv, List.mem_filter, Bool.and_eq_true, beq_iff_eq, Bool.not_eq_true']
  constructor
  · rintro ⟨h1, h2, h3⟩
    refine ⟨h1, h2, fun hc => ?_⟩
    rw [(tombed_iff r k t.2).2 hc] at h3; cases h3
  · rintro ⟨h1, h2, h3⟩
    refine ⟨h1, h2, ?_⟩
    cases hb : r.tombed k t.2 with
    | false => rfl
    | true => exact absurd ((tombed_iff r k t.2).1 hb) h3

/-- adding one operation to the pending delta changes the future pinset as the operation says -/
theorem viewFormula_add (r : Rep) (p : Pend) (o : BOp) (k : Key) :
    viewFormula r (p.add r o) k = applyAt (viewFormula r p) o k := by
  cases o with
  | put k' v =>
    simp only [Pend.add, viewFormula, applyAt, BOp.key, effect, lastWin_append_single]
    by_cases hk : k' = k
    · simp [hk]
    · simp only [hk, if_false]
      cases lastWin p.elems k <;> rfl
  | del k' =>
    simp only [Pend.add, viewFormula, applyAt, BOp.key, effect, lastWin_filter_ne]
    by_cases hk : k' = k
    · subst hk
      simp only [if_true]
      have : aliveWithB r (p.tombs ++ r.rmv k') k' = false := by
        rw [Bool.eq_false_iff]
        intro hc
        obtain ⟨id, hm, hnt, hnr⟩ := (aliveWithB_iff _ _ _).1 hc
        apply hnt
        rw [List.mem_append]
        right
        rw [mem_rmv]
        exact ⟨hm, rfl, hnr⟩
      simp [this]
    · have hk' : ¬ k = k' := fun h => hk h.symm
      simp only [hk, hk', if_false]
      have : aliveWithB r (p.tombs ++ r.rmv k') k = aliveWithB r p.tombs k := by
        rw [Bool.eq_iff_iff, aliveWithB_iff, aliveWithB_iff]
        unfold aliveWith
        constructor
        · rintro ⟨id, hm, hnt, hnr⟩
          exact ⟨id, hm, fun hc => hnt (List.mem_append_left _ hc), hnr⟩
        · rintro ⟨id, hm, hnt, hnr⟩
          refine ⟨id, hm, ?_, hnr⟩
          rw [List.mem_append, not_or]
          refine ⟨hnt, fun hc => ?_⟩
          have := ((mem_rmv r k' (k, id)).1 hc).2.1
          exact hk' this
      simp only [this]

/-! ### the batching worker: what the pinset will hold once the pending delta is published -/

theorem viewFormula_empty (r : Rep) (k : Key) : viewFormula r {} k = r.viewAt k := by
  simp only [viewFormula, lastWin, Rep.viewAt, Rep.member]
  have : aliveWithB r [] k = r.alive k := by
    rw [Bool.eq_iff_iff, aliveWithB_iff, alive_iff]
    simp [aliveWith]
  rw [this]
  rfl

theorem viewFormula_tombs_landed (r : Rep) (p : Pend) (k : Key) :
    viewFormula (r.putTombs p.tombs).1 p k = viewFormula r p k := by
  simp only [viewFormula, putTombs_vals, prioVal_putTombs]
  have : aliveWithB (r.putTombs p.tombs).1 p.tombs k = aliveWithB r p.tombs k := by
    rw [Bool.eq_iff_iff, aliveWithB_iff, aliveWithB_iff]
    simp only [aliveWith, putTombs_elems, putTombs_tombs, List.mem_append, not_or]
    constructor
    · rintro ⟨id, h1, h2, _, h4⟩; exact ⟨id, h1, h2, h4⟩
    · rintro ⟨id, h1, h2, h4⟩; exact ⟨id, h1, h2, h2, h4⟩
  rw [this]
  cases lastWin p.elems k <;> rfl

theorem RepInv_mono {r : Rep} {h n : Nat} (hi : RepInv r h n) : RepInv r h (n + 1) :=
  ⟨hi.prio, hi.hv, fun e he => Nat.lt_succ_of_lt (hi.eid e he), fun t ht => Nat.lt_succ_of_lt (hi.tid t ht)⟩

theorem RepInv_putTombs {r : Rep} {h n : Nat} (hi : RepInv r h n) (ts : List (Key × Id)) (hts : ∀ t ∈ ts, t.2 < n) :
    RepInv (r.putTombs ts).1 h n := by
  refine ⟨hi.prio, ?_, hi.eid, ?_⟩
  · have := HV_applyPh r (.T ⟨0, 0, [], ts⟩) hi.hv (fun d hd => by cases hd)
    exact this
  · intro t ht
    simp only [putTombs_tombs, List.mem_append] at ht
    rcases ht with ht | ht
    · exact hts t ht
    · exact hi.tid t ht

theorem RepInv_merge {r : Rep} {h n : Nat} (hi : RepInv r h n) (p : Pend) (hts : ∀ t ∈ p.tombs, t.2 < n) :
    RepInv (r.merge ⟨n, h + 1, p.elems, p.tombs⟩).1 (h + 1) (n + 1) := by
  have hf := filter_wins_all r p.tombs p.elems h n hi hts
  refine ⟨?_, ?_, ?_, ?_⟩
  · intro k
    rw [merge_fst, prioVal_putElems]
    simp only [hf]
    cases lastWin p.elems k with
    | some v => exact Nat.le_refl _
    | none => exact Nat.le_succ_of_le (hi.prio k)
  · rw [merge_eq_phases]
    apply HV_runPh _ _ hi.hv
    intro d hd
    simp only [List.mem_cons, Ph.E.injEq, List.not_mem_nil, or_false, reduceCtorEq, false_or] at hd
    subst hd
    exact Nat.succ_le_succ (Nat.zero_le _)
  · intro e he
    rw [merge_fst] at he
    simp only [putElems_elems, putTombs_elems, List.mem_append, List.mem_map, Prod.exists] at he
    rcases he with ⟨a, b, _, rfl⟩ | he
    · exact Nat.lt_succ_self _
    · exact Nat.lt_succ_of_lt (hi.eid e he)
  · intro t ht
    rw [merge_fst] at ht
    simp only [putElems_tombs, putTombs_tombs, List.mem_append] at ht
    rcases ht with ht | ht
    · exact Nat.lt_succ_of_lt (hts t ht)
    · exact Nat.lt_succ_of_lt (hi.tid t ht)

/-- the part of the worker state the pinset depends on -/
structure Core where
  rep : Rep
  pend : Pend
  height : Nat
  nextId : Id

def St.core (s : St) : Core := ⟨s.rep, s.pend, s.height, s.nextId⟩

def Core.PV (c : Core) (k : Key) : Option Val := viewAfter c.rep c.pend c.nextId (c.height + 1) k

structure Core.Inv (c : Core) : Prop where
  rep : RepInv c.rep c.height c.nextId
  pid : ∀ t ∈ c.pend.tombs, t.2 < c.nextId

theorem Core.PV_eq (c : Core) (hi : c.Inv) (k : Key) : c.PV k = viewFormula c.rep c.pend k :=
  viewAfter_eq_formula c.rep c.pend c.height c.nextId hi.rep hi.pid k

theorem core_init_inv : (St.core {}).Inv := by
  refine ⟨⟨fun k => Nat.le_refl _, HV_empty, ?_, ?_⟩, ?_⟩ <;> intro t ht <;> cases ht

theorem core_init_PV (k : Key) : (St.core {}).PV k = none := by
  rw [Core.PV_eq _ core_init_inv]
  simp [St.core, viewFormula_empty, Rep.viewAt, Rep.member]

/-- taking an operation into the pending delta -/
theorem core_add (c : Core) (hi : c.Inv) (o : BOp) :
    (Core.mk c.rep (c.pend.add c.rep o) c.height c.nextId).Inv ∧
    ∀ k, (Core.mk c.rep (c.pend.add c.rep o) c.height c.nextId).PV k = applyAt c.PV o k := by
  have hinv : (Core.mk c.rep (c.pend.add c.rep o) c.height c.nextId).Inv := by
    refine ⟨hi.rep, ?_⟩
    intro t ht
    cases o with
    | put k v => exact hi.pid t ht
    | del k =>
      simp only [Pend.add, List.mem_append] at ht
      rcases ht with ht | ht
      · exact hi.pid t ht
      · exact hi.rep.eid t ((mem_rmv c.rep k t).1 ht).1
  refine ⟨hinv, fun k => ?_⟩
  rw [Core.PV_eq _ hinv, viewFormula_add]
  simp only [applyAt]
  rw [Core.PV_eq _ hi]

def benignOut : Outcome → Bool
  | .failHeads => false
  | _ => true

/-- a publish attempt that does not fail at the head write keeps the future pinset -/
theorem core_publish (s : St) (hi : s.core.Inv) (out : Outcome) (hb : benignOut out = true) :
    (s.publish out).1.core.Inv ∧ (∀ k, (s.publish out).1.core.PV k = s.core.PV k) ∧
    (s.publish out).1.queue = s.queue := by
  cases out with
  | failHeads => cases hb
  | failBlock => exact ⟨hi, fun _ => rfl, rfl⟩
  | failTombs => exact ⟨hi, fun _ => rfl, rfl⟩
  | ok =>
    have hinv : (s.publish .ok).1.core.Inv := by
      refine ⟨RepInv_merge hi.rep s.pend hi.pid, ?_⟩
      intro t ht; cases ht
    refine ⟨hinv, fun k => ?_, rfl⟩
    rw [Core.PV_eq _ hinv]
    simp only [St.publish, St.core, St.delta]
    rw [viewFormula_empty]
    rfl
  | failElems =>
    have hinv : (s.publish .failElems).1.core.Inv := by
      refine ⟨RepInv_mono (RepInv_putTombs hi.rep s.pend.tombs hi.pid), ?_⟩
      intro t ht
      exact Nat.lt_succ_of_lt (hi.pid t ht)
    refine ⟨hinv, fun k => ?_, rfl⟩
    rw [Core.PV_eq _ hinv, Core.PV_eq _ hi]
    exact viewFormula_tombs_landed s.rep s.pend k

theorem viewFormula_flushed (r : Rep) (p : Pend) (he : p.elems = []) (ht : p.tombs = []) (k : Key) :
    viewFormula r p k = r.viewAt k := by
  rw [← viewFormula_empty r k]
  simp only [viewFormula, he, ht]

/-- a local write (one operation, or the operations of one datastore batch) published as a new
    node changes the pinset of the replica as the operations say, in order -/
theorem fold_add_formula (r : Rep) (n : Nat) (hel : ∀ e ∈ r.elems, e.2 < n) (ops : List BOp) :
    ∀ (p : Pend) (f : Key → Option Val), (∀ t ∈ p.tombs, t.2 < n) → (∀ k, viewFormula r p k = f k) →
      (∀ t ∈ (ops.foldl (fun p o => p.add r o) p).tombs, t.2 < n) ∧
      ∀ k, viewFormula r (ops.foldl (fun p o => p.add r o) p) k = replayAt ops f k := by
  induction ops with
  | nil => intro p f hp hf; exact ⟨hp, hf⟩
  | cons o t ih =>
    intro p f hp hf
    simp only [List.foldl_cons]
    apply ih (p.add r o) (applyAt f o)
    · intro x hx
      cases o with
      | put k v => exact hp x hx
      | del k =>
        simp only [Pend.add, List.mem_append] at hx
        rcases hx with hx | hx
        · exact hp x hx
        · exact hel x ((mem_rmv r k x).1 hx).1
    · intro k
      rw [viewFormula_add]
      simp only [applyAt, hf]

/-! ### invariant of the worker over a run -/

/-- events outside the scope of the ordering theorem: a failed `batchingState.Add/Rm` (the item is
    dropped by the worker) and a publish that fails at the head write -/
def Ev.benign : Ev → Bool
  | .take false => false
  | .commit .failHeads => false
  | _ => true

/-- the operations LogPin / LogUnpin accepted, in submission order -/
def acceptedOps : List Ev → List Res → List BOp
  | .log o :: es, .accepted :: rs => o :: acceptedOps es rs
  | _ :: es, _ :: rs => acceptedOps es rs
  | _, _ => []

theorem core_congr {s t : St} (h1 : t.rep = s.rep) (h2 : t.pend = s.pend) (h3 : t.height = s.height)
    (h4 : t.nextId = s.nextId) : t.core = s.core := by
  simp [St.core, h1, h2, h3, h4]

theorem step_invariant (cfg : Cfg) (s s' : St) (ev : Ev) (res : Res) (taken : List BOp)
    (hi : s.core.Inv) (hpv : ∀ k, s.core.PV k = replayAt taken (fun _ => none) k)
    (hb : ev.benign = true) (hs : step cfg s ev = some (s', res)) :
    ∃ taken', taken ++ s.queue ++ acceptedOps [ev] [res] = taken' ++ s'.queue ∧ s'.core.Inv ∧
      ∀ k, s'.core.PV k = replayAt taken' (fun _ => none) k := by
  cases ev with
  | log o =>
    simp only [step] at hs
    repeat' split at hs
    all_goals first
      | (cases hs; done)
      | (simp only [Option.some.injEq, Prod.mk.injEq] at hs
         obtain ⟨rfl, rfl⟩ := hs
         exact ⟨taken, by simp [acceptedOps], hi, hpv⟩)
  | timerFire =>
    simp only [step] at hs
    repeat' split at hs
    all_goals first
      | (cases hs; done)
      | (simp only [Option.some.injEq, Prod.mk.injEq] at hs
         obtain ⟨rfl, rfl⟩ := hs
         exact ⟨taken, by simp [acceptedOps], hi, hpv⟩)
  | take addOk =>
    cases addOk with
    | false => cases hb
    | true =>
      simp only [step, Bool.not_true, Bool.false_eq_true, if_false] at hs
      split at hs
      · cases hs
      split at hs
      · rename_i o q hph hqu
        have hcore : s'.core = Core.mk s.rep (s.pend.add s.rep o) s.height s.nextId ∧ s'.queue = q := by
          split at hs <;>
          · simp only [Option.some.injEq, Prod.mk.injEq] at hs
            obtain ⟨rfl, _⟩ := hs
            exact ⟨rfl, rfl⟩
        obtain ⟨hc1, hc2⟩ := hcore
        have hadd := core_add s.core hi o
        refine ⟨taken ++ [o], ?_, ?_, ?_⟩
        · rw [hqu, hc2]; simp [acceptedOps]
        · rw [hc1]; exact hadd.1
        · intro k
          rw [hc1, replayAt_append]
          have := hadd.2 k
          simp only [St.core] at this ⊢
          rw [this]
          simp only [replayAt, List.foldl_cons, List.foldl_nil, applyAt]
          split_ifs
          · rfl
          · exact hpv k
      · cases hs
  | commit out =>
    have hbo : benignOut out = true := by
      cases out <;> first | rfl | cases hb
    simp only [step] at hs
    split at hs
    · cases hs
    split at hs
    · cases hs
    · rename_i age hph
      split at hs
      · simp only [Option.some.injEq, Prod.mk.injEq] at hs
        obtain ⟨rfl, rfl⟩ := hs
        exact ⟨taken, by simp [acceptedOps], hi, hpv⟩
      · have hp := core_publish s hi out hbo
        have hcore : s'.core = (s.publish out).1.core ∧ s'.queue = (s.publish out).1.queue := by
          split at hs <;>
          · simp only [Option.some.injEq, Prod.mk.injEq] at hs
            obtain ⟨rfl, _⟩ := hs
            exact ⟨rfl, rfl⟩
        refine ⟨taken, ?_, ?_, ?_⟩
        · rw [hcore.2, hp.2.2]
          cases out <;> cases age <;> simp [acceptedOps]
        · rw [hcore.1]; exact hp.1
        · intro k; rw [hcore.1, hp.2.1 k]; exact hpv k

theorem acceptedOps_cons (ev : Ev) (evs : List Ev) (r : Res) (rs : List Res) :
    acceptedOps (ev :: evs) (r :: rs) = acceptedOps [ev] [r] ++ acceptedOps evs rs := by
  cases ev <;> cases r <;> simp [acceptedOps]

theorem run_invariant (cfg : Cfg) (evs : List Ev) : ∀ (s s' : St) (rs : List Res) (taken : List BOp),
    s.core.Inv → (∀ k, s.core.PV k = replayAt taken (fun _ => none) k) → (∀ e ∈ evs, Ev.benign e = true) →
    run cfg s evs = some (s', rs) →
    ∃ taken', taken ++ s.queue ++ acceptedOps evs rs = taken' ++ s'.queue ∧ s'.core.Inv ∧
      ∀ k, s'.core.PV k = replayAt taken' (fun _ => none) k := by
  induction evs with
  | nil =>
    intro s s' rs taken hi hpv _ hr
    simp only [run, Option.some.injEq, Prod.mk.injEq] at hr
    obtain ⟨rfl, rfl⟩ := hr
    exact ⟨taken, by simp [acceptedOps], hi, hpv⟩
  | cons ev t ih =>
    intro s s' rs taken hi hpv hb hr
    simp only [run] at hr
    split at hr
    · cases hr
    · rename_i s1 r1 hstep
      split at hr
      · cases hr
      · rename_i s2 rs2 hrun
        simp only [Option.some.injEq, Prod.mk.injEq] at hr
        obtain ⟨rfl, rfl⟩ := hr
        obtain ⟨t1, h1, hi1, hp1⟩ := step_invariant cfg s s1 ev r1 taken hi hpv (hb ev List.mem_cons_self) hstep
        obtain ⟨t2, h2, hi2, hp2⟩ := ih s1 s2 rs2 t1 hi1 hp1 (fun e he => hb e (List.mem_cons_of_mem _ he)) hrun
        refine ⟨t2, ?_, hi2, hp2⟩
        rw [acceptedOps_cons, ← List.append_assoc, h1, h2]

/-! ### the specification's list-level replay, read per key -/

theorem lookup_filter_ne (v : View) (k k' : Key) :
    List.lookup k' (v.filter (fun e => e.1 != k)) = if k' = k then none else List.lookup k' v := by
  induction v with
  | nil => simp
  | cons e t ih =>
    by_cases he : e.1 = k
    · have : (e.1 != k) = false := by simp [he]
      rw [List.filter_cons_of_neg (by simp [this]), ih]
      by_cases hk : k' = k
      · simp [hk]
      · simp only [hk, if_false]
        obtain ⟨a, b⟩ := e
        simp only at he
        subst he
        have : (k' == a) = false := by simpa using hk
        simp [List.lookup_cons, this]
    · have : (e.1 != k) = true := by simp [he]
      rw [List.filter_cons_of_pos (by simp [this])]
      obtain ⟨a, b⟩ := e
      simp only [List.lookup_cons, ih]
      by_cases hk : k' = k
      · subst hk
        have : (k' == a) = false := by simpa using fun h => he h.symm
        simp [this]
      · simp only [hk, if_false]

theorem apply_get (v : View) (o : BOp) (k : Key) : (v.apply o).get k = applyAt v.get o k := by
  cases o with
  | put c x =>
    simp only [View.apply, View.get, applyAt, BOp.key, effect, List.lookup_cons, lookup_filter_ne]
    by_cases hk : c = k
    · subst hk; simp
    · have : (k == c) = false := by simpa using fun h => hk h.symm
      have hk' : ¬ k = c := fun h => hk h.symm
      simp [this, hk, hk']
  | del c =>
    simp only [View.apply, View.get, applyAt, BOp.key, effect, lookup_filter_ne]
    by_cases hk : c = k
    · subst hk; simp
    · have hk' : ¬ k = c := fun h => hk h.symm
      simp [hk, hk']

theorem replay_get (ops : List BOp) (v : View) (k : Key) : (replay ops v).get k = replayAt ops v.get k := by
  induction ops generalizing v with
  | nil => rfl
  | cons o t ih =>
    simp only [replay, replayAt, List.foldl_cons] at ih ⊢
    rw [ih]
    have : (v.apply o).get = applyAt v.get o := funext (apply_get v o)
    rw [this]

/-! ### the timer -/

/-- pending work is never left without something that will commit it: while the pending delta is
    not empty the age timer is armed, or the worker is already inside the age-triggered commit -/
def TimerInv (s : St) : Prop :=
  (s.pend.isNil = false → 0 < s.curSize) ∧ (0 < s.curSize → s.timer = true ∨ s.phase = .due true)

theorem add_isNil (p : Pend) (r : Rep) (o : BOp) : (p.add r o).isNil = false := by
  cases o <;> rfl

theorem publish_fields (s : St) (out : Outcome) :
    (s.publish out).1.curSize = s.curSize ∧ (s.publish out).1.timer = s.timer ∧
    (s.publish out).1.phase = s.phase ∧ (out ≠ .ok → (s.publish out).1.pend = s.pend) := by
  cases out <;> simp [St.publish]

theorem step_timerInv (cfg : Cfg) (s s' : St) (ev : Ev) (res : Res) (hi : TimerInv s)
    (hs : step cfg s ev = some (s', res)) : TimerInv s' := by
  obtain ⟨h1, h2⟩ := hi
  cases ev with
  | log o =>
    simp only [step] at hs
    repeat' split at hs
    all_goals first
      | (cases hs; done)
      | (simp only [Option.some.injEq, Prod.mk.injEq] at hs
         obtain ⟨rfl, rfl⟩ := hs
         exact ⟨h1, h2⟩)
  | timerFire =>
    simp only [step] at hs
    repeat' split at hs
    all_goals first
      | (cases hs; done)
      | (simp only [Option.some.injEq, Prod.mk.injEq] at hs
         obtain ⟨rfl, rfl⟩ := hs
         exact ⟨h1, fun _ => Or.inr rfl⟩)
  | take addOk =>
    simp only [step] at hs
    split at hs
    · cases hs
    split at hs
    · rename_i o q hph hqu
      have htim : (0 < s.curSize → s.timer = true) := fun hc => by
        rcases h2 hc with h | h
        · exact h
        · rw [hph] at h; cases h
      cases addOk with
      | false =>
        simp only [Bool.not_false, if_true, Option.some.injEq, Prod.mk.injEq] at hs
        obtain ⟨rfl, rfl⟩ := hs
        refine ⟨h1, fun hc => Or.inl ?_⟩
        simp only at hc ⊢
        split_ifs with h0
        · rfl
        · exact htim hc
      | true =>
        simp only [Bool.not_true, Bool.false_eq_true, if_false] at hs
        have key : s'.pend.isNil = false ∧ 0 < s'.curSize ∧ s'.timer = true := by
          split at hs <;>
          · simp only [Option.some.injEq, Prod.mk.injEq] at hs
            obtain ⟨rfl, _⟩ := hs
            refine ⟨add_isNil _ _ _, Nat.succ_pos _, ?_⟩
            simp only
            split_ifs with h0
            · rfl
            · exact htim (Nat.pos_of_ne_zero (by simpa using h0))
        exact ⟨fun _ => key.2.1, fun _ => Or.inl key.2.2⟩
    · cases hs
  | commit out =>
    simp only [step] at hs
    split at hs
    · cases hs
    split at hs
    · cases hs
    · rename_i age hph
      split at hs
      · simp only [Option.some.injEq, Prod.mk.injEq] at hs
        obtain ⟨rfl, rfl⟩ := hs
        exact ⟨h1, h2⟩
      · rename_i hnil
        have hnil' : s.pend.isNil = false := by simpa using hnil
        have hpos := h1 hnil'
        obtain ⟨f1, f2, f3, f4⟩ := publish_fields s out
        have htim : age = false → s.timer = true := fun ha => by
          rcases h2 hpos with h | h
          · exact h
          · rw [hph, ha] at h; cases h
        by_cases hok : out = .ok
        · subst hok
          cases age <;>
          · simp only [Option.some.injEq, Prod.mk.injEq] at hs
            obtain ⟨rfl, rfl⟩ := hs
            exact ⟨fun hc => by simp [St.publish] at hc, fun hc => absurd hc (Nat.lt_irrefl 0)⟩
        · have hp := f4 hok
          cases age with
          | false =>
            have hs' : s' = { (s.publish out).1 with phase := .idle } := by
              cases out <;> first | exact absurd rfl hok | (simp only [Option.some.injEq, Prod.mk.injEq] at hs; exact hs.1.symm)
            subst hs'
            refine ⟨fun _ => by simpa [f1] using hpos, fun _ => Or.inl ?_⟩
            simp only [f2]
            exact htim rfl
          | true =>
            have hs' : s' = { (s.publish out).1 with timer := true, phase := .idle } := by
              cases out <;> first | exact absurd rfl hok | (simp only [Option.some.injEq, Prod.mk.injEq] at hs; exact hs.1.symm)
            subst hs'
            exact ⟨fun _ => by simpa [f1] using hpos, fun _ => Or.inl rfl⟩

theorem run_timerInv (cfg : Cfg) (evs : List Ev) : ∀ (s s' : St) (rs : List Res),
    TimerInv s → run cfg s evs = some (s', rs) → TimerInv s' := by
  induction evs with
  | nil =>
    intro s s' rs hi hr
    simp only [run, Option.some.injEq, Prod.mk.injEq] at hr
    obtain ⟨rfl, _⟩ := hr
    exact hi
  | cons ev t ih =>
    intro s s' rs hi hr
    simp only [run] at hr
    split at hr
    · cases hr
    · rename_i s1 r1 hstep
      split at hr
      · cases hr
      · rename_i s2 rs2 hrun
        simp only [Option.some.injEq, Prod.mk.injEq] at hr
        obtain ⟨rfl, _⟩ := hr
        exact ih s1 s2 rs2 (step_timerInv cfg s s1 ev r1 hi hstep) hrun

theorem timerInv_init : TimerInv {} := by
  refine ⟨fun h => ?_, fun h => absurd h (Nat.lt_irrefl 0)⟩
  cases h

end CV.C02
