import ClusterVerif.Model.C10
import ClusterVerif.Lemmas.C04
import Mathlib.Data.List.Basic
import Mathlib.Data.List.Perm.Basic

/-!
Helper lemmas for Props/C10.

The engine: every per-pin call the three sweeps make (`repinFromPeer`, `Unpin` of a data pin) is *local*
— what it logs depends only on the entry the state holds for that pin's cid, it logs operations for that
cid only, and its post-state is the commit of what it logged. From that: what a member logs for a cid, and
what the pinset holds for a cid after any number of members acted, depend only on that cid's own history.
-/
namespace CV.C10
open CV

/-! ### committed operations -/

theorem commitAll_nil (st : PinMap) : commitAll st [] = st := rfl
theorem commitAll_cons (st : PinMap) (e : C04.LogEntry) (es : List C04.LogEntry) :
    commitAll st (e :: es) = commitAll (commit st e) es := rfl
theorem commitAll_append (st : PinMap) (a b : List C04.LogEntry) :
    commitAll st (a ++ b) = commitAll (commitAll st a) b := by
  simp [commitAll, List.foldl_append]

theorem wf_commit {st : PinMap} (hw : st.wf = true) (e : C04.LogEntry) : (commit st e).wf = true := by
  cases e with
  | logPin p => exact wf_put hw _
  | logUnpin c => exact wf_erase hw _

theorem wf_commitAll {st : PinMap} (hw : st.wf = true) (es : List C04.LogEntry) : (commitAll st es).wf = true := by
  induction es generalizing st with
  | nil => exact hw
  | cons e t ih => exact ih (wf_commit hw e)

/-- what one committed operation does to the entry of its own cid -/
def effect (_o : Option Pin) : C04.LogEntry → Option Pin
  | .logPin p => some p.stored
  | .logUnpin _ => none

theorem get_commit_other {st : PinMap} (hw : st.wf = true) (e : C04.LogEntry) (c : Nat) (h : entryCid e ≠ c) :
    (commit st e).get c = st.get c := by
  cases e with
  | logPin p =>
    show (PinMap.put p.stored st).get c = _
    rw [get_put hw]
    have : ¬ p.stored.cid = c := h
    rw [if_neg this]
  | logUnpin k =>
    show (PinMap.erase st k).get c = _
    rw [get_erase]
    have : ¬ c = k := fun e => h e.symm
    rw [if_neg this]

theorem get_commit_same {st : PinMap} (hw : st.wf = true) (e : C04.LogEntry) (c : Nat) (h : entryCid e = c) :
    (commit st e).get c = effect (st.get c) e := by
  cases e with
  | logPin p =>
    show (PinMap.put p.stored st).get c = _
    rw [get_put hw]
    have : p.stored.cid = c := h
    rw [if_pos this]; rfl
  | logUnpin k =>
    show (PinMap.erase st k).get c = _
    rw [get_erase]
    have : c = k := h.symm
    rw [if_pos this]; rfl

theorem forCid_cons_same {c : Nat} {e : C04.LogEntry} (es : List C04.LogEntry) (h : entryCid e = c) :
    forCid c (e :: es) = e :: forCid c es := by
  unfold forCid; rw [List.filter_cons]; simp [h]

theorem forCid_cons_other {c : Nat} {e : C04.LogEntry} (es : List C04.LogEntry) (h : entryCid e ≠ c) :
    forCid c (e :: es) = forCid c es := by
  unfold forCid; rw [List.filter_cons]; simp [h]

theorem forCid_append (c : Nat) (a b : List C04.LogEntry) : forCid c (a ++ b) = forCid c a ++ forCid c b := by
  unfold forCid; exact List.filter_append ..

theorem forCid_eq_self {c : Nat} {es : List C04.LogEntry} (h : ∀ e ∈ es, entryCid e = c) : forCid c es = es := by
  unfold forCid; rw [List.filter_eq_self]; intro e he; simpa using h e he

theorem forCid_eq_nil {c : Nat} {es : List C04.LogEntry} (h : ∀ e ∈ es, entryCid e ≠ c) : forCid c es = [] := by
  unfold forCid; rw [List.filter_eq_nil_iff]; intro e he; simpa using h e he

theorem mem_forCid {c : Nat} {es : List C04.LogEntry} {e : C04.LogEntry} :
    e ∈ forCid c es ↔ e ∈ es ∧ entryCid e = c := by
  unfold forCid; simp [List.mem_filter]

/-- The entry a pinset holds for `c` after any operations were committed is decided by the operations
    for `c` alone, in their order. -/
theorem get_commitAll {st : PinMap} (hw : st.wf = true) (es : List C04.LogEntry) (c : Nat) :
    (commitAll st es).get c = (forCid c es).foldl effect (st.get c) := by
  induction es generalizing st with
  | nil => rfl
  | cons e t ih =>
    rw [commitAll_cons, ih (wf_commit hw e)]
    by_cases h : entryCid e = c
    · rw [forCid_cons_same t h, List.foldl_cons, get_commit_same hw e c h]
    · rw [forCid_cons_other t h, get_commit_other hw e c h]

theorem get_commitAll_other {st : PinMap} (hw : st.wf = true) (es : List C04.LogEntry) (c : Nat)
    (h : ∀ e ∈ es, entryCid e ≠ c) : (commitAll st es).get c = st.get c := by
  rw [get_commitAll hw, forCid_eq_nil h]; rfl

theorem commitAll_unpins (st : PinMap) (cs : List Nat) : commitAll st (cs.map .logUnpin) = cs.foldl PinMap.erase st := by
  induction cs generalizing st with
  | nil => rfl
  | cons c t ih => exact ih (st.erase c)

/-- every call's post-state is the commit of what it logged -/
theorem shape_post {T : List Nat} {pre : PinMap} {out : C04.Out} (h : C04.Shape T pre out) :
    out.post = commitAll pre out.log := by
  cases h with
  | refused _ hp hl => rw [hp, hl]; rfl
  | logged p _ _ hp hl => rw [hp, hl]; rfl
  | erased p cs _ _ hp hl => rw [hp, hl, commitAll_unpins]

theorem shape_cids {T : List Nat} {pre : PinMap} {out : C04.Out} (h : C04.Shape T pre out) :
    ∀ e ∈ out.log, entryCid e ∈ T := by
  cases h with
  | refused _ _ hl => rw [hl]; intro e he; cases he
  | logged p hT _ _ hl =>
    rw [hl]; intro e he
    rw [List.mem_singleton] at he; subst he; exact hT
  | erased p cs hT _ _ hl =>
    rw [hl]; intro e he
    obtain ⟨k, hk, rfl⟩ := List.mem_map.1 he
    exact hT k hk

/-! ### sorted pinsets have one entry per cid -/

theorem nodup_keys {m : PinMap} (hw : m.wf = true) : (m.map (·.cid)).Nodup := by
  induction m with
  | nil => exact List.nodup_nil
  | cons p t ih =>
    obtain ⟨h1, h2⟩ := wf_cons.1 hw
    rw [List.map_cons, List.nodup_cons]
    refine ⟨?_, ih h2⟩
    intro hm
    obtain ⟨q, hq, he⟩ := List.mem_map.1 hm
    have := h1 q hq
    omega

/-! ### local calls -/

/-- a per-pin call that only looks at, and only touches, the entry of that pin's cid;
    `I` is the invariant on pinsets under which this holds -/
structure IsLocal (I : PinMap → Prop) (run : PinMap → Pin → C04.Out) : Prop where
  wf   : ∀ st, I st → st.wf = true
  inv  : ∀ st x, I st → I (run st x).post
  post : ∀ st x, I st → (run st x).post = commitAll st (run st x).log
  cids : ∀ st x, I st → ∀ e ∈ (run st x).log, entryCid e = x.cid
  loc  : ∀ st st' x, I st → I st' → st.get x.cid = st'.get x.cid → (run st x).log = (run st' x).log

section sweeps
variable {I : PinMap → Prop} {run : PinMap → Pin → C04.Out}

theorem sweep_fold (hl : IsLocal I run) (cond : Pin → Bool) (st0 : PinMap) (h0 : I st0) :
    ∀ (l : List Pin) (acc : Acc), (l.map (·.cid)).Nodup → I acc.st → acc.st = commitAll st0 acc.log →
      (∀ x ∈ l, acc.st.get x.cid = st0.get x.cid) →
      I (l.foldl (sweep cond run) acc).st ∧
      (l.foldl (sweep cond run) acc).st = commitAll st0 (l.foldl (sweep cond run) acc).log ∧
      (l.foldl (sweep cond run) acc).log = acc.log ++ l.flatMap (fun x => if cond x then (run st0 x).log else []) := by
  intro l
  induction l with
  | nil => intro acc _ hI hc _; exact ⟨hI, hc, by simp⟩
  | cons x t ih =>
    intro acc hnd hI hc hget
    rw [List.foldl_cons]
    rw [List.map_cons, List.nodup_cons] at hnd
    obtain ⟨hxt, hnd'⟩ := hnd
    by_cases hx : cond x = true
    · have hs : sweep cond run acc x = { st := (run acc.st x).post, log := acc.log ++ (run acc.st x).log } := by
        unfold sweep; rw [if_pos hx]
      have hloc : (run acc.st x).log = (run st0 x).log := hl.loc _ _ _ hI h0 (hget x (by simp))
      rw [hs]
      have hget' : ∀ y ∈ t, (run acc.st x).post.get y.cid = st0.get y.cid := by
        intro y hy
        rw [hl.post _ _ hI, get_commitAll_other (hl.wf _ hI)]
        · exact hget y (by simp [hy])
        · intro e he heq
          rw [hl.cids _ _ hI e he] at heq
          exact hxt (List.mem_map.2 ⟨y, hy, heq.symm⟩)
      obtain ⟨i1, i2, i3⟩ := ih { st := (run acc.st x).post, log := acc.log ++ (run acc.st x).log } hnd'
        (hl.inv _ _ hI) (by show (run acc.st x).post = _; rw [commitAll_append, ← hc, hl.post _ _ hI]) hget'
      refine ⟨i1, i2, ?_⟩
      rw [i3, List.flatMap_cons, if_pos hx, hloc, List.append_assoc]
    · have hs : sweep cond run acc x = acc := by unfold sweep; rw [if_neg hx]
      rw [hs]
      obtain ⟨i1, i2, i3⟩ := ih acc hnd' hI hc (fun y hy => hget y (by simp [hy]))
      refine ⟨i1, i2, ?_⟩
      rw [i3, List.flatMap_cons, if_neg hx, List.nil_append]

/-- One member's sweep: what it logs is, pin by pin, what the call would log on the pinset the sweep started
    from; the pinset it leaves is the commit of that log. -/
theorem sweepAll_spec (hl : IsLocal I run) (cond : Pin → Bool) (st0 : PinMap) (h0 : I st0) :
    I (sweepAll cond run st0).st ∧
    (sweepAll cond run st0).st = commitAll st0 (sweepAll cond run st0).log ∧
    (sweepAll cond run st0).log = st0.flatMap (fun x => if cond x then (run st0 x).log else []) := by
  have := sweep_fold hl cond st0 h0 st0 { st := st0, log := [] } (nodup_keys (hl.wf _ h0)) h0 rfl (fun _ _ => rfl)
  simpa [sweepAll] using this

theorem forCid_flatMap (g : Pin → List C04.LogEntry) (c : Nat) :
    ∀ (l : PinMap), (l.map (·.cid)).Nodup → (∀ x ∈ l, ∀ e ∈ g x, entryCid e = x.cid) →
      forCid c (l.flatMap g) = match l.get c with | some x => g x | none => [] := by
  intro l
  induction l with
  | nil => intro _ _; rfl
  | cons x t ih =>
    intro hnd hg
    rw [List.map_cons, List.nodup_cons] at hnd
    rw [List.flatMap_cons, forCid_append, get_cons, ih hnd.2 (fun y hy => hg y (by simp [hy]))]
    by_cases hx : x.cid = c
    · rw [if_pos hx, forCid_eq_self (fun e he => by rw [hg x (by simp) e he, hx])]
      have : PinMap.get t c = none := by
        rw [get_none_iff]; intro q hq he
        exact hnd.1 (List.mem_map.2 ⟨q, hq, by rw [he, hx]⟩)
      rw [this]; simp
    · rw [if_neg hx, forCid_eq_nil (fun e he => by rw [hg x (by simp) e he]; exact hx)]
      simp

/-- what a member's sweep logs for one cid -/
theorem sweepAll_forCid (hl : IsLocal I run) (cond : Pin → Bool) (st0 : PinMap) (h0 : I st0) (c : Nat) :
    forCid c (sweepAll cond run st0).log =
      match st0.get c with | some x => if cond x then (run st0 x).log else [] | none => [] := by
  rw [(sweepAll_spec hl cond st0 h0).2.2, forCid_flatMap _ c st0 (nodup_keys (hl.wf _ h0))]
  intro x _ e he
  by_cases hx : cond x = true
  · rw [if_pos hx] at he; exact hl.cids _ _ h0 e he
  · rw [if_neg hx] at he; cases he

theorem sweepAll_false (run : PinMap → Pin → C04.Out) (st0 : PinMap) :
    sweepAll (fun _ => false) run st0 = { st := st0, log := [] } := by
  unfold sweepAll
  generalize ({ st := st0, log := [] } : Acc) = acc
  induction st0 generalizing acc with
  | nil => rfl
  | cons x t ih => rw [List.foldl_cons]; exact ih _

/-- a member that is idle on `c` logs nothing for `c` and leaves its entry alone -/
theorem sweepAll_idle (hl : IsLocal I run) (cond : Pin → Bool) (st0 : PinMap) (h0 : I st0) (c : Nat)
    (hidle : ∀ x, x.cid = c → cond x = false) :
    forCid c (sweepAll cond run st0).log = [] ∧ (sweepAll cond run st0).st.get c = st0.get c := by
  have h1 : forCid c (sweepAll cond run st0).log = [] := by
    rw [sweepAll_forCid hl cond st0 h0 c]
    cases hg : st0.get c with
    | none => rfl
    | some x => simp [hidle x (get_some_mem hg).2]
  refine ⟨h1, ?_⟩
  rw [(sweepAll_spec hl cond st0 h0).2.1, get_commitAll (hl.wf _ h0), h1]; rfl

/-- what a member logs for `c`, and the entry for `c` it leaves, depend only on the entry for `c` it found -/
theorem sweepAll_congr (hl : IsLocal I run) (cond : Pin → Bool) (st st' : PinMap) (h : I st) (h' : I st') (c : Nat)
    (hg : st.get c = st'.get c) :
    forCid c (sweepAll cond run st).log = forCid c (sweepAll cond run st').log ∧
    (sweepAll cond run st).st.get c = (sweepAll cond run st').st.get c := by
  have h1 : forCid c (sweepAll cond run st).log = forCid c (sweepAll cond run st').log := by
    rw [sweepAll_forCid hl cond st h c, sweepAll_forCid hl cond st' h' c, ← hg]
    cases hx : st.get c with
    | none => rfl
    | some x =>
      simp only
      have hxc := (get_some_mem hx).2
      rw [hl.loc st st' x h h' (by rw [hxc]; exact hg)]
  refine ⟨h1, ?_⟩
  rw [(sweepAll_spec hl cond st h).2.1, (sweepAll_spec hl cond st' h').2.1,
    get_commitAll (hl.wf _ h), get_commitAll (hl.wf _ h'), h1, hg]

end sweeps

/-! ### rounds, generically: every member runs some local sweep -/

theorem roundWith_aux (act : Actor → PinMap → Acc) (s : List Actor) (st : PinMap) (L : Logs) :
    s.foldl (fun acc a => ((act a acc.1).st, acc.2 ++ [(a.pc.self, (act a acc.1).log)])) (st, L)
      = ((roundWith act s st).1, L ++ (roundWith act s st).2) := by
  induction s generalizing st L with
  | nil => simp [roundWith]
  | cons a t ih =>
    unfold roundWith
    rw [List.foldl_cons, List.foldl_cons, ih, ih (L := [] ++ _)]
    simp [roundWith]

theorem roundWith_nil (act : Actor → PinMap → Acc) (pre : PinMap) : roundWith act [] pre = (pre, []) := rfl

theorem roundWith_cons (act : Actor → PinMap → Acc) (a : Actor) (s : List Actor) (pre : PinMap) :
    roundWith act (a :: s) pre =
      ((roundWith act s (act a pre).st).1, (a.pc.self, (act a pre).log) :: (roundWith act s (act a pre).st).2) := by
  show List.foldl _ _ (a :: s) = _
  rw [List.foldl_cons, roundWith_aux]
  simp

theorem roundFor_nil (c : Nat) : roundFor c [] = [] := rfl
theorem roundFor_cons (c : Nat) (l : Nat × List C04.LogEntry) (ls : Logs) :
    roundFor c (l :: ls) = (forCid c l.2).map (fun e => (l.1, e)) ++ roundFor c ls := by
  unfold roundFor; rw [List.flatMap_cons]

theorem allEntries_cons (l : Nat × List C04.LogEntry) (ls : Logs) : allEntries (l :: ls) = l.2 ++ allEntries ls := by
  unfold allEntries; rw [List.flatMap_cons]

theorem roundFor_entries (c : Nat) (logs : Logs) : (roundFor c logs).map (·.2) = forCid c (allEntries logs) := by
  induction logs with
  | nil => rfl
  | cons l t ih => rw [roundFor_cons, allEntries_cons, forCid_append, List.map_append, ih]; simp [Function.comp_def]

/-- the members' behaviour in a round: each runs a local sweep under its own condition -/
structure Sweeper (I : PinMap → Prop) (act : Actor → PinMap → Acc) where
  cond : Actor → Pin → Bool
  run : Actor → PinMap → Pin → C04.Out
  isLocal : ∀ a, IsLocal I (run a)
  eq : ∀ a st, act a st = sweepAll (cond a) (run a) st

section rounds
variable {I : PinMap → Prop} {act : Actor → PinMap → Acc}

theorem act_inv (S : Sweeper I act) (a : Actor) (st : PinMap) (h : I st) : I (act a st).st := by
  rw [S.eq]; exact (sweepAll_spec (S.isLocal a) _ st h).1

theorem act_commit (S : Sweeper I act) (a : Actor) (st : PinMap) (h : I st) :
    (act a st).st = commitAll st (act a st).log := by
  rw [S.eq]; exact (sweepAll_spec (S.isLocal a) _ st h).2.1

/-- the pinset a serial round leaves is the commit, in acting order, of everything that was logged -/
theorem roundWith_commit (S : Sweeper I act) (s : List Actor) (pre : PinMap) (h : I pre) :
    I (roundWith act s pre).1 ∧ (roundWith act s pre).1 = commitAll pre (allEntries (roundWith act s pre).2) := by
  induction s generalizing pre with
  | nil => exact ⟨h, rfl⟩
  | cons a t ih =>
    rw [roundWith_cons]
    obtain ⟨i1, i2⟩ := ih (act a pre).st (act_inv S a pre h)
    refine ⟨i1, ?_⟩
    show (roundWith act t (act a pre).st).1 = _
    rw [allEntries_cons, commitAll_append, ← act_commit S a pre h]
    exact i2

/-- members that are idle on `c` (whatever they find for it) leave no trace for `c` -/
theorem roundWith_idle (S : Sweeper I act) (c : Nat) (s : List Actor) (pre : PinMap) (h : I pre)
    (hidle : ∀ a ∈ s, ∀ x, x.cid = c → S.cond a x = false) :
    roundFor c (roundWith act s pre).2 = [] ∧ (roundWith act s pre).1.get c = pre.get c := by
  induction s generalizing pre with
  | nil => exact ⟨rfl, rfl⟩
  | cons a t ih =>
    rw [roundWith_cons, roundFor_cons]
    obtain ⟨j1, j2⟩ := ih (act a pre).st (act_inv S a pre h) (fun b hb => hidle b (by simp [hb]))
    have := sweepAll_idle (S.isLocal a) (S.cond a) pre h c (hidle a (by simp))
    rw [← S.eq] at this
    refine ⟨?_, ?_⟩
    · show List.map _ (forCid c (act a pre).log) ++ _ = _
      rw [this.1, j1]; rfl
    · show (roundWith act t (act a pre).st).1.get c = _
      rw [j2, this.2]

/-- **The round, cid by cid.** If `d` is the only member of the schedule that may act on `c`, then over the
    whole serial round — wherever `d` stands in the schedule — the operations logged for `c` are exactly the
    ones `d` logs when it handles the event alone on the pre-state, and the entry the round leaves for `c`
    is the one `d` alone would leave. -/
theorem roundWith_decider (S : Sweeper I act) (c : Nat) (s1 s2 : List Actor) (d : Actor) (pre : PinMap) (h : I pre)
    (h1 : ∀ a ∈ s1, ∀ x, x.cid = c → S.cond a x = false)
    (h2 : ∀ a ∈ s2, ∀ x, x.cid = c → S.cond a x = false) :
    roundFor c (roundWith act (s1 ++ d :: s2) pre).2 = (forCid c (act d pre).log).map (fun e => (d.pc.self, e)) ∧
    (roundWith act (s1 ++ d :: s2) pre).1.get c = (act d pre).st.get c := by
  induction s1 generalizing pre with
  | nil =>
    rw [List.nil_append, roundWith_cons, roundFor_cons]
    obtain ⟨j1, j2⟩ := roundWith_idle S c s2 (act d pre).st (act_inv S d pre h) h2
    refine ⟨?_, j2⟩
    show _ ++ roundFor c (roundWith act s2 (act d pre).st).2 = _
    rw [j1, List.append_nil]
  | cons a t ih =>
    rw [List.cons_append, roundWith_cons, roundFor_cons]
    have hid := sweepAll_idle (S.isLocal a) (S.cond a) pre h c (h1 a (by simp))
    rw [← S.eq] at hid
    obtain ⟨j1, j2⟩ := ih (act a pre).st (act_inv S a pre h) (fun b hb => h1 b (by simp [hb]))
    have hc := sweepAll_congr (S.isLocal d) (S.cond d) (act a pre).st pre (act_inv S a pre h) h c hid.2
    rw [← S.eq, ← S.eq] at hc
    refine ⟨?_, ?_⟩
    · show List.map _ (forCid c (act a pre).log) ++ roundFor c (roundWith act (t ++ d :: s2) (act a pre).st).2 = _
      rw [hid.1, j1, hc.1]; rfl
    · show (roundWith act (t ++ d :: s2) (act a pre).st).1.get c = _
      rw [j2, hc.2]

/-- snapshot discipline, cid by cid: the same operations as in the serial round -/
theorem snap_idle (S : Sweeper I act) (c : Nat) (s : List Actor) (pre : PinMap) (h : I pre)
    (hidle : ∀ a ∈ s, ∀ x, x.cid = c → S.cond a x = false) : roundFor c (snapLogsWith act s pre) = [] := by
  induction s with
  | nil => rfl
  | cons a t ih =>
    show roundFor c ((a.pc.self, (act a pre).log) :: snapLogsWith act t pre) = _
    rw [roundFor_cons, ih (fun b hb => hidle b (by simp [hb]))]
    have := sweepAll_idle (S.isLocal a) (S.cond a) pre h c (hidle a (by simp))
    rw [← S.eq] at this
    show List.map _ (forCid c (act a pre).log) ++ _ = _
    rw [this.1]; rfl

theorem snap_decider (S : Sweeper I act) (c : Nat) (s1 s2 : List Actor) (d : Actor) (pre : PinMap) (h : I pre)
    (h1 : ∀ a ∈ s1, ∀ x, x.cid = c → S.cond a x = false)
    (h2 : ∀ a ∈ s2, ∀ x, x.cid = c → S.cond a x = false) :
    roundFor c (snapLogsWith act (s1 ++ d :: s2) pre) = (forCid c (act d pre).log).map (fun e => (d.pc.self, e)) := by
  have e : snapLogsWith act (s1 ++ d :: s2) pre =
      snapLogsWith act s1 pre ++ (d.pc.self, (act d pre).log) :: snapLogsWith act s2 pre := by
    simp [snapLogsWith]
  have happ : ∀ a b : Logs, roundFor c (a ++ b) = roundFor c a ++ roundFor c b := by
    intro a b; simp [roundFor]
  rw [e, happ, roundFor_cons, snap_idle S c s1 pre h h1, snap_idle S c s2 pre h h2]
  simp

end rounds

/-! ### splitting a schedule at the one member that may act -/

theorem split_at_unique {α} (P : α → Prop) (key : α → Nat) (s : List α) (hnd : (s.map key).Nodup)
    (huniq : ∀ a ∈ s, ∀ b ∈ s, P a → P b → key a = key b) :
    (∀ a ∈ s, ¬ P a) ∨ ∃ s1 d s2, s = s1 ++ d :: s2 ∧ P d ∧ (∀ a ∈ s1, ¬ P a) ∧ (∀ a ∈ s2, ¬ P a) := by
  by_cases hex : ∃ d ∈ s, P d
  · right
    obtain ⟨d, hd, hP⟩ := hex
    obtain ⟨s1, s2, rfl⟩ := List.append_of_mem hd
    refine ⟨s1, d, s2, rfl, hP, ?_, ?_⟩
    · intro a ha hPa
      have hk := huniq a (by simp [ha]) d (by simp) hPa hP
      rw [List.map_append, List.map_cons, List.nodup_append] at hnd
      exact hnd.2.2 (key a) (List.mem_map.2 ⟨a, ha, rfl⟩) (key d) (by simp) hk
    · intro a ha hPa
      have hk := huniq a (by simp [ha]) d (by simp) hPa hP
      rw [List.map_append, List.map_cons, List.nodup_append, List.nodup_cons] at hnd
      exact hnd.2.1.1 (hk ▸ List.mem_map.2 ⟨a, ha, rfl⟩)
  · left
    intro a ha hP
    exact hex ⟨a, ha, hP⟩

/-! ### the two calls are local -/

theorem pinOp_log_local (cfg : C04.Cfg) (st st' : PinMap) (p : Pin) (f : Nat) (ch : List Nat)
    (h : st.get p.cid = st'.get p.cid) :
    (C04.pinOp cfg st p [f] ch).log = (C04.pinOp cfg st' p [f] ch).log := by
  unfold C04.pinOp
  simp only [List.isEmpty_cons, Bool.false_eq_true, if_false]
  by_cases hf : cfg.follower = true
  · simp only [hf, if_true]; rfl
  · simp only [hf, Bool.false_eq_true, if_false]
    unfold C04.pinBody
    simp only [h]
    split_ifs
    · rfl
    · rfl
    · rfl
    · rfl
    · split <;> rfl
    · rfl

theorem repinOut_local (pc : PeerCfg) (f : Nat) (ch : Chosen) :
    IsLocal (fun st => st.wf = true) (repinOut pc f ch) where
  wf := fun _ h => h
  inv := fun st x h => C04.shape_wf (C04.shape_pinOp pc.cfg st { x with allocs := [] } [f] (ch x.cid)) h
  post := fun st x _ => shape_post (C04.shape_pinOp pc.cfg st { x with allocs := [] } [f] (ch x.cid))
  cids := fun st x _ e he => by
    have := shape_cids (C04.shape_pinOp pc.cfg st { x with allocs := [] } [f] (ch x.cid)) e he
    simpa using this
  loc := fun st st' x _ _ hg => pinOp_log_local pc.cfg st st' { x with allocs := [] } f (ch x.cid) hg

/-- pinsets of plain data pins (no sharded content) -/
def allData (st : PinMap) : Prop := st.wf = true ∧ ∀ q ∈ st, q.type = .dataT

theorem unpinOp_data (cfg : C04.Cfg) (st : PinMap) (c : Nat) (hd : ∀ q ∈ st, q.type = .dataT) :
    C04.unpinOp cfg st c =
      if cfg.follower then C04.err st else
      match st.get c with
      | none => C04.err st
      | some p => { res := some p, post := st.erase c, log := [.logUnpin c] } := by
  unfold C04.unpinOp
  split_ifs
  · rfl
  · cases hg : st.get c with
    | none => rfl
    | some p =>
      have := hd p (get_some_mem hg).1
      simp only [this]

theorem mem_erase_sub' {m : PinMap} {c : Nat} {q : Pin} (h : q ∈ PinMap.erase m c) : q ∈ m := by
  unfold PinMap.erase at h; exact List.mem_of_mem_filter h

theorem unpinOut_local (pc : PeerCfg) : IsLocal allData (unpinOut pc) where
  wf := fun _ h => h.1
  inv := fun st x h => by
    unfold unpinOut
    rw [unpinOp_data _ _ _ h.2]
    split_ifs
    · exact h
    · split
      · exact h
      · exact ⟨wf_erase h.1 _, fun q hq => h.2 q (mem_erase_sub' hq)⟩
  post := fun st x h => by
    unfold unpinOut
    rw [unpinOp_data _ _ _ h.2]
    split_ifs
    · rfl
    · split <;> rfl
  cids := fun st x h e he => by
    unfold unpinOut at he
    rw [unpinOp_data _ _ _ h.2] at he
    split_ifs at he
    · cases he
    · split at he
      · cases he
      · rw [List.mem_singleton] at he; subst he; rfl
  loc := fun st st' x h h' hg => by
    unfold unpinOut
    rw [unpinOp_data _ _ _ h.2, unpinOp_data _ _ _ h'.2, hg]
    split_ifs
    · rfl
    · cases st'.get x.cid <;> rfl

end CV.C10
