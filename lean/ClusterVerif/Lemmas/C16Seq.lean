import ClusterVerif.Model.C16Seq
import ClusterVerif.Gen.C16
/-! # C16, round 8c — the interpreted statement sequences of `Pin` / `Unpin` are the transcribed model -/
namespace CV.C16.Seq
open CV.C16 CV.C16.Dec

theorem addCall_ok_or_err (t : Table) (c : Nat) (d : Int) (b : Beh) :
    (addCall t c d b).1 = .ok ∨ (addCall t c d b).1 = .err := by
  unfold addCall; split <;> (try split) <;> simp

theorem asked_neg1 : asked (-1) = .r := by decide

/-- `Pin`'s regenerated statement list, interpreted, is `pin` — for every input -/
theorem interp_pin (i : Input) : (interp i Gen.pinSeq (init i)).map (·.1) = some (pin i) := by
  cases h0 : lsCid i.table i.cid (typeRec i.depth) (clsFirst (i.beh 0)) with
  | err => simp [Gen.pinSeq, pin, interp, init, lookupArg, h0, done]
  | status s =>
    by_cases hs : s = asked i.depth
    · simp [Gen.pinSeq, pin, interp, init, lookupArg, depthOf, isPinned, h0, hs, done]
    · cases hsrc : i.src with
      | none =>
        rcases addCall_ok_or_err i.table i.cid i.depth (i.beh 1) with ha | ha <;>
          simp [Gen.pinSeq, pin, interp, init, lookupArg, depthOf, cidOf, isPinned, h0, hs, hsrc, done, ha]
      | some f =>
        cases h1 : lsCid i.table f i.modeRec (clsFirst (i.beh 1)) with
        | err =>
          rcases addCall_ok_or_err i.table i.cid i.depth (i.beh 2) with ha | ha <;>
            simp [Gen.pinSeq, pin, interp, init, lookupArg, depthOf, cidOf, isPinned, h0, hs, hsrc, h1, done, ha]
        | status s1 =>
          by_cases h1r : s1 = .r
          · simp [Gen.pinSeq, pin, interp, init, lookupArg, depthOf, cidOf, isPinned, asked_neg1, h0, hs, hsrc, h1, h1r, done]
          · rcases addCall_ok_or_err i.table i.cid i.depth (i.beh 2) with ha | ha <;>
              simp [Gen.pinSeq, pin, interp, init, lookupArg, depthOf, cidOf, isPinned, asked_neg1, h0, hs, hsrc, h1, h1r, done, ha]

/-- `Unpin`'s regenerated statement list, interpreted, is `unpin` — for every input -/
theorem interp_unpin (i : Input) : (interp i Gen.unpinSeq (init i)).map (·.1) = some (unpin i) := by
  by_cases hd : i.unpinDisable = true
  · simp [Gen.unpinSeq, unpin, interp, init, hd, done]
  · simp only [Gen.unpinSeq, unpin, interp, init, hd, rmPost, rmCall]
    cases clsAt false (i.beh 0) <;> simp [done, npTexts] <;> (cases rmHonest i.table i.cid <;> simp)

theorem runSeq_run (i : Input) : (runSeq Gen.pinSeq Gen.unpinSeq i).map (·.1) = some (run i) := by
  unfold runSeq run
  cases i.op with
  | pin => exact interp_pin i
  | unpin => exact interp_unpin i
  | ls => rfl

theorem allowedSeq_allowed (i : Input) (o : Output) : allowedSeq Gen.pinSeq Gen.unpinSeq i o = allowed i o := by
  have h := runSeq_run i
  unfold allowedSeq allowed
  cases hr : runSeq Gen.pinSeq Gen.unpinSeq i with
  | none => rw [hr] at h; simp at h
  | some x => rw [hr] at h; simp at h; obtain ⟨m, b⟩ := x; simp at h; subst h; rfl

end CV.C16.Seq
