import ClusterVerif.Spec.C16
import Mathlib.Tactic.Cases
import Mathlib.Tactic.SplitIfs
import Mathlib.Tactic.ByCases

/-! Helper lemmas for Props/C16: one group per request of the conversation. -/
namespace CV.C16

@[simp] theorem set_same (t : Table) (c : Nat) (s : PState) : (t.set c s) c = s := by
  simp [Table.set]

theorem set_other (t : Table) (c x : Nat) (s : PState) (h : x ≠ c) : (t.set c s) x = t x := by
  simp [Table.set, h]

theorem wanted_eq_asked (d : Int) : wanted d = asked d := rfl

theorem asked_ne_u (d : Int) : asked d ≠ .u := by
  unfold asked; split <;> simp

theorem asked_typeRec (d : Int) : (if typeRec d then PState.r else PState.d) = asked d := by
  unfold typeRec asked
  by_cases h : d = 0 <;> simp [h]

/-! ### pin/ls -/

/-- the connector sees "recursive" only from a daemon that holds a recursive pin and was asked for recursive pins -/
theorem lsCid_r (t : Table) (c : Nat) (tr : Bool) (b : Beh) (h : lsCid t c tr b = .status .r) :
    t c = .r ∧ tr = true := by
  unfold lsCid at h
  cases tr <;> split at h <;> (try split_ifs at h) <;> simp_all

/-- the short-cut is taken only when the daemon really holds the CID as asked -/
theorem lsCid_asked (t : Table) (c : Nat) (d : Int) (b : Beh)
    (h : lsCid t c (typeRec d) b = .status (asked d)) : t c = asked d := by
  have hu := asked_ne_u d
  unfold lsCid at h
  rw [asked_typeRec] at h
  split at h <;> (try split_ifs at h) <;> simp_all

theorem lsCid_honest (t : Table) (c : Nat) (d : Int) (b : Beh) (hb : clsAt false b = .honest) :
    lsCid t c (typeRec d) b = .status (if t c = asked d then t c else .u) := by
  unfold lsCid
  rw [asked_typeRec, hb]
  split_ifs <;> simp

/-! ### pin/add -/

theorem addHonest_cid (t t' : Table) (c : Nat) (d : Int) (h : addHonest t c (typeRec d) = some t') :
    t' c = asked d := by
  unfold addHonest at h
  rw [← asked_typeRec]
  split_ifs at h with h1 h2 <;> simp at h <;> subst h <;> simp [h1]

theorem addHonest_frame (t t' : Table) (c x : Nat) (rec : Bool) (h : addHonest t c rec = some t')
    (hx : x ≠ c) : t' x = t x := by
  unfold addHonest at h
  split_ifs at h <;> simp at h <;> subst h <;> simp [set_other, hx]

theorem addCall_ok (t : Table) (c : Nat) (d : Int) (b : Beh) (h : (addCall t c d b).1 = .ok)
    (hs : clsAt true b ≠ .streamErr) : (addCall t c d b).2 c = asked d := by
  unfold addCall at h ⊢
  split at h <;> (try split at h) <;> simp_all
  all_goals (exact addHonest_cid _ _ _ _ (by assumption))

theorem addCall_frame (t : Table) (c x : Nat) (d : Int) (b : Beh) (hx : x ≠ c) :
    (addCall t c d b).2 x = t x := by
  unfold addCall
  split <;> (try split) <;> simp_all
  all_goals (exact addHonest_frame _ _ _ _ _ (by assumption) hx)

/-- a recursive pin survives any pin/add on the same CID -/
theorem addHonest_keeps_r (t t' : Table) (c : Nat) (rec : Bool) (hr : t c = .r)
    (h : addHonest t c rec = some t') : t' c = .r := by
  unfold addHonest at h
  split_ifs at h with h1 h2 <;> (try simp at h) <;> (try contradiction) <;> (try subst h) <;> simp_all

theorem addCall_keeps_r (t : Table) (c : Nat) (d : Int) (b : Beh) (hr : t c = .r) :
    (addCall t c d b).2 c = .r := by
  unfold addCall
  split <;> (try split) <;> simp_all
  all_goals (exact addHonest_keeps_r _ _ _ _ hr (by assumption))

/-- which answers to pin/add make `Pin` return nil -/
theorem addCall_ok_cls (t : Table) (c : Nat) (d : Int) (b : Beh) (h : (addCall t c d b).1 = .ok) :
    ((clsAt true b = .honest ∨ clsAt true b = .slowOk) ∧ (addHonest t c (typeRec d)).isSome) ∨
      clsAt true b = .streamErr := by
  unfold addCall at h
  split at h <;> (try split at h) <;> simp_all

theorem addCall_res (t : Table) (c : Nat) (d : Int) (b : Beh) :
    (addCall t c d b).1 = .ok ∨ (addCall t c d b).1 = .err := by
  unfold addCall
  split <;> (try split) <;> simp

/-! ### pin/update -/

theorem updHonest_cid (t t' : Table) (f c : Nat) (h : updHonest t f c false = some t') : t' c = .r := by
  unfold updHonest at h
  split_ifs at h with h1 h2 h3 <;> simp at h <;> subst h <;> simp_all

theorem updHonest_frame (t t' : Table) (f c x : Nat) (h : updHonest t f c false = some t') (hx : x ≠ c) :
    t' x = t x := by
  unfold updHonest at h
  split_ifs at h with h1 h2 h3 <;> (try simp at h) <;> (try contradiction) <;> (try subst h) <;>
    (try simp [set_other, hx])

theorem updCall_ok (t : Table) (f c : Nat) (b : Beh) (h : (updCall t f c b).1 = .ok) :
    (updCall t f c b).2 c = .r := by
  unfold updCall at h ⊢
  split at h <;> (try split at h) <;> simp_all
  all_goals (exact updHonest_cid _ _ _ _ (by assumption))

theorem updCall_frame (t : Table) (f c x : Nat) (b : Beh) (hx : x ≠ c) :
    (updCall t f c b).2 x = t x := by
  unfold updCall
  split <;> (try split) <;> simp_all
  all_goals (exact updHonest_frame _ _ _ _ _ (by assumption) hx)

/-- with `from = to` a pin/update changes nothing -/
theorem updCall_same (t : Table) (c : Nat) (b : Beh) (hr : t c = .r) : (updCall t c c b).2 c = .r := by
  unfold updCall
  split <;> (try split) <;> simp_all
  all_goals (exact updHonest_cid _ _ _ _ (by assumption))

/-! ### pin/rm -/

theorem rmHonest_some (t t' : Table) (c : Nat) (h : rmHonest t c = some t') : held (t' c) = false := by
  unfold rmHonest at h
  split_ifs at h <;> simp at h
  subst h
  simp [held]

theorem rmHonest_none (t : Table) (c : Nat) (h : rmHonest t c = none) : held (t c) = false := by
  unfold rmHonest at h
  split_ifs at h with h1 <;> simp at h
  simp only [not_or] at h1
  simp [held, h1.1, h1.2]

theorem rmCall_ok (t : Table) (c : Nat) (b : Beh) (h : (rmCall t c b).1 = .ok)
    (hl : ¬ (clsAt false b = .notPinned ∧ held (t c) = true)) : held ((rmCall t c b).2 c) = false := by
  unfold rmCall at h ⊢
  split at h <;> (try split at h) <;> simp_all
  all_goals first
    | exact rmHonest_some _ _ _ (by assumption)
    | exact rmHonest_none _ _ (by assumption)

theorem rmCall_absent (t : Table) (c : Nat) (b : Beh) (ha : held (t c) = false)
    (hb : clsAt false b = .honest ∨ clsAt false b = .notPinned) : (rmCall t c b).1 = .ok := by
  unfold rmCall rmHonest
  rcases hb with hb | hb <;> rw [hb] <;> simp_all [held]


/-! ### the five ways through `Pin` -/

theorem pin_cases (i : Input) :
    let r0 := Req.ls i.cid (typeRec i.depth)
    (lsCid i.table i.cid (typeRec i.depth) (i.beh 0) = .err ∧ pin i = ⟨.err, [r0], i.table, 0⟩) ∨
    (lsCid i.table i.cid (typeRec i.depth) (i.beh 0) = .status (asked i.depth) ∧
        pin i = ⟨.ok, [r0], i.table, 0⟩) ∨
    (∃ s, lsCid i.table i.cid (typeRec i.depth) (i.beh 0) = .status s ∧ s ≠ asked i.depth ∧ i.src = none ∧
        pin i = ⟨(addCall i.table i.cid i.depth (i.beh 1)).1, [r0, addReq i.cid i.depth],
                 (addCall i.table i.cid i.depth (i.beh 1)).2, min i.norig 10⟩) ∨
    (∃ s f, lsCid i.table i.cid (typeRec i.depth) (i.beh 0) = .status s ∧ s ≠ asked i.depth ∧ i.src = some f ∧
        lsCid i.table f i.modeRec (i.beh 1) = .status .r ∧
        pin i = ⟨(updCall i.table f i.cid (i.beh 2)).1, [r0, .ls f i.modeRec, .upd f i.cid false],
                 (updCall i.table f i.cid (i.beh 2)).2, min i.norig 10⟩) ∨
    (∃ s f, lsCid i.table i.cid (typeRec i.depth) (i.beh 0) = .status s ∧ s ≠ asked i.depth ∧ i.src = some f ∧
        lsCid i.table f i.modeRec (i.beh 1) ≠ .status .r ∧
        pin i = ⟨(addCall i.table i.cid i.depth (i.beh 2)).1, [r0, .ls f i.modeRec, addReq i.cid i.depth],
                 (addCall i.table i.cid i.depth (i.beh 2)).2, min i.norig 10⟩) := by
  intro r0
  unfold pin
  cases h0 : lsCid i.table i.cid (typeRec i.depth) (i.beh 0) with
  | err => left; simp [r0]
  | status s =>
    right
    by_cases hs : s = asked i.depth
    · left; simp [hs, r0]
    · right
      cases hsrc : i.src with
      | none => left; exact ⟨s, rfl, hs, rfl, by simp [hs, r0]⟩
      | some f =>
        right
        by_cases hu : lsCid i.table f i.modeRec (i.beh 1) = .status .r
        · left; exact ⟨s, f, rfl, hs, rfl, hu, by simp [hs, hu, r0]⟩
        · right; exact ⟨s, f, rfl, hs, rfl, hu, by simp [hs, hu, r0]⟩

/-! ### failures are reported -/

theorem clsAt_false_ne_noProgress (b : Beh) : clsAt false b ≠ .noProgress := by
  cases b <;> simp [clsAt, clsOf]

theorem lsCid_of_failure (i : Input) (x : Nat) (tr : Bool) (b : Beh)
    (hf : failure i 0 (.ls x tr) (clsAt false b) = true) : lsCid i.table x tr b = .err := by
  unfold failure at hf
  unfold lsCid
  cases hc : clsAt false b <;> simp_all

theorem addCall_of_failure (i : Input) (k : Nat) (b : Beh)
    (hf : failure i k (addReq i.cid i.depth) (clsAt true b) = true) (hs : clsAt true b ≠ .streamErr) :
    (addCall i.table i.cid i.depth b).1 = .err := by
  unfold failure addReq at hf
  unfold addCall addHonest
  cases hc : clsAt true b <;> simp_all [refuses] <;> split_ifs <;> simp_all

theorem updCall_res (t : Table) (f c : Nat) (b : Beh) :
    (updCall t f c b).1 = .ok ∨ (updCall t f c b).1 = .err ∨ (updCall t f c b).1 = .errctx := by
  unfold updCall
  split <;> (try split) <;> simp

theorem updCall_of_failure (i : Input) (k f : Nat) (u : Bool) (b : Beh)
    (hf : failure i k (.upd f i.cid u) (clsAt false b) = true) :
    (updCall i.table f i.cid b).1 ≠ .ok := by
  unfold failure at hf
  unfold updCall updHonest
  cases hc : clsAt false b <;> simp_all [refuses] <;> split_ifs <;> simp_all

theorem rmCall_res (t : Table) (c : Nat) (b : Beh) :
    (rmCall t c b).1 = .ok ∨ (rmCall t c b).1 = .err := by
  unfold rmCall
  split <;> (try split) <;> simp

theorem rmCall_of_failure (i : Input) (k : Nat) (b : Beh)
    (hf : failure i k (.rm i.cid) (clsAt false b) = true) : (rmCall i.table i.cid b).1 = .err := by
  unfold failure at hf
  unfold rmCall rmHonest
  cases hc : clsAt false b <;> simp_all [held] <;> split_ifs <;> simp_all

/-- a pin/add that makes no progress ends in an error -/
theorem addCall_of_stall (t : Table) (c : Nat) (d : Int) (b : Beh)
    (h : clsAt true b = .stall ∨ clsAt true b = .noProgress) : (addCall t c d b).1 = .err := by
  unfold addCall
  rcases h with h | h <;> simp [h]

@[simp] theorem isPinning_addReq (c : Nat) (d : Int) : isPinning (addReq c d) = true := rfl
@[simp] theorem isAdd_addReq (c : Nat) (d : Int) : (addReq c d).isAdd = true := rfl

/-! ### lists -/

theorem swarmOk_zero : ∀ l : List Nat, swarmOk 0 l = true → l = []
  | [], _ => rfl
  | [a], h => by simp [swarmOk] at h
  | a :: b :: rest, h => by
    simp only [swarmOk, Bool.and_eq_true] at h
    have := swarmOk_zero (b :: rest) h.2
    simp at this

end CV.C16
