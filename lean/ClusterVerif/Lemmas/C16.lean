import ClusterVerif.Spec.C16
import ClusterVerif.Lemmas.C16Http
import Mathlib.Tactic.Cases
import Mathlib.Tactic.SplitIfs
import Mathlib.Tactic.ByCases
import Mathlib.Tactic.Tauto

/-! Helper lemmas for Props/C16: one group per request of the conversation. -/
namespace CV.C16

@[simp] theorem set_same (t : Table) (c : Nat) (s : PState) : (t.set c s) c = s := by
  simp [Table.set]

theorem set_other (t : Table) (c x : Nat) (s : PState) (h : x ≠ c) : (t.set c s) x = t x := by
  simp [Table.set, h]

theorem wanted_eq_asked (d : Int) : wanted d = asked d := rfl

theorem asked_ne_u (d : Int) : asked d ≠ .u := by
  unfold asked; split <;> simp

theorem asked_typeRec (d : Int) : (if typeRec d then PState.r else PState.d) = asked d := by
  unfold typeRec asked
  by_cases h : d = 0 <;> simp [h]

/-! ### pin/ls -/

/-- the connector sees "recursive" for the source only from a daemon that holds a recursive pin and was
asked for recursive pins -/
theorem lsCid_r (t : Table) (c : Nat) (tr : Bool) (k : Cls) (hk : k ≠ .honestAny)
    (h : lsCid t c tr k = .status .r) : t c = .r ∧ tr = true := by
  unfold lsCid at h
  cases tr <;> split at h <;> (try split_ifs at h) <;> simp_all

/-- … and from a daemon that lists pins whatever the filter: still only when it holds a recursive pin -/
theorem lsCid_r_any (t : Table) (c : Nat) (tr : Bool) (k : Cls)
    (h : lsCid t c tr k = .status .r) : t c = .r ∧ (k ≠ .honestAny → tr = true) := by
  by_cases hk : k = .honestAny
  · subst hk
    simp only [lsCid] at h
    exact ⟨by simpa using h, fun h' => absurd rfl h'⟩
  · exact ⟨(lsCid_r t c tr k hk h).1, fun _ => (lsCid_r t c tr k hk h).2⟩

/-- the short-cut is taken only when the daemon really holds the CID as asked -/
theorem lsCid_asked (t : Table) (c : Nat) (d : Int) (k : Cls)
    (h : lsCid t c (typeRec d) k = .status (asked d)) : t c = asked d := by
  have hu := asked_ne_u d
  unfold lsCid at h
  rw [asked_typeRec] at h
  split at h <;> (try split_ifs at h) <;> simp_all

theorem lsCid_honest (t : Table) (c : Nat) (d : Int) :
    lsCid t c (typeRec d) .honest = .status (if t c = asked d then t c else .u) := by
  unfold lsCid
  rw [asked_typeRec]
  split_ifs <;> simp

theorem lsCid_honestAny (t : Table) (c : Nat) (tr : Bool) : lsCid t c tr .honestAny = .status (t c) := rfl

/-! ### pin/add -/

theorem addHonest_cid (t t' : Table) (c : Nat) (d : Int) (h : addHonest t c (typeRec d) = some t') :
    t' c = asked d := by
  unfold addHonest at h
  rw [← asked_typeRec]
  split_ifs at h with h1 h2 <;> simp at h <;> subst h <;> simp [h1]

theorem addHonest_frame (t t' : Table) (c x : Nat) (rec : Bool) (h : addHonest t c rec = some t')
    (hx : x ≠ c) : t' x = t x := by
  unfold addHonest at h
  split_ifs at h <;> simp at h <;> subst h <;> simp [set_other, hx]

theorem addCall_ok (t : Table) (c : Nat) (d : Int) (b : Beh) (h : (addCall t c d b).1 = .ok) :
    (addCall t c d b).2 c = asked d := by
  unfold addCall at h ⊢
  split at h <;> (try split at h) <;> simp_all
  all_goals (exact addHonest_cid _ _ _ _ (by assumption))

theorem addCall_frame (t : Table) (c x : Nat) (d : Int) (b : Beh) (hx : x ≠ c) :
    (addCall t c d b).2 x = t x := by
  unfold addCall
  split <;> (try split) <;> simp_all
  all_goals (exact addHonest_frame _ _ _ _ _ (by assumption) hx)

/-- a recursive pin survives any pin/add on the same CID -/
theorem addHonest_keeps_r (t t' : Table) (c : Nat) (rec : Bool) (hr : t c = .r)
    (h : addHonest t c rec = some t') : t' c = .r := by
  unfold addHonest at h
  split_ifs at h <;> (try simp at h) <;> (try subst h) <;> simp_all

theorem addCall_keeps_r (t : Table) (c : Nat) (d : Int) (b : Beh) (hr : t c = .r) :
    (addCall t c d b).2 c = .r := by
  unfold addCall
  split <;> (try split) <;> simp_all
  all_goals (exact addHonest_keeps_r _ _ _ _ hr (by assumption))

/-- which answers to pin/add make `Pin` return nil -/
theorem addCall_ok_cls (t : Table) (c : Nat) (d : Int) (b : Beh) (h : (addCall t c d b).1 = .ok) :
    (clsAt true b = .honest ∨ clsAt true b = .slowOk) ∧ (addHonest t c (typeRec d)).isSome := by
  unfold addCall at h
  split at h <;> (try split at h) <;> simp_all

theorem addCall_res (t : Table) (c : Nat) (d : Int) (b : Beh) :
    (addCall t c d b).1 = .ok ∨ (addCall t c d b).1 = .err := by
  unfold addCall
  split <;> (try split) <;> simp

/-! ### pin/update -/

theorem updHonest_cid (t t' : Table) (f c : Nat) (h : updHonest t f c false = some t') : t' c = .r := by
  unfold updHonest at h
  split_ifs at h with h1 h2 h3 <;> simp at h <;> subst h <;> simp_all

theorem updHonest_frame (t t' : Table) (f c x : Nat) (h : updHonest t f c false = some t') (hx : x ≠ c) :
    t' x = t x := by
  unfold updHonest at h
  split_ifs at h with h1 h2 h3 <;> (try simp at h) <;> (try contradiction) <;> (try subst h) <;>
    (try simp [set_other, hx])

theorem updCall_ok (t : Table) (f c : Nat) (b : Beh) (h : (updCall t f c b).1 = .ok) :
    (updCall t f c b).2 c = .r := by
  unfold updCall at h ⊢
  split at h <;> (try split at h) <;> simp_all
  all_goals (exact updHonest_cid _ _ _ _ (by assumption))

theorem updCall_frame (t : Table) (f c x : Nat) (b : Beh) (hx : x ≠ c) :
    (updCall t f c b).2 x = t x := by
  unfold updCall
  split <;> (try split) <;> simp_all
  all_goals (exact updHonest_frame _ _ _ _ _ (by assumption) hx)

/-- with `from = to` a pin/update changes nothing -/
theorem updCall_same (t : Table) (c : Nat) (b : Beh) (hr : t c = .r) : (updCall t c c b).2 c = .r := by
  unfold updCall
  split <;> (try split) <;> simp_all
  all_goals (exact updHonest_cid _ _ _ _ (by assumption))

/-! ### pin/rm -/

theorem rmHonest_some (t t' : Table) (c : Nat) (h : rmHonest t c = some t') : held (t' c) = false := by
  unfold rmHonest at h
  split_ifs at h <;> simp at h
  subst h
  simp [held]

theorem rmHonest_none (t : Table) (c : Nat) (h : rmHonest t c = none) : held (t c) = false := by
  unfold rmHonest at h
  split_ifs at h with h1 <;> simp at h
  simp only [not_or] at h1
  simp [held, h1.1, h1.2]

theorem rmCall_ok (t : Table) (c : Nat) (b : Beh) (h : (rmCall t c b).1 = .ok)
    (hl : ¬ (clsAt false b = .notPinned ∧ held (t c) = true)) : held ((rmCall t c b).2 c) = false := by
  unfold rmCall at h ⊢
  split at h <;> (try split at h) <;> simp_all
  all_goals first
    | exact rmHonest_some _ _ _ (by assumption)
    | exact rmHonest_none _ _ (by assumption)

theorem rmCall_absent (t : Table) (c : Nat) (b : Beh) (ha : held (t c) = false)
    (hb : clsAt false b = .honest ∨ clsAt false b = .notPinned) : (rmCall t c b).1 = .ok := by
  unfold rmCall rmHonest
  rcases hb with hb | hb <;> rw [hb] <;> simp_all [held]


/-! ### the five ways through `Pin` -/

theorem pin_cases (i : Input) :
    let r0 := Req.ls i.cid (typeRec i.depth)
    (lsCid i.table i.cid (typeRec i.depth) (clsFirst (i.beh 0)) = .err ∧ pin i = ⟨.err, [r0], i.table, 0⟩) ∨
    (lsCid i.table i.cid (typeRec i.depth) (clsFirst (i.beh 0)) = .status (asked i.depth) ∧
        pin i = ⟨.ok, [r0], i.table, 0⟩) ∨
    (∃ s, lsCid i.table i.cid (typeRec i.depth) (clsFirst (i.beh 0)) = .status s ∧ s ≠ asked i.depth ∧ i.src = none ∧
        pin i = ⟨(addCall i.table i.cid i.depth (i.beh 1)).1, [r0, addReq i.cid i.depth],
                 (addCall i.table i.cid i.depth (i.beh 1)).2, min i.norig 10⟩) ∨
    (∃ s f, lsCid i.table i.cid (typeRec i.depth) (clsFirst (i.beh 0)) = .status s ∧ s ≠ asked i.depth ∧ i.src = some f ∧
        lsCid i.table f i.modeRec (clsFirst (i.beh 1)) = .status .r ∧
        pin i = ⟨(updCall i.table f i.cid (i.beh 2)).1, [r0, .ls f i.modeRec, .upd f i.cid false],
                 (updCall i.table f i.cid (i.beh 2)).2, min i.norig 10⟩) ∨
    (∃ s f, lsCid i.table i.cid (typeRec i.depth) (clsFirst (i.beh 0)) = .status s ∧ s ≠ asked i.depth ∧ i.src = some f ∧
        lsCid i.table f i.modeRec (clsFirst (i.beh 1)) ≠ .status .r ∧
        pin i = ⟨(addCall i.table i.cid i.depth (i.beh 2)).1, [r0, .ls f i.modeRec, addReq i.cid i.depth],
                 (addCall i.table i.cid i.depth (i.beh 2)).2, min i.norig 10⟩) := by
  intro r0
  unfold pin
  cases h0 : lsCid i.table i.cid (typeRec i.depth) (clsFirst (i.beh 0)) with
  | err => left; simp [r0]
  | status s =>
    right
    by_cases hs : s = asked i.depth
    · left; simp [hs, r0]
    · right
      cases hsrc : i.src with
      | none => left; exact ⟨s, rfl, hs, rfl, by simp [hs, r0]⟩
      | some f =>
        right
        by_cases hu : lsCid i.table f i.modeRec (clsFirst (i.beh 1)) = .status .r
        · left; exact ⟨s, f, rfl, hs, rfl, hu, by simp [hs, hu, r0]⟩
        · right; exact ⟨s, f, rfl, hs, rfl, hu, by simp [hs, hu, r0]⟩

/-! ### failures are reported -/

theorem lsCid_of_failure (i : Input) (x : Nat) (tr : Bool) (b : Beh)
    (hf : failure i 0 (.ls x tr) (clsAt false b) = true) : lsCid i.table x tr (clsFirst b) = .err := by
  unfold failure at hf
  unfold lsCid
  rcases clsFirst_eq b with h | ⟨_, h⟩
  · rw [h]; cases hc : clsAt false b <;> simp_all
  · simp [h] at hf

theorem addCall_of_failure (i : Input) (k : Nat) (b : Beh)
    (hf : failure i k (addReq i.cid i.depth) (clsAt true b) = true) :
    (addCall i.table i.cid i.depth b).1 = .err := by
  unfold failure addReq at hf
  unfold addCall addHonest
  cases hc : clsAt true b <;> simp_all [refuses] <;> split_ifs <;> simp_all

theorem updCall_res (t : Table) (f c : Nat) (b : Beh) :
    (updCall t f c b).1 = .ok ∨ (updCall t f c b).1 = .err ∨ (updCall t f c b).1 = .errctx := by
  unfold updCall
  split <;> (try split) <;> simp

theorem updCall_of_failure (i : Input) (k f : Nat) (u : Bool) (b : Beh)
    (hf : failure i k (.upd f i.cid u) (clsAt false b) = true) :
    (updCall i.table f i.cid b).1 ≠ .ok := by
  unfold failure at hf
  unfold updCall updHonest
  cases hc : clsAt false b <;> simp_all [refuses] <;> split_ifs <;> simp_all

theorem rmCall_res (t : Table) (c : Nat) (b : Beh) :
    (rmCall t c b).1 = .ok ∨ (rmCall t c b).1 = .err := by
  unfold rmCall
  split <;> (try split) <;> simp

theorem rmCall_of_failure (i : Input) (k : Nat) (b : Beh)
    (hf : failure i k (.rm i.cid) (clsAt false b) = true) : (rmCall i.table i.cid b).1 = .err := by
  unfold failure at hf
  unfold rmCall rmHonest
  cases hc : clsAt false b <;> simp_all [held]

/-- a pin/add that makes no progress ends in an error -/
theorem addCall_of_stall (t : Table) (c : Nat) (d : Int) (b : Beh)
    (h : clsAt true b = .stall ∨ clsAt true b = .noProgress) : (addCall t c d b).1 = .err := by
  unfold addCall
  rcases h with h | h <;> simp [h]

/-- a pin/update that is not answered ends in an error (the pin timeout bounds the request) -/
theorem updCall_of_stall (t : Table) (f c : Nat) (b : Beh)
    (h : clsAt false b = .stall) : (updCall t f c b).1 = .err := by
  unfold updCall
  simp [h]

/-- which answers make the calls report success -/
theorem updCall_ok_cls (t : Table) (f c : Nat) (b : Beh) (h : (updCall t f c b).1 = .ok) :
    clsAt false b = .honest ∨ clsAt false b = .badBody := by
  unfold updCall at h
  split at h <;> (try split at h) <;> simp_all

theorem rmCall_ok_cls (t : Table) (c : Nat) (b : Beh) (h : (rmCall t c b).1 = .ok) :
    clsAt false b = .honest ∨ clsAt false b = .badBody ∨ clsAt false b = .notPinned ∨
      (clsAt false b = .lostReply ∧ rmHonest t c = none) := by
  unfold rmCall at h
  split at h <;> (try split at h) <;> simp_all

theorem lsCid_found_cls (t : Table) (c : Nat) (tr : Bool) (k : Cls) (s : PState)
    (h : lsCid t c tr k = .status s) (hs : s ≠ .u) : k = .honest ∨ k = .honestAny := by
  unfold lsCid at h
  split at h <;> (try split_ifs at h) <;> simp_all

/-- `clsAt false` of a behaviour is the class of its plain form, the filter-ignoring listing read as honest -/
theorem clsAt_false_eq (b : Beh) :
    clsAt false b = clsPost b.plain ∨ (clsAt false b = .honest ∧ clsPost b.plain = .honestAny) := by
  unfold clsAt clsPlain
  simp only [Bool.false_eq_true, if_false]
  cases h : clsPost b.plain <;> simp

@[simp] theorem isPinning_addReq (c : Nat) (d : Int) : isPinning (addReq c d) = true := rfl
@[simp] theorem isAdd_addReq (c : Nat) (d : Int) : (addReq c d).isAdd = true := rfl

/-! ### lists -/

theorem swarmOk_zero : ∀ l : List Nat, swarmOk 0 l = true → l = []
  | [], _ => rfl
  | [a], h => by simp [swarmOk] at h
  | a :: b :: rest, h => by
    simp only [swarmOk, Bool.and_eq_true] at h
    have := swarmOk_zero (b :: rest) h.2
    simp at this

/-! ### the Bool clauses of the Spec read as propositions -/

theorem cPinSound_iff (i : Input) (o : Output) :
    cPinSound i o = true ↔ (i.op = .pin → o.res = .ok → o.final i.cid = wanted i.depth) := by
  simp only [cPinSound, Bool.or_eq_true, Bool.not_eq_true', Bool.and_eq_false_iff, beq_eq_false_iff_ne, beq_iff_eq]
  tauto

theorem cUnpinSound_iff (i : Input) (o : Output) :
    cUnpinSound i o = true ↔ (i.op = .unpin → o.res = .ok → held (o.final i.cid) = false) := by
  simp only [cUnpinSound, Bool.or_eq_true, Bool.not_eq_true', Bool.and_eq_false_iff, beq_eq_false_iff_ne]
  tauto

theorem cLsTruthful_iff (i : Input) (o : Output) :
    cLsTruthful i o = true ↔
      ((i.op = .ls → clsFirst (i.beh 0) = .honest →
        o.res = .st (if i.table i.cid = wanted i.depth then i.table i.cid else .u)) ∧
       (i.op = .ls → clsFirst (i.beh 0) = .honestAny → o.res = .st (i.table i.cid))) := by
  simp only [cLsTruthful, Bool.or_eq_true, Bool.not_eq_true', Bool.and_eq_false_iff, beq_eq_false_iff_ne,
    beq_iff_eq, Bool.and_eq_true]
  tauto

theorem cErrorsReported_iff (i : Input) (o : Output) :
    cErrorsReported i o = true ↔
      ((∃ x ∈ (served i o).zipIdx, failure i x.2 x.1.1 x.1.2 = true) → isSuccess o.res = false) := by
  simp only [cErrorsReported, Bool.or_eq_true, Bool.not_eq_true', List.any_eq_false]
  constructor
  · rintro (h | h) ⟨x, hx, hf⟩
    · exact absurd hf (h x hx)
    · exact h
  · intro h
    by_cases hs : isSuccess o.res = false
    · exact Or.inr hs
    · left; intro x hx hf; exact hs (h ⟨x, hx, hf⟩)

theorem cNoRequestWhenAlready_iff (i : Input) (o : Output) :
    cNoRequestWhenAlready i o = true ↔
      (i.op = .pin → i.table i.cid = wanted i.depth →
        (clsFirst (i.beh 0) = .honest ∨ clsFirst (i.beh 0) = .honestAny) →
        o.res = .ok ∧ (∀ r ∈ o.trace, isLsOf i.cid r = true) ∧ o.trace.length ≤ 1 ∧ o.swarm = [] ∧
          o.final i.cid = i.table i.cid) := by
  simp only [cNoRequestWhenAlready, Bool.or_eq_true, Bool.not_eq_true', Bool.and_eq_false_iff,
    beq_eq_false_iff_ne, beq_iff_eq, Bool.and_eq_true, List.all_eq_true, decide_eq_true_eq, List.isEmpty_iff,
    Bool.or_eq_false_iff]
  tauto

theorem cUnpinAbsentOk_iff (i : Input) (o : Output) :
    cUnpinAbsentOk i o = true ↔
      (i.op = .unpin → i.unpinDisable = false → held (i.table i.cid) = false →
        (clsAt false (i.beh 0) = .honest ∨ clsAt false (i.beh 0) = .notPinned) → o.res = .ok) := by
  simp only [cUnpinAbsentOk, Bool.or_eq_true, Bool.not_eq_true', Bool.and_eq_false_iff,
    beq_eq_false_iff_ne, beq_iff_eq, Bool.or_eq_false_iff, Bool.not_eq_false']
  cases i.unpinDisable <;> cases held (i.table i.cid) <;> simp <;> tauto

theorem cStallTimesOut_iff (i : Input) (o : Output) :
    cStallTimesOut i o = true ↔
      (i.op = .pin → (∃ x ∈ served i o, isPinning x.1 = true ∧ (x.2 = .stall ∨ x.2 = .noProgress)) →
        o.res = .err) := by
  simp only [cStallTimesOut, Bool.or_eq_true, Bool.not_eq_true', Bool.and_eq_false_iff,
    beq_eq_false_iff_ne, beq_iff_eq, List.any_eq_false, Bool.and_eq_true, Bool.or_eq_true]
  constructor
  · rintro (h | h) hop ⟨x, hx, hp⟩
    · rcases h with h | h
      · exact absurd hop h
      · exact absurd hp (h x hx)
    · exact h
  · intro h
    by_cases hop : i.op = .pin
    · by_cases he : ∃ x ∈ served i o, isPinning x.1 = true ∧ (x.2 = .stall ∨ x.2 = .noProgress)
      · exact Or.inr (h hop he)
      · left; right; intro x hx hp; exact he ⟨x, hx, hp⟩
    · exact Or.inl (Or.inl hop)

theorem cReturns_iff (o : Output) : cReturns o = true ↔ (o.res ≠ .hang ∧ o.res ≠ .panic) := by
  simp [cReturns]

theorem cPinGivesUp_iff (i : Input) (o : Output) :
    cPinGivesUp i o = true ↔ (i.op = .pin → o.res ≠ .errctx ∧ o.res ≠ .hang) := by
  by_cases h : i.op = .pin <;> simp [cPinGivesUp, h]

theorem updCall_res2 (t : Table) (f c : Nat) (b : Beh) :
    (updCall t f c b).1 = .ok ∨ (updCall t f c b).1 = .err := by
  unfold updCall
  split <;> (try split) <;> simp

theorem cUpdateOnlyIfRecursive_iff (i : Input) (o : Output) :
    cUpdateOnlyIfRecursive i o = true ↔
      (∀ f t u, Req.upd f t u ∈ o.trace → i.op = .pin ∧ i.src = some f ∧ t = i.cid ∧ i.table f = .r) := by
  simp only [cUpdateOnlyIfRecursive, List.all_eq_true]
  constructor
  · intro h f t u hm
    simpa [and_assoc] using h _ hm
  · intro h r hm
    cases r with
    | upd f t u => simpa [and_assoc] using h f t u hm
    | _ => rfl

theorem cUpdateUnpinFalse_iff (o : Output) :
    cUpdateUnpinFalse o = true ↔ (∀ f t u, Req.upd f t u ∈ o.trace → u = false) := by
  simp only [cUpdateUnpinFalse, List.all_eq_true]
  constructor
  · intro h f t u hm
    simpa using h _ hm
  · intro h r hm
    cases r with
    | upd f t u => simpa using h f t u hm
    | _ => rfl

theorem cSourceKept_iff (i : Input) (o : Output) :
    cSourceKept i o = true ↔
      (∀ s, i.src = some s → i.op = .pin →
        (s ≠ i.cid → o.final s = i.table s) ∧ (i.table s = .r → o.final s = .r)) := by
  unfold cSourceKept
  cases hsrc : i.src with
  | none => simp
  | some s =>
    simp only [Option.some.injEq, forall_eq', Bool.or_eq_true, Bool.not_eq_true', beq_eq_false_iff_ne,
      Bool.and_eq_true, beq_iff_eq, ne_eq]
    tauto

end CV.C16
