import ClusterVerif.Lemmas.C08Add
/-! Lemmas about the DECODER side of the add parameters (`fromParams` = `AddParamsFromQuery` after the pin options)
on arbitrary parameter sets — not only those `ToQueryString` writes. -/
namespace CV.C08.Add
open CV.C08

/-- the fourteen keys `AddParamsFromQuery` reads besides those of the pin options -/
def addKeys : List String :=
  ["layout", "chunker", "hash", "format", "local", "recursive", "hidden", "wrap-with-directory", "shard", "progress",
   "cid-version", "raw-leaves", "stream-channels", "nocopy"]

theorem parseBool_true_iff (s : String) :
    parseBool s = some true ↔ s = "1" ∨ s = "t" ∨ s = "T" ∨ s = "TRUE" ∨ s = "true" ∨ s = "True" := by
  unfold parseBool
  simp only [List.contains_cons, List.contains_nil, Bool.or_false, Bool.or_eq_true, beq_iff_eq]
  constructor
  · intro h
    split at h
    · assumption
    · split at h <;> simp at h
  · intro h
    rw [if_pos h]

theorem parseBool_false_iff (s : String) :
    parseBool s = some false ↔ s = "0" ∨ s = "f" ∨ s = "F" ∨ s = "FALSE" ∨ s = "false" ∨ s = "False" := by
  unfold parseBool
  simp only [List.contains_cons, List.contains_nil, Bool.or_false, Bool.or_eq_true, beq_iff_eq]
  constructor
  · intro h
    split at h
    · simp at h
    · split at h
      · assumption
      · simp at h
  · intro h
    have hn : ¬ (s = "1" ∨ s = "t" ∨ s = "T" ∨ s = "TRUE" ∨ s = "true" ∨ s = "True") := by
      rcases h with h | h | h | h | h | h <;> (subst h; decide)
    rw [if_neg hn, if_pos h]

theorem atoi_underscore (s : String) (h : s.toList.any (· == '_') = true) : atoi s = none := by
  unfold atoi
  simp [h]

theorem atoi_range {s : String} {i : Int} (h : atoi s = some i) : inInt64 i = true := by
  unfold atoi at h
  simp only [Option.ite_none_left_eq_some, Option.bind_eq_some_iff, Option.ite_none_right_eq_some] at h
  obtain ⟨_, j, _, hj, e⟩ := h
  injection e with e
  subst e; exact hj

theorem intParam_range {q : Params} {k : String} {cur i : Int} (hc : inInt64 cur = true) (h : intParam q k cur = some i) :
    inInt64 i = true := by
  unfold intParam at h
  simp only at h
  split at h
  · injection h with e; subst e; exact hc
  · exact atoi_range h

theorem getP_cons_self (k v : String) (q : Params) : getP ((k, v) :: q) k = v := by
  simp [getP, List.find?]

theorem getP_cons_ne {k k' v : String} (q : Params) (h : k' ≠ k) : getP ((k', v) :: q) k = getP q k := by
  have : (k' == k) = false := by simpa using h
  simp [getP, List.find?, this]

/-- the decoder only looks at `Values.Get` of its fourteen keys -/
theorem fromParams_congr {q q' : Params} (h : ∀ k ∈ addKeys, getP q k = getP q' k) : fromParams q = fromParams q' := by
  have h1 := h "layout" (by decide)
  have h2 := h "chunker" (by decide)
  have h3 := h "hash" (by decide)
  have h4 := h "format" (by decide)
  have h5 := h "local" (by decide)
  have h6 := h "recursive" (by decide)
  have h7 := h "hidden" (by decide)
  have h8 := h "wrap-with-directory" (by decide)
  have h9 := h "shard" (by decide)
  have h10 := h "progress" (by decide)
  have h11 := h "cid-version" (by decide)
  have h12 := h "raw-leaves" (by decide)
  have h13 := h "stream-channels" (by decide)
  have h14 := h "nocopy" (by decide)
  simp only [fromParams, boolParam, intParam, h1, h2, h3, h4, h5, h6, h7, h8, h9, h10, h11, h12, h13, h14]

/-- `Values.Get` reads the first value: a later value under the same key changes nothing -/
theorem fromParams_first_value (k v v' : String) (q : Params) :
    fromParams ((k, v) :: (k, v') :: q) = fromParams ((k, v) :: q) := by
  apply fromParams_congr
  intro k' _
  by_cases h : k = k'
  · subst h; rw [getP_cons_self, getP_cons_self]
  · rw [getP_cons_ne _ h, getP_cons_ne _ h, getP_cons_ne _ h]

/-- a key the decoder does not know is ignored -/
theorem fromParams_unknown_key (k v : String) (q : Params) (hk : k ∉ addKeys) : fromParams ((k, v) :: q) = fromParams q := by
  apply fromParams_congr
  intro k' hk'
  have : k ≠ k' := fun e => hk (e ▸ hk')
  rw [getP_cons_ne _ this]

/-- two different keys may come in either order -/
theorem fromParams_swap (k v k' v' : String) (q : Params) (h : k ≠ k') :
    fromParams ((k, v) :: (k', v') :: q) = fromParams ((k', v') :: (k, v) :: q) := by
  apply fromParams_congr
  intro k'' _
  by_cases h1 : k = k''
  · subst h1; rw [getP_cons_self, getP_cons_ne _ (Ne.symm h), getP_cons_self]
  · by_cases h2 : k' = k''
    · subst h2; rw [getP_cons_ne _ h1, getP_cons_self, getP_cons_self]
    · rw [getP_cons_ne _ h1, getP_cons_ne _ h2, getP_cons_ne _ h2, getP_cons_ne _ h1]

/-- every parameter absent or empty: the defaults, with `Format = ""` -/
theorem fromParams_absent {q : Params} (h : ∀ k ∈ addKeys, getP q k = "") : fromParams q = some { defaultX with format := "" } := by
  have : fromParams q = fromParams [] := fromParams_congr (fun k hk => by rw [h k hk]; rfl)
  rw [this]; decide

/-- whatever the decoder accepts is a well-formed parameter value -/
theorem fromParams_wf {q : Params} {x : AddX} (h : fromParams q = some x) : wfX x = true := by
  unfold fromParams at h
  simp only [bind, Option.bind_none, Option.bind_eq_some_iff, Option.ite_none_left_eq_some, pure] at h
  obtain ⟨hlay, hfmt, a, _, a1, _, a2, _, a3, _, a4, _, a5, _, cidV0, hcid, hrule, a7, _, a8, _, a9, _, hx⟩ := h
  injection hx with hx
  subst hx
  have hr0 : inInt64 cidV0 = true := intParam_range (by decide) hcid
  simp only [wfX, Bool.and_eq_true]
  have hint : ∀ (c : Prop) [Decidable c], inInt64 (if c then 1 else cidV0) = true := by
    intro c _
    by_cases hc : c
    · rw [if_pos hc]; decide
    · rw [if_neg hc]; exact hr0
  refine ⟨⟨⟨⟨⟨?_, ?_⟩, ?_⟩, ?_⟩, ?_⟩, hint _⟩
  · cases hc : ["trickle", "balanced", ""].contains (getP q "layout") <;> simp_all
  · cases hc : ["car", "unixfs", ""].contains (getP q "format") <;> simp_all
  · by_cases hc : getP q "chunker" = "" <;> simp [hc, defaultX]
  · by_cases hc : getP q "hash" = "" <;> simp [hc, defaultX]
  · cases hs : isSha256 (if (getP q "hash" != "") = true then getP q "hash" else defaultX.hashFun)
    · by_cases hz : cidV0 = 0 <;> simp [hz]
    · simp

/-- decoded_reencodes at the model level: a value the decoder produced, written again by `ToQueryString`, decodes to itself -/
theorem fromParams_fixed {q : Params} {x : AddX} (h : fromParams q = some x) : fromParams (toParams x) = some x :=
  fromParams_toParams x (fromParams_wf h)

end CV.C08.Add
