import ClusterVerif.Spec.C05
import Mathlib.Tactic.SplitIfs
import Mathlib.Data.List.Basic
import Mathlib.Data.List.Nodup
import Mathlib.Data.List.Perm.Basic

namespace CV.C05

@[simp] theorem upd_same {α : Type} (f : Nat → α) (k : Nat) (v : α) : upd f k v k = v := by simp [upd]
theorem upd_apply {α : Type} (f : Nat → α) (k : Nat) (v : α) (x : Nat) : upd f k v x = if x = k then v else f x := rfl

def wantTyp (sh : Option PinSpec) (t : OpType) : Prop :=
  match sh with
  | none => t = .unpin
  | some p => match p.kind with
    | .here => t = .pin
    | .remote => t = .remote
    | .sharded => True

def idleOk (s : State) (c : Nat) : Prop :=
  match s.shared c with
  | none => s.daemon c = none
  | some p => p.kind = .remote → (s.daemon c = none ∨ s.failed c = true)

structure Inv (s : State) : Prop where
  curLt : ∀ c i, s.cur c = some i → i < s.nextId
  pinQLt : ∀ i ∈ s.pinQ, i < s.nextId
  unpinQLt : ∀ i ∈ s.unpinQ, i < s.nextId
  callLt : ∀ k ∈ s.calls, k.op < s.nextId
  nodup : (s.pinQ ++ s.unpinQ ++ s.calls.map (·.op)).Nodup
  curCid : ∀ c i, s.cur c = some i → (s.ops i).cid = c
  curCancelled : ∀ c i, s.cur c = some i → (s.ops i).cancelled = true → (s.ops i).phase = .error
  curNotDone : ∀ c i, s.cur c = some i → (s.ops i).phase ≠ .done
  pinQCur : ∀ i ∈ s.pinQ, (s.ops i).cancelled = false → s.cur (s.ops i).cid = some i
  unpinQCur : ∀ i ∈ s.unpinQ, (s.ops i).cancelled = false → s.cur (s.ops i).cid = some i
  callCur : ∀ k ∈ s.calls, (s.ops k.op).cancelled = false → s.cur (s.ops k.op).cid = some k.op
  pinQTyp : ∀ i ∈ s.pinQ, (s.ops i).typ = .pin
  unpinQTyp : ∀ i ∈ s.unpinQ, (s.ops i).typ = .unpin
  callKind : ∀ k ∈ s.calls, (k.kind = .pin ↔ (s.ops k.op).typ = .pin)
  curTyp : ∀ c i, s.cur c = some i → wantTyp (s.shared c) (s.ops i).typ
  idle : ∀ c, s.cur c = none → idleOk s c
  remoteErr : ∀ c i, s.cur c = some i → (s.ops i).typ = .remote → (s.ops i).phase = .error → s.failed c = true
  remoteCall : ∀ c i, s.cur c = some i → (s.ops i).typ = .remote → (s.ops i).phase ≠ .error → ∃ k ∈ s.calls, k.op = i
  unpinEff : ∀ k ∈ s.calls, (s.ops k.op).cancelled = false → k.eff = true → k.kind = .unpin →
    s.daemon (s.ops k.op).cid = none
  sharedCid : ∀ c p, s.shared c = some p → p.cid = c
  errCancelled : ∀ i, (s.ops i).phase = .error → (s.ops i).cancelled = true

theorem inv_lose (s : State) (c : Nat) (h : Inv s) : Inv (lose s c) := by
  obtain ⟨h1,h2,h3,h4,h5,h6,h7,h8,h9,h10,h11,h12,h13,h14,h15,h16,h17,h18,h19,h20,h21⟩ := h
  constructor <;> simp only [lose] <;> try assumption
  · intro c' hc'
    have := h16 c' hc'
    unfold idleOk at *
    simp only [upd_apply]
    grind
  · intro k hk hl he hu
    have := h19 k hk hl he hu
    simp only [upd_apply]; grind

theorem findCall_some {s : State} {i : Nat} {k : Call} (h : findCall s i = some k) : k ∈ s.calls ∧ k.op = i := by
  unfold findCall at h
  have := List.find?_some h
  have hm := List.mem_of_find?_eq_some h
  simp at this
  exact ⟨hm, this⟩


def setEff (i : Nat) (k' : Call) : Call := if k'.op = i then { k' with eff := true } else k'

theorem setEff_op (i : Nat) (k : Call) : (setEff i k).op = k.op := by unfold setEff; split_ifs <;> rfl
theorem setEff_kind (i : Nat) (k : Call) : (setEff i k).kind = k.kind := by unfold setEff; split_ifs <;> rfl
theorem setEff_sync (i : Nat) (k : Call) : (setEff i k).sync = k.sync := by unfold setEff; split_ifs <;> rfl
theorem setEff_eff (i : Nat) (k : Call) : (setEff i k).eff = (if k.op = i then true else k.eff) := by
  unfold setEff; split_ifs <;> rfl

theorem map_setEff_op (i : Nat) (l : List Call) : (l.map (setEff i)).map (·.op) = l.map (·.op) := by
  simp [List.map_map, Function.comp_def, setEff_op]

theorem call_unique {s : State} (h : (s.pinQ ++ s.unpinQ ++ s.calls.map (·.op)).Nodup) {k k' : Call}
    (hk : k ∈ s.calls) (hk' : k' ∈ s.calls) (e : k.op = k'.op) : k = k' := by
  have h2 : (s.calls.map (·.op)).Nodup := (List.nodup_append.1 h).2.1
  exact List.inj_on_of_nodup_map h2 hk hk' e

theorem inv_effect (s : State) (i : Nat) (h : Inv s) : Inv (effect s i) := by
  unfold effect
  cases hf : findCall s i with
  | none => exact h
  | some k =>
    obtain ⟨hk, hki⟩ := findCall_some hf
    simp only
    split_ifs with hg
    · exact h
    · obtain ⟨h1,h2,h3,h4,h5,h6,h7,h8,h9,h10,h11,h12,h13,h14,h15,h16,h17,h18,h19,h20,h21⟩ := h
      simp only [Bool.or_eq_true, not_or, Bool.not_eq_true] at hg
      change Inv { s with daemon := _, calls := s.calls.map (setEff i) }
      constructor <;> simp only [] <;> try assumption
      · intro k' hk'
        obtain ⟨k0, hk0, rfl⟩ := List.mem_map.1 hk'
        rw [setEff_op]; exact h4 k0 hk0
      · rw [map_setEff_op]; exact h5
      · intro k' hk'
        obtain ⟨k0, hk0, rfl⟩ := List.mem_map.1 hk'
        rw [setEff_op]; exact h11 k0 hk0
      · intro k' hk'
        obtain ⟨k0, hk0, rfl⟩ := List.mem_map.1 hk'
        rw [setEff_op, setEff_kind]; exact h14 k0 hk0
      · intro c hc
        have hcc := h11 k hk (by rw [hki]; exact hg.1)
        have := h16 c hc
        unfold idleOk at *
        simp only [] at *
        have hne : c ≠ (s.ops i).cid := by
          intro e; rw [hki, ← e, hc] at hcc; cases hcc
        cases hkk : k.kind <;> simp only [upd_apply, hne, if_false] <;> exact this
      · intro c j hc ht hp
        obtain ⟨k0, hk0, hk0j⟩ := h18 c j hc ht hp
        exact ⟨setEff i k0, List.mem_map.2 ⟨k0, hk0, rfl⟩, by rw [setEff_op]; exact hk0j⟩
      · intro k' hk' hl he hu
        obtain ⟨k0, hk0, rfl⟩ := List.mem_map.1 hk'
        rw [setEff_op] at hl ⊢
        rw [setEff_kind] at hu
        rw [setEff_eff] at he
        by_cases e : k0.op = i
        · have : k0 = k := call_unique h5 hk0 hk (by rw [e, hki])
          subst this
          rw [hu, e]; simp [upd_apply]
        · simp only [e, if_false] at he
          have hd := h19 k0 hk0 hl he hu
          cases hkk : k.kind
          · simp only [upd_apply]
            have hne : (s.ops k0.op).cid ≠ (s.ops i).cid := by
              intro e2
              have a := h11 k0 hk0 hl
              have b := h11 k hk (by rw [hki]; exact hg.1)
              rw [hki] at b; rw [e2, b] at a
              exact e (Option.some.inj a).symm
            simp only [hne, if_false]; exact hd
          · simp only [upd_apply]; split_ifs <;> [rfl; exact hd]


/-! ### cancel-and-replace -/

theorem nodup_add (P U A pq uq B : List Nat) (n : Nat) (h : (P ++ U ++ A).Nodup) (hlt : ∀ x ∈ P ++ U ++ A, x < n)
    (hadd : (pq ++ uq ++ B).Nodup) (heq : ∀ x ∈ pq ++ uq ++ B, x = n) :
    (P ++ pq ++ (U ++ uq) ++ (A ++ B)).Nodup := by
  have hp : (P ++ pq ++ (U ++ uq) ++ (A ++ B)).Perm ((P ++ U ++ A) ++ (pq ++ uq ++ B)) := by
    rw [List.perm_iff_count]
    intro a
    simp only [List.count_append]
    omega
  rw [hp.nodup_iff, List.nodup_append]
  refine ⟨h, hadd, ?_⟩
  intro a ha b hb e
  have := hlt a ha
  have := heq b hb
  omega


def cancelCurOps (s : State) (c : Nat) : Nat → Op :=
  match s.cur c with
  | some i => upd s.ops i { s.ops i with cancelled := true }
  | none => s.ops

def replaceSt (s : State) (c : Nat) (o : Op) (pq uq : List Nat) (cl : List Call)
    (sh : Nat → Option PinSpec) (fl : Nat → Bool) : State :=
  { s with ops := upd (cancelCurOps s c) s.nextId o, nextId := s.nextId + 1, cur := upd s.cur c (some s.nextId),
           pinQ := s.pinQ ++ pq, unpinQ := s.unpinQ ++ uq, calls := s.calls ++ cl,
           shared := sh, failed := fl }

theorem cancelCurOps_apply (s : State) (c j : Nat) :
    cancelCurOps s c j = if s.cur c = some j then { s.ops j with cancelled := true } else s.ops j := by
  unfold cancelCurOps
  cases h : s.cur c with
  | none => simp
  | some i =>
    simp only [upd_apply, Option.some.injEq]
    by_cases e : j = i
    · subst e; simp
    · simp [e, Ne.symm e]

theorem inv_replace (s : State) (h : Inv s) (c : Nat) (o : Op) (pq uq : List Nat) (cl : List Call)
    (sh : Nat → Option PinSpec) (fl : Nat → Bool)
    (hsh : ∀ x, x ≠ c → sh x = s.shared x) (hfl : ∀ x, x ≠ c → fl x = s.failed x)
    (hshc : ∀ p, sh c = some p → p.cid = c)
    (hcid : o.cid = c) (hwant : wantTyp (sh c) o.typ) (hnd : o.phase ≠ .done)
    (hcanc : o.cancelled = true → o.phase = .error) (hec : o.phase = .error → o.cancelled = true)
    (hpq : ∀ i ∈ pq, i = s.nextId ∧ o.typ = .pin) (huq : ∀ i ∈ uq, i = s.nextId ∧ o.typ = .unpin)
    (hcl : ∀ k ∈ cl, k.op = s.nextId ∧ (k.kind = .pin ↔ o.typ = .pin) ∧ k.eff = false)
    (hnodup : (pq ++ uq ++ cl.map (·.op)).Nodup)
    (hrem : o.typ = .remote → o.phase ≠ .error ∧ ∃ k ∈ cl, k.op = s.nextId) :
    Inv (replaceSt s c o pq uq cl sh fl) := by
  obtain ⟨h1,h2,h3,h4,h5,h6,h7,h8,h9,h10,h11,h12,h13,h14,h15,h16,h17,h18,h19,h20,h21⟩ := h
  unfold replaceSt
  constructor <;> simp only []
  case curLt => intro c' i hc; simp only [upd_apply] at hc; split_ifs at hc with e <;> grind
  case pinQLt => intro i hi; simp only [List.mem_append] at hi; grind
  case unpinQLt => intro i hi; simp only [List.mem_append] at hi; grind
  case callLt => intro k hk; simp only [List.mem_append] at hk; grind
  case nodup =>
    have hlt : ∀ x ∈ s.pinQ ++ s.unpinQ ++ s.calls.map (·.op), x < s.nextId := by
      intro x hx
      simp only [List.mem_append, List.mem_map] at hx
      rcases hx with (hx | hx) | ⟨k, hk, rfl⟩
      · exact h2 x hx
      · exact h3 x hx
      · exact h4 k hk
    have heq : ∀ x ∈ pq ++ uq ++ cl.map (·.op), x = s.nextId := by
      intro x hx
      simp only [List.mem_append, List.mem_map] at hx
      rcases hx with (hx | hx) | ⟨k, hk, rfl⟩
      · exact (hpq x hx).1
      · exact (huq x hx).1
      · exact (hcl k hk).1
    rw [List.map_append]
    exact nodup_add _ _ _ _ _ _ _ h5 hlt hnodup heq
  case curCid => intro c' i hc; simp only [upd_apply, cancelCurOps_apply] at *; grind
  case curCancelled => intro c' i hc; simp only [upd_apply, cancelCurOps_apply] at *; grind
  case curNotDone => intro c' i hc; simp only [upd_apply, cancelCurOps_apply] at *; grind
  case pinQCur => intro i hi; simp only [upd_apply, cancelCurOps_apply, List.mem_append] at *; grind
  case unpinQCur => intro i hi; simp only [upd_apply, cancelCurOps_apply, List.mem_append] at *; grind
  case callCur => intro k hk; simp only [upd_apply, cancelCurOps_apply, List.mem_append] at *; grind
  case pinQTyp => intro i hi; simp only [upd_apply, cancelCurOps_apply, List.mem_append] at *; grind
  case unpinQTyp => intro i hi; simp only [upd_apply, cancelCurOps_apply, List.mem_append] at *; grind
  case callKind => intro k hk; simp only [upd_apply, cancelCurOps_apply, List.mem_append] at *; grind
  case curTyp => intro c' i hc; simp only [upd_apply, cancelCurOps_apply] at *; grind
  case idle => intro c' hc; unfold idleOk at *; simp only [upd_apply, cancelCurOps_apply] at *; grind
  case remoteErr => intro c' i hc; simp only [upd_apply, cancelCurOps_apply] at *; grind
  case remoteCall => intro c' i hc; simp only [upd_apply, cancelCurOps_apply, List.mem_append] at *; grind
  case unpinEff => intro k hk; simp only [upd_apply, cancelCurOps_apply, List.mem_append] at *; grind
  case sharedCid => intro c' p hp; by_cases e : c' = c <;> grind
  case errCancelled => intro i hi; simp only [upd_apply, cancelCurOps_apply] at *; grind

/-! ### the shared pinset changes, the table entry stays (deduplicated instruction, meta pin) -/

theorem inv_setShared (s : State) (h : Inv s) (c : Nat) (sh : Nat → Option PinSpec) (fl : Nat → Bool)
    (hsh : ∀ x, x ≠ c → sh x = s.shared x) (hfl : ∀ x, x ≠ c → fl x = s.failed x)
    (hshc : ∀ p, sh c = some p → p.cid = c)
    (hcur : ∀ i, s.cur c = some i → wantTyp (sh c) (s.ops i).typ ∧
      ((s.ops i).typ = .remote → (s.ops i).phase = .error → fl c = true))
    (hidle : s.cur c = none → match sh c with
      | none => s.daemon c = none
      | some p => p.kind = .remote → (s.daemon c = none ∨ fl c = true)) :
    Inv { s with shared := sh, failed := fl } := by
  obtain ⟨h1,h2,h3,h4,h5,h6,h7,h8,h9,h10,h11,h12,h13,h14,h15,h16,h17,h18,h19,h20,h21⟩ := h
  constructor <;> simp only [] <;> try assumption
  case curTyp => intro c' i hc; by_cases e : c' = c <;> grind
  case idle => intro c' hc; unfold idleOk at *; simp only []; by_cases e : c' = c <;> grind
  case remoteErr => intro c' i hc; by_cases e : c' = c <;> grind
  case sharedCid => intro c' p hp; by_cases e : c' = c <;> grind

/-! ### a worker takes the head of its channel -/

theorem nodup_move (i : Nat) (rest U A : List Nat) (h : (i :: rest ++ U ++ A).Nodup) : (rest ++ U ++ (A ++ [i])).Nodup := by
  have hp : (rest ++ U ++ (A ++ [i])).Perm (i :: rest ++ U ++ A) := by
    rw [List.perm_iff_count]; intro a
    simp only [List.count_append, List.cons_append, List.count_cons, List.count_nil]; omega
  exact hp.nodup_iff.2 h

theorem nodup_move2 (i : Nat) (P rest A : List Nat) (h : (P ++ i :: rest ++ A).Nodup) : (P ++ rest ++ (A ++ [i])).Nodup := by
  have hp : (P ++ rest ++ (A ++ [i])).Perm (P ++ i :: rest ++ A) := by
    rw [List.perm_iff_count]; intro a
    simp only [List.count_append, List.count_cons, List.count_nil]; omega
  exact hp.nodup_iff.2 h

theorem nodup_drop1 (i : Nat) (rest U A : List Nat) (h : (i :: rest ++ U ++ A).Nodup) : (rest ++ U ++ A).Nodup := by
  simp only [List.cons_append, List.nodup_cons] at h; exact h.2

theorem nodup_drop2 (i : Nat) (P rest A : List Nat) (h : (P ++ i :: rest ++ A).Nodup) : (P ++ rest ++ A).Nodup := by
  have : (P ++ rest ++ A).Sublist (P ++ i :: rest ++ A) :=
    List.Sublist.append (List.Sublist.append (List.Sublist.refl _) (List.sublist_cons_self _ _)) (List.Sublist.refl _)
  exact h.sublist this

theorem inv_startPin (s : State) (h : Inv s) (i : Nat) (rest : List Nat) (hq : s.pinQ = i :: rest) :
    Inv (startCall { s with pinQ := rest } i .pin) := by
  obtain ⟨h1,h2,h3,h4,h5,h6,h7,h8,h9,h10,h11,h12,h13,h14,h15,h16,h17,h18,h19,h20,h21⟩ := h
  have hmem : ∀ j, j ∈ rest → j ∈ s.pinQ := by intro j hj; rw [hq]; exact List.mem_cons_of_mem _ hj
  have hi : i ∈ s.pinQ := by rw [hq]; exact List.mem_cons_self
  unfold startCall
  simp only []
  split_ifs with hc
  · constructor <;> simp only [] <;> try assumption
    case pinQLt => intro j hj; exact h2 j (hmem j hj)
    case nodup => rw [hq] at h5; exact nodup_drop1 _ _ _ _ h5
    case pinQCur => intro j hj; exact h9 j (hmem j hj)
    case pinQTyp => intro j hj; exact h12 j (hmem j hj)
  · constructor <;> simp only []
    case curLt => exact h1
    case pinQLt => intro j hj; exact h2 j (hmem j hj)
    case unpinQLt => exact h3
    case callLt => intro k hk; simp only [List.mem_append, List.mem_singleton] at hk; grind
    case nodup =>
      rw [hq] at h5; rw [List.map_append]; exact nodup_move _ _ _ _ h5
    case curCid => intro c' j hc'; simp only [upd_apply] at *; grind
    case curCancelled => intro c' j hc'; simp only [upd_apply] at *; grind
    case curNotDone => intro c' j hc'; simp only [upd_apply] at *; grind
    case pinQCur => intro j hj; have := hmem j hj; simp only [upd_apply] at *; grind
    case unpinQCur => intro j hj; simp only [upd_apply] at *; grind
    case callCur => intro k hk; simp only [upd_apply, List.mem_append, List.mem_singleton] at *; grind
    case pinQTyp => intro j hj; have := hmem j hj; simp only [upd_apply] at *; grind
    case unpinQTyp => intro j hj; simp only [upd_apply] at *; grind
    case callKind => intro k hk; simp only [upd_apply, List.mem_append, List.mem_singleton] at *; grind
    case curTyp => intro c' j hc'; simp only [upd_apply] at *; grind
    case idle => exact h16
    case remoteErr => intro c' j hc'; simp only [upd_apply] at *; grind
    case remoteCall => intro c' j hc'; simp only [upd_apply, List.mem_append, List.mem_singleton] at *; grind
    case unpinEff => intro k hk; simp only [upd_apply, List.mem_append, List.mem_singleton] at *; grind
    case sharedCid => exact h20
    case errCancelled => intro j hj; simp only [upd_apply] at *; grind

theorem inv_startUnpin (s : State) (h : Inv s) (i : Nat) (rest : List Nat) (hq : s.unpinQ = i :: rest) :
    Inv (startCall { s with unpinQ := rest } i .unpin) := by
  obtain ⟨h1,h2,h3,h4,h5,h6,h7,h8,h9,h10,h11,h12,h13,h14,h15,h16,h17,h18,h19,h20,h21⟩ := h
  have hmem : ∀ j, j ∈ rest → j ∈ s.unpinQ := by intro j hj; rw [hq]; exact List.mem_cons_of_mem _ hj
  have hi : i ∈ s.unpinQ := by rw [hq]; exact List.mem_cons_self
  unfold startCall
  simp only []
  split_ifs with hc
  · constructor <;> simp only [] <;> try assumption
    case unpinQLt => intro j hj; exact h3 j (hmem j hj)
    case nodup => rw [hq] at h5; exact nodup_drop2 _ _ _ _ h5
    case unpinQCur => intro j hj; exact h10 j (hmem j hj)
    case unpinQTyp => intro j hj; exact h13 j (hmem j hj)
  · constructor <;> simp only []
    case curLt => exact h1
    case pinQLt => exact h2
    case unpinQLt => intro j hj; exact h3 j (hmem j hj)
    case callLt => intro k hk; simp only [List.mem_append, List.mem_singleton] at hk; grind
    case nodup =>
      rw [hq] at h5; rw [List.map_append]; exact nodup_move2 _ _ _ _ h5
    case curCid => intro c' j hc'; simp only [upd_apply] at *; grind
    case curCancelled => intro c' j hc'; simp only [upd_apply] at *; grind
    case curNotDone => intro c' j hc'; simp only [upd_apply] at *; grind
    case pinQCur => intro j hj; simp only [upd_apply] at *; grind
    case unpinQCur => intro j hj; have := hmem j hj; simp only [upd_apply] at *; grind
    case callCur => intro k hk; simp only [upd_apply, List.mem_append, List.mem_singleton] at *; grind
    case pinQTyp => intro j hj; simp only [upd_apply] at *; grind
    case unpinQTyp => intro j hj; have := hmem j hj; simp only [upd_apply] at *; grind
    case callKind => intro k hk; simp only [upd_apply, List.mem_append, List.mem_singleton] at *; grind
    case curTyp => intro c' j hc'; simp only [upd_apply] at *; grind
    case idle => exact h16
    case remoteErr => intro c' j hc'; simp only [upd_apply] at *; grind
    case remoteCall => intro c' j hc'; simp only [upd_apply, List.mem_append, List.mem_singleton] at *; grind
    case unpinEff => intro k hk; simp only [upd_apply, List.mem_append, List.mem_singleton] at *; grind
    case sharedCid => exact h20
    case errCancelled => intro j hj; simp only [upd_apply] at *; grind

theorem inv_deqPin (cfg : Cfg) (s : State) (h : Inv s) : Inv (deqPin cfg s) := by
  unfold deqPin
  split_ifs
  · cases hq : s.pinQ with
    | nil => exact h
    | cons i rest => exact inv_startPin s h i rest hq
  · exact h

theorem inv_deqUnpin (s : State) (h : Inv s) : Inv (deqUnpin s) := by
  unfold deqUnpin
  split_ifs
  · exact h
  · cases hq : s.unpinQ with
    | nil => exact h
    | cons i rest => exact inv_startUnpin s h i rest hq

/-! ### a call leaves the daemon -/

theorem mem_dropCall {s : State} {i : Nat} {k : Call} : k ∈ dropCall s i ↔ k ∈ s.calls ∧ k.op ≠ i := by
  unfold dropCall; simp [List.mem_filter]

theorem nodup_dropCall (s : State) (i : Nat) (h : (s.pinQ ++ s.unpinQ ++ s.calls.map (·.op)).Nodup) :
    (s.pinQ ++ s.unpinQ ++ (dropCall s i).map (·.op)).Nodup := by
  have : (s.pinQ ++ s.unpinQ ++ (dropCall s i).map (·.op)).Sublist (s.pinQ ++ s.unpinQ ++ s.calls.map (·.op)) :=
    List.Sublist.append (List.Sublist.refl _) (List.Sublist.map _ List.filter_sublist)
  exact h.sublist this

theorem not_mem_queues_of_call {s : State} (h : (s.pinQ ++ s.unpinQ ++ s.calls.map (·.op)).Nodup) {k : Call}
    (hk : k ∈ s.calls) : k.op ∉ s.pinQ ∧ k.op ∉ s.unpinQ := by
  rw [List.nodup_append] at h
  obtain ⟨_, _, hd⟩ := h
  have hm : k.op ∈ s.calls.map (·.op) := List.mem_map.2 ⟨k, hk, rfl⟩
  constructor
  · intro hp; exact hd k.op (List.mem_append_left _ hp) k.op hm rfl
  · intro hp; exact hd k.op (List.mem_append_right _ hp) k.op hm rfl

theorem inv_retOk (s : State) (i : Nat) (h : Inv s) : Inv (retOk s i) := by
  unfold retOk
  cases hf : findCall s i with
  | none => exact h
  | some k =>
    obtain ⟨hk, hki⟩ := findCall_some hf
    simp only
    by_cases hg : ((s.ops i).cancelled || !k.eff) = true
    · rw [if_pos hg]; exact h
    · rw [if_neg hg]
      have hl : (s.ops i).cancelled = false := by
        cases hx : (s.ops i).cancelled <;> simp [hx] at hg ⊢
      have he : k.eff = true := by
        cases hx : k.eff <;> simp [hx, hl] at hg ⊢
      have hcur : s.cur (s.ops i).cid = some i := by
        have := h.callCur k hk (by rw [hki]; exact hl)
        rw [hki] at this; exact this
      rw [if_pos hcur]
      have hnd := nodup_dropCall s i h.nodup
      have huniq : ∀ k' ∈ s.calls, k'.op = i → k' = k := fun k' hk' e => call_unique h.nodup hk' hk (by rw [e, hki])
      have hnq := not_mem_queues_of_call h.nodup hk
      rw [hki] at hnq
      obtain ⟨h1,h2,h3,h4,h5,h6,h7,h8,h9,h10,h11,h12,h13,h14,h15,h16,h17,h18,h19,h20,h21⟩ := h
      constructor <;> simp only []
      case curLt => intro c' j hc'; simp only [upd_apply] at *; grind
      case pinQLt => exact h2
      case unpinQLt => exact h3
      case callLt => intro k' hk'; rw [mem_dropCall] at hk'; exact h4 k' hk'.1
      case nodup => exact hnd
      case curCid => intro c' j hc'; simp only [upd_apply] at *; grind
      case curCancelled => intro c' j hc'; simp only [upd_apply] at *; grind
      case curNotDone => intro c' j hc'; simp only [upd_apply] at *; grind
      case pinQCur => intro j hj; simp only [upd_apply] at *; grind
      case unpinQCur => intro j hj; simp only [upd_apply] at *; grind
      case callCur => intro k' hk'; rw [mem_dropCall] at hk'; simp only [upd_apply] at *; grind
      case pinQTyp => intro j hj; simp only [upd_apply] at *; grind
      case unpinQTyp => intro j hj; simp only [upd_apply] at *; grind
      case callKind => intro k' hk'; rw [mem_dropCall] at hk'; simp only [upd_apply] at *; grind
      case curTyp => intro c' j hc'; simp only [upd_apply] at *; grind
      case idle =>
        intro c' hc'
        unfold idleOk; simp only []
        by_cases e : c' = (s.ops i).cid
        · subst e
          have hw := h15 _ _ hcur
          have hkind := h14 k hk
          have heff := h19 k hk (by rw [hki]; exact hl) he
          rw [hki] at hkind heff
          unfold wantTyp at hw
          cases hs : s.shared (s.ops i).cid with
          | none =>
            rw [hs] at hw; simp only [] at hw ⊢
            apply heff
            cases hkk : k.kind
            · rw [hkk] at hkind; simp at hkind; rw [hkind] at hw; cases hw
            · rfl
          | some p =>
            rw [hs] at hw; simp only [] at hw ⊢
            intro hr; rw [hr] at hw; simp only [] at hw
            left; apply heff
            cases hkk : k.kind
            · rw [hkk] at hkind; simp at hkind; rw [hkind] at hw; cases hw
            · rfl
        · have := h16 c' (by simp only [upd_apply, e, if_false] at hc'; exact hc')
          unfold idleOk at this; exact this
      case remoteErr => intro c' j hc'; simp only [upd_apply] at *; grind
      case remoteCall =>
        intro c' j hc' ht hp
        simp only [mem_dropCall]
        simp only [upd_apply] at hc' ht hp
        grind
      case unpinEff => intro k' hk'; rw [mem_dropCall] at hk'; simp only [upd_apply] at *; grind
      case sharedCid => exact h20
      case errCancelled => intro j hj; simp only [upd_apply] at *; grind

theorem inv_retErr (s : State) (i : Nat) (h : Inv s) : Inv (retErr s i) := by
  unfold retErr
  cases hf : findCall s i with
  | none => exact h
  | some k =>
    obtain ⟨hk, hki⟩ := findCall_some hf
    simp only
    by_cases hg : (s.ops i).cancelled = true
    · rw [if_pos hg]; exact h
    · rw [if_neg hg]
      have hl : (s.ops i).cancelled = false := by
        cases hx : (s.ops i).cancelled <;> simp [hx] at hg ⊢
      have hcur : s.cur (s.ops i).cid = some i := by
        have := h.callCur k hk (by rw [hki]; exact hl)
        rw [hki] at this; exact this
      have hnd := nodup_dropCall s i h.nodup
      have huniq : ∀ k' ∈ s.calls, k'.op = i → k' = k := fun k' hk' e => call_unique h.nodup hk' hk (by rw [e, hki])
      have hnq := not_mem_queues_of_call h.nodup hk
      rw [hki] at hnq
      obtain ⟨h1,h2,h3,h4,h5,h6,h7,h8,h9,h10,h11,h12,h13,h14,h15,h16,h17,h18,h19,h20,h21⟩ := h
      have hkind := h14 k hk
      rw [hki] at hkind
      constructor <;> simp only []
      case curLt => exact h1
      case pinQLt => exact h2
      case unpinQLt => exact h3
      case callLt => intro k' hk'; rw [mem_dropCall] at hk'; exact h4 k' hk'.1
      case nodup => exact hnd
      case curCid => intro c' j hc'; simp only [upd_apply] at *; grind
      case curCancelled => intro c' j hc'; simp only [upd_apply] at *; grind
      case curNotDone => intro c' j hc'; simp only [upd_apply] at *; grind
      case pinQCur => intro j hj; simp only [upd_apply] at *; grind
      case unpinQCur => intro j hj; simp only [upd_apply] at *; grind
      case callCur => intro k' hk'; rw [mem_dropCall] at hk'; simp only [upd_apply] at *; grind
      case pinQTyp => intro j hj; simp only [upd_apply] at *; grind
      case unpinQTyp => intro j hj; simp only [upd_apply] at *; grind
      case callKind => intro k' hk'; rw [mem_dropCall] at hk'; simp only [upd_apply] at *; grind
      case curTyp => intro c' j hc'; simp only [upd_apply] at *; grind
      case idle =>
        intro c' hc'
        have hne : c' ≠ (s.ops i).cid := by intro e; rw [e, hcur] at hc'; cases hc'
        have := h16 c' hc'
        unfold idleOk at *; simp only [] at *
        split_ifs
        · simp only [upd_apply, hne, if_false]; exact this
        · exact this
      case remoteErr =>
        intro c' j hc' ht hp
        simp only [upd_apply] at ht hp
        by_cases e : j = i
        · subst e
          have hcc : c' = (s.ops j).cid := (h6 c' j hc').symm
          simp only [if_true] at ht
          have : k.kind = .unpin := by
            cases hkk : k.kind
            · rw [hkk] at hkind; simp at hkind; rw [hkind] at ht; cases ht
            · rfl
          rw [if_pos this, hcc]; simp [upd_apply]
        · simp only [e, if_false] at ht hp
          have := h17 c' j hc' ht hp
          split_ifs
          · simp only [upd_apply]; grind
          · exact this
      case remoteCall =>
        intro c' j hc' ht hp
        simp only [mem_dropCall]
        simp only [upd_apply] at hc' ht hp
        grind
      case unpinEff => intro k' hk'; rw [mem_dropCall] at hk'; simp only [upd_apply] at *; grind
      case sharedCid => exact h20
      case errCancelled => intro j hj; simp only [upd_apply] at *; grind

theorem inv_reap (s : State) (i : Nat) (h : Inv s) : Inv (reap s i) := by
  unfold reap
  cases hf : findCall s i with
  | none => exact h
  | some k =>
    obtain ⟨hk, hki⟩ := findCall_some hf
    simp only
    by_cases hg : (s.ops i).cancelled = true
    · rw [if_pos hg]
      have hnd := nodup_dropCall s i h.nodup
      obtain ⟨h1,h2,h3,h4,h5,h6,h7,h8,h9,h10,h11,h12,h13,h14,h15,h16,h17,h18,h19,h20,h21⟩ := h
      constructor <;> simp only [] <;> try assumption
      case callLt => intro k' hk'; rw [mem_dropCall] at hk'; exact h4 k' hk'.1
      case callCur => intro k' hk'; rw [mem_dropCall] at hk'; exact h11 k' hk'.1
      case callKind => intro k' hk'; rw [mem_dropCall] at hk'; exact h14 k' hk'.1
      case remoteCall =>
        intro c' j hc' ht hp
        simp only [mem_dropCall]
        obtain ⟨k0, hk0, e0⟩ := h18 c' j hc' ht hp
        refine ⟨k0, ⟨hk0, ?_⟩, e0⟩
        rw [e0]; intro e; subst e
        exact hp (h7 c' j hc' hg)
      case unpinEff => intro k' hk'; rw [mem_dropCall] at hk'; exact h19 k' hk'.1
    · rw [if_neg hg]; exact h

theorem inv_init : Inv init := by
  constructor <;> simp [init, idleOk, dummyOp]

/-! ### external instructions -/

theorem upd_upd {α : Type} (f : Nat → α) (k : Nat) (v w : α) : upd (upd f k v) k w = upd f k w := by
  funext x; simp only [upd_apply]; split_ifs <;> rfl

def newOpRec (p : PinSpec) (typ : OpType) (ph : Phase) (canc : Bool) : Op :=
  { cid := p.cid, typ := typ, phase := ph, cancelled := canc, pin := p }

theorem trackNew_cases (s : State) (p : PinSpec) (typ : OpType) (ph : Phase) :
    (∃ i, s.cur p.cid = some i ∧ (s.ops i).typ = typ ∧ (s.ops i).phase ≠ .error ∧ (s.ops i).phase ≠ .done ∧
        trackNew s p typ ph = (s, none)) ∨
    trackNew s p typ ph =
      (replaceSt s p.cid (newOpRec p typ ph false) [] [] [] s.shared s.failed, some s.nextId) := by
  unfold trackNew
  cases hc : s.cur p.cid with
  | none =>
    right
    simp [newOp, replaceSt, cancelCurOps, hc, newOpRec]
  | some i =>
    simp only
    by_cases hd : (s.ops i).typ = typ ∧ (s.ops i).phase ≠ .error ∧ (s.ops i).phase ≠ .done
    · left; exact ⟨i, rfl, hd.1, hd.2.1, hd.2.2, by rw [if_pos hd]⟩
    · right
      rw [if_neg hd]
      simp [newOp, cancelOp, replaceSt, cancelCurOps, hc, newOpRec]

theorem enqueue_cases (cfg : Cfg) (s : State) (p : PinSpec) (typ : OpType) (ht : typ ≠ .remote) :
    (∃ i, s.cur p.cid = some i ∧ (s.ops i).typ = typ ∧ (s.ops i).phase ≠ .error ∧ (s.ops i).phase ≠ .done ∧
        enqueue cfg s p typ = (s, .nil)) ∨
    enqueue cfg s p typ =
      (replaceSt s p.cid (newOpRec p typ .queued false)
        (if typ = .pin then [s.nextId] else []) (if typ = .unpin then [s.nextId] else []) [] s.shared s.failed, .nil) ∨
    enqueue cfg s p typ =
      (replaceSt s p.cid (newOpRec p typ .error true) [] [] [] s.shared s.failed, .full) := by
  unfold enqueue
  rcases trackNew_cases s p typ .queued with ⟨i, h1, h2, h3, h4, h5⟩ | h
  · left; exact ⟨i, h1, h2, h3, h4, by rw [h5]⟩
  · right
    rw [h]
    cases typ with
    | remote => exact absurd rfl ht
    | pin =>
      simp only [↓reduceIte, reduceCtorEq]
      by_cases hl : (replaceSt s p.cid (newOpRec p .pin .queued false) [] [] [] s.shared s.failed).pinQ.length < cfg.cap
      · left; rw [if_pos hl]; simp [replaceSt]
      · right; rw [if_neg hl]; simp [replaceSt, failOp, upd_upd, newOpRec]
    | unpin =>
      simp only [↓reduceIte, reduceCtorEq]
      by_cases hl : (replaceSt s p.cid (newOpRec p .unpin .queued false) [] [] [] s.shared s.failed).unpinQ.length < cfg.cap
      · left; rw [if_pos hl]; simp [replaceSt]
      · right; rw [if_neg hl]; simp [replaceSt, failOp, upd_upd, newOpRec]

theorem inv_enqueue (cfg : Cfg) (s : State) (h : Inv s) (c : Nat) (sh : Nat → Option PinSpec) (fl : Nat → Bool)
    (hsh : ∀ x, x ≠ c → sh x = s.shared x) (hfl : ∀ x, x ≠ c → fl x = s.failed x)
    (hshc : ∀ p, sh c = some p → p.cid = c)
    (p : PinSpec) (hp : p.cid = c) (typ : OpType) (ht : typ ≠ .remote) (hwant : wantTyp (sh c) typ) :
    Inv (enqueue cfg { s with shared := sh, failed := fl } p typ).1 := by
  rcases enqueue_cases cfg { s with shared := sh, failed := fl } p typ ht with ⟨i, h1, h2, h3, h4, h5⟩ | h5 | h5
  · rw [h5]
    simp only [] at h1 h2 h3 h4
    rw [hp] at h1
    refine inv_setShared s h c sh fl hsh hfl hshc ?_ ?_
    · intro j hj
      rw [h1] at hj; cases hj
      exact ⟨by rw [h2]; exact hwant, fun hr => absurd (h2 ▸ hr) ht⟩
    · intro hn; rw [hn] at h1; cases h1
  · rw [h5, hp]
    show Inv (replaceSt s c _ _ _ _ sh fl)
    apply inv_replace s h c _ _ _ _ sh fl hsh hfl hshc
    · exact hp
    · exact hwant
    · simp [newOpRec]
    · simp [newOpRec]
    · simp [newOpRec]
    · intro i hi; split_ifs at hi with e
      · simp at hi; exact ⟨hi, e⟩
      · cases hi
    · intro i hi; split_ifs at hi with e
      · simp at hi; exact ⟨hi, e⟩
      · cases hi
    · intro k hk; cases hk
    · cases typ <;> simp at ht ⊢
    · intro hr; exact absurd hr ht
  · rw [h5, hp]
    show Inv (replaceSt s c _ _ _ _ sh fl)
    apply inv_replace s h c _ _ _ _ sh fl hsh hfl hshc
    · exact hp
    · exact hwant
    · simp [newOpRec]
    · simp [newOpRec]
    · simp [newOpRec]
    · intro i hi; cases hi
    · intro i hi; cases hi
    · intro k hk; cases hk
    · simp
    · intro hr; exact absurd hr ht

theorem inv_untrack (cfg : Cfg) (s : State) (c : Nat) (h : Inv s) : Inv (untrack cfg s c).1 := by
  unfold untrack
  apply inv_enqueue cfg s h c
  · intro x hx; simp [upd_apply, hx]
  · intro x hx; simp [upd_apply, hx]
  · intro p hp; simp [upd_apply] at hp
  · rfl
  · intro e; cases e
  · simp [upd_apply, wantTyp]

theorem inv_track (cfg : Cfg) (s : State) (p : PinSpec) (h : Inv s) : Inv (track cfg s p).1 := by
  unfold track
  have hsh : ∀ x, x ≠ p.cid → upd s.shared p.cid (some p) x = s.shared x := by intro x hx; simp [upd_apply, hx]
  have hshc : ∀ q, upd s.shared p.cid (some p) p.cid = some q → q.cid = p.cid := by
    intro q hq; simp [upd_apply] at hq; rw [← hq]
  cases hk : p.kind with
  | here =>
    simp only [↓reduceIte]
    apply inv_enqueue cfg s h p.cid _ _ hsh _ hshc p rfl
    · intro e; cases e
    · simp [upd_apply, wantTyp, hk]
    · intro x hx; simp [upd_apply, hx]
  | sharded =>
    simp only [reduceCtorEq, ↓reduceIte]
    apply inv_setShared s h p.cid _ _ hsh (fun _ _ => rfl) hshc
    · intro i hi
      refine ⟨by simp [upd_apply, wantTyp, hk], fun ht hp => h.remoteErr _ _ hi ht hp⟩
    · intro _; simp [upd_apply, hk]
  | remote =>
    simp only [reduceCtorEq, ↓reduceIte]
    rcases trackNew_cases { s with shared := upd s.shared p.cid (some p), failed := s.failed } p .remote .inProgress
      with ⟨i, h1, h2, h3, h4, h5⟩ | h5
    · rw [h5]
      simp only [] at h1 h2 h3 h4 ⊢
      apply inv_setShared s h p.cid _ _ hsh (fun _ _ => rfl) hshc
      · intro j hj
        rw [h1] at hj; cases hj
        exact ⟨by simp [upd_apply, wantTyp, hk, h2], fun _ hp => absurd hp h3⟩
      · intro hn; rw [hn] at h1; cases h1
    · rw [h5]
      simp only []
      have : ({ replaceSt { s with shared := upd s.shared p.cid (some p), failed := s.failed } p.cid
                  (newOpRec p .remote .inProgress false) [] [] [] (upd s.shared p.cid (some p)) s.failed with
                calls := (replaceSt { s with shared := upd s.shared p.cid (some p), failed := s.failed } p.cid
                  (newOpRec p .remote .inProgress false) [] [] [] (upd s.shared p.cid (some p)) s.failed).calls ++
                  [{ op := s.nextId, kind := .unpin, sync := true, eff := false }] } : State) =
          replaceSt s p.cid (newOpRec p .remote .inProgress false) [] [] [{ op := s.nextId, kind := .unpin, sync := true, eff := false }]
            (upd s.shared p.cid (some p)) s.failed := by
        simp [replaceSt, cancelCurOps]
      rw [this]
      apply inv_replace s h p.cid _ _ _ _ _ _ hsh (fun _ _ => rfl) hshc
      · rfl
      · simp [upd_apply, wantTyp, hk, newOpRec]
      · simp [newOpRec]
      · simp [newOpRec]
      · simp [newOpRec]
      · intro i hi; cases hi
      · intro i hi; cases hi
      · intro k hk'; simp at hk'; subst hk'; simp [newOpRec]
      · simp
      · intro _; exact ⟨by simp [newOpRec], _, List.mem_singleton.2 rfl, rfl⟩

theorem statusOf_pinError {s : State} (h : Inv s) {c : Nat} (hs : statusOf s c = .pinError ∨ statusOf s c = .unexpectedlyUnpinned) :
    wantTyp (s.shared c) .pin := by
  unfold statusOf at hs
  cases hc : s.cur c with
  | some i =>
    rw [hc] at hs; simp only [] at hs
    have := h.curTyp c i hc
    have ht : (s.ops i).typ = .pin := by
      unfold opStatus at hs
      cases h1 : (s.ops i).typ <;> cases h2 : (s.ops i).phase <;> simp [h1, h2] at hs ⊢
    rw [ht] at this; exact this
  | none =>
    rw [hc] at hs; simp only [] at hs
    cases hsh : s.shared c with
    | none => rw [hsh] at hs; simp at hs
    | some p =>
      rw [hsh] at hs; simp only [] at hs
      cases hk : p.kind <;> simp [hk] at hs ⊢ <;> simp [wantTyp, hk]

theorem statusOf_unpinError {s : State} (h : Inv s) {c : Nat} (hs : statusOf s c = .unpinError) :
    wantTyp (s.shared c) .unpin := by
  unfold statusOf at hs
  cases hc : s.cur c with
  | some i =>
    rw [hc] at hs; simp only [] at hs
    have := h.curTyp c i hc
    have ht : (s.ops i).typ = .unpin := by
      unfold opStatus at hs
      cases h1 : (s.ops i).typ <;> cases h2 : (s.ops i).phase <;> simp [h1, h2] at hs ⊢
    rw [ht] at this; exact this
  | none =>
    rw [hc] at hs; simp only [] at hs
    cases hsh : s.shared c with
    | none => rw [hsh] at hs; simp at hs
    | some p =>
      rw [hsh] at hs; simp only [] at hs
      cases hk : p.kind <;> simp [hk] at hs
      split_ifs at hs

theorem inv_enqueue_same (cfg : Cfg) (s : State) (h : Inv s) (c : Nat) (p : PinSpec) (hp : p.cid = c) (typ : OpType)
    (ht : typ ≠ .remote) (hwant : wantTyp (s.shared c) typ) : Inv (enqueue cfg s p typ).1 :=
  inv_enqueue cfg s h c s.shared s.failed (fun _ _ => rfl) (fun _ _ => rfl) (fun q hq => h.sharedCid c q hq) p hp typ ht hwant

theorem recPin_cid {s : State} (h : Inv s) (c : Nat) : (recPin s c).cid = c := by
  unfold recPin
  cases hsh : s.shared c with
  | none => rfl
  | some p => exact h.sharedCid c p hsh

theorem inv_recover (cfg : Cfg) (s : State) (c : Nat) (h : Inv s) : Inv (recover cfg s c).1 := by
  unfold recover recoverWith
  cases hs : statusOf s c <;> simp only [] <;> try exact h
  · -- pinError
    apply inv_enqueue_same cfg s h c
    · exact recPin_cid h c
    · intro e; cases e
    · exact statusOf_pinError h (Or.inl hs)
  · apply inv_enqueue_same cfg s h c _ rfl
    · intro e; cases e
    · exact statusOf_unpinError h hs
  · apply inv_enqueue_same cfg s h c
    · exact recPin_cid h c
    · intro e; cases e
    · exact statusOf_pinError h (Or.inr hs)

theorem inv_step (cfg : Cfg) (s : State) (e : Ev) (h : Inv s) : Inv (step cfg s e) := by
  unfold step stepRet
  cases e with
  | track p => exact inv_track cfg s p h
  | untrack c => exact inv_untrack cfg s c h
  | recover c => exact inv_recover cfg s c h
  | deqPin => exact inv_deqPin cfg s h
  | deqUnpin => exact inv_deqUnpin s h
  | effect i => exact inv_effect s i h
  | retOk i => exact inv_retOk s i h
  | retErr i => exact inv_retErr s i h
  | reap i => exact inv_reap s i h
  | lose c => exact inv_lose s c h

theorem inv_reachable {cfg : Cfg} {s : State} (h : Reachable cfg s) : Inv s := by
  induction h with
  | init => exact inv_init
  | step e _ ih => exact inv_step cfg _ e ih

/-! ### quiescent states -/

theorem quiescent_iff (n : Nat) (s : State) :
    quiescent n (observe s) = true ↔
      (∀ k ∈ s.calls, (s.ops k.op).cancelled = true) ∧ (∀ c, c < n → ongoing (statusOf s c) = false) := by
  unfold quiescent observe
  simp only [Bool.and_eq_true, List.isEmpty_iff, List.map_eq_nil_iff, List.filter_eq_nil_iff, beq_iff_eq,
    List.length_eq_zero_iff, List.all_eq_true, List.mem_range, Bool.not_eq_eq_eq_not, Bool.not_true, alive,
    Bool.and_eq_true, Bool.not_eq_eq_eq_not, Bool.not_true, not_and, Bool.not_eq_false]
  constructor
  · rintro ⟨⟨h1, _⟩, h3⟩
    refine ⟨fun k hk => ?_, h3⟩
    have := h1 k hk
    cases hx : (s.ops k.op).cancelled <;> simp [hx] at this ⊢
  · rintro ⟨h1, h3⟩
    refine ⟨⟨fun k hk => by simp [h1 k hk], fun k hk _ => by simp [h1 k hk]⟩, h3⟩

theorem heldAs_eq (s : State) (c : Nat) (m : Mode) : heldAs s c m = ((s.daemon c).map (·.1) == some m) := by
  unfold heldAs
  cases s.daemon c with
  | none => rfl
  | some mt => obtain ⟨m', t⟩ := mt; simp

theorem matchOrError_of_quiescent {n : Nat} {s : State} (h : Inv s) (hq : quiescent n (observe s) = true)
    (c : Nat) (hc : c < n) : matchOrError (observe s) c = true := by
  rw [quiescent_iff] at hq
  obtain ⟨hcalls, hst⟩ := hq
  have hst := hst c hc
  unfold matchOrError daemonMatches daemonMode observe
  simp only []
  unfold statusOf at hst ⊢
  cases hcur : s.cur c with
  | none =>
    have hidle := h.idle c hcur
    unfold idleOk at hidle
    simp only [hcur] at hst ⊢
    cases hsh : s.shared c with
    | none => simp only [hsh] at hidle ⊢; simp [hidle]
    | some p =>
      simp only [hsh] at hidle ⊢
      cases hk : p.kind with
      | sharded => simp
      | remote =>
        rcases hidle hk with hd | hf
        · simp [hd]
        · simp [hf]
      | here =>
        simp only [heldAs_eq]
        cases ((s.daemon c).map (·.1) == some p.mode) <;> simp [isError]
  | some i =>
    simp only [hcur] at hst ⊢
    have hnd := h.curNotDone c i hcur
    cases ht : (s.ops i).typ with
    | pin =>
      cases hp : (s.ops i).phase <;> simp [opStatus, ht, hp, ongoing, isError] at hst hnd ⊢
    | unpin =>
      cases hp : (s.ops i).phase <;> simp [opStatus, ht, hp, ongoing, isError] at hst hnd ⊢
    | remote =>
      by_cases hp : (s.ops i).phase = .error
      · have hw := h.curTyp c i hcur
        have hf := h.remoteErr c i hcur ht hp
        rw [ht] at hw
        unfold wantTyp at hw
        cases hsh : s.shared c with
        | none => rw [hsh] at hw; cases hw
        | some p =>
          rw [hsh] at hw; simp only [] at hw ⊢
          cases hk : p.kind with
          | sharded => simp
          | remote => simp [hf]
          | here => rw [hk] at hw; cases hw
      · exfalso
        obtain ⟨k, hk, hki⟩ := h.remoteCall c i hcur ht hp
        have := hcalls k hk
        rw [hki] at this
        exact hp (h.curCancelled c i hcur this)

/-! ### a recover round with IPFS healthy -/

theorem heldAs_iff (s : State) (c : Nat) (m : Mode) : heldAs s c m = true ↔ ∃ t, s.daemon c = some (m, t) := by
  unfold heldAs
  cases s.daemon c with
  | none => simp
  | some mt => obtain ⟨m', t⟩ := mt; simp

structure Healed (s : State) (c : Nat) : Prop where
  idle : s.cur c = none → ∀ p, s.shared c = some p → p.kind = .here → ∃ t, s.daemon c = some (p.mode, t)
  noErr : ∀ i, s.cur c = some i → (s.ops i).typ = .remote ∨ (s.ops i).phase ≠ .error
  pinSpec : ∀ i, s.cur c = some i → (s.ops i).typ = .pin → s.shared c = some (s.ops i).pin
  pinEff : ∀ i, s.cur c = some i → (s.ops i).typ = .pin → ∀ k ∈ s.calls, k.op = i → k.eff = true →
    s.daemon c = some ((s.ops i).pin.mode, (s.ops i).pin.tag)

def PreHealed (s : State) (c : Nat) : Prop :=
  Healed s c ∨ s.cur c = none ∨ ∃ i, s.cur c = some i ∧ (s.ops i).phase = .error

theorem healed_effect {s : State} (h : Inv s) (i c : Nat) (hh : Healed s c) : Healed (effect s i) c := by
  unfold effect
  cases hf : findCall s i with
  | none => exact hh
  | some k =>
    obtain ⟨hk, hki⟩ := findCall_some hf
    simp only
    split_ifs with hg
    · exact hh
    · simp only [Bool.or_eq_true, not_or, Bool.not_eq_true] at hg
      have hcur := h.callCur k hk (by rw [hki]; exact hg.1)
      rw [hki] at hcur
      have hkind := h.callKind k hk
      rw [hki] at hkind
      have huniq : ∀ k' ∈ s.calls, k'.op = i → k' = k := fun k' hk' e => call_unique h.nodup hk' hk (by rw [e, hki])
      obtain ⟨g1, g2, g3, g4⟩ := hh
      change Healed { s with daemon := _, calls := s.calls.map (setEff i) } c
      constructor <;> simp only []
      · intro hc p hp hkp
        have hne : c ≠ (s.ops i).cid := by intro e; rw [e, hcur] at hc; cases hc
        cases hkk : k.kind <;> simp only [upd_apply, hne, if_false] <;> exact g1 hc p hp hkp
      · exact g2
      · exact g3
      · intro j hj ht k' hk' hk'j he
        obtain ⟨k0, hk0, rfl⟩ := List.mem_map.1 hk'
        rw [setEff_op] at hk'j
        rw [setEff_eff] at he
        by_cases e : c = (s.ops i).cid
        · have hji : j = i := by rw [e, hcur] at hj; exact (Option.some.inj hj).symm
          subst hji
          have hkp : k.kind = .pin := hkind.2 ht
          rw [hkp]; simp only [upd_apply, e, if_true]
        · have hne : k0.op ≠ i := by
            intro e2; rw [hk'j] at e2; subst e2
            exact e (h.curCid c j hj).symm
          simp only [hne, if_false] at he
          have := g4 j hj ht k0 hk0 hk'j he
          cases hkk : k.kind <;> simp only [upd_apply, e, if_false] <;> exact this

theorem healed_retOk {s : State} (h : Inv s) (i c : Nat) (hh : Healed s c) : Healed (retOk s i) c := by
  unfold retOk
  cases hf : findCall s i with
  | none => exact hh
  | some k =>
    obtain ⟨hk, hki⟩ := findCall_some hf
    simp only
    by_cases hg : ((s.ops i).cancelled || !k.eff) = true
    · rw [if_pos hg]; exact hh
    · rw [if_neg hg]
      have hl : (s.ops i).cancelled = false := by
        cases hx : (s.ops i).cancelled <;> simp [hx] at hg ⊢
      have he : k.eff = true := by
        cases hx : k.eff <;> simp [hx, hl] at hg ⊢
      have hcur : s.cur (s.ops i).cid = some i := by
        have := h.callCur k hk (by rw [hki]; exact hl)
        rw [hki] at this; exact this
      rw [if_pos hcur]
      have hw := h.curTyp _ _ hcur
      have hcid := h.curCid
      obtain ⟨g1, g2, g3, g4⟩ := hh
      constructor <;> simp only []
      · intro hc p hp hkp
        by_cases e : c = (s.ops i).cid
        · subst e
          rw [hp] at hw; unfold wantTyp at hw; simp only [hkp] at hw
          have hs := g3 i hcur hw
          rw [hp] at hs
          have := g4 i hcur hw k hk hki he
          rw [← Option.some.inj hs] at this
          exact ⟨_, this⟩
        · simp only [upd_apply, e, if_false] at hc
          exact g1 hc p hp hkp
      · intro j hj; simp only [upd_apply] at *; grind
      · intro j hj; simp only [upd_apply] at *; grind
      · intro j hj ht k' hk'; rw [mem_dropCall] at hk'; simp only [upd_apply] at *; grind

theorem healed_reap {s : State} (h : Inv s) (i c : Nat) (hh : Healed s c) : Healed (reap s i) c := by
  unfold reap
  cases hf : findCall s i with
  | none => exact hh
  | some k =>
    simp only
    split_ifs with hg
    · obtain ⟨g1, g2, g3, g4⟩ := hh
      constructor <;> simp only [] <;> try assumption
      intro j hj ht k' hk'; rw [mem_dropCall] at hk'; exact g4 j hj ht k' hk'.1
    · exact hh

theorem healed_startCall {s : State} (i c : Nat) (kind : CallKind) (hh : Healed s c)
    (hfresh : ∀ k ∈ s.calls, k.op ≠ i) : Healed (startCall s i kind) c := by
  unfold startCall
  split_ifs with hc
  · exact hh
  · obtain ⟨g1, g2, g3, g4⟩ := hh
    constructor <;> simp only []
    · exact g1
    · intro j hj; simp only [upd_apply] at *; grind
    · intro j hj; simp only [upd_apply] at *; grind
    · intro j hj ht k' hk'; simp only [upd_apply, List.mem_append, List.mem_singleton] at *; grind

theorem healed_deqPin {s : State} (cfg : Cfg) (h : Inv s) (c : Nat) (hh : Healed s c) : Healed (deqPin cfg s) c := by
  unfold deqPin
  split_ifs
  · cases hq : s.pinQ with
    | nil => exact hh
    | cons i rest =>
      simp only
      have hnd := h.nodup
      rw [hq] at hnd
      have hfresh : ∀ k ∈ s.calls, k.op ≠ i := by
        intro k hk e
        have hm : k.op ∈ s.calls.map (·.op) := List.mem_map.2 ⟨k, hk, rfl⟩
        rw [List.nodup_append] at hnd
        exact hnd.2.2 i (by simp) k.op hm e.symm
      have h' : Healed { s with pinQ := rest } c := ⟨hh.idle, hh.noErr, hh.pinSpec, hh.pinEff⟩
      exact healed_startCall (s := { s with pinQ := rest }) i c .pin h' hfresh
  · exact hh

theorem healed_deqUnpin {s : State} (h : Inv s) (c : Nat) (hh : Healed s c) : Healed (deqUnpin s) c := by
  unfold deqUnpin
  split_ifs
  · exact hh
  · cases hq : s.unpinQ with
    | nil => exact hh
    | cons i rest =>
      simp only
      have hnd := h.nodup
      rw [hq] at hnd
      have hfresh : ∀ k ∈ s.calls, k.op ≠ i := by
        intro k hk e
        have hm : k.op ∈ s.calls.map (·.op) := List.mem_map.2 ⟨k, hk, rfl⟩
        rw [List.nodup_append] at hnd
        exact hnd.2.2 i (by simp) k.op hm e.symm
      have h' : Healed { s with unpinQ := rest } c := ⟨hh.idle, hh.noErr, hh.pinSpec, hh.pinEff⟩
      exact healed_startCall (s := { s with unpinQ := rest }) i c .unpin h' hfresh

/-! start-like: nothing of this round has touched the cid yet -/
def StartLike (s : State) (c : Nat) : Prop := s.cur c = none ∨ ∃ i, s.cur c = some i ∧ (s.ops i).phase = .error

theorem startLike_effect {s : State} (i c : Nat) (hh : StartLike s c) : StartLike (effect s i) c := by
  unfold effect
  cases hf : findCall s i with
  | none => exact hh
  | some k => simp only; split_ifs <;> exact hh

theorem startLike_reap {s : State} (i c : Nat) (hh : StartLike s c) : StartLike (reap s i) c := by
  unfold reap
  cases hf : findCall s i with
  | none => exact hh
  | some k => simp only; split_ifs <;> exact hh

theorem startLike_retOk {s : State} (h : Inv s) (i c : Nat) (hh : StartLike s c) : StartLike (retOk s i) c := by
  unfold retOk
  cases hf : findCall s i with
  | none => exact hh
  | some k =>
    simp only
    by_cases hg : ((s.ops i).cancelled || !k.eff) = true
    · rw [if_pos hg]; exact hh
    · rw [if_neg hg]
      have hl : (s.ops i).cancelled = false := by
        cases hx : (s.ops i).cancelled <;> simp [hx] at hg ⊢
      have hec := h.errCancelled
      unfold StartLike at *
      simp only []
      split_ifs <;> simp only [upd_apply] <;> grind

theorem startLike_startCall {s : State} (h : ∀ i, (s.ops i).phase = .error → (s.ops i).cancelled = true)
    (i c : Nat) (kind : CallKind) (hh : StartLike s c) : StartLike (startCall s i kind) c := by
  unfold startCall
  split_ifs with hc
  · exact hh
  · unfold StartLike at *; simp only [upd_apply]; grind

theorem startLike_deqPin {s : State} (cfg : Cfg) (h : Inv s) (c : Nat) (hh : StartLike s c) : StartLike (deqPin cfg s) c := by
  unfold deqPin
  split_ifs
  · cases hq : s.pinQ with
    | nil => exact hh
    | cons i rest => exact startLike_startCall (s := { s with pinQ := rest }) h.errCancelled i c .pin hh
  · exact hh

theorem startLike_deqUnpin {s : State} (h : Inv s) (c : Nat) (hh : StartLike s c) : StartLike (deqUnpin s) c := by
  unfold deqUnpin
  split_ifs
  · exact hh
  · cases hq : s.unpinQ with
    | nil => exact hh
    | cons i rest => exact startLike_startCall (s := { s with unpinQ := rest }) h.errCancelled i c .unpin hh

/-! recover -/

theorem healed_replace_other {s : State} (h : Inv s) (c c' : Nat) (hne : c ≠ c') (o : Op) (pq uq : List Nat) (cl : List Call)
    (hcl : ∀ k ∈ cl, k.op = s.nextId) (hh : Healed s c) : Healed (replaceSt s c' o pq uq cl s.shared s.failed) c := by
  obtain ⟨g1, g2, g3, g4⟩ := hh
  have h1 := h.curLt
  have h6 := h.curCid
  have h4 := h.callLt
  unfold replaceSt
  constructor <;> simp only []
  · intro hc; simp only [upd_apply, hne, if_false] at hc; exact g1 hc
  · intro j hj; simp only [upd_apply, cancelCurOps_apply] at *; grind
  · intro j hj; simp only [upd_apply, cancelCurOps_apply] at *; grind
  · intro j hj ht k hk; simp only [upd_apply, cancelCurOps_apply, List.mem_append] at *; grind

theorem startLike_replace_other {s : State} (h : Inv s) (c c' : Nat) (hne : c ≠ c') (o : Op) (pq uq : List Nat) (cl : List Call)
    (hh : StartLike s c) : StartLike (replaceSt s c' o pq uq cl s.shared s.failed) c := by
  have h1 := h.curLt
  have h6 := h.curCid
  unfold replaceSt StartLike at *
  simp only [upd_apply, cancelCurOps_apply]
  grind

theorem healed_replace_self {s : State} (h : Inv s) (c : Nat) (p : PinSpec) (typ : OpType) (ht : typ ≠ .remote)
    (hp : typ = .pin → s.shared c = some p) (pq uq : List Nat) :
    Healed (replaceSt s c (newOpRec p typ .queued false) pq uq [] s.shared s.failed) c := by
  have h4 := h.callLt
  unfold replaceSt newOpRec
  constructor <;> simp only []
  · intro hc; simp [upd_apply] at hc
  · intro j hj; simp only [upd_apply, cancelCurOps_apply] at *; grind
  · intro j hj; simp only [upd_apply, cancelCurOps_apply] at *; grind
  · intro j hj ht k hk; simp only [upd_apply, cancelCurOps_apply, List.mem_append] at *; grind

theorem healed_enqueue_other {s : State} (cfg : Cfg) (h : Inv s) (c : Nat) (p : PinSpec) (typ : OpType) (ht : typ ≠ .remote)
    (hne : c ≠ p.cid) (hh : Healed s c) : Healed (enqueue cfg s p typ).1 c := by
  rcases enqueue_cases cfg s p typ ht with ⟨i, _, _, _, _, h5⟩ | h5 | h5
  · rw [h5]; exact hh
  · rw [h5]; exact healed_replace_other h c p.cid hne _ _ _ _ (by intro k hk; cases hk) hh
  · rw [h5]; exact healed_replace_other h c p.cid hne _ _ _ _ (by intro k hk; cases hk) hh

theorem startLike_enqueue_other {s : State} (cfg : Cfg) (h : Inv s) (c : Nat) (p : PinSpec) (typ : OpType) (ht : typ ≠ .remote)
    (hne : c ≠ p.cid) (hh : StartLike s c) : StartLike (enqueue cfg s p typ).1 c := by
  rcases enqueue_cases cfg s p typ ht with ⟨i, _, _, _, _, h5⟩ | h5 | h5
  · rw [h5]; exact hh
  · rw [h5]; exact startLike_replace_other h c p.cid hne _ _ _ _ hh
  · rw [h5]; exact startLike_replace_other h c p.cid hne _ _ _ _ hh

theorem healed_recover_other {s : State} (cfg : Cfg) (h : Inv s) (c c' : Nat) (hne : c ≠ c') (hh : Healed s c) :
    Healed (recover cfg s c').1 c := by
  unfold recover recoverWith
  cases hs : statusOf s c' <;> simp only [] <;> try exact hh
  · exact healed_enqueue_other cfg h c _ .pin (by intro e; cases e) (by rw [recPin_cid h]; exact hne) hh
  · exact healed_enqueue_other cfg h c _ .unpin (by intro e; cases e) hne hh
  · exact healed_enqueue_other cfg h c _ .pin (by intro e; cases e) (by rw [recPin_cid h]; exact hne) hh

theorem startLike_recover_other {s : State} (cfg : Cfg) (h : Inv s) (c c' : Nat) (hne : c ≠ c') (hh : StartLike s c) :
    StartLike (recover cfg s c').1 c := by
  unfold recover recoverWith
  cases hs : statusOf s c' <;> simp only [] <;> try exact hh
  · exact startLike_enqueue_other cfg h c _ .pin (by intro e; cases e) (by rw [recPin_cid h]; exact hne) hh
  · exact startLike_enqueue_other cfg h c _ .unpin (by intro e; cases e) hne hh
  · exact startLike_enqueue_other cfg h c _ .pin (by intro e; cases e) (by rw [recPin_cid h]; exact hne) hh

/-- the status of a start-like cid -/
theorem statusOf_cur {s : State} {c i : Nat} (hc : s.cur c = some i) : statusOf s c = opStatus (s.ops i) := by
  unfold statusOf; rw [hc]

theorem healed_recover_self {s : State} (cfg : Cfg) (h : Inv s) (c : Nat) (hh : Healed s c ∨ StartLike s c)
    (hnf : (recover cfg s c).2 ≠ .full) : Healed (recover cfg s c).1 c := by
  unfold recover recoverWith at *
  -- a status that triggers nothing
  have noact : (statusOf s c ≠ .pinError ∧ statusOf s c ≠ .unexpectedlyUnpinned ∧ statusOf s c ≠ .unpinError) → Healed s c := by
    intro hst
    rcases hh with hh | hh | ⟨i, hi, hp⟩
    · exact hh
    · refine ⟨?_, ?_, ?_, ?_⟩
      rotate_left
      · intro j hj; rw [hh] at hj; cases hj
      · intro j hj; rw [hh] at hj; cases hj
      · intro j hj; rw [hh] at hj; cases hj
      intro _ p hp hk
      have : statusOf s c = if heldAs s c p.mode then .pinned else .pinError := by
        unfold statusOf; rw [hh, hp]; simp only [hk]
      rw [this] at hst
      by_cases hx : heldAs s c p.mode = true
      · exact (heldAs_iff s c p.mode).1 hx
      · simp [hx] at hst
    · rw [statusOf_cur hi] at hst
      refine ⟨?_, ?_, ?_, ?_⟩
      · intro hn; rw [hn] at hi; cases hi
      · intro j hj; rw [hi] at hj; cases hj
        cases ht : (s.ops i).typ
        · simp [opStatus, ht, hp] at hst
        · simp [opStatus, ht, hp] at hst
        · exact Or.inl rfl
      · intro j hj ht; rw [hi] at hj; cases hj
        simp [opStatus, ht, hp] at hst
      · intro j hj ht; rw [hi] at hj; cases hj
        simp [opStatus, ht, hp] at hst
  have pinCase : (statusOf s c = .pinError ∨ statusOf s c = .unexpectedlyUnpinned) →
      (enqueue cfg s (recPin s c) .pin).2 ≠ .full →
      Healed (enqueue cfg s (recPin s c) .pin).1 c := by
    intro hs hnf
    have hw := statusOf_pinError h hs
    have hsh : s.shared c = some (recPin s c) := by
      unfold wantTyp at hw
      unfold recPin
      cases hx : s.shared c with
      | none => rw [hx] at hw; cases hw
      | some p => rfl
    have hcid := recPin_cid h c
    generalize (recPin s c) = q at *
    rcases enqueue_cases cfg s q .pin (by intro e; cases e) with ⟨i, h1, h2, h3, h4, h5⟩ | h5 | h5
    · exfalso
      rw [hcid] at h1
      rw [statusOf_cur h1] at hs
      cases hp : (s.ops i).phase <;> simp [opStatus, h2, hp] at hs h3 h4
    · rw [h5, hcid]
      exact healed_replace_self h c q .pin (by intro e; cases e) (fun _ => hsh) _ _
    · rw [h5] at hnf; exact absurd rfl hnf
  have unpinCase : statusOf s c = .unpinError →
      (enqueue cfg s (pinCid c) .unpin).2 ≠ .full → Healed (enqueue cfg s (pinCid c) .unpin).1 c := by
    intro hs hnf
    rcases enqueue_cases cfg s (pinCid c) .unpin (by intro e; cases e) with ⟨i, h1, h2, h3, h4, h5⟩ | h5 | h5
    · exfalso
      have h1' : s.cur c = some i := h1
      rw [statusOf_cur h1'] at hs
      cases hp : (s.ops i).phase <;> simp [opStatus, h2, hp] at hs h3 h4
    · rw [h5]
      exact healed_replace_self h c (pinCid c) .unpin (by intro e; cases e) (fun e => by cases e) _ _
    · rw [h5] at hnf; exact absurd rfl hnf
  cases hs : statusOf s c <;> simp only [hs] at hnf ⊢
  case pinError => exact pinCase (Or.inl hs) hnf
  case unexpectedlyUnpinned => exact pinCase (Or.inr hs) hnf
  case unpinError => exact unpinCase hs hnf
  all_goals exact noact (by simp [hs])

theorem healed_step {s : State} (cfg : Cfg) (h : Inv s) (e : Ev) (he : healthyEv e = true) (c : Nat) (hh : Healed s c)
    (hnf : (stepRet cfg s e).2 ≠ .full) : Healed (stepRet cfg s e).1 c := by
  cases e <;> simp only [healthyEv, Bool.false_eq_true] at he <;> simp only [stepRet] at hnf ⊢
  case recover c' =>
    by_cases e : c = c'
    · subst e; exact healed_recover_self cfg h c (Or.inl hh) hnf
    · exact healed_recover_other cfg h c c' e hh
  case deqPin => exact healed_deqPin cfg h c hh
  case deqUnpin => exact healed_deqUnpin h c hh
  case effect i => exact healed_effect h i c hh
  case retOk i => exact healed_retOk h i c hh
  case reap i => exact healed_reap h i c hh

theorem pre_step {s : State} (cfg : Cfg) (h : Inv s) (e : Ev) (he : healthyEv e = true) (c : Nat)
    (hh : Healed s c ∨ StartLike s c) (hnf : (stepRet cfg s e).2 ≠ .full) :
    Healed (stepRet cfg s e).1 c ∨ StartLike (stepRet cfg s e).1 c := by
  rcases hh with hh | hh
  · exact Or.inl (healed_step cfg h e he c hh hnf)
  · cases e <;> simp only [healthyEv, Bool.false_eq_true] at he <;> simp only [stepRet] at hnf ⊢
    case recover c' =>
      by_cases e : c = c'
      · subst e; exact Or.inl (healed_recover_self cfg h c (Or.inr hh) hnf)
      · exact Or.inr (startLike_recover_other cfg h c c' e hh)
    case deqPin => exact Or.inr (startLike_deqPin cfg h c hh)
    case deqUnpin => exact Or.inr (startLike_deqUnpin h c hh)
    case effect i => exact Or.inr (startLike_effect i c hh)
    case retOk i => exact Or.inr (startLike_retOk h i c hh)
    case reap i => exact Or.inr (startLike_reap i c hh)

theorem recover_step_heals {s : State} (cfg : Cfg) (h : Inv s) (c : Nat) (hh : Healed s c ∨ StartLike s c)
    (hnf : (stepRet cfg s (.recover c)).2 ≠ .full) : Healed (stepRet cfg s (.recover c)).1 c := by
  simp only [stepRet] at hnf ⊢
  exact healed_recover_self cfg h c hh hnf

theorem heal_run (cfg : Cfg) (n : Nat) : ∀ (es : List Ev) (s s' : State), Inv s →
    (∀ c, c < n → Healed s c ∨ StartLike s c) → (∀ e ∈ es, healthyEv e = true) → runOk cfg s es = some s' →
    Inv s' ∧ (∀ c, c < n → Healed s' c ∨ StartLike s' c) ∧
      (∀ c, c < n → (Healed s c ∨ Ev.recover c ∈ es) → Healed s' c) := by
  intro es
  induction es with
  | nil =>
    intro s s' h hp _ hrun
    simp only [runOk, Option.some.injEq] at hrun
    subst hrun
    refine ⟨h, hp, ?_⟩
    intro c _ hc
    rcases hc with hc | hc
    · exact hc
    · cases hc
  | cons e es ih =>
    intro s s' h hp hes hrun
    simp only [runOk] at hrun
    split_ifs at hrun with hf
    have he := hes e List.mem_cons_self
    have h1 : Inv (stepRet cfg s e).1 := inv_step cfg s e h
    have hp1 : ∀ c, c < n → Healed (stepRet cfg s e).1 c ∨ StartLike (stepRet cfg s e).1 c :=
      fun c hc => pre_step cfg h e he c (hp c hc) hf
    obtain ⟨g1, g2, g3⟩ := ih (stepRet cfg s e).1 s' h1 hp1 (fun e' he' => hes e' (List.mem_cons_of_mem _ he')) hrun
    refine ⟨g1, g2, ?_⟩
    intro c hc hcase
    apply g3 c hc
    rcases hcase with hh | hm
    · exact Or.inl (healed_step cfg h e he c hh hf)
    · rcases List.mem_cons.1 hm with e1 | e1
      · left; rw [← e1]; exact recover_step_heals cfg h c (hp c hc) (by rw [e1]; exact hf)
      · exact Or.inr e1

theorem startLike_of_quiescent {n : Nat} {s : State} (h : Inv s) (hq : quiescent n (observe s) = true) (c : Nat)
    (hc : c < n) : StartLike s c := by
  rw [quiescent_iff] at hq
  obtain ⟨hcalls, hst⟩ := hq
  have hst := hst c hc
  cases hcur : s.cur c with
  | none => exact Or.inl hcur
  | some i =>
    right
    refine ⟨i, hcur, ?_⟩
    rw [statusOf_cur hcur] at hst
    have hnd := h.curNotDone c i hcur
    cases ht : (s.ops i).typ with
    | pin => cases hp : (s.ops i).phase <;> simp [opStatus, ht, hp, ongoing] at hst hnd ⊢
    | unpin => cases hp : (s.ops i).phase <;> simp [opStatus, ht, hp, ongoing] at hst hnd ⊢
    | remote =>
      by_contra hp
      obtain ⟨k, hk, hki⟩ := h.remoteCall c i hcur ht hp
      have := hcalls k hk
      rw [hki] at this
      exact hp (h.curCancelled c i hcur this)

theorem matches_of_healed_quiescent {n : Nat} {s : State} (h : Inv s) (hq : quiescent n (observe s) = true) (c : Nat)
    (hc : c < n) (hh : Healed s c) : daemonMatches (observe s) c = true := by
  have hsl := startLike_of_quiescent h hq c hc
  unfold daemonMatches daemonMode observe
  simp only []
  rcases hsl with hcur | ⟨i, hcur, hp⟩
  · have hidle := h.idle c hcur
    unfold idleOk at hidle
    cases hsh : s.shared c with
    | none => simp only [hsh] at hidle ⊢; simp [hidle]
    | some p =>
      simp only [hsh] at hidle ⊢
      cases hk : p.kind with
      | sharded => simp
      | remote =>
        rcases hidle hk with hd | hf
        · simp [hd]
        · simp [hf]
      | here =>
        obtain ⟨t, ht⟩ := hh.idle hcur p hsh hk
        simp [ht]
  · have hne := hh.noErr i hcur
    have ht : (s.ops i).typ = .remote := by
      rcases hne with ht | hne
      · exact ht
      · exact absurd hp hne
    have hw := h.curTyp c i hcur
    have hf := h.remoteErr c i hcur ht hp
    rw [ht] at hw
    unfold wantTyp at hw
    cases hsh : s.shared c with
    | none => rw [hsh] at hw; cases hw
    | some p =>
      rw [hsh] at hw; simp only [] at hw ⊢
      cases hk : p.kind with
      | sharded => simp
      | remote => simp [hf]
      | here => rw [hk] at hw; cases hw


/-! ### an instruction that cannot be queued is reported -/

theorem enqueue_status (cfg : Cfg) (s : State) (p : PinSpec) (typ : OpType) (ht : typ ≠ .remote) :
    ∃ i, (enqueue cfg s p typ).1.cur p.cid = some i ∧ ((enqueue cfg s p typ).1.ops i).typ = typ ∧
      ((enqueue cfg s p typ).2 = .full → ((enqueue cfg s p typ).1.ops i).phase = .error) ∧
      ((enqueue cfg s p typ).2 = .nil → ((enqueue cfg s p typ).1.ops i).phase = .queued ∨
        ((enqueue cfg s p typ).1.ops i).phase = .inProgress) := by
  rcases enqueue_cases cfg s p typ ht with ⟨i, h1, h2, h3, h4, h5⟩ | h5 | h5
  · rw [h5]
    refine ⟨i, h1, h2, ?_, ?_⟩
    · intro e; cases e
    · intro _; cases hp : (s.ops i).phase <;> simp [hp] at h3 h4 ⊢
  · rw [h5]
    refine ⟨s.nextId, ?_, ?_, ?_, ?_⟩
    · simp [replaceSt]
    · simp [replaceSt, newOpRec]
    · intro e; cases e
    · intro _; simp [replaceSt, newOpRec]
  · rw [h5]
    refine ⟨s.nextId, ?_, ?_, ?_, ?_⟩
    · simp [replaceSt]
    · simp [replaceSt, newOpRec]
    · intro _; simp [replaceSt, newOpRec]
    · intro e; cases e

/-! ### no operation is lost (Q1 capacity, Q2) -/

/-- second part of the invariant (Q1 capacity, Q2): no live operation of the table is lost -/
structure Inv2 (cfg : Cfg) (s : State) : Prop where
  capPin : s.pinQ.length ≤ cfg.cap
  capUnpin : s.unpinQ.length ≤ cfg.cap
  queuedIn : ∀ c i, s.cur c = some i → (s.ops i).cancelled = false → (s.ops i).phase = .queued →
    i ∈ s.pinQ ∨ i ∈ s.unpinQ
  progIn : ∀ c i, s.cur c = some i → (s.ops i).cancelled = false → (s.ops i).phase = .inProgress →
    ∃ k ∈ s.calls, k.op = i

theorem inv2_init (cfg : Cfg) : Inv2 cfg init := by
  constructor <;> simp [init]

theorem inv2_lose (cfg : Cfg) (s : State) (c : Nat) (h : Inv2 cfg s) : Inv2 cfg (lose s c) := by
  obtain ⟨a, b, c', d⟩ := h
  exact ⟨a, b, c', d⟩

theorem inv2_effect (cfg : Cfg) (s : State) (i : Nat) (h : Inv2 cfg s) : Inv2 cfg (effect s i) := by
  unfold effect
  cases hf : findCall s i with
  | none => exact h
  | some k =>
    simp only
    split_ifs with hg
    · exact h
    · obtain ⟨a, b, c', d⟩ := h
      change Inv2 cfg { s with daemon := _, calls := s.calls.map (setEff i) }
      refine ⟨a, b, c', ?_⟩
      intro c j hc hl hp
      obtain ⟨k0, hk0, e0⟩ := d c j hc hl hp
      exact ⟨setEff i k0, List.mem_map.2 ⟨k0, hk0, rfl⟩, by rw [setEff_op]; exact e0⟩

theorem inv2_reap (cfg : Cfg) (s : State) (i : Nat) (h : Inv2 cfg s) : Inv2 cfg (reap s i) := by
  unfold reap
  cases hf : findCall s i with
  | none => exact h
  | some k =>
    simp only
    split_ifs with hg
    · obtain ⟨a, b, c', d⟩ := h
      refine ⟨a, b, c', ?_⟩
      intro c j hc hl hp
      obtain ⟨k0, hk0, e0⟩ := d c j hc hl hp
      refine ⟨k0, mem_dropCall.2 ⟨hk0, ?_⟩, e0⟩
      rw [e0]; intro e; subst e; simp only [] at hl; rw [hg] at hl; cases hl
    · exact h

theorem inv2_retOk (cfg : Cfg) (s : State) (i : Nat) (hi : Inv s) (h : Inv2 cfg s) : Inv2 cfg (retOk s i) := by
  unfold retOk
  cases hf : findCall s i with
  | none => exact h
  | some k =>
    obtain ⟨hk, hki⟩ := findCall_some hf
    simp only
    by_cases hg : ((s.ops i).cancelled || !k.eff) = true
    · rw [if_pos hg]; exact h
    · rw [if_neg hg]
      have hl : (s.ops i).cancelled = false := by
        cases hx : (s.ops i).cancelled <;> simp [hx] at hg ⊢
      have hcur : s.cur (s.ops i).cid = some i := by
        have := hi.callCur k hk (by rw [hki]; exact hl)
        rw [hki] at this; exact this
      rw [if_pos hcur]
      have h6 := hi.curCid
      obtain ⟨a, b, c', d⟩ := h
      refine ⟨a, b, ?_, ?_⟩
      · intro c j hc; simp only [upd_apply] at *; grind
      · intro c j hc hl' hp
        simp only [mem_dropCall]
        simp only [upd_apply] at hc hl' hp
        grind

theorem inv2_retErr (cfg : Cfg) (s : State) (i : Nat) (h : Inv2 cfg s) : Inv2 cfg (retErr s i) := by
  unfold retErr
  cases hf : findCall s i with
  | none => exact h
  | some k =>
    simp only
    by_cases hg : (s.ops i).cancelled = true
    · rw [if_pos hg]; exact h
    · rw [if_neg hg]
      obtain ⟨a, b, c', d⟩ := h
      refine ⟨a, b, ?_, ?_⟩
      · intro c j hc; simp only [upd_apply] at *; grind
      · intro c j hc hl' hp
        simp only [mem_dropCall]
        simp only [upd_apply] at hc hl' hp
        grind

theorem inv2_startPin (cfg : Cfg) (s : State) (hi : Inv s) (h : Inv2 cfg s) (i : Nat) (rest : List Nat) (hq : s.pinQ = i :: rest) :
    Inv2 cfg (startCall { s with pinQ := rest } i .pin) := by
  obtain ⟨a, b, c', d⟩ := h
  have hlen : rest.length ≤ cfg.cap := by rw [hq] at a; simp at a; omega
  have hnd := hi.nodup
  rw [hq] at hnd
  have hnotin : i ∉ rest ∧ i ∉ s.unpinQ := by
    simp only [List.cons_append, List.nodup_cons, List.mem_append] at hnd
    grind
  have hmem : ∀ j, j ∈ s.pinQ → j = i ∨ j ∈ rest := by intro j hj; rw [hq] at hj; simpa using hj
  unfold startCall
  simp only []
  split_ifs with hc
  · refine ⟨hlen, b, ?_, d⟩
    intro c j hcj hl hp
    rcases c' c j hcj hl hp with hm | hm
    · rcases hmem j hm with e | e
      · subst e; rw [hc] at hl; cases hl
      · exact Or.inl e
    · exact Or.inr hm
  · refine ⟨hlen, b, ?_, ?_⟩
    · intro c j hcj; simp only [upd_apply] at *; grind
    · intro c j hcj hl hp
      simp only [upd_apply, List.mem_append, List.mem_singleton] at *
      grind

theorem inv2_startUnpin (cfg : Cfg) (s : State) (hi : Inv s) (h : Inv2 cfg s) (i : Nat) (rest : List Nat) (hq : s.unpinQ = i :: rest) :
    Inv2 cfg (startCall { s with unpinQ := rest } i .unpin) := by
  obtain ⟨a, b, c', d⟩ := h
  have hlen : rest.length ≤ cfg.cap := by rw [hq] at b; simp at b; omega
  have hnd := hi.nodup
  rw [hq] at hnd
  have hnotin : i ∉ rest ∧ i ∉ s.pinQ := by
    simp only [List.nodup_append, List.nodup_cons, List.mem_append, List.mem_cons] at hnd
    grind
  have hmem : ∀ j, j ∈ s.unpinQ → j = i ∨ j ∈ rest := by intro j hj; rw [hq] at hj; simpa using hj
  unfold startCall
  simp only []
  split_ifs with hc
  · refine ⟨a, hlen, ?_, d⟩
    intro c j hcj hl hp
    rcases c' c j hcj hl hp with hm | hm
    · exact Or.inl hm
    · rcases hmem j hm with e | e
      · subst e; rw [hc] at hl; cases hl
      · exact Or.inr e
  · refine ⟨a, hlen, ?_, ?_⟩
    · intro c j hcj; simp only [upd_apply] at *; grind
    · intro c j hcj hl hp
      simp only [upd_apply, List.mem_append, List.mem_singleton] at *
      grind

theorem inv2_deqPin (cfg : Cfg) (s : State) (hi : Inv s) (h : Inv2 cfg s) : Inv2 cfg (deqPin cfg s) := by
  unfold deqPin
  split_ifs
  · cases hq : s.pinQ with
    | nil => exact h
    | cons i rest => exact inv2_startPin cfg s hi h i rest hq
  · exact h

theorem inv2_deqUnpin (cfg : Cfg) (s : State) (hi : Inv s) (h : Inv2 cfg s) : Inv2 cfg (deqUnpin s) := by
  unfold deqUnpin
  split_ifs
  · exact h
  · cases hq : s.unpinQ with
    | nil => exact h
    | cons i rest => exact inv2_startUnpin cfg s hi h i rest hq

theorem enqueue_cases2 (cfg : Cfg) (s : State) (p : PinSpec) (typ : OpType) (ht : typ ≠ .remote) :
    (∃ i, s.cur p.cid = some i ∧ (s.ops i).typ = typ ∧ (s.ops i).phase ≠ .error ∧ (s.ops i).phase ≠ .done ∧
        enqueue cfg s p typ = (s, .nil)) ∨
    (((typ = .pin → s.pinQ.length < cfg.cap) ∧ (typ = .unpin → s.unpinQ.length < cfg.cap)) ∧
      enqueue cfg s p typ =
        (replaceSt s p.cid (newOpRec p typ .queued false)
          (if typ = .pin then [s.nextId] else []) (if typ = .unpin then [s.nextId] else []) [] s.shared s.failed, .nil)) ∨
    enqueue cfg s p typ =
      (replaceSt s p.cid (newOpRec p typ .error true) [] [] [] s.shared s.failed, .full) := by
  unfold enqueue
  rcases trackNew_cases s p typ .queued with ⟨i, h1, h2, h3, h4, h5⟩ | h
  · left; exact ⟨i, h1, h2, h3, h4, by rw [h5]⟩
  · right
    rw [h]
    cases typ with
    | remote => exact absurd rfl ht
    | pin =>
      simp only [↓reduceIte, reduceCtorEq]
      by_cases hl : (replaceSt s p.cid (newOpRec p .pin .queued false) [] [] [] s.shared s.failed).pinQ.length < cfg.cap
      · left; rw [if_pos hl]
        refine ⟨⟨?_, ?_⟩, ?_⟩
        · intro _; simpa [replaceSt] using hl
        · intro e; cases e
        · simp [replaceSt]
      · right; rw [if_neg hl]; simp [replaceSt, failOp, upd_upd, newOpRec]
    | unpin =>
      simp only [↓reduceIte, reduceCtorEq]
      by_cases hl : (replaceSt s p.cid (newOpRec p .unpin .queued false) [] [] [] s.shared s.failed).unpinQ.length < cfg.cap
      · left; rw [if_pos hl]
        refine ⟨⟨?_, ?_⟩, ?_⟩
        · intro e; cases e
        · intro _; simpa [replaceSt] using hl
        · simp [replaceSt]
      · right; rw [if_neg hl]; simp [replaceSt, failOp, upd_upd, newOpRec]

theorem inv2_replace (cfg : Cfg) (s : State) (hi : Inv s) (h : Inv2 cfg s) (c : Nat) (o : Op) (pq uq : List Nat) (cl : List Call)
    (sh : Nat → Option PinSpec) (fl : Nat → Bool)
    (hlp : (s.pinQ ++ pq).length ≤ cfg.cap) (hlu : (s.unpinQ ++ uq).length ≤ cfg.cap)
    (hq : o.cancelled = false → o.phase = .queued → s.nextId ∈ pq ∨ s.nextId ∈ uq)
    (hp : o.cancelled = false → o.phase = .inProgress → ∃ k ∈ cl, k.op = s.nextId) :
    Inv2 cfg (replaceSt s c o pq uq cl sh fl) := by
  obtain ⟨a, b, c', d⟩ := h
  have h1 := hi.curLt
  have h6 := hi.curCid
  unfold replaceSt
  refine ⟨hlp, hlu, ?_, ?_⟩
  · intro x j hc; simp only [upd_apply, cancelCurOps_apply, List.mem_append] at *; grind
  · intro x j hc hl hp'
    simp only [upd_apply, cancelCurOps_apply, List.mem_append] at *
    grind

theorem inv2_setShared (cfg : Cfg) (s : State) (h : Inv2 cfg s) (sh : Nat → Option PinSpec) (fl : Nat → Bool) :
    Inv2 cfg { s with shared := sh, failed := fl } := by
  obtain ⟨a, b, c', d⟩ := h
  exact ⟨a, b, c', d⟩

theorem inv2_enqueue (cfg : Cfg) (s : State) (hi : Inv s) (h : Inv2 cfg s) (sh : Nat → Option PinSpec) (fl : Nat → Bool)
    (p : PinSpec) (typ : OpType) (ht : typ ≠ .remote) :
    Inv2 cfg (enqueue cfg { s with shared := sh, failed := fl } p typ).1 := by
  rcases enqueue_cases2 cfg { s with shared := sh, failed := fl } p typ ht with ⟨i, _, _, _, _, h5⟩ | ⟨hl, h5⟩ | h5
  · rw [h5]; exact inv2_setShared cfg s h sh fl
  · rw [h5]
    show Inv2 cfg (replaceSt s p.cid _ _ _ _ sh fl)
    simp only [] at hl
    apply inv2_replace cfg s hi h
    · cases typ <;> simp at ht ⊢
      · have := hl.1 rfl; omega
      · exact h.capPin
    · cases typ <;> simp at ht ⊢
      · exact h.capUnpin
      · have := hl.2 rfl; omega
    · intro _ _; cases typ <;> simp at ht ⊢
    · intro _ hp; simp [newOpRec] at hp
  · rw [h5]
    show Inv2 cfg (replaceSt s p.cid _ _ _ _ sh fl)
    apply inv2_replace cfg s hi h
    · simpa using h.capPin
    · simpa using h.capUnpin
    · intro hc; simp [newOpRec] at hc
    · intro hc; simp [newOpRec] at hc

theorem inv2_untrack (cfg : Cfg) (s : State) (c : Nat) (hi : Inv s) (h : Inv2 cfg s) : Inv2 cfg (untrack cfg s c).1 := by
  unfold untrack
  exact inv2_enqueue cfg s hi h _ _ _ _ (by intro e; cases e)

theorem inv2_recover (cfg : Cfg) (s : State) (c : Nat) (hi : Inv s) (h : Inv2 cfg s) : Inv2 cfg (recover cfg s c).1 := by
  unfold recover recoverWith
  cases hs : statusOf s c <;> simp only [] <;> try exact h
  · exact inv2_enqueue cfg s hi h s.shared s.failed _ _ (by intro e; cases e)
  · exact inv2_enqueue cfg s hi h s.shared s.failed _ _ (by intro e; cases e)
  · exact inv2_enqueue cfg s hi h s.shared s.failed _ _ (by intro e; cases e)

theorem inv2_track (cfg : Cfg) (s : State) (p : PinSpec) (hi : Inv s) (h : Inv2 cfg s) : Inv2 cfg (track cfg s p).1 := by
  unfold track
  cases hk : p.kind with
  | here => simp only [↓reduceIte]; exact inv2_enqueue cfg s hi h _ _ _ _ (by intro e; cases e)
  | sharded => simp only [reduceCtorEq, ↓reduceIte]; exact inv2_setShared cfg s h _ _
  | remote =>
    simp only [reduceCtorEq, ↓reduceIte]
    rcases trackNew_cases { s with shared := upd s.shared p.cid (some p), failed := s.failed } p .remote .inProgress
      with ⟨i, h1, h2, h3, h4, h5⟩ | h5
    · rw [h5]; exact inv2_setShared cfg s h _ _
    · rw [h5]
      simp only []
      have : ({ replaceSt { s with shared := upd s.shared p.cid (some p), failed := s.failed } p.cid
                  (newOpRec p .remote .inProgress false) [] [] [] (upd s.shared p.cid (some p)) s.failed with
                calls := (replaceSt { s with shared := upd s.shared p.cid (some p), failed := s.failed } p.cid
                  (newOpRec p .remote .inProgress false) [] [] [] (upd s.shared p.cid (some p)) s.failed).calls ++
                  [{ op := s.nextId, kind := .unpin, sync := true, eff := false }] } : State) =
          replaceSt s p.cid (newOpRec p .remote .inProgress false) [] [] [{ op := s.nextId, kind := .unpin, sync := true, eff := false }]
            (upd s.shared p.cid (some p)) s.failed := by
        simp [replaceSt, cancelCurOps]
      rw [this]
      apply inv2_replace cfg s hi h
      · simpa using h.capPin
      · simpa using h.capUnpin
      · intro _ hp; simp [newOpRec] at hp
      · intro _ _; exact ⟨_, List.mem_singleton.2 rfl, rfl⟩

theorem inv2_step (cfg : Cfg) (s : State) (e : Ev) (hi : Inv s) (h : Inv2 cfg s) : Inv2 cfg (step cfg s e) := by
  unfold step stepRet
  cases e with
  | track p => exact inv2_track cfg s p hi h
  | untrack c => exact inv2_untrack cfg s c hi h
  | recover c => exact inv2_recover cfg s c hi h
  | deqPin => exact inv2_deqPin cfg s hi h
  | deqUnpin => exact inv2_deqUnpin cfg s hi h
  | effect i => exact inv2_effect cfg s i h
  | retOk i => exact inv2_retOk cfg s i hi h
  | retErr i => exact inv2_retErr cfg s i h
  | reap i => exact inv2_reap cfg s i h
  | lose c => exact inv2_lose cfg s c h

theorem inv2_reachable {cfg : Cfg} {s : State} (h : Reachable cfg s) : Inv2 cfg s := by
  induction h with
  | init => exact inv2_init cfg
  | step e hr ih => exact inv2_step cfg _ e (inv_reachable hr) ih

/-- nothing in the channels, nothing at the daemon: then no table entry is queued or in progress, i.e. the
    state is observationally quiescent — no operation is ever lost -/
theorem idle_quiescent {cfg : Cfg} {s : State} (n : Nat) (hi : Inv s) (h : Inv2 cfg s)
    (hp : s.pinQ = []) (hu : s.unpinQ = []) (hc : s.calls = []) : quiescent n (observe s) = true := by
  rw [quiescent_iff]
  refine ⟨?_, ?_⟩
  · intro k hk; rw [hc] at hk; cases hk
  intro c _
  unfold statusOf
  cases hcur : s.cur c with
  | none =>
    simp only []
    cases hsh : s.shared c with
    | none => rfl
    | some p =>
      simp only []
      cases hk : p.kind <;> simp only [] <;> try rfl
      split_ifs <;> rfl
  | some i =>
    simp only []
    have hq := h.queuedIn c i hcur
    have hg := h.progIn c i hcur
    have hcc := hi.curCancelled c i hcur
    rw [hp, hu] at hq
    rw [hc] at hg
    cases ht : (s.ops i).typ <;> cases hph : (s.ops i).phase <;> simp [opStatus, ht, hph, ongoing] <;>
      cases hx : (s.ops i).cancelled <;> simp [hx, hph] at hq hg hcc

/-! ### activity quiesces: internal steps cannot go on forever -/

def callWeight (k : Call) : Nat := if k.eff then 1 else 2

def work (s : State) : Nat := 3 * (s.pinQ.length + s.unpinQ.length) + (s.calls.map callWeight).sum

def internalEv : Ev → Bool
  | .deqPin | .deqUnpin | .effect _ | .retOk _ | .retErr _ | .reap _ => true
  | _ => false

theorem sum_filter_lt {l : List Call} {i : Nat} {k : Call} (hk : k ∈ l) (hki : k.op = i) :
    ((l.filter (fun k => k.op != i)).map callWeight).sum < (l.map callWeight).sum := by
  have hle : ∀ l : List Call, ((l.filter (fun k => k.op != i)).map callWeight).sum ≤ (l.map callWeight).sum := by
    intro l
    induction l with
    | nil => simp
    | cons y ys ihy =>
      simp only [List.filter_cons]
      split_ifs <;> simp only [List.map_cons, List.sum_cons] <;> omega
  have hpos : ∀ y : Call, 1 ≤ callWeight y := by intro y; unfold callWeight; split_ifs <;> omega
  induction l with
  | nil => cases hk
  | cons x xs ih =>
    rcases List.mem_cons.1 hk with e | e
    · subst e
      simp only [List.filter_cons, hki, bne_self_eq_false, Bool.false_eq_true, if_false, List.map_cons, List.sum_cons]
      have := hle xs
      have := hpos k
      omega
    · have := ih e
      simp only [List.filter_cons]
      split_ifs <;> simp only [List.map_cons, List.sum_cons] <;> omega

theorem sum_dropCall_lt {s : State} {i : Nat} {k : Call} (hk : k ∈ s.calls) (hki : k.op = i) :
    ((dropCall s i).map callWeight).sum < (s.calls.map callWeight).sum := sum_filter_lt hk hki

theorem sum_setEff_lt {l : List Call} {i : Nat} {k : Call} (hk : k ∈ l) (hki : k.op = i) (he : k.eff = false) :
    ((l.map (setEff i)).map callWeight).sum < (l.map callWeight).sum := by
  have hle : ∀ y : Call, callWeight (setEff i y) ≤ callWeight y := by
    intro y; unfold callWeight setEff; split_ifs <;> simp_all
  induction l with
  | nil => cases hk
  | cons x xs ih =>
    have hles : ((xs.map (setEff i)).map callWeight).sum ≤ (xs.map callWeight).sum := by
      clear ih hk
      induction xs with
      | nil => simp
      | cons y ys ihy => simp only [List.map_cons, List.sum_cons]; have := hle y; omega
    simp only [List.map_cons, List.sum_cons]
    rcases List.mem_cons.1 hk with e | e
    · subst e
      have : callWeight (setEff i k) < callWeight k := by
        unfold callWeight setEff; simp [hki, he]
      omega
    · have := ih e
      have := hle x
      omega

/-- an internal step either does nothing (it is not enabled) or strictly decreases the outstanding work -/
theorem internal_step_decreases (cfg : Cfg) (s : State) (e : Ev) (he : internalEv e = true) :
    step cfg s e = s ∨ work (step cfg s e) < work s := by
  cases e <;> simp only [internalEv, Bool.false_eq_true] at he <;> simp only [step, stepRet]
  case deqPin =>
    unfold deqPin
    split_ifs
    · cases hq : s.pinQ with
      | nil => left; rfl
      | cons i rest =>
        right
        simp only [startCall]
        split_ifs <;> simp [work, hq, callWeight] <;> omega
    · left; rfl
  case deqUnpin =>
    unfold deqUnpin
    split_ifs
    · left; rfl
    · cases hq : s.unpinQ with
      | nil => left; rfl
      | cons i rest =>
        right
        simp only [startCall]
        split_ifs <;> simp [work, hq, callWeight] <;> omega
  case effect i =>
    unfold effect
    cases hf : findCall s i with
    | none => left; rfl
    | some k =>
      obtain ⟨hk, hki⟩ := findCall_some hf
      simp only
      split_ifs with hg
      · left; rfl
      · right
        simp only [Bool.or_eq_true, not_or, Bool.not_eq_true] at hg
        have := sum_setEff_lt hk hki hg.2
        change work { s with daemon := _, calls := s.calls.map (setEff i) } < work s
        simp only [work]
        omega
  case retOk i =>
    unfold retOk
    cases hf : findCall s i with
    | none => left; rfl
    | some k =>
      obtain ⟨hk, hki⟩ := findCall_some hf
      simp only
      split_ifs with hg
      · left; rfl
      · right; have := sum_dropCall_lt hk hki; simp only [work]; omega
      · right; have := sum_dropCall_lt hk hki; simp only [work]; omega
  case retErr i =>
    unfold retErr
    cases hf : findCall s i with
    | none => left; rfl
    | some k =>
      obtain ⟨hk, hki⟩ := findCall_some hf
      simp only
      by_cases hg : (s.ops i).cancelled = true
      · rw [if_pos hg]; left; rfl
      · rw [if_neg hg]; right; have := sum_dropCall_lt hk hki; simp only [work]; omega
  case reap i =>
    unfold reap
    cases hf : findCall s i with
    | none => left; rfl
    | some k =>
      obtain ⟨hk, hki⟩ := findCall_some hf
      simp only
      split_ifs with hg
      · right; have := sum_dropCall_lt hk hki; simp only [work]; omega
      · left; rfl

/-- no outstanding work = the channels are empty and nothing is parked -/
theorem work_zero {s : State} (h : work s = 0) : s.pinQ = [] ∧ s.unpinQ = [] ∧ s.calls = [] := by
  unfold work at h
  have h1 : s.pinQ.length = 0 := by omega
  have h2 : s.unpinQ.length = 0 := by omega
  refine ⟨List.length_eq_zero_iff.1 h1, List.length_eq_zero_iff.1 h2, ?_⟩
  cases hc : s.calls with
  | nil => rfl
  | cons k ks =>
    rw [hc] at h
    simp only [List.map_cons, List.sum_cons] at h
    have : 1 ≤ callWeight k := by unfold callWeight; split_ifs <;> omega
    omega

/-- while work is outstanding some internal step is enabled (a parked call can be answered or, cancelled, leaves;
    otherwise a free worker takes the head of a channel): with `internal_step_decreases`, the tracker reaches
    `work = 0` after at most `work s` enabled internal steps once instructions stop -/
theorem busy_can_step (cfg : Cfg) (s : State) (hw : 1 ≤ cfg.workers) (h : 0 < work s) :
    ∃ e, internalEv e = true ∧ work (step cfg s e) < work s := by
  cases hc : s.calls with
  | cons k ks =>
    have hf : findCall s k.op = some k := by simp [findCall, hc]
    have hk : k ∈ s.calls := by rw [hc]; exact List.mem_cons_self
    have hlt := sum_dropCall_lt hk rfl
    by_cases hg : (s.ops k.op).cancelled = true
    · refine ⟨.reap k.op, rfl, ?_⟩
      simp only [step, stepRet, reap, hf, hg, if_true, work]
      omega
    · refine ⟨.retErr k.op, rfl, ?_⟩
      simp only [step, stepRet, retErr, hf, hg, if_false, work]
      simp only [Bool.false_eq_true, if_false]
      omega
  | nil =>
    cases hp : s.pinQ with
    | cons i rest =>
      refine ⟨.deqPin, rfl, ?_⟩
      have hb : busyPin s < cfg.workers := by simp [busyPin, hc]; omega
      simp only [step, stepRet, deqPin, hb, if_true, hp, startCall]
      split_ifs <;> simp [work, hp, hc, callWeight] <;> omega
    | nil =>
      cases hu : s.unpinQ with
      | nil => simp [work, hc, hp, hu] at h
      | cons i rest =>
        refine ⟨.deqUnpin, rfl, ?_⟩
        have hb : busyUnpin s = false := by simp [busyUnpin, hc]
        simp only [step, stepRet, deqUnpin, hb, Bool.false_eq_true, if_false, hu, startCall]
        split_ifs <;> simp [work, hp, hu, hc, callWeight] <;> omega

/-! ### cancellation aborts the in-flight request -/

/-- a cancelled operation's call is inert: the daemon does not apply it, it cannot return nil or a daemon error -/
theorem dead_call_inert (s : State) (i : Nat) (hc : (s.ops i).cancelled = true) :
    effect s i = s ∧ retOk s i = s ∧ retErr s i = s := by
  refine ⟨?_, ?_, ?_⟩
  · unfold effect; cases findCall s i <;> simp [hc]
  · unfold retOk; cases findCall s i <;> simp [hc]
  · unfold retErr; cases findCall s i <;> simp [hc]

theorem replaceSt_keeps_cancelled (s : State) (c : Nat) (o : Op) (pq uq : List Nat) (cl : List Call)
    (sh : Nat → Option PinSpec) (fl : Nat → Bool) (i : Nat) (hi : i < s.nextId) (hc : (s.ops i).cancelled = true) :
    ((replaceSt s c o pq uq cl sh fl).ops i).cancelled = true ∧ i < (replaceSt s c o pq uq cl sh fl).nextId := by
  unfold replaceSt
  simp only [upd_apply, cancelCurOps_apply]
  have : i ≠ s.nextId := by omega
  simp only [this, if_false]
  refine ⟨?_, by omega⟩
  split_ifs <;> simp [hc]

theorem enqueue_keeps_cancelled (cfg : Cfg) (s : State) (p : PinSpec) (typ : OpType) (ht : typ ≠ .remote) (i : Nat)
    (hi : i < s.nextId) (hc : (s.ops i).cancelled = true) :
    (((enqueue cfg s p typ).1).ops i).cancelled = true ∧ i < ((enqueue cfg s p typ).1).nextId := by
  rcases enqueue_cases cfg s p typ ht with ⟨j, _, _, _, _, h5⟩ | h5 | h5
  · rw [h5]; exact ⟨hc, hi⟩
  · rw [h5]; exact replaceSt_keeps_cancelled s _ _ _ _ _ _ _ i hi hc
  · rw [h5]; exact replaceSt_keeps_cancelled s _ _ _ _ _ _ _ i hi hc

/-- cancellation is final: no step of the tracker revives a cancelled operation -/
theorem cancelled_stays (cfg : Cfg) (s : State) (e : Ev) (i : Nat) (hi : i < s.nextId)
    (hc : (s.ops i).cancelled = true) :
    ((step cfg s e).ops i).cancelled = true ∧ i < (step cfg s e).nextId := by
  unfold step stepRet
  cases e with
  | track p =>
    simp only [track]
    cases hk : p.kind with
    | here =>
      simp only [↓reduceIte]
      exact enqueue_keeps_cancelled cfg { s with shared := _, failed := _ } p .pin (by intro e; cases e) i hi hc
    | sharded => simp only [reduceCtorEq, ↓reduceIte]; exact ⟨hc, hi⟩
    | remote =>
      simp only [reduceCtorEq, ↓reduceIte]
      rcases trackNew_cases { s with shared := upd s.shared p.cid (some p), failed := s.failed } p .remote .inProgress
        with ⟨j, _, _, _, _, h5⟩ | h5
      · rw [h5]; exact ⟨hc, hi⟩
      · rw [h5]
        exact replaceSt_keeps_cancelled { s with shared := upd s.shared p.cid (some p), failed := s.failed } p.cid
          (newOpRec p .remote .inProgress false) [] [] [] (upd s.shared p.cid (some p)) s.failed i hi hc
  | untrack c =>
    simp only [untrack]
    exact enqueue_keeps_cancelled cfg { s with shared := _, failed := _ } (pinCid c) .unpin (by intro e; cases e) i hi hc
  | recover c =>
    simp only [recover, recoverWith]
    cases statusOf s c <;> simp only [] <;> first
      | exact ⟨hc, hi⟩
      | exact enqueue_keeps_cancelled cfg s _ _ (by intro e; cases e) i hi hc
  | deqPin =>
    simp only [deqPin]
    split_ifs
    · cases hq : s.pinQ with
      | nil => exact ⟨hc, hi⟩
      | cons j rest =>
        simp only [startCall]
        split_ifs with hj
        · exact ⟨hc, hi⟩
        · simp only [upd_apply]; refine ⟨?_, hi⟩; split_ifs with e
          · subst e; exact absurd hc hj
          · exact hc
    · exact ⟨hc, hi⟩
  | deqUnpin =>
    simp only [deqUnpin]
    split_ifs
    · exact ⟨hc, hi⟩
    · cases hq : s.unpinQ with
      | nil => exact ⟨hc, hi⟩
      | cons j rest =>
        simp only [startCall]
        split_ifs with hj
        · exact ⟨hc, hi⟩
        · simp only [upd_apply]; refine ⟨?_, hi⟩; split_ifs with e
          · subst e; exact absurd hc hj
          · exact hc
  | effect j =>
    simp only [effect]
    cases findCall s j <;> simp only [] <;> [exact ⟨hc, hi⟩; (split_ifs <;> exact ⟨hc, hi⟩)]
  | retOk j =>
    simp only [retOk]
    cases findCall s j with
    | none => exact ⟨hc, hi⟩
    | some k =>
      simp only []
      split_ifs
      all_goals first
        | exact ⟨hc, hi⟩
        | (refine ⟨?_, hi⟩; simp only [upd_apply]; split_ifs <;> simp [hc])
  | retErr j =>
    simp only [retErr]
    cases findCall s j with
    | none => exact ⟨hc, hi⟩
    | some k =>
      simp only []
      split_ifs
      all_goals first
        | exact ⟨hc, hi⟩
        | (refine ⟨?_, hi⟩; simp only [upd_apply]; split_ifs <;> simp [hc])
  | reap j =>
    simp only [reap]
    cases findCall s j <;> simp only [] <;> [exact ⟨hc, hi⟩; (split_ifs <;> exact ⟨hc, hi⟩)]
  | lose c => exact ⟨hc, hi⟩

theorem cancelled_stays_run (cfg : Cfg) : ∀ (es : List Ev) (s : State) (i : Nat), i < s.nextId →
    (s.ops i).cancelled = true → ((run cfg s es).ops i).cancelled = true := by
  intro es
  induction es with
  | nil => intro s i _ hc; exact hc
  | cons e es ih =>
    intro s i hi hc
    obtain ⟨h1, h2⟩ := cancelled_stays cfg s e i hi hc
    exact ih (step cfg s e) i h2 h1

/-- an instruction of another type for the cid cancels the table's operation (context cancelled) -/
theorem enqueue_cancels_other (cfg : Cfg) (s : State) (p : PinSpec) (typ : OpType) (ht : typ ≠ .remote) (i : Nat)
    (hcur : s.cur p.cid = some i) (hlt : i < s.nextId) (hty : (s.ops i).typ ≠ typ) :
    (((enqueue cfg s p typ).1).ops i).cancelled = true ∧ i < ((enqueue cfg s p typ).1).nextId := by
  have key : ∀ o pq uq, ((replaceSt s p.cid o pq uq [] s.shared s.failed).ops i).cancelled = true ∧
      i < (replaceSt s p.cid o pq uq [] s.shared s.failed).nextId := by
    intro o pq uq
    unfold replaceSt
    simp only [upd_apply, cancelCurOps_apply, hcur]
    have : i ≠ s.nextId := by omega
    simp [this]; omega
  rcases enqueue_cases cfg s p typ ht with ⟨j, h1, h2, _, _, _⟩ | h5 | h5
  · rw [hcur] at h1; cases h1; exact absurd h2 hty
  · rw [h5]; exact key _ _ _
  · rw [h5]; exact key _ _ _

theorem trackRemote_cancels_other (s : State) (p : PinSpec) (i : Nat) (hcur : s.cur p.cid = some i) (hlt : i < s.nextId)
    (hty : (s.ops i).typ ≠ .remote) :
    (((trackNew s p .remote .inProgress).1).ops i).cancelled = true ∧ i < ((trackNew s p .remote .inProgress).1).nextId := by
  rcases trackNew_cases s p .remote .inProgress with ⟨j, h1, h2, _, _, _⟩ | h5
  · rw [hcur] at h1; cases h1; exact absurd h2 hty
  · rw [h5]
    unfold replaceSt
    simp only [upd_apply, cancelCurOps_apply, hcur]
    have : i ≠ s.nextId := by omega
    simp [this]; omega

end CV.C05
