import ClusterVerif.Model.C14Damage
import ClusterVerif.Lemmas.C14Snaps

/-! # C14 — lemmas for damaged snapshots / equal (term, index) and for retention (round 8c). Core tactics only. -/
namespace CV.C14.Damage
open CV.C14.Snaps

theorem newer_cases (a b : Snap) : newer a b = true ∨ newer a b = false := by
  cases newer a b <;> simp

/-- what `List()[0]` is: a snapshot of the folder, none is strictly newer -/
theorem foldl_pickD_spec (l : List DSnap) (acc : Option DSnap) (m : DSnap) (h : l.foldl pickD acc = some m) :
    (m ∈ l ∨ acc = some m) ∧ (∀ x ∈ l, newer x.s m.s = false) ∧ (∀ a, acc = some a → newer a.s m.s = false) := by
  induction l generalizing acc with
  | nil =>
    simp only [List.foldl_nil] at h
    refine ⟨Or.inr h, by simp, ?_⟩
    intro a ha; rw [h] at ha; cases ha; exact newer_irrefl m.s
  | cons x t ih =>
    simp only [List.foldl_cons] at h
    cases acc with
    | none =>
      obtain ⟨hm, hall, hacc⟩ := ih _ h
      simp only [pickD] at hm hacc
      refine ⟨Or.inl ?_, ?_, by simp⟩
      · rcases hm with hm | hm
        · exact List.mem_cons_of_mem _ hm
        · cases hm; exact List.mem_cons_self ..
      · intro y hy
        rcases List.mem_cons.mp hy with rfl | hy
        · exact hacc _ rfl
        · exact hall y hy
    | some a =>
      rcases newer_cases a.s x.s with hn | hn
      · simp only [pickD, hn, if_true] at h
        obtain ⟨hm, hall, hacc⟩ := ih _ h
        have ham := hacc _ rfl
        refine ⟨?_, ?_, ?_⟩
        · rcases hm with hm | hm
          · exact Or.inl (List.mem_cons_of_mem _ hm)
          · exact Or.inr hm
        · intro y hy
          rcases List.mem_cons.mp hy with rfl | hy
          · rw [newer_iff] at hn; rw [newer_false_iff] at ham ⊢; omega
          · exact hall y hy
        · intro a' ha'; cases ha'; exact ham
      · simp only [pickD, hn, Bool.false_eq_true, if_false] at h
        obtain ⟨hm, hall, hacc⟩ := ih _ h
        have hxm := hacc _ rfl
        refine ⟨Or.inl ?_, ?_, ?_⟩
        · rcases hm with hm | hm
          · exact List.mem_cons_of_mem _ hm
          · cases hm; exact List.mem_cons_self ..
        · intro y hy
          rcases List.mem_cons.mp hy with rfl | hy
          · exact hxm
          · exact hall y hy
        · intro a' ha'; cases ha'
          rw [newer_false_iff] at hn hxm ⊢; omega

theorem newestD_spec (l : List DSnap) (m : DSnap) (h : newestD l = some m) : m ∈ l ∧ ∀ x ∈ l, newer x.s m.s = false := by
  obtain ⟨hm, hall, _⟩ := foldl_pickD_spec l none m h
  refine ⟨?_, hall⟩
  rcases hm with hm | hm
  · exact hm
  · cases hm

/-- a snapshot created last with a key no other exceeds (a tie included) is the one listed first -/
theorem newestD_append_tie (l : List DSnap) (x : DSnap) (h : ∀ y ∈ l, newer y.s x.s = false) :
    newestD (l ++ [x]) = some x := by
  unfold newestD
  rw [List.foldl_append]
  cases hl : l.foldl pickD none with
  | none => simp [pickD]
  | some a =>
    have ha := (newestD_spec l a hl).1
    simp [pickD, h a ha]

/-! retention -/

theorem sortedInsert_length (s : Snap) (l : List Snap) : (sortedInsert s l).length = l.length + 1 := by
  induction l with
  | nil => rfl
  | cons a t ih =>
    simp only [sortedInsert]
    rcases newer_cases s a with hn | hn
    · simp [hn]
    · simp [hn, ih]

theorem sortDesc_length (l : List Snap) : (sortDesc l).length = l.length := by
  induction l with
  | nil => rfl
  | cons a t ih => simp [sortDesc, List.foldr_cons, sortedInsert_length] at ih ⊢; exact ih

theorem mem_sortedInsert (s x : Snap) (l : List Snap) : x ∈ sortedInsert s l ↔ x = s ∨ x ∈ l := by
  induction l with
  | nil => simp [sortedInsert]
  | cons a t ih =>
    simp only [sortedInsert]
    rcases newer_cases s a with hn | hn
    · simp [hn]
    · simp only [hn, Bool.false_eq_true, if_false, List.mem_cons, ih]
      constructor
      · rintro (h | h | h) <;> simp [h]
      · rintro (h | h | h) <;> simp [h]

theorem mem_sortDesc (x : Snap) (l : List Snap) : x ∈ sortDesc l ↔ x ∈ l := by
  induction l with
  | nil => simp [sortDesc]
  | cons a t ih =>
    have : sortDesc (a :: t) = sortedInsert a (sortDesc t) := rfl
    rw [this, mem_sortedInsert, ih]; simp

/-- every element of a sorted-insert result after the head is not newer than the head -/
def HeadMax : List Snap → Prop
  | [] => True
  | a :: t => ∀ x ∈ t, newer x a = false

theorem headMax_sortedInsert (s : Snap) (l : List Snap) (h : HeadMax l) : HeadMax (sortedInsert s l) := by
  cases l with
  | nil => simp [sortedInsert, HeadMax]
  | cons a t =>
    simp only [sortedInsert]
    rcases newer_cases s a with hn | hn
    · simp only [hn, if_true, HeadMax]
      intro x hx
      rcases List.mem_cons.mp hx with rfl | hx
      · rw [newer_iff] at hn; rw [newer_false_iff]; omega
      · have := h x hx
        rw [newer_iff] at hn; rw [newer_false_iff] at this ⊢; omega
    · simp only [hn, Bool.false_eq_true, if_false, HeadMax]
      intro x hx
      rcases (mem_sortedInsert s x t).mp hx with rfl | hx
      · exact hn
      · exact h x hx

theorem headMax_sortDesc (l : List Snap) : HeadMax (sortDesc l) := by
  induction l with
  | nil => simp [sortDesc, HeadMax]
  | cons a t ih =>
    have : sortDesc (a :: t) = sortedInsert a (sortDesc t) := rfl
    rw [this]; exact headMax_sortedInsert a _ ih

end CV.C14.Damage
