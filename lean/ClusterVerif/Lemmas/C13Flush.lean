import ClusterVerif.Model.C13Flow

/-!
# C13: the interpreted `(*shard).Flush` program, statement by statement

`flushF Gen.shardFlush Gen.shardSize` is evaluated in four segments (up to `AddMany`, up to the depth guard, the guarded
`MaxDepth` assignment, the pin call), each segment closed by `rfl` on an explicit state; the case splits are the outcome
of `putMany`, whether a previous shard exists, the depth guard and the outcome of `pinCall`.
-/

namespace CV.C13.Flow
open CV CV.C13

/-- the pin `Flush` has built when it reaches `return`, the depth guard's value being `g` -/
def specPin (c : Cfg) (o : ShObj) (i : FlIn) (ns : List Node) (g : Bool) : Pin :=
  { cid := rootOf ns, type := .shardT,
    opts := { workOpts c with name := shardName (workOpts c).name i.shardN, shard := o.currentSize },
    depth := if g then Gen.depthIndirect else Gen.depthDirect,
    allocs := i.allocs, ref := i.prev }

/-- what the `Flush` program computes, for any shard object -/
def flushSpec (c : Cfg) (e : Env) (dests : List Nat) (o : ShObj) (i : FlIn) : Env × List Nat × Status :=
  match putMany c e dests (makeDAG e.named (o.dagNode.map (·.2))) with
  | (e1, d1, false) => (e1, d1, .fail)
  | (e1, d1, true) =>
    match pinCall c e1 (specPin c o i (makeDAG e.named (o.dagNode.map (·.2)))
        (indirectGuard (makeDAG e.named (o.dagNode.map (·.2))).length o.dagNode.length)) with
    | (e2, false) => (e2, d1, .fail)
    | (e2, true) => (e2, d1, .ok)

/-- the outcome read off the final interpreter state -/
def flFin (a : FlSt) : Option (Env × List Nat × Status) :=
  match a.ret with
  | some .panic => none
  | some st => some (a.env, a.dests, st)
  | none => none

theorem flushF_eq_fin (ops sizeOps : List ShOp) (c : Cfg) (e : Env) (dests : List Nat) (o : ShObj) (i : FlIn) :
    flushF ops sizeOps c e dests o i =
      flFin (ops.foldl (flStep sizeOps c o i) ⟨e, dests, none, false, none, none, false, none, none⟩) := rfl

theorem shardFlush_split :
    Gen.shardFlush = [.makeDAG, .retIfErr, .putNodes] ++
      ([.retIfErr, .rootIsFirstNode, .mkPin, .pinName] ++ ([.pinAllocsShard, .pinTypeShard, .ifPrevDefined, .pinRefPrev] ++
        ([.endIf, .depthLit, .pinShardSizeIsSize, .ifDepthGuard] ++ ([.depthLit, .endIf] ++ [.retPin])))) := rfl

/-- the `return pin(...)` statement on a state that has a draft pin -/
theorem flStep_retPin (sizeOps : List ShOp) (c : Cfg) (o : ShObj) (i : FlIn) (env : Env) (dests : List Nat)
    (nodes : Option (List Node)) (err : Bool) (root : Option Nat) (p : Pin) :
    flFin (flStep sizeOps c o i ⟨env, dests, nodes, err, root, some p, false, none, none⟩ .retPin) =
      some (match pinCall c env p with
        | (e2, false) => (e2, dests, .fail)
        | (e2, true) => (e2, dests, .ok)) := by
  have h : flStep sizeOps c o i ⟨env, dests, nodes, err, root, some p, false, none, none⟩ .retPin =
      (match pinCall c env p with
        | (e, true) => ⟨e, dests, nodes, err, root, some p, false, none, some .ok⟩
        | (e, false) => ⟨e, dests, nodes, err, root, some p, false, none, some .fail⟩) := rfl
  rw [h]
  generalize pinCall c env p = x
  rcases x with ⟨e2, b⟩
  cases b <;> rfl

set_option maxHeartbeats 1600000 in
/-- **the regenerated `Flush` program computes `flushSpec`**, for every shard object and every input -/
theorem flushF_code (c : Cfg) (e : Env) (dests : List Nat) (o : ShObj) (i : FlIn) :
    flushF Gen.shardFlush Gen.shardSize c e dests o i = some (flushSpec c e dests o i) := by
  rcases i with ⟨al, n, prev⟩
  rw [flushF_eq_fin, shardFlush_split, List.foldl_append, List.foldl_append, List.foldl_append,
    List.foldl_append, List.foldl_append]
  unfold flushSpec
  show flFin (List.foldl _ (List.foldl _ (List.foldl _ (List.foldl _ (List.foldl _
    ⟨(putMany c e dests (makeDAG e.named (o.dagNode.map (·.2)))).1,
     (putMany c e dests (makeDAG e.named (o.dagNode.map (·.2)))).2.1,
     some (makeDAG e.named (o.dagNode.map (·.2))),
     !(putMany c e dests (makeDAG e.named (o.dagNode.map (·.2)))).2.2,
     none, none, false, none, none⟩ _) _) _) _) _) = _
  generalize putMany c e dests (makeDAG e.named (o.dagNode.map (·.2))) = pm
  rcases pm with ⟨e1, d1, ok⟩
  cases ok
  · rfl
  · cases prev with
    | none =>
      show flFin (List.foldl _ (List.foldl _ (List.foldl _ (List.foldl _
        ⟨e1, d1, some (makeDAG e.named (o.dagNode.map (·.2))), false, some (rootOf (makeDAG e.named (o.dagNode.map (·.2)))),
         some { pinWithOpts (rootOf (makeDAG e.named (o.dagNode.map (·.2)))) (workOpts c) with
           opts := { workOpts c with name := shardName (workOpts c).name n } },
         false, none, none⟩ _) _) _) _) = _
      show flFin (List.foldl _ (List.foldl _ (List.foldl _
        ⟨e1, d1, some (makeDAG e.named (o.dagNode.map (·.2))), false, some (rootOf (makeDAG e.named (o.dagNode.map (·.2)))),
         some { specPin c o ⟨al, n, none⟩ (makeDAG e.named (o.dagNode.map (·.2))) false with
           opts := { workOpts c with name := shardName (workOpts c).name n },
           depth := (pinWithOpts (rootOf (makeDAG e.named (o.dagNode.map (·.2)))) (workOpts c)).depth },
         true, some false, none⟩ _) _) _) = _
      show flFin (List.foldl _ (List.foldl _
        ⟨e1, d1, some (makeDAG e.named (o.dagNode.map (·.2))), false, some (rootOf (makeDAG e.named (o.dagNode.map (·.2)))),
         some (specPin c o ⟨al, n, none⟩ (makeDAG e.named (o.dagNode.map (·.2))) false),
         !indirectGuard (makeDAG e.named (o.dagNode.map (·.2))).length o.dagNode.length, some true, none⟩ _) _) = _
      generalize indirectGuard (makeDAG e.named (o.dagNode.map (·.2))).length o.dagNode.length = g
      cases g
      · show flFin (List.foldl _
          ⟨e1, d1, some (makeDAG e.named (o.dagNode.map (·.2))), false, some (rootOf (makeDAG e.named (o.dagNode.map (·.2)))),
           some (specPin c o ⟨al, n, none⟩ (makeDAG e.named (o.dagNode.map (·.2))) false), false, none, none⟩ _) = _
        exact flStep_retPin Gen.shardSize c o ⟨al, n, none⟩ e1 d1 _ false _ (specPin c o ⟨al, n, none⟩ (makeDAG e.named (o.dagNode.map (·.2))) false)
      · show flFin (List.foldl _
          ⟨e1, d1, some (makeDAG e.named (o.dagNode.map (·.2))), false, some (rootOf (makeDAG e.named (o.dagNode.map (·.2)))),
           some (specPin c o ⟨al, n, none⟩ (makeDAG e.named (o.dagNode.map (·.2))) true), false, none, none⟩ _) = _
        exact flStep_retPin Gen.shardSize c o ⟨al, n, none⟩ e1 d1 _ false _ (specPin c o ⟨al, n, none⟩ (makeDAG e.named (o.dagNode.map (·.2))) true)
    | some v =>
      show flFin (List.foldl _ (List.foldl _ (List.foldl _ (List.foldl _
        ⟨e1, d1, some (makeDAG e.named (o.dagNode.map (·.2))), false, some (rootOf (makeDAG e.named (o.dagNode.map (·.2)))),
         some { pinWithOpts (rootOf (makeDAG e.named (o.dagNode.map (·.2)))) (workOpts c) with
           opts := { workOpts c with name := shardName (workOpts c).name n } },
         false, none, none⟩ _) _) _) _) = _
      show flFin (List.foldl _ (List.foldl _ (List.foldl _
        ⟨e1, d1, some (makeDAG e.named (o.dagNode.map (·.2))), false, some (rootOf (makeDAG e.named (o.dagNode.map (·.2)))),
         some { specPin c o ⟨al, n, (some v)⟩ (makeDAG e.named (o.dagNode.map (·.2))) false with
           opts := { workOpts c with name := shardName (workOpts c).name n },
           depth := (pinWithOpts (rootOf (makeDAG e.named (o.dagNode.map (·.2)))) (workOpts c)).depth },
         false, some false, none⟩ _) _) _) = _
      show flFin (List.foldl _ (List.foldl _
        ⟨e1, d1, some (makeDAG e.named (o.dagNode.map (·.2))), false, some (rootOf (makeDAG e.named (o.dagNode.map (·.2)))),
         some (specPin c o ⟨al, n, (some v)⟩ (makeDAG e.named (o.dagNode.map (·.2))) false),
         !indirectGuard (makeDAG e.named (o.dagNode.map (·.2))).length o.dagNode.length, some true, none⟩ _) _) = _
      generalize indirectGuard (makeDAG e.named (o.dagNode.map (·.2))).length o.dagNode.length = g
      cases g
      · show flFin (List.foldl _
          ⟨e1, d1, some (makeDAG e.named (o.dagNode.map (·.2))), false, some (rootOf (makeDAG e.named (o.dagNode.map (·.2)))),
           some (specPin c o ⟨al, n, (some v)⟩ (makeDAG e.named (o.dagNode.map (·.2))) false), false, none, none⟩ _) = _
        exact flStep_retPin Gen.shardSize c o ⟨al, n, (some v)⟩ e1 d1 _ false _ (specPin c o ⟨al, n, (some v)⟩ (makeDAG e.named (o.dagNode.map (·.2))) false)
      · show flFin (List.foldl _
          ⟨e1, d1, some (makeDAG e.named (o.dagNode.map (·.2))), false, some (rootOf (makeDAG e.named (o.dagNode.map (·.2)))),
           some (specPin c o ⟨al, n, (some v)⟩ (makeDAG e.named (o.dagNode.map (·.2))) true), false, none, none⟩ _) = _
        exact flStep_retPin Gen.shardSize c o ⟨al, n, (some v)⟩ e1 d1 _ false _ (specPin c o ⟨al, n, (some v)⟩ (makeDAG e.named (o.dagNode.map (·.2))) true)

end CV.C13.Flow
